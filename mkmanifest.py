#!/usr/bin/env python3
"""Regenerates MANIFEST.json from checks.json (single source of truth for per-check settings)."""
import json, os
V = os.path.dirname(os.path.abspath(__file__))
import glob
checks = {}
for _p in sorted(glob.glob(os.path.join(V, "harness", "*", "check.json"))):
    _e = json.load(open(_p))
    if _e["id"] in json.load(open(os.path.join(V, "ready.json"))):
        checks[_e["id"]] = _e
props = [json.loads(l)["id"] for l in open(os.path.join(V, "properties.jsonl")) if l.strip()]
na_reasons = json.load(open(os.path.join(V, "not_applicable.json"))) if os.path.exists(os.path.join(V, "not_applicable.json")) else {}
m = {
 "version": 1,
 "setup_cmd": "./check setup",
 "hooks": {
  "guard": "verif",
  "enable": "go build tag: checks build /repo with `-tags verif` (go1.26.8, GOFLAGS=-mod=mod GOPROXY=off GOSUMDB=off GOTOOLCHAIN=local) through the harness module's replace directive",
  "baseline_off_cmd": "cd /repo && GOFLAGS=-mod=mod GOPROXY=off go test -json -vet=off -count=1 -timeout 25m ./...",
  "source_commits": json.load(open(os.path.join(V, "hook_commits.json"))) if os.path.exists(os.path.join(V, "hook_commits.json")) else [],
  "add_only": True,
 },
 "engines": [{
  "name": "vf", "path": "harness/vf + check",
  "serves_properties": [p for p in props if p in checks],
  "kind_free_text": "runtime monitoring: real library code driven by seeded hostile workloads in child processes (virtual-time synctest bubbles, race detector, boundary gates); independent executable oracles over the recorded events; porcupine for linearizability cross-checks",
 }],
 "checks": [],
 "notes": "Every check rebuilds its test binary from /repo's working tree (VERIF_REPO overrides the tree) on each invocation. Known findings: known_findings.json. See DESIGN.md.",
 "not_applicable": [],
}
for p in props:
    if p in checks:
        c = checks[p]
        m["checks"].append({
         "property_id": p,
         "quick_cmd": "./check %s quick" % p,
         "thorough_cmd": "./check %s thorough" % p,
         "evidence_file": "evidence/%s.json" % p,
         "replay_cmd_template": "./check %s --replay {path}" % p,
         "engine": "vf",
         "level_claimed": {"category": c.get("level", "exploration"), "text": c.get("level_text", ""), "design_ref": "DESIGN.md §3 " + p},
         "level_note": c.get("level_note", "; ".join(c.get("assumptions", []))),
         "technique": c.get("technique", "runtime monitoring"),
        })
    else:
        m["not_applicable"].append({"property_id": p, "reason": na_reasons.get(p, "check not built yet in this round (planned: see DESIGN.md §3); not claimed")})
json.dump(m, open(os.path.join(V, "MANIFEST.json"), "w"), indent=1)
print("MANIFEST.json: %d checks, %d not_applicable" % (len(m["checks"]), len(m["not_applicable"])))
