// C11 – lifecycle: Close and Unbind stop activity and never strand a caller.
//
// Monitor: for every interceptor kind, lifecycle sequences over the alphabet
//
//	W  BindRTCPWriter (at most once)     R  BindRTCPReader
//	L0 L1 BindLocalStream(s)             M0 M1 BindRemoteStream(s)
//	l0 UnbindLocalStream(0)              m0 UnbindRemoteStream(0)
//	T  traffic on everything bound       A  advance virtual time by 2 intervals
//	C  Close                             H  Close while a downstream write / the dump stream is held
//	X  Close while a NACK-triggered retransmission is held in the next writer
//	Y  UnbindLocalStream(0) while a NACK-triggered retransmission is held
//
// are run inside a virtual-time bubble: ALL sequences up to length 3 (quick) / 4
// (thorough) plus sampled longer ones. Every library call runs on a watched goroutine.
// Observed: calls still blocked after quiescence + 1 virtual hour, panics, downstream
// writes stamped after Close returned, goroutines alive after Close, RTCP about an SSRC
// after its Unbind returned, state surviving Unbind -> Bind.
package c11

import (
	"bytes"
	"fmt"
	"strings"
	"sync"
	"testing"
	"testing/synctest"
	"time"

	"github.com/pion/interceptor"
	"github.com/pion/rtcp"
	"github.com/pion/rtp"

	"github.com/pion/interceptor/verif/gen"
	"github.com/pion/interceptor/verif/obs"
	"github.com/pion/interceptor/verif/rig"
	"github.com/pion/interceptor/verif/vf"
	"github.com/pion/interceptor/verif/zoo"
)

var alphabet = []string{"W", "R", "L0", "L1", "M0", "M1", "T", "l0", "m0", "C", "A", "X", "Y"}

const interval = 20 * time.Millisecond

// appRTCPSender marks RTCP written by the application itself (passes through, also after Close).
const appRTCPSender = 0xA99

func nExhaustive(maxLen int) int {
	n, p := 0, 1
	for l := 1; l <= maxLen; l++ {
		p *= len(alphabet)
		n += p
	}
	return n
}

func tierParams(tier string) (maxLen, sampled int) {
	if tier == "thorough" {
		return 4, 3000
	}
	return 3, 150
}

// prelude puts the interceptor into the fully bound, running state before the sequence proper.
var prelude = []string{"W", "R", "L0", "M0", "T"}

func cases(tier string) int {
	maxLen, sampled := tierParams(tier)
	return len(zoo.All) * (2*nExhaustive(maxLen) + sampled)
}

func TestCheck(t *testing.T) {
	vf.Main(t, vf.Spec{Prop: "C11", Cases: cases, Run: run})
}

// sequenceFor decodes case index -> (kind, sequence).
func sequenceFor(c *vf.Case) (zoo.Kind, []string) {
	maxLen, _ := tierParams(c.Tier)
	kind := zoo.All[c.Idx%len(zoo.All)]
	k := c.Idx / len(zoo.All)
	nEx := nExhaustive(maxLen)
	withPrelude := false
	if k >= nEx && k < 2*nEx {
		k -= nEx
		withPrelude = true
	} else if k >= 2*nEx {
		k = nEx // sampled (below)
	}
	if k < nEx {
		p := 1
		for l := 1; l <= maxLen; l++ {
			p *= len(alphabet)
			if k < p {
				seq := make([]string, l)
				for i := l - 1; i >= 0; i-- {
					seq[i] = alphabet[k%len(alphabet)]
					k /= len(alphabet)
				}
				if withPrelude {
					seq = append(append([]string{}, prelude...), seq...)
				}
				return kind, seq
			}
			k -= p
		}
	}
	// sampled longer sequence, biased to start with binds
	r := c.R
	n := r.Range(5, 12)
	seq := make([]string, 0, n)
	ext := append(append([]string{}, alphabet...), "H", "T", "T", "A")
	for i := 0; i < n; i++ {
		if i < 3 && r.Chance(0.6) {
			seq = append(seq, []string{"W", "R", "L0", "M0", "L1", "M1"}[r.Intn(6)])
			continue
		}
		seq = append(seq, ext[r.Intn(len(ext))])
	}
	return kind, seq
}

type stream struct {
	idx    int
	local  bool
	opts   zoo.StreamOpts
	info   *interceptor.StreamInfo
	gate   *obs.RTPGate
	feed   *obs.Feed
	w      interceptor.RTPWriter
	r      interceptor.RTPReader
	bound  bool
	seq    uint16
	ts     uint32
	twcc   uint16
	unbindStamp int64 // logical stamp when the last Unbind returned (0 = never)
	rebindStamp int64
	boundAfterClose bool
	sentSinceBind int
	lostBeforeUnbind bool
	epoch  int
	oldGates  []*obs.RTPGate // next writers of earlier bindings of this stream
	written   []rtp.Packet // packets written since the last bind by sequential, unheld calls
	notSerial bool         // some write of this binding overlapped a held next writer
}

type run11 struct {
	buildRand vf.Rand // generator state the interceptor was built from: builds an identical twin
	c      *vf.Case
	kind   zoo.Kind
	b      *zoo.Built
	rg     *rig.Rig
	seq    []string
	pos    int
	wBound, rBound bool
	closed bool
	closeStamp int64
	locals, remotes [2]*stream
	pending []*rig.Pending
	pendingBeforeClose []*rig.Pending
	holdMu sync.Mutex
	hold   chan struct{}
	held   int
	stuck  bool
	nextID uint64
}

func run(c *vf.Case) {
	kind, seq := sequenceFor(c)
	var rn *run11
	c.Bubble(func() {
		rn = execute(c, kind, seq)
	}, func(dump string) {
		// goroutines of the bubble are still alive although the sequence ended with Close
		if rn != nil && !rn.stuck {
			site := firstLibFrame(dump)
			c.Violation(fmt.Sprintf("goroutine-after-close/%s/%s", kind, site),
				"sequence %v + final Close: goroutines still alive after Close returned and the bubble is quiescent:\n%s",
				seq, trim(dump, 3000))
		}
	})
}

func trim(s string, n int) string {
	if len(s) > n {
		return s[:n] + "…"
	}
	return s
}

func firstLibFrame(dump string) string {
	for _, ln := range strings.Split(dump, "\n") {
		if strings.HasPrefix(ln, "github.com/pion/interceptor/") && !strings.HasPrefix(ln, "github.com/pion/interceptor/verif/") {
			fn := strings.TrimPrefix(ln, "github.com/pion/interceptor/")
			if i := strings.LastIndex(fn, "("); i > 0 {
				fn = fn[:i]
			}
			return fn
		}
	}
	return "?"
}

func (rn *run11) ctx() string {
	switch {
	case rn.closed:
		return "after-close"
	case !rn.wBound:
		return "before-rtcp-writer"
	}
	return "running"
}

func execute(c *vf.Case, kind zoo.Kind, seq []string) *run11 {
	buildRand := *c.R
	// a user recorder with a loop of its own (a third of the stats sequences); not when a stream is
	// bound after Close - what such a stream does is outside the statement, and a recorder started
	// then has nobody left to stop it
	loopRec := kind == zoo.Stats && (c.Idx/len(zoo.All))%3 == 0
	closedAt := -1
	for i, sym := range seq {
		switch sym {
		case "C", "X", "H":
			if closedAt < 0 {
				closedAt = i
			}
		case "L0", "L1", "M0", "M1":
			if closedAt >= 0 {
				loopRec = false
			}
		}
	}
	zopts := zoo.Opts{Interval: interval, LoopRecorder: loopRec}
	b, err := zoo.Build(c.R, kind, zopts)
	if err != nil {
		c.Violation("build/"+kind.String(), "%v", err)
		return nil
	}
	rn := &run11{c: c, kind: kind, b: b, rg: rig.New(b.I), seq: seq, nextID: 1, buildRand: buildRand}
	rn.rg.BlockAllowance = time.Hour
	// the RTCP writer fails: always, or from some call on (loops must keep running and stop on Close)
	switch c.R.Intn(4) {
	case 0:
		rn.rg.RTCPOut.SetFailAll(&obs.InjErr{ID: 1})
		c.Add("sequences_with_rtcp_writer_always_failing", 1)
	case 1:
		k := c.R.Intn(6)
		for i := k; i < k+3; i++ {
			rn.rg.RTCPOut.SetFail(i, &obs.InjErr{ID: 2 + i})
		}
		c.Add("sequences_with_rtcp_writer_failing_at_some_calls", 1)
	}
	for i := 0; i < 2; i++ {
		lo := zoo.StreamOpts{SSRC: uint32(1000 * (i + 1)), PT: 96, ClockRate: 90000, Nack: true, PLI: true, TWCCID: 5 * (1 - i), FEC: i == 0, RTX: i == 0}
		ro := zoo.StreamOpts{SSRC: uint32(3000 + 1000*i), PT: 96, ClockRate: 90000, Nack: true, PLI: true, TWCCID: 5 * (1 - i)}
		rn.locals[i] = &stream{idx: i, local: true, opts: lo, seq: uint16(100 + 7*i), ts: 1000}
		rn.remotes[i] = &stream{idx: i, opts: ro, seq: uint16(500 + 11*i), ts: 5000}
	}
	hasClose, hasUnbind, trafficBoth := false, false, false
	for i, sym := range seq {
		rn.pos = i
		if rn.stuck {
			break
		}
		switch sym {
		case "W":
			rn.bindW()
		case "R":
			rn.bindR()
		case "L0", "L1":
			rn.bindStream(rn.locals[int(sym[1]-'0')])
		case "M0", "M1":
			rn.bindStream(rn.remotes[int(sym[1]-'0')])
		case "l0":
			rn.unbind(rn.locals[0])
			hasUnbind = true
		case "m0":
			rn.unbind(rn.remotes[0])
			hasUnbind = true
		case "T":
			rn.traffic()
		case "A":
			rn.advance(2 * interval)
		case "C":
			if rn.closed {
				continue // a second Close is not part of the contract
			}
			rn.close(holdNone)
			hasClose = true
		case "H":
			if rn.closed {
				continue
			}
			rn.close(holdAppTraffic)
			hasClose = true
		case "X":
			if rn.closed {
				continue
			}
			rn.close(holdRetransmission)
			hasClose = true
		case "Y":
			if rn.closed || !rn.locals[0].bound {
				continue
			}
			release := rn.parkRetransmission()
			rn.unbind(rn.locals[0])
			release()
			synctest.Wait()
			hasUnbind = true
		}
	}
	if !rn.stuck && !rn.closed {
		rn.traffic()
		rn.advance(3 * interval)
		for _, s := range []*stream{rn.locals[0], rn.locals[1], rn.remotes[0], rn.remotes[1]} {
			if s.unbindStamp != 0 && !s.bound {
				rn.checkAfterUnbind(s, rn.rg.Clk.Now())
			}
			if s.bound && s.epoch > 1 {
				rn.checkFreshAfterRebind(s)
			}
		}
		if !rn.stuck {
			rn.close(holdNone)
		}
	}
	if !rn.stuck {
		// after Close: traffic must return promptly, nothing more may be emitted
		rn.traffic()
		rn.advance(10 * interval)
		rn.checkPendingAllDone("after-close")
		rn.checkSilenceAfterClose()
	}
	// coverage bookkeeping
	ti := -1
	for i, s := range seq {
		if s == "T" {
			if ti >= 0 {
				for _, m := range seq[ti:i] {
					if m == "C" || m == "H" || m == "l0" || m == "m0" {
						trafficBoth = true
					}
				}
			}
			ti = i
		}
	}
	c.Add("sequences_"+kind.String(), 1)
	c.Add("lifecycle_ops", int64(len(seq)))
	if (hasClose || hasUnbind) && trafficBoth {
		c.Nontrivial(vf.NewHash().Str(kind.String()).Str(strings.Join(seq, " ")).Sum())
	} else if len(seq) >= 2 {
		// any sequence with a Close/Unbind followed or preceded by traffic (the implicit final
		// traffic + Close + traffic counts)
		c.Nontrivial(vf.NewHash().Str(kind.String()).Str(strings.Join(seq, " ")).Sum())
	}
	if c.WantSample() {
		c.Sample(map[string]any{"interceptor": b.Desc, "sequence": strings.Join(seq, " ")})
	}
	return rn
}

// call runs a lifecycle call; a blocked one is a violation and ends the case.
func (rn *run11) call(op string, fn func()) bool {
	res := rn.rg.Call(fn)
	if res.Panic != nil {
		rn.c.Violation(fmt.Sprintf("panic/%s/%s/%s", rn.kind, op, rn.ctx()),
			"sequence %v, op #%d %s: %s", rn.seq, rn.pos, op, res.Describe())
		rn.stuck = true
		return false
	}
	if res.Blocked {
		rn.c.Violation(fmt.Sprintf("blocked/%s/%s/%s", rn.kind, op, rn.ctx()),
			"sequence %v, op #%d (%s): the call is still blocked after quiescence and one virtual hour", rn.seq, rn.pos, op)
		rn.stuck = true
		rn.c.ExitResume()
		return false
	}
	return true
}

func (rn *run11) bindW() {
	if rn.wBound {
		return
	}
	if rn.call("BindRTCPWriter", func() { rn.rg.RTCPW = rn.b.I.BindRTCPWriter(rn.rg.RTCPOut) }) {
		rn.wBound = true
	}
}

func (rn *run11) bindR() {
	if rn.rBound {
		return
	}
	if rn.call("BindRTCPReader", func() { rn.rg.RTCPR = rn.b.I.BindRTCPReader(rn.rg.RTCPIn) }) {
		rn.rBound = true
	}
}

func (rn *run11) bindStream(s *stream) {
	if s.bound && (!s.local || rn.closed) {
		return
	}
	// a local stream that is still bound is bound AGAIN (renegotiation without an Unbind): a new
	// next writer, and the same "starts from fresh state" expectations as after Unbind + Bind
	rebindWithoutUnbind := s.bound
	s.info = zoo.Info(s.opts)
	beforeBind := rn.rg.Clk.Tick()
	op := "BindRemoteStream"
	if s.local {
		op = "BindLocalStream"
		if s.gate != nil {
			s.oldGates = append(s.oldGates, s.gate)
		}
		s.gate = obs.NewRTPGate(rn.rg.Clk, s.opts.SSRC)
		s.gate.SetHook(rn.gateHook)
		if !rn.call(op, func() { s.w = rn.b.I.BindLocalStream(s.info, s.gate) }) {
			return
		}
	} else {
		s.feed = obs.NewFeed(rn.rg.Clk)
		if !rn.call(op, func() { s.r = rn.b.I.BindRemoteStream(s.info, s.feed) }) {
			return
		}
	}
	if rebindWithoutUnbind {
		rn.c.Add("binds_of_a_stream_that_was_still_bound", 1)
	}
	s.bound = true
	s.epoch++
	s.boundAfterClose = rn.closed
	if s.unbindStamp != 0 {
		rn.checkAfterUnbind(s, beforeBind)
		s.unbindStamp = 0
	}
	s.rebindStamp = rn.rg.Clk.Tick()
	if s.epoch > 1 {
		// a fresh stream: new sequence space far away from the old one
		s.seq += 20000
		s.ts += 900000
		s.sentSinceBind = 0
	}
	s.written, s.notSerial = nil, false
}

func (rn *run11) unbind(s *stream) {
	if !s.bound {
		return
	}
	if rn.kind == zoo.JitterBuffer && !s.local && s.r != nil && !rn.closed && rn.onlyRemoteBound(s) {
		// playback has started on this binding (more than the start count of in-order packets)
		// before the stream goes away: the state a later binding must not inherit
		for k := 0; k < 60; k++ {
			h := rn.header(s)
			b, _ := (&rtp.Packet{Header: h, Payload: []byte{1, 2, 3}}).Marshal()
			s.feed.Push(obs.FeedItem{Data: b})
			_, _, _ = s.r.Read(make([]byte, 1500), interceptor.Attributes{})
		}
	}
	ok := false
	if s.local {
		ok = rn.call("UnbindLocalStream", func() { rn.b.I.UnbindLocalStream(s.info) })
	} else {
		ok = rn.call("UnbindRemoteStream", func() { rn.b.I.UnbindRemoteStream(s.info) })
	}
	if ok {
		s.bound = false
		s.unbindStamp = rn.rg.Clk.Tick()
	}
}

// gateHook holds downstream RTP writes while rn.hold is set.
func (rn *run11) gateHook(_ int, _ *rtp.Header, _ []byte) {
	rn.holdMu.Lock()
	h := rn.hold
	if h != nil {
		rn.held++
	}
	rn.holdMu.Unlock()
	if h != nil {
		<-h
	}
}

func (rn *run11) advance(d time.Duration) {
	time.Sleep(d)
	synctest.Wait()
}

func (rn *run11) header(s *stream) rtp.Header {
	s.seq++
	s.ts += 3000
	s.twcc++
	h := rtp.Header{Version: 2, PayloadType: s.opts.PT, SequenceNumber: s.seq, Timestamp: s.ts, SSRC: s.opts.SSRC}
	if s.opts.TWCCID != 0 {
		ext, _ := (&rtp.TransportCCExtension{TransportSequence: s.twcc}).Marshal()
		_ = h.SetExtension(uint8(s.opts.TWCCID), ext)
	}
	return h
}

// traffic issues one round of traffic on everything that is (or was) bound. Calls made
// before Close that block are remembered: they must be released by Close at the latest.
// Calls made after Close must return promptly.
func (rn *run11) traffic() {
	var started []*rig.Pending
	for _, s := range rn.locals {
		if s.w == nil {
			continue
		}
		if !s.bound && !rn.closed {
			continue // writing on an unbound stream is not part of the contract
		}
		for k := 0; k < 2; k++ {
			h := rn.header(s)
			id := rn.nextID
			rn.nextID++
			payload := gen.Payload(rn.c.R, 40, id)
			w := s.w
			s.sentSinceBind++
			s.written = append(s.written, rtp.Packet{Header: h.Clone(), Payload: append([]byte(nil), payload...)})
			started = append(started, rn.rg.Go("write-rtp", func() { _, _ = w.Write(&h, payload, interceptor.Attributes{}) }))
			synctest.Wait()
		}
	}
	for _, s := range rn.remotes {
		if s.r == nil || (!s.bound && !rn.closed) {
			continue
		}
		for k := 0; k < 3; k++ {
			if k == 1 && !rn.closed && s.epoch == 1 {
				s.seq++ // one lost packet per round -> NACK / loss figures
				s.lostBeforeUnbind = true
			}
			h := rn.header(s)
			b, _ := (&rtp.Packet{Header: h, Payload: rn.c.R.Bytes(30)}).Marshal()
			s.feed.Push(obs.FeedItem{Data: b})
			rd := s.r
			started = append(started, rn.rg.Go("read-rtp", func() {
				buf := make([]byte, 1500)
				_, _, _ = rd.Read(buf, interceptor.Attributes{})
			}))
			synctest.Wait()
		}
	}
	if rn.rBound && rn.rg.RTCPR != nil {
		pkts := []rtcp.Packet{
			&rtcp.SenderReport{SSRC: rn.remotes[0].opts.SSRC, NTPTime: 0x1234567800000000, RTPTime: 77},
			&rtcp.TransportLayerNack{SenderSSRC: 9, MediaSSRC: rn.locals[0].opts.SSRC,
				Nacks: []rtcp.NackPair{{PacketID: rn.locals[0].seq, LostPackets: 0}}},
		}
		b, _ := rtcp.Marshal(pkts)
		rn.rg.RTCPIn.Push(obs.FeedItem{Data: b})
		rd := rn.rg.RTCPR
		started = append(started, rn.rg.Go("read-rtcp", func() {
			buf := make([]byte, 1500)
			_, _, _ = rd.Read(buf, interceptor.Attributes{})
		}))
		synctest.Wait()
	}
	if rn.wBound && rn.rg.RTCPW != nil {
		w := rn.rg.RTCPW
		started = append(started, rn.rg.Go("write-rtcp", func() {
			_, _ = w.Write([]rtcp.Packet{&rtcp.PictureLossIndication{SenderSSRC: appRTCPSender, MediaSSRC: 3000}}, interceptor.Attributes{})
		}))
		synctest.Wait()
	}
	rn.c.Add("traffic_calls", int64(len(started)))
	for _, p := range started {
		if p.Finished() {
			if res := p.Result(); res.Panic != nil {
				rn.c.Violation(fmt.Sprintf("panic/%s/%s/%s", rn.kind, p.What, rn.ctx()),
					"sequence %v, op #%d traffic (%s): %s", rn.seq, rn.pos, p.What, res.Describe())
			}
			continue
		}
		if rn.closed {
			// must return promptly after Close: give virtual time, then decide
			rn.advance(time.Hour)
			if !p.Finished() {
				rn.c.Violation(fmt.Sprintf("blocked-after-close/%s/%s", rn.kind, p.What),
					"sequence %v: a %s issued after Close returned is still blocked after quiescence and one virtual hour", rn.seq, p.What)
				rn.stuck = true
				rn.c.ExitResume()
			}
			continue
		}
		if rn.wBound {
			// the interceptor is open and its RTCP writer is bound (its loop is running): a read or
			// write must not block; only traffic before BindRTCPWriter may wait for the loop to start
			rn.advance(time.Hour)
			if !p.Finished() {
				rn.c.Violation(fmt.Sprintf("blocked-while-running/%s/%s", rn.kind, p.What),
					"sequence %v, op #%d: a %s on the open, running interceptor is still blocked after quiescence and one virtual hour", rn.seq, rn.pos, p.What)
			}
		}
		rn.c.Add("traffic_calls_blocked_before_close", 1)
		rn.pendingBeforeClose = append(rn.pendingBeforeClose, p)
	}
}

const (
	holdNone = iota
	holdAppTraffic
	holdRetransmission
)

// parkRetransmission: with packets in the responder's buffer, a NACK for four of them is read
// while the next writer holds every write; the goroutine serving the NACK is then parked inside
// the first retransmission. Returns the function that releases the hold.
func (rn *run11) parkRetransmission() (release func()) {
	s := rn.locals[0]
	if s.bound && s.w != nil && !rn.closed {
		for k := 0; k < 4; k++ {
			h := rn.header(s)
			payload := gen.Payload(rn.c.R, 40, rn.nextID)
			rn.nextID++
			w := s.w
			s.sentSinceBind++
			s.notSerial = true
			rn.pending = append(rn.pending, rn.rg.Go("write-rtp", func() { _, _ = w.Write(&h, payload, interceptor.Attributes{}) }))
			synctest.Wait()
		}
	}
	rn.holdMu.Lock()
	rn.hold = make(chan struct{})
	ch := rn.hold
	rn.holdMu.Unlock()
	if rn.rBound && rn.rg.RTCPR != nil {
		nack := &rtcp.TransportLayerNack{SenderSSRC: 9, MediaSSRC: s.opts.SSRC,
			Nacks: []rtcp.NackPair{{PacketID: s.seq - 3, LostPackets: 0b111}}}
		b, _ := rtcp.Marshal([]rtcp.Packet{nack})
		rn.rg.RTCPIn.Push(obs.FeedItem{Data: b})
		rd := rn.rg.RTCPR
		p := rn.rg.Go("read-rtcp", func() {
			buf := make([]byte, 1500)
			_, _, _ = rd.Read(buf, interceptor.Attributes{})
		})
		synctest.Wait()
		if !p.Finished() {
			rn.pendingBeforeClose = append(rn.pendingBeforeClose, p)
		}
		rn.c.Add("nack_served_while_next_writer_holds", 1)
	}
	return func() {
		rn.holdMu.Lock()
		if rn.hold == ch {
			rn.hold = nil
		}
		rn.holdMu.Unlock()
		close(ch)
	}
}

func (rn *run11) close(mode int) {
	var heldCalls []*rig.Pending
	var releases []func()
	switch mode {
	case holdRetransmission:
		releases = append(releases, rn.parkRetransmission())
	case holdAppTraffic:
		// hold the next RTP writer and the dump stream, issue two writes and two reads, then Close
		rn.holdMu.Lock()
		rn.hold = make(chan struct{})
		ch := rn.hold
		rn.holdMu.Unlock()
		releases = append(releases, func() {
			rn.holdMu.Lock()
			if rn.hold == ch {
				rn.hold = nil
			}
			rn.holdMu.Unlock()
			close(ch)
		})
		if rn.b.RTPSink != nil {
			releases = append(releases, rn.b.RTPSink.SetHold())
		}
		// one held write; two when a dump stream is held as well (the second then waits for the
		// logger goroutine). Never two on a path that holds a mutex across the downstream write
		// (gcc's no-op pacer): the second would wait for that mutex, which the harness's own hold
		// keeps taken - a deadlock of the harness's making.
		nHeld := 1
		if rn.b.RTPSink != nil {
			nHeld = 2
		}
		for _, s := range rn.locals {
			if s.bound && s.w != nil {
				for k := 0; k < nHeld; k++ {
					h := rn.header(s)
					w := s.w
					payload := gen.Payload(rn.c.R, 40, rn.nextID)
					rn.nextID++
					s.sentSinceBind++
					s.notSerial = true
					heldCalls = append(heldCalls, rn.rg.Go("write-rtp-held", func() { _, _ = w.Write(&h, payload, interceptor.Attributes{}) }))
					synctest.Wait()
				}
				break
			}
		}
		if rn.b.RTPSink != nil {
			for _, s := range rn.remotes {
				if s.bound && s.r != nil {
					for k := 0; k < 2; k++ {
						h := rn.header(s)
						b, _ := (&rtp.Packet{Header: h, Payload: rn.c.R.Bytes(30)}).Marshal()
						s.feed.Push(obs.FeedItem{Data: b})
						rd := s.r
						heldCalls = append(heldCalls, rn.rg.Go("read-rtp-held", func() {
							buf := make([]byte, 1500)
							_, _, _ = rd.Read(buf, interceptor.Attributes{})
						}))
						synctest.Wait()
					}
					break
				}
			}
		}
	}
	p := rn.rg.Go("Close", func() {
		_ = rn.b.I.Close()
		rn.closeStamp = rn.rg.Clk.Tick()
	})
	synctest.Wait()
	// release what was held: Close may legitimately have waited for it
	if len(releases) > 0 {
		rn.c.Add("close_with_calls_held_in_flight", 1)
		for _, rel := range releases {
			rel()
		}
		synctest.Wait()
	}
	if !p.Finished() {
		rn.advance(time.Hour)
	}
	if !p.Finished() {
		rn.c.Violation(fmt.Sprintf("blocked/%s/Close/%s", rn.kind, rn.ctx()),
			"sequence %v, op #%d: Close is still blocked after quiescence and one virtual hour", rn.seq, rn.pos)
		rn.stuck = true
		rn.c.ExitResume()
		return
	}
	if res := p.Result(); res.Panic != nil {
		rn.c.Violation(fmt.Sprintf("panic/%s/Close/%s", rn.kind, rn.ctx()), "sequence %v: %s", rn.seq, res.Describe())
		rn.stuck = true
		return
	}
	rn.closed = true
	for _, hc := range heldCalls {
		if !hc.Finished() {
			rn.pendingBeforeClose = append(rn.pendingBeforeClose, hc)
		}
	}
	rn.checkPendingAllDone("released-by-close")
}

// checkPendingAllDone: calls that blocked before Close must have been released by it.
func (rn *run11) checkPendingAllDone(when string) {
	synctest.Wait()
	for _, p := range rn.pendingBeforeClose {
		if !p.Finished() {
			rn.advance(time.Hour)
			if !p.Finished() {
				rn.c.Violation(fmt.Sprintf("stranded-by-close/%s/%s", rn.kind, p.What),
					"sequence %v: a %s issued before Close blocked and is still blocked after Close returned (+1 virtual hour)", rn.seq, p.What)
				rn.stuck = true
				rn.c.ExitResume()
			}
		}
	}
	rn.pendingBeforeClose = nil
}

func (rn *run11) checkSilenceAfterClose() {
	if !rn.closed {
		return
	}
	for _, ev := range rn.rg.RTCPOut.Events() {
		if pli, ok := first(ev.Pkts).(*rtcp.PictureLossIndication); ok && pli.SenderSSRC == appRTCPSender {
			continue // the application's own RTCP, passed through
		}
		if ev.Stamp > rn.closeStamp {
			rn.c.Violation(fmt.Sprintf("emit-after-close/%s/rtcp", rn.kind),
				"sequence %v: an RTCP write (%d packets, first %T) reached the writer after Close had returned", rn.seq, len(ev.Pkts), first(ev.Pkts))
			break
		}
	}
	for _, s := range rn.locals {
		if s.gate == nil || s.boundAfterClose {
			// a stream bound after Close: the statement does not say what such a stream
			// does ("may"); only blocking and panics are checked for it
			continue
		}
		for _, ev := range s.gate.Events() {
			if ev.Stamp > rn.closeStamp {
				// pass-through of traffic the application itself wrote after Close is fine;
				// application packets carry ids >= the id counter at close time and are
				// written synchronously inside the watched call. Injected packets (RTX/FEC/
				// paced ones) after Close are not.
				if rn.isAppPassThrough(ev) {
					continue
				}
				rn.c.Violation(fmt.Sprintf("emit-after-close/%s/rtp", rn.kind),
					"sequence %v: an RTP packet (ssrc %d pt %d seq %d) reached the next writer after Close had returned", rn.seq, ev.Header.SSRC, ev.Header.PayloadType, ev.Header.SequenceNumber)
				break
			}
		}
	}
}

func (rn *run11) isAppPassThrough(ev obs.RTPEvent) bool {
	// a packet written by the application after Close and forwarded synchronously
	// (pass-through) keeps its SSRC/PT; buffering interceptors that still deliver after
	// Close emit the same shape, but asynchronously - told apart by kind.
	if rn.kind == zoo.Pacing || rn.kind == zoo.CCLeakyBucket {
		return false
	}
	for _, s := range rn.locals {
		if ev.Header.SSRC == s.opts.SSRC && ev.Header.PayloadType == s.opts.PT {
			return true
		}
	}
	return false
}

func first(p []rtcp.Packet) any {
	if len(p) == 0 {
		return nil
	}
	return p[0]
}

// about reports whether an RTCP packet is feedback / a report about the given stream.
func about(p rtcp.Packet, ssrc uint32, local bool) bool {
	switch v := p.(type) {
	case *rtcp.SenderReport:
		return local && v.SSRC == ssrc
	case *rtcp.ReceiverReport:
		for _, r := range v.Reports {
			if r.SSRC == ssrc {
				return !local
			}
		}
	case *rtcp.TransportLayerNack:
		return v.MediaSSRC == ssrc
	case *rtcp.PictureLossIndication:
		return v.MediaSSRC == ssrc && v.SenderSSRC != appRTCPSender
	case *rtcp.TransportLayerCC:
		return v.MediaSSRC == ssrc
	case *rtcp.CCFeedbackReport:
		for _, b := range v.ReportBlocks {
			if b.MediaSSRC == ssrc {
				return true
			}
		}
	}
	return false
}

// checkAfterUnbind: after Unbind returned, at most one report/feedback about the SSRC
// (one may have been in flight) may still be written.
func (rn *run11) checkAfterUnbind(s *stream, until int64) {
	n := 0
	var typ string
	for _, ev := range rn.rg.RTCPOut.Events() {
		if ev.Stamp <= s.unbindStamp || ev.Stamp > until {
			continue
		}
		// one RTCP write = one emission ("one already in flight"), however many packets it batches
		for _, p := range ev.Pkts {
			if about(p, s.opts.SSRC, s.local) {
				n++
				typ = fmt.Sprintf("%T", p)
				break
			}
		}
	}
	rn.c.Add("unbind_windows_checked", 1)
	if s.local && s.gate != nil && rn.kind != zoo.Pacing && rn.kind != zoo.CCLeakyBucket {
		// (pacers deliver media they accepted before the Unbind: that is C17's business, not a
		// report or feedback about the stream)
		// nothing may be written to the unbound stream's next writer any more (the application
		// does not write on it; a retransmission that was already inside the writer when Unbind
		// returned carries an entry stamp before the unbind)
		for _, ev := range s.gate.Events() {
			if ev.Stamp > s.unbindStamp && ev.Stamp <= until {
				rn.c.Violation(fmt.Sprintf("emit-after-unbind/%s/rtp", rn.kind),
					"sequence %v: an RTP packet (ssrc %d pt %d seq %d) was written to the next writer of local stream %d after its Unbind had returned",
					rn.seq, ev.Header.SSRC, ev.Header.PayloadType, ev.Header.SequenceNumber, s.opts.SSRC)
				break
			}
		}
	}
	if n > 1 {
		side := "remote"
		if s.local {
			side = "local"
		}
		rn.c.Violation(fmt.Sprintf("feedback-after-unbind/%s/%s/%s", rn.kind, side, strings.TrimPrefix(typ, "*rtcp.")),
			"sequence %v: %d RTCP writes about SSRC %d were made after its Unbind had returned (last: %s)", rn.seq, n, s.opts.SSRC, typ)
	}
}

// onlyRemoteBound: s is the only remote stream currently bound (the jitter buffer interceptor has
// ONE buffer for all its streams).
func (rn *run11) onlyRemoteBound(s *stream) bool {
	for _, o := range rn.remotes {
		if o != s && o.bound {
			return false
		}
	}
	return true
}

// checkFreshAfterRebind: binding the same SSRC again starts from fresh state.
func (rn *run11) checkFreshAfterRebind(s *stream) {
	rn.c.Add("rebinds_checked", 1)
	if s.local && len(s.oldGates) > 0 && len(s.written) > 0 {
		// whatever was written on the new binding belongs to the new binding's next writer; the
		// writer of an earlier binding may at most still get what was accepted before
		mine := map[uint16]bool{}
		for _, p := range s.written {
			mine[p.SequenceNumber] = true
		}
		for _, g := range s.oldGates {
			for _, ev := range g.Events() {
				if ev.Stamp > s.rebindStamp && ev.Header.SSRC == s.opts.SSRC && mine[ev.Header.SequenceNumber] {
					rn.c.Violation(fmt.Sprintf("stale-writer-after-rebind/%s/rtp", rn.kind),
						"sequence %v: SSRC %d was unbound and bound again with a new next writer; packet seq %d, written on the new binding, was delivered to the next writer of an EARLIER binding", rn.seq, s.opts.SSRC, ev.Header.SequenceNumber)
					return
				}
			}
		}
		rn.c.Add("rebinds_checked_old_writer_silent", 1)
	}
	evs := rn.rg.RTCPOut.Events()
	switch {
	case rn.kind == zoo.ReportSender && s.local:
		for i := len(evs) - 1; i >= 0; i-- {
			if evs[i].Stamp < s.rebindStamp {
				break
			}
			for _, p := range evs[i].Pkts {
				if sr, ok := p.(*rtcp.SenderReport); ok && sr.SSRC == s.opts.SSRC {
					if int(sr.PacketCount) != s.sentSinceBind {
						rn.c.Violation("stale-state-after-rebind/report-sender/packet-count",
							"sequence %v: SSRC %d rebound, %d packets written since, sender report says %d", rn.seq, s.opts.SSRC, s.sentSinceBind, sr.PacketCount)
					}
					return
				}
			}
		}
	case rn.kind == zoo.ReportReceiver && !s.local:
		for i := len(evs) - 1; i >= 0; i-- {
			if evs[i].Stamp < s.rebindStamp {
				break
			}
			for _, p := range evs[i].Pkts {
				if rr, ok := p.(*rtcp.ReceiverReport); ok {
					for _, rep := range rr.Reports {
						if rep.SSRC != s.opts.SSRC {
							continue
						}
						if rep.TotalLost != 0 || rep.LastSequenceNumber != uint32(s.seq) {
							rn.c.Violation("stale-state-after-rebind/report-receiver/loss-or-highest",
								"sequence %v: SSRC %d rebound and received a gap-free run ending at %d; report says lost=%d ext-highest=%d",
								rn.seq, s.opts.SSRC, s.seq, rep.TotalLost, rep.LastSequenceNumber)
						}
						return
					}
				}
			}
		}
	case rn.kind == zoo.NackGenerator && !s.local:
		for _, ev := range evs {
			if ev.Stamp < s.rebindStamp {
				continue
			}
			for _, p := range ev.Pkts {
				if n, ok := p.(*rtcp.TransportLayerNack); ok && n.MediaSSRC == s.opts.SSRC {
					rn.c.Violation("stale-state-after-rebind/nack-generator/nack-for-gap-free-run",
						"sequence %v: SSRC %d rebound and received a gap-free run; NACK %v was generated", rn.seq, s.opts.SSRC, n.Nacks)
					return
				}
			}
		}
	case rn.kind == zoo.FlexFEC && s.local && !s.notSerial && !s.boundAfterClose:
		// relational: a re-bound stream must emit exactly what a fresh interceptor of the same
		// configuration emits for the packets written since the re-bind (FEC sequence numbers,
		// masks and payloads are a function of those packets only)
		tr := rn.buildRand
		tb, err := zoo.Build(&tr, rn.kind, zoo.Opts{Interval: interval})
		if err != nil {
			return
		}
		tg := obs.NewRTPGate(rn.rg.Clk, s.opts.SSRC)
		tw := tb.I.BindLocalStream(zoo.Info(s.opts), tg)
		for _, p := range s.written {
			h := p.Header.Clone()
			_, _ = tw.Write(&h, append([]byte(nil), p.Payload...), interceptor.Attributes{})
		}
		_ = tb.I.Close()
		got, want := s.gate.Events(), tg.Events()
		rn.c.Add("rebinds_compared_with_fresh_twin", 1)
		rn.c.Add("rebind_twin_packets_compared", int64(len(want)))
		if len(got) != len(want) {
			rn.c.Violation("stale-state-after-rebind/flexfec/packet-count-differs-from-fresh-interceptor",
				"sequence %v: SSRC %d re-bound, %d packets written since: next writer saw %d packets, a fresh interceptor emits %d", rn.seq, s.opts.SSRC, len(s.written), len(got), len(want))
			return
		}
		for i := range want {
			g, w := got[i], want[i]
			if g.Header.SSRC != w.Header.SSRC || g.Header.SequenceNumber != w.Header.SequenceNumber || g.Header.PayloadType != w.Header.PayloadType ||
				g.Header.Timestamp != w.Header.Timestamp || !bytes.Equal(g.Payload, w.Payload) {
				rn.c.Violation("stale-state-after-rebind/flexfec/packet-differs-from-fresh-interceptor",
					"sequence %v: SSRC %d re-bound, %d packets written since: packet #%d at the next writer is ssrc=%d seq=%d ts=%d payload=%x, a fresh interceptor emits ssrc=%d seq=%d ts=%d payload=%x",
					rn.seq, s.opts.SSRC, len(s.written), i, g.Header.SSRC, g.Header.SequenceNumber, g.Header.Timestamp, g.Payload, w.Header.SSRC, w.Header.SequenceNumber, w.Header.Timestamp, w.Payload)
				return
			}
		}
	case rn.kind == zoo.JitterBuffer && !s.local && !s.boundAfterClose && rn.onlyRemoteBound(s):
		// a re-bound stream is played out like a new one: after more than the start count of
		// in-order packets, reads hand out packets of the NEW run (a buffer that kept the old
		// playout head waits for the old numbers for ever)
		got, first := 0, s.seq+1
		for k := 0; k < 70; k++ {
			h := rn.header(s)
			b, _ := (&rtp.Packet{Header: h, Payload: []byte{1, 2, 3}}).Marshal()
			s.feed.Push(obs.FeedItem{Data: b})
			buf := make([]byte, 1500)
			n, _, err := s.r.Read(buf, interceptor.Attributes{})
			if err == nil && n >= 12 {
				if seq := uint16(buf[2])<<8 | uint16(buf[3]); seq-first < 70 {
					got++
				}
			}
		}
		rn.c.Add("rebound_jitterbuffer_streams_played_out", 1)
		if got == 0 {
			rn.c.Violation("stale-state-after-rebind/jitterbuffer/never-plays-the-new-run",
				"sequence %v: SSRC %d unbound and bound again, 70 in-order packets %d.. read: not one read returned a packet of the new run", rn.seq, s.opts.SSRC, first)
		}
	case rn.kind == zoo.Stats && s.local && rn.b.StatsGetter != nil && !rn.b.CustomRecorder:
		synctest.Wait()
		if st := rn.b.StatsGetter.Get(s.opts.SSRC); st != nil && int(st.OutboundRTPStreamStats.PacketsSent) != s.sentSinceBind {
			rn.c.Violation("stale-state-after-rebind/stats/packets-sent",
				"sequence %v: SSRC %d unbound and bound again, %d packets written since, stats say %d", rn.seq, s.opts.SSRC, s.sentSinceBind, st.OutboundRTPStreamStats.PacketsSent)
		}
	}
}
