// C15 – transport-wide sequence numbers are gap-free and unique across streams.
//
// Monitor: ONE real twcc.HeaderExtensionInterceptor (built through its factory) has 1..6
// local streams bound to it; every stream's downstream RTPWriter is a gate owned by the
// harness. 1..16 real writer goroutines (real time, not a synctest bubble: they truly
// race; GOMAXPROCS comes from the runner) push packets through the writers the
// interceptor returned. The gate identifies every packet by the unique RTP timestamp the
// writer reserved for it, compares header and payload with the pristine pre-call copy
// (which the library never sees), extracts the transport-wide number and - on
// PRNG-chosen calls - yields (runtime.Gosched) or holds the caller inside the downstream
// Write while the other writers go on. Per write only (number, stream, goroutine,
// call stamp, return stamp) is recorded; stamps come from one atomic logical clock.
//
// Oracle (written from the statement, see analyze):
//
//   - every packet that reaches the gate of a negotiated stream has Extension set, an
//     RFC 8285 profile, exactly one element with the negotiated id, 2 bytes long;
//     everything else (fixed fields, CSRCs, padding, the other extension elements and
//     their order, the profile if there was one, the payload) equals the pre-call copy;
//   - a write with a header that can carry the element must reach the gate exactly once
//     (on the gate of its own stream);
//   - multiset: with N numbers assigned, per-value counts are q or q+1 (q = N div 2^16)
//     and the N mod 2^16 values counted q+1 form one cyclic run. The statement does not
//     say where the run starts, so the start value is NOT assumed to be 0;
//   - real-time order: for every write b, the unwrapped index k(b) lies in
//     [#writes returned before call(b), #writes called before return(b)); that window
//     is what unwraps the 16-bit numbers (no assumption on how far a goroutine may fall
//     behind); then k is injective, return(a) < call(b) => k(a) < k(b), and every
//     goroutine's own numbers strictly increase;
//   - non-negotiated streams (no transport-cc URI, near-miss URI, id 0): header and
//     payload identical, nothing added, and - since the multiset has no gap - no number
//     consumed;
//   - a write whose header cannot carry the element (RFC 3550 generic profile, nil
//     header) is "rejected": it must not reach the gate modified; the statement is silent
//     on whether it consumes a number, so with R rejected writes up to R indices may be
//     missing from the run (and the exact multiset clause is skipped for that case).
//
// Independent cross-check: short histories (<= 8 goroutines x 40 writes, preceded by one
// quiescent anchor write) are handed to porcupine with a fetch-and-increment model whose
// initial value is unknown; a timeout is reported as inconclusive.
package c15

import (
	"bytes"
	"encoding/binary"
	"errors"
	"fmt"
	"runtime"
	"sort"
	"strings"
	"sync"
	"sync/atomic"
	"testing"
	"time"

	"github.com/anishathalye/porcupine"
	"github.com/pion/interceptor"
	"github.com/pion/interceptor/pkg/twcc"
	"github.com/pion/rtp"

	"github.com/pion/interceptor/verif/gen"
	"github.com/pion/interceptor/verif/obs"
	"github.com/pion/interceptor/verif/vf"
)

// The URI is taken from draft-holmer-rmcat-transport-wide-cc-extensions-01, not from the library.
const transportCCURI = "http://www.ietf.org/id/draft-holmer-rmcat-transport-wide-cc-extensions-01"

const (
	absSendTimeURI = "http://www.webrtc.org/experiments/rtp-hdrext/abs-send-time"
	sdesMidURI     = "urn:ietf:params:rtp-hdrext:sdes:mid"
	audioLevelURI  = "urn:ietf:params:rtp-hdrext:ssrc-audio-level"
)

func sizes(tier string) (big, medium, short, epochs, storm, rounds int) {
	if tier == "thorough" {
		return 1000, 4000, 1000, 40, 1000, 40 // 40 000 porcupine histories, 40 000 wrap storms
	}
	return 40, 200, 80, 25, 48, 30 // 2 000 porcupine histories, 1 440 wrap storms
}

func cases(tier string) int {
	b, m, s, _, w, _ := sizes(tier)
	return b + m + s + w
}

func TestCheck(t *testing.T) {
	vf.Main(t, vf.Spec{Prop: "C15", Cases: cases, Run: run})
}

func run(c *vf.Case) {
	b, m, s, ep, _, rounds := sizes(c.Tier)
	switch {
	case c.Idx < b:
		runBig(c)
	case c.Idx < b+m:
		runMedium(c)
	case c.Idx < b+m+s:
		runShort(c, ep)
	default:
		runStorm(c, rounds)
	}
}

// ---------------------------------------------------------------------------------
// scenario objects

type stream struct {
	idx        int
	ssrc       uint32
	negotiated bool
	id         uint8 // negotiated transport-cc id (1..14)
	nnKind     int   // why it is not negotiated
	info       *interceptor.StreamInfo
	w          interceptor.RTPWriter
	g          *gate
	nilFwd     atomic.Int64
}

// sharedPlaceholder is the caller-owned placeholder value some histories put under the
// transport-cc id of every header they build.
var sharedPlaceholder = []byte{0, 0}

// header shape kinds (evidence counters)
const (
	kNone = iota
	kOneByteOthers
	kOneByteSameID
	kTwoByteOthers
	kTwoByteSameID
	kEmptyExtBlock
	kOneByteFull
	kGeneric
	kNil
	nKinds
)

var kindNames = [nKinds]string{"no_extension", "one_byte_other_ids", "one_byte_existing_value_at_negotiated_id",
	"two_byte_other_ids", "two_byte_existing_value_at_negotiated_id", "extension_flag_with_empty_block",
	"one_byte_all_13_other_ids_used", "rfc3550_generic_profile", "nil_header"}

type tmpl struct {
	h        rtp.Header // pristine; never handed to the library
	kind     int
	cantHold bool // the header cannot carry an RFC 8285 element (generic profile)
	otherIDs []uint8
	otherPay [][]byte
}

type viol struct{ sig, detail string }

type env struct {
	c       *vf.Case
	clk     obs.Clock
	mask    uint32
	streams []*stream
	slots   []*slot
	running atomic.Int64

	pYieldGate, pYieldPre, pHold, pInject float64
	holdMax                               int
	wireEvery                             uint32

	vmu   sync.Mutex
	viols []viol
	vsig  map[string]int

	gateYields, holds, wireChecks, compared atomic.Int64

	// quiescent fast-forward: an extra negotiated stream of the same instance whose gate
	// only checks that successive numbers are consecutive (main goroutine only)
	ff       *ffGate
	ffW      interceptor.RTPWriter
	sharedExt bool // headers with a pre-existing transport-cc element share ONE payload slice
	sib      interceptor.RTPWriter // a stream of a second interceptor built by the same factory
	sibSSRC  uint32
	ffInfo   *interceptor.StreamInfo
	ffHdr    rtp.Header
	segments [][]rec // monitored histories separated by fast-forwards; each is decided on its own
	lastNum  uint16  // number of the latest quiescent monitored write
	lastOK   bool
}

// ffGate is the downstream writer of the fast-forward stream.
type ffGate struct {
	id    uint8
	n     int64
	last  uint16
	have  bool
	bad   string
	nbad  int
	first uint16
}

func (g *ffGate) Write(h *rtp.Header, _ []byte, _ interceptor.Attributes) (int, error) {
	g.n++
	var b []byte
	if h != nil {
		b = h.GetExtension(g.id)
	}
	if len(b) != 2 {
		g.nbad++
		if g.bad == "" {
			g.bad = fmt.Sprintf("ext: quiescent write %d left with header %s (no 2-byte element at id %d)", g.n, hdrString(h), g.id)
		}
		g.have = false
		return 0, nil
	}
	v := binary.BigEndian.Uint16(b)
	if g.have && v != g.last+1 {
		g.nbad++
		if g.bad == "" {
			g.bad = fmt.Sprintf("seq: two successive quiescent writes (nothing else in flight) got %d then %d, want %d", g.last, v, g.last+1)
		}
	}
	g.last, g.have = v, true
	return 12, nil
}

// fastForward performs n quiescent, un-recorded writes on the fast-forward stream. Only
// "each number is the previous one plus one" is checked; the monitored history that
// follows is decided as a run of its own (the statement does not fix where a run starts).
func (e *env) fastForward(n int) {
	g := e.ff
	g.have, g.last = e.lastOK, e.lastNum
	before := g.n
	for i := 0; i < n; i++ {
		h := &e.ffHdr
		h.Extension, h.ExtensionProfile, h.Extensions = false, 0, h.Extensions[:0]
		h.SequenceNumber++
		if _, err := e.ffW.Write(h, nil, nil); err != nil {
			e.viol("forward/valid-packet-rejected", "quiescent write with a plain header on a negotiated stream (id %d) was refused: %v", g.id, err)
			break
		}
	}
	if g.n-before != int64(n) {
		e.viol("forward/dropped-silently", "%d quiescent writes on a negotiated stream, %d reached the downstream writer", n, g.n-before)
	}
	if g.bad != "" {
		if strings.HasPrefix(g.bad, "ext:") {
			e.viol("ext/missing", "%s", g.bad)
		} else {
			e.viol("run/sequential-not-consecutive", "%s (%d such steps in %d quiescent writes)", g.bad, g.nbad, n)
		}
		g.bad, g.nbad = "", 0
	}
	e.lastOK, e.lastNum = g.have, g.last
}

// cut closes the current monitored segment.
func (e *env) cut(ws []*writer) {
	if seg := gather(ws); len(seg) > 0 {
		e.segments = append(e.segments, seg)
	}
	for _, w := range ws {
		w.recs = nil
	}
}

// seek brings the instance (quiescent) to the point where the next number is target,
// then starts a new monitored segment.
func (e *env) seek(ws []*writer, target uint16) bool {
	seq := ws[len(ws)-1]
	for try := 0; try < 20 && !e.lastOK; try++ {
		e.sequential(seq, 1)
	}
	if !e.lastOK {
		return false
	}
	e.cut(ws)
	e.fastForward(int(target - (e.lastNum + 1)))
	return e.lastOK
}

func (e *env) viol(sig, format string, args ...any) {
	e.vmu.Lock()
	defer e.vmu.Unlock()
	if e.vsig == nil {
		e.vsig = map[string]int{}
	}
	e.vsig[sig]++
	if e.vsig[sig] > 2 || len(e.viols) > 24 {
		return
	}
	e.viols = append(e.viols, viol{sig, fmt.Sprintf(format, args...)})
}

// slot is the per-writer mailbox between the writer goroutine and the gate. The library
// forwards synchronously, so in practice only the owning goroutine touches it; the mutex
// keeps the monitor race-free even if an implementation forwarded from elsewhere.
type slot struct {
	mu     sync.Mutex
	active bool
	key    uint32
	st     *stream
	pre    *rtp.Header
	tm     *tmpl
	pay    []byte // pristine payload
	seen   int
	hasNum bool
	num    uint16
	yields int
	hold   int64
	inject bool
}

type gate struct {
	e  *env
	st *stream
}

var errInjected = errors.New("c15: injected downstream error")

const (
	gidBits = 5
	idxBits = 32 - gidBits
)

func (g *gate) Write(h *rtp.Header, payload []byte, _ interceptor.Attributes) (int, error) {
	e := g.e
	if h == nil {
		g.st.nilFwd.Add(1)
		return 0, nil
	}
	key := h.Timestamp ^ e.mask
	gid := int(key >> idxBits)
	if gid >= len(e.slots) {
		e.viol("forward/unknown-packet", "a packet with timestamp %#x reached the gate of stream %d; no write in progress carries it (timestamp changed?)",
			h.Timestamp, g.st.idx)
		return 0, nil
	}
	s := e.slots[gid]
	s.mu.Lock()
	if !s.active || s.key != key {
		s.mu.Unlock()
		e.viol("forward/unknown-packet", "a packet with timestamp %#x reached the gate of stream %d while writer %d has no such write in progress (timestamp changed, or forwarded outside the call)",
			h.Timestamp, g.st.idx, gid)
		return 0, nil
	}
	s.seen++
	if s.seen == 1 {
		if s.st != g.st {
			e.viol("forward/wrong-stream", "writer %d wrote on stream %d (ssrc %#x) but the packet reached the gate of stream %d", gid, s.st.idx, s.st.ssrc, g.st.idx)
		}
		s.num, s.hasNum = e.compare(s, h, payload)
	}
	yields, hold, inj := s.yields, s.hold, s.inject
	s.mu.Unlock()
	for i := 0; i < yields; i++ {
		runtime.Gosched()
	}
	if yields > 0 {
		e.gateYields.Add(1)
	}
	if hold > 0 {
		// held inside the downstream Write until the other writers have performed `hold`
		// more clock ticks (or have all finished). Logical steps only.
		e.holds.Add(1)
		target := e.clk.Now() + hold
		for i := 0; i < e.holdMax && e.clk.Now() < target && e.running.Load() > 1; i++ {
			runtime.Gosched()
		}
	}
	if inj {
		return 0, errInjected
	}
	return h.MarshalSize() + len(payload), nil
}

func hdrString(h *rtp.Header) string {
	if h == nil {
		return "<nil>"
	}
	var sb strings.Builder
	fmt.Fprintf(&sb, "{V%d P=%v(%d) X=%v M=%v PT=%d seq=%d ts=%#x ssrc=%#x csrc=%v profile=%#04x ext=[", h.Version, h.Padding, h.PaddingSize,
		h.Extension, h.Marker, h.PayloadType, h.SequenceNumber, h.Timestamp, h.SSRC, h.CSRC, h.ExtensionProfile)
	for i, id := range h.GetExtensionIDs() {
		if i > 0 {
			sb.WriteString(" ")
		}
		p := h.GetExtension(id)
		if len(p) > 8 {
			fmt.Fprintf(&sb, "%d:%x..(%d)", id, p[:8], len(p))
		} else {
			fmt.Fprintf(&sb, "%d:%x", id, p)
		}
	}
	sb.WriteString("]}")
	return sb.String()
}

// compare decides one packet at the gate against the pristine pre-call header/payload.
func (e *env) compare(s *slot, h *rtp.Header, payload []byte) (uint16, bool) {
	e.compared.Add(1)
	pre, st := s.pre, s.st
	pfx := "header/changed/"
	if !st.negotiated {
		pfx = "passthrough/header-changed/"
	}
	bad := func(sig, what string) {
		e.viol(sig, "stream %d (negotiated=%v id=%d) %s\n before: %s\n  after: %s", st.idx, st.negotiated, st.id, what, hdrString(pre), hdrString(h))
	}
	switch {
	case h.Version != pre.Version:
		bad(pfx+"version", "version changed")
	case h.Padding != pre.Padding || h.PaddingSize != pre.PaddingSize:
		bad(pfx+"padding", "padding changed")
	case h.Marker != pre.Marker:
		bad(pfx+"marker", "marker changed")
	case h.PayloadType != pre.PayloadType:
		bad(pfx+"payload-type", "payload type changed")
	case h.SequenceNumber != pre.SequenceNumber:
		bad(pfx+"sequence-number", "RTP sequence number changed")
	case h.SSRC != pre.SSRC:
		bad(pfx+"ssrc", "SSRC changed")
	}
	if len(h.CSRC) != len(pre.CSRC) {
		bad(pfx+"csrc", "CSRC list changed")
	} else {
		for i := range h.CSRC {
			if h.CSRC[i] != pre.CSRC[i] {
				bad(pfx+"csrc", "CSRC list changed")
				break
			}
		}
	}
	if len(payload) != len(s.pay) || !bytes.Equal(payload, s.pay) {
		sig := "payload/changed"
		if !st.negotiated {
			sig = "passthrough/payload-changed"
		}
		e.viol(sig, "stream %d: payload at the gate differs from the payload written: len %d -> %d, first difference at %d",
			st.idx, len(s.pay), len(payload), firstDiff(s.pay, payload))
	}

	ids := h.GetExtensionIDs()
	if !st.negotiated {
		if h.Extension != pre.Extension || h.ExtensionProfile != pre.ExtensionProfile {
			if h.Extension && !pre.Extension {
				bad("passthrough/extension-added", "a stream that did not negotiate transport-cc got an extension")
			} else {
				bad(pfx+"extension-flag-or-profile", "extension flag/profile changed")
			}
			return 0, false
		}
		if len(ids) != len(s.tm.otherIDs) {
			if len(ids) > len(s.tm.otherIDs) {
				bad("passthrough/extension-added", "a stream that did not negotiate transport-cc got an extension element")
			} else {
				bad(pfx+"extension-elements", "extension elements removed")
			}
			return 0, false
		}
		for i, id := range ids {
			if id != s.tm.otherIDs[i] || !bytes.Equal(h.GetExtension(id), s.tm.otherPay[i]) {
				bad(pfx+"extension-elements", "extension elements changed")
				break
			}
		}
		return 0, false
	}

	// negotiated stream
	if !h.Extension {
		bad("ext/missing", "packet left without the extension flag")
		return 0, false
	}
	if pre.Extension {
		if h.ExtensionProfile != pre.ExtensionProfile {
			bad(pfx+"extension-profile", "the existing extension profile changed")
		}
	} else if h.ExtensionProfile != rtp.ExtensionProfileOneByte && h.ExtensionProfile != rtp.ExtensionProfileTwoByte {
		bad("ext/profile-not-rfc8285", "header had no extension; the profile chosen is not an RFC 8285 one")
	}
	if h.ExtensionProfile != rtp.ExtensionProfileOneByte && h.ExtensionProfile != rtp.ExtensionProfileTwoByte {
		// an RFC 3550 generic block cannot carry the element whatever the element list says
		bad("ext/missing", "packet left with a profile that cannot carry the transport-cc element")
		return 0, false
	}
	nSame, j := 0, 0
	othersOK := true
	for _, id := range ids {
		if id == st.id {
			nSame++
			continue
		}
		if j >= len(s.tm.otherIDs) || id != s.tm.otherIDs[j] || !bytes.Equal(h.GetExtension(id), s.tm.otherPay[j]) {
			othersOK = false
		}
		j++
	}
	if !othersOK || j != len(s.tm.otherIDs) {
		bad(pfx+"other-extension-elements", "extension elements other than the negotiated id changed")
	}
	if nSame == 0 {
		bad("ext/missing", "packet left without an element at the negotiated id")
		return 0, false
	}
	if nSame > 1 {
		bad("ext/duplicated-id", "packet left with more than one element at the negotiated id")
	}
	p := h.GetExtension(st.id)
	if len(p) != 2 {
		bad("ext/payload-length", fmt.Sprintf("transport-cc element is %d bytes long, want 2", len(p)))
		return 0, false
	}
	num := binary.BigEndian.Uint16(p)

	// now and then: what would go on the wire really carries it
	if e.wireEvery > 0 && (s.key&(1<<idxBits-1))%e.wireEvery == 0 {
		e.wireChecks.Add(1)
		if got, ok, why := wireTWCC(h, st.id); !ok || got != num {
			bad("ext/wire-missing", fmt.Sprintf("marshalled header does not carry the element: %s (got %d ok=%v, header says %d)", why, got, ok, num))
		}
	}
	return num, true
}

func firstDiff(a, b []byte) int {
	n := min(len(a), len(b))
	for i := 0; i < n; i++ {
		if a[i] != b[i] {
			return i
		}
	}
	return n
}

// wireTWCC marshals the header and walks the RFC 8285 extension block by hand.
func wireTWCC(h *rtp.Header, id uint8) (uint16, bool, string) {
	buf, err := h.Marshal()
	if err != nil {
		return 0, false, "marshal: " + err.Error()
	}
	if len(buf) < 12 || buf[0]&0x10 == 0 {
		return 0, false, "X bit clear"
	}
	off := 12 + 4*int(buf[0]&0x0f)
	if len(buf) < off+4 {
		return 0, false, "short"
	}
	profile := binary.BigEndian.Uint16(buf[off:])
	words := int(binary.BigEndian.Uint16(buf[off+2:]))
	off += 4
	if len(buf) < off+4*words {
		return 0, false, "extension block longer than header"
	}
	blk := buf[off : off+4*words]
	for i := 0; i < len(blk); {
		if blk[i] == 0 {
			i++
			continue
		}
		var eid uint8
		var l int
		switch profile {
		case 0xBEDE:
			eid, l = blk[i]>>4, int(blk[i]&0x0f)+1
			i++
			if eid == 15 {
				return 0, false, "id 15 stops parsing"
			}
		case 0x1000:
			if i+1 >= len(blk) {
				return 0, false, "truncated two-byte element"
			}
			eid, l = blk[i], int(blk[i+1])
			i += 2
		default:
			return 0, false, fmt.Sprintf("profile %#04x", profile)
		}
		if i+l > len(blk) {
			return 0, false, "element overruns block"
		}
		if eid == id {
			if l != 2 {
				return 0, false, fmt.Sprintf("element length %d", l)
			}
			return binary.BigEndian.Uint16(blk[i:]), true, ""
		}
		i += l
	}
	return 0, false, "no element with the negotiated id"
}

// ---------------------------------------------------------------------------------
// records

const (
	fFwd = iota // negotiated stream, reached the gate with a number
	fRej        // negotiated stream, did not leave with a number (may or may not have consumed one)
	fNN         // non-negotiated stream
)

type rec struct {
	call, ret int64
	num       uint16
	gid       uint8
	st        uint8
	flag      uint8
}

type writer struct {
	gid     int
	r       *vf.Rand
	neg     []*stream
	nn      []*stream
	pNN     float64
	tm      map[int][]tmpl // by stream idx
	rejTm   map[int]*tmpl  // headers that cannot carry the element (negotiated streams only)
	pRej    float64
	pays    [][]byte       // pristine
	work    [][]byte       // handed to the library
	recs    []rec
	opIdx   uint32
	kinds   [nKinds]int64
	pNil    float64
	attrs   interceptor.Attributes
	canHold bool
}

// prepared is one write drawn from the writer's PRNG, ready to be executed.
type prepared struct {
	st    *stream
	tm    *tmpl
	pi    int
	idx   uint32
	key   uint32
	pre   rtp.Header  // pristine (shares slices with the template; never handed to the library)
	hdr   *rtp.Header // deep copy handed to the library (nil: nil-header write)
	yield int
	hold  int64
	inj   bool
	preY  bool
}

// prepare draws the next write.
func (w *writer) prepare(e *env, wantNeg, light bool) *prepared {
	r := w.r
	p := &prepared{}
	if !wantNeg && len(w.nn) > 0 && r.Chance(w.pNN) {
		p.st = w.nn[r.Intn(len(w.nn))]
	} else {
		p.st = w.neg[r.Intn(len(w.neg))]
	}
	tms := w.tm[p.st.idx]
	p.tm = &tms[r.Intn(len(tms))]
	if w.pRej > 0 && p.st.negotiated && r.Chance(w.pRej) {
		p.tm = w.rejTm[p.st.idx]
	}
	p.pi = r.Intn(len(w.pays))
	p.idx = w.opIdx
	w.opIdx++
	p.key = uint32(w.gid)<<idxBits | p.idx&(1<<idxBits-1)
	isNil := w.pNil > 0 && r.Chance(w.pNil)
	p.pre = p.tm.h
	p.pre.Timestamp = p.key ^ e.mask
	p.pre.SequenceNumber = uint16(p.idx*7 + uint32(w.gid))
	if !isNil {
		cl := p.pre.Clone()
		if e.sharedExt && p.st.negotiated && len(cl.GetExtension(p.st.id)) == 2 {
			// the caller's headers carry one shared placeholder under the transport-cc id (its own
			// memory, read-only to everybody else): the number must still be this packet's
			_ = cl.SetExtension(p.st.id, sharedPlaceholder)
		}
		p.hdr = &cl
		w.kinds[p.tm.kind]++
	} else {
		w.kinds[kNil]++
	}
	if light {
		return p
	}
	if r.Chance(e.pYieldGate) {
		p.yield = r.Range(1, 3)
	}
	if w.canHold && e.pHold > 0 && r.Chance(e.pHold) {
		p.hold = int64(r.Pick(4, 20, 100, 600, 6000))
	}
	if e.pInject > 0 && r.Chance(e.pInject) {
		p.inj = true
	}
	p.preY = r.Chance(e.pYieldPre)
	return p
}

// op performs one write; returns whether it was on a negotiated stream.
func (w *writer) op(e *env, wantNeg bool) bool {
	return w.exec(e, w.prepare(e, wantNeg, false))
}

// exec performs a prepared write and records it.
func (w *writer) exec(e *env, p *prepared) bool {
	st, tm, pi, idx, hdr := p.st, p.tm, p.pi, p.idx, p.hdr
	isNil := hdr == nil
	s := e.slots[w.gid]
	s.mu.Lock()
	s.active, s.key, s.st, s.pre, s.tm, s.pay = true, p.key, st, &p.pre, tm, w.pays[pi]
	s.seen, s.hasNum, s.num = 0, false, 0
	s.yields, s.hold, s.inject = p.yield, p.hold, p.inj
	s.mu.Unlock()
	if p.preY {
		runtime.Gosched()
	}

	call := e.clk.Tick()
	_, err := st.w.Write(hdr, w.work[pi], w.attrs)
	ret := e.clk.Tick()

	s.mu.Lock()
	seen, hasNum, num := s.seen, s.hasNum, s.num
	s.active = false
	s.mu.Unlock()
	if !bytes.Equal(w.work[pi], w.pays[pi]) {
		copy(w.work[pi], w.pays[pi]) // reported at the gate; keep later comparisons meaningful
	}

	rc := rec{call: call, ret: ret, gid: uint8(w.gid), st: uint8(st.idx)}
	where := func() string {
		return fmt.Sprintf("writer %d op %d stream %d (negotiated=%v id=%d) header %s -> err=%v, reached gate %d times", w.gid, idx, st.idx, st.negotiated, st.id, hdrString(hdr), err, seen)
	}
	switch {
	case !st.negotiated:
		rc.flag = fNN
		if !isNil && seen != 1 {
			e.viol("passthrough/not-forwarded-once", "%s", where())
		}
	case isNil:
		rc.flag = fRej
	case seen == 0:
		rc.flag = fRej
		if err == nil {
			e.viol("forward/dropped-silently", "write returned nil but nothing left: %s", where())
		} else if !tm.cantHold {
			e.viol("forward/valid-packet-rejected", "a header that can carry the element was refused: %s", where())
		}
	default:
		if seen > 1 {
			e.viol("forward/twice", "%s", where())
		}
		if hasNum {
			rc.flag, rc.num = fFwd, num
		} else {
			rc.flag = fRej // already reported at the gate (extension missing)
		}
	}
	w.recs = append(w.recs, rc)
	return st.negotiated
}

// ---------------------------------------------------------------------------------
// scenario construction

type opts struct {
	nStreams, nWriters     int
	allowReject, allowNil bool
	pReject               float64
	maxPayload             int
	smallPayloads          bool
	tmplPerStream          int
}

func newEnv(c *vf.Case, r *vf.Rand, o opts) (*env, []*writer, interceptor.Interceptor) {
	e := &env{c: c, mask: r.U32(), holdMax: 20000}
	if r.Chance(0.15) {
		e.mask = uint32(r.Pick(0, 0xffffffff))
	}
	factory, err := twcc.NewHeaderExtensionInterceptor()
	if err != nil {
		c.Violation("setup/factory", "NewHeaderExtensionInterceptor: %v", err)
		return nil, nil, nil
	}
	icpt, err := factory.NewInterceptor("c15")
	if err != nil || icpt == nil {
		c.Violation("setup/factory", "NewInterceptor: %v", err)
		return nil, nil, nil
	}
	if r.Chance(0.3) {
		e.sharedExt = true
		c.Add("histories_whose_headers_share_one_placeholder_element", 1)
	}
	if r.Chance(0.3) {
		// a second interceptor of the SAME factory (another peer connection of one API object)
		// sends during every concurrent epoch: the run of numbers belongs to an instance
		if sib, err := factory.NewInterceptor("c15-sibling"); err == nil && sib != nil {
			info := &interceptor.StreamInfo{ID: "sib", SSRC: r.U32(), RTPHeaderExtensions: []interceptor.RTPHeaderExtension{{URI: transportCCURI, ID: 3}}}
			e.sib = sib.BindLocalStream(info, interceptor.RTPWriterFunc(func(*rtp.Header, []byte, interceptor.Attributes) (int, error) { return 0, nil }))
			e.sibSSRC = info.SSRC
			c.Add("histories_with_a_sibling_interceptor_of_the_same_factory", 1)
		}
	}

	// streams: at least one negotiated
	negAt := r.Intn(o.nStreams)
	sameID := uint8(0)
	if r.Chance(0.3) {
		sameID = uint8(r.Range(1, 14)) // all negotiated streams share one id (the usual SDP)
	}
	for i := 0; i < o.nStreams; i++ {
		st := &stream{idx: i, ssrc: r.U32()}
		st.negotiated = i == negAt || r.Chance(0.7)
		others := []string{absSendTimeURI, sdesMidURI, audioLevelURI}
		var exts []interceptor.RTPHeaderExtension
		if st.negotiated {
			st.id = sameID
			if st.id == 0 {
				st.id = uint8(r.Pick(1, 14, r.Range(1, 14), r.Range(1, 14)))
			}
			used := map[int]bool{int(st.id): true}
			addOther := func() {
				id := r.Range(1, 14)
				if used[id] {
					return
				}
				used[id] = true
				exts = append(exts, interceptor.RTPHeaderExtension{URI: others[r.Intn(len(others))], ID: id})
			}
			for k := r.Intn(3); k > 0; k-- {
				addOther()
			}
			exts = append(exts, interceptor.RTPHeaderExtension{URI: transportCCURI, ID: int(st.id)})
			for k := r.Intn(3); k > 0; k-- {
				addOther()
			}
		} else {
			st.nnKind = r.Intn(4)
			switch st.nnKind {
			case 0: // nothing negotiated at all
			case 1: // other URIs only, possibly on an id another stream uses for transport-cc
				for k := r.Range(1, 3); k > 0; k-- {
					exts = append(exts, interceptor.RTPHeaderExtension{URI: others[r.Intn(len(others))], ID: r.Range(1, 14)})
				}
			case 2: // the URI with the invalid id 0
				exts = append(exts, interceptor.RTPHeaderExtension{URI: absSendTimeURI, ID: r.Range(1, 14)},
					interceptor.RTPHeaderExtension{URI: transportCCURI, ID: 0})
			default: // near-miss URIs with a valid id
				near := []string{
					"http://www.ietf.org/id/draft-holmer-rmcat-transport-wide-cc-extensions-02",
					"http://www.ietf.org/id/draft-holmer-rmcat-transport-wide-cc-extensions",
					"http://www.webrtc.org/experiments/rtp-hdrext/transport-wide-cc-02",
					transportCCURI + " ",
				}
				exts = append(exts, interceptor.RTPHeaderExtension{URI: near[r.Intn(len(near))], ID: r.Range(1, 14)})
			}
		}
		st.info = &interceptor.StreamInfo{ID: fmt.Sprintf("s%d", i), SSRC: st.ssrc, PayloadType: uint8(96 + i),
			MimeType: "video/VP8", ClockRate: 90000, RTPHeaderExtensions: exts}
		st.g = &gate{e: e, st: st}
		st.w = icpt.BindLocalStream(st.info, st.g)
		if st.w == nil {
			c.Violation("setup/bind", "BindLocalStream returned a nil writer for stream %d", i)
			return nil, nil, nil
		}
		e.streams = append(e.streams, st)
	}
	e.ff = &ffGate{id: uint8(r.Range(1, 14))}
	e.ffInfo = &interceptor.StreamInfo{ID: "ff", SSRC: r.U32(), RTPHeaderExtensions: []interceptor.RTPHeaderExtension{{URI: transportCCURI, ID: int(e.ff.id)}}}
	e.ffW = icpt.BindLocalStream(e.ffInfo, e.ff)
	e.ffHdr = rtp.Header{Version: 2, PayloadType: 111, SSRC: e.ffInfo.SSRC}
	var negs, nns []*stream
	for _, st := range e.streams {
		if st.negotiated {
			negs = append(negs, st)
		} else {
			nns = append(nns, st)
		}
	}

	// writers; one extra (the last) is the sequential writer used for quiescent phases
	mode := r.Intn(3) // 0 pinned (one writer per stream), 1 everybody writes everywhere, 2 mixed
	ws := make([]*writer, o.nWriters+1)
	for g := range ws {
		w := &writer{gid: g, r: r.Fork(), tm: map[int][]tmpl{}, rejTm: map[int]*tmpl{}}
		w.pNN = float64(r.Pick(5, 15, 30)) / 100
		if o.allowReject {
			w.pRej = o.pReject
		}
		pinned := mode == 0 || (mode == 2 && r.Bool())
		if pinned && g < o.nWriters {
			st := e.streams[g%len(e.streams)]
			if st.negotiated {
				w.neg = []*stream{st}
			} else {
				w.nn = []*stream{st}
				w.neg = []*stream{negs[r.Intn(len(negs))]}
			}
			if len(nns) > 0 && len(w.nn) == 0 && r.Chance(0.3) {
				w.nn = []*stream{nns[r.Intn(len(nns))]}
			}
		} else {
			w.neg, w.nn = negs, nns
		}
		if o.allowNil && r.Chance(0.5) {
			w.pNil = 0.02
		}
		if r.Chance(0.3) {
			w.attrs = interceptor.Attributes{}
		}
		for _, st := range append(append([]*stream{}, w.neg...), w.nn...) {
			n := o.tmplPerStream
			tms := make([]tmpl, 0, n)
			for k := 0; k < n; k++ {
				tms = append(tms, buildTmpl(w.r, st, false, k == 0))
			}
			w.tm[st.idx] = tms
			if st.negotiated && o.allowReject {
				t := buildTmpl(w.r, st, true, false)
				w.rejTm[st.idx] = &t
			}
		}
		np := r.Range(2, 6)
		for k := 0; k < np; k++ {
			var l int
			if o.smallPayloads && k > 0 {
				l = r.Pick(0, 1, 8, 20, r.Range(0, 64))
			} else {
				l = gen.PayloadLen(r, o.maxPayload)
			}
			p := gen.Payload(w.r, l, uint64(g)<<32|uint64(k))
			w.pays = append(w.pays, p)
			w.work = append(w.work, append(make([]byte, 0, l+r.Intn(8)), p...))
		}
		ws[g] = w
		e.slots = append(e.slots, &slot{})
	}
	ws[0].canHold = true
	return e, ws, icpt
}

// buildTmpl draws one pristine header for the stream.
func buildTmpl(r *vf.Rand, st *stream, reject, plain bool) tmpl {
	h := rtp.Header{Version: 2, Marker: r.Bool(), PayloadType: uint8(r.Intn(128)), SSRC: st.ssrc}
	if r.Chance(0.1) {
		h.SSRC = r.U32() // e.g. RTX written through the same stream
	}
	if r.Chance(0.3) {
		for n := r.Pick(1, 2, 15, r.Range(1, 15)); n > 0; n-- {
			h.CSRC = append(h.CSRC, r.U32())
		}
	}
	if r.Chance(0.2) {
		h.Padding = true
		h.PaddingSize = byte(r.Pick(1, 4, 255, r.Range(1, 255)))
	} else if r.Chance(0.05) {
		h.Padding = true // legacy form: count lives in the payload
	}
	t := tmpl{kind: kNone}
	avoid := st.id // 0 for non-negotiated streams: nothing to avoid
	oneByteOthers := func(n int) {
		h.Extension, h.ExtensionProfile = true, rtp.ExtensionProfileOneByte
		perm := r.Intn(14)
		for k := 0; k < 14 && n > 0; k++ {
			id := uint8((perm+k*5)%14 + 1) // 5 is coprime with 14: a permutation of 1..14
			if id == avoid {
				continue
			}
			_ = h.SetExtension(id, r.Bytes(r.Pick(1, 2, 3, 16, r.Range(1, 16))))
			n--
		}
	}
	twoByteOthers := func(n int) {
		h.Extension, h.ExtensionProfile = true, rtp.ExtensionProfileTwoByte
		used := map[uint8]bool{avoid: true, 0: true}
		for n > 0 {
			id := uint8(r.Pick(r.Range(1, 14), r.Range(15, 255), 255, 15))
			if used[id] {
				continue
			}
			used[id] = true
			_ = h.SetExtension(id, r.Bytes(r.Pick(0, 1, 2, 17, 40, 255, r.Range(0, 255))))
			n--
		}
	}
	sameID := func(pos int) {
		// an existing value at the negotiated id, at a chosen position in the element list
		val := r.Bytes(r.Pick(2, 2, 1, 3, 16, r.Range(1, 16)))
		if len(h.Extensions) == 0 || pos >= len(h.Extensions) {
			_ = h.SetExtension(st.id, val)
			return
		}
		// rebuild the list with the element inserted at pos
		ids := h.GetExtensionIDs()
		pays := make([][]byte, len(ids))
		for i, id := range ids {
			pays[i] = h.GetExtension(id)
		}
		h.Extensions = nil
		for i, id := range ids {
			if i == pos {
				_ = h.SetExtension(st.id, val)
			}
			_ = h.SetExtension(id, pays[i])
		}
	}
	shape := r.Intn(12)
	if plain {
		shape = 0
	}
	if reject {
		shape = 100
	}
	if !st.negotiated && r.Chance(0.15) {
		shape = 100 // a generic-profile header passes through an un-negotiated stream like any other
	}
	switch shape {
	case 0, 1, 2:
	case 3, 4:
		oneByteOthers(r.Range(1, 4))
		t.kind = kOneByteOthers
	case 5, 6:
		if st.negotiated {
			n := r.Range(0, 3)
			oneByteOthers(n)
			if n == 0 {
				h.Extension, h.ExtensionProfile = true, rtp.ExtensionProfileOneByte
			}
			sameID(r.Intn(n + 1))
			t.kind = kOneByteSameID
		} else {
			oneByteOthers(r.Range(1, 14))
			t.kind = kOneByteOthers
		}
	case 7:
		twoByteOthers(r.Range(1, 4))
		t.kind = kTwoByteOthers
	case 8, 9:
		if st.negotiated {
			n := r.Range(0, 3)
			twoByteOthers(n)
			if n == 0 {
				h.Extension, h.ExtensionProfile = true, rtp.ExtensionProfileTwoByte
			}
			sameID(r.Intn(n + 1))
			t.kind = kTwoByteSameID
		} else {
			twoByteOthers(r.Range(1, 5))
			t.kind = kTwoByteOthers
		}
	case 10:
		h.Extension = true
		h.ExtensionProfile = uint16(r.Pick(rtp.ExtensionProfileOneByte, rtp.ExtensionProfileTwoByte))
		t.kind = kEmptyExtBlock
	case 11:
		oneByteOthers(13)
		t.kind = kOneByteFull
	default:
		h.Extension = true
		h.ExtensionProfile = uint16(r.Pick(0x1234, 0xABAC, 0x0001, 0xBEDF, 0x1001))
		_ = h.SetExtension(0, r.Bytes(4*r.Range(0, 6)))
		t.kind = kGeneric
		t.cantHold = true
	}
	t.h = h
	for _, id := range h.GetExtensionIDs() {
		if st.negotiated && id == st.id {
			continue
		}
		t.otherIDs = append(t.otherIDs, id)
		t.otherPay = append(t.otherPay, append([]byte{}, h.GetExtension(id)...))
	}
	return t
}

// epoch runs the given writers concurrently: writer i performs quota[i] writes on
// negotiated streams (plus PRNG-chosen extra writes on non-negotiated ones).
func (e *env) epoch(ws []*writer, quota []int) {
	var wg sync.WaitGroup
	var ready, goFlag atomic.Int32
	e.running.Store(int64(len(ws)))
	if e.sib != nil {
		wg.Add(1)
		go func() {
			defer wg.Done()
			for k := 0; k < 60; k++ {
				h := rtp.Header{Version: 2, PayloadType: 100, SequenceNumber: uint16(k), SSRC: e.sibSSRC}
				_, _ = e.sib.Write(&h, []byte{1}, nil)
				runtime.Gosched()
			}
		}()
	}
	for i, w := range ws {
		wg.Add(1)
		go func(w *writer, n int) {
			defer wg.Done()
			defer e.running.Add(-1)
			ready.Add(1)
			for goFlag.Load() == 0 { // spin barrier: the first writes really start together
				runtime.Gosched()
			}
			for n > 0 {
				if w.op(e, false) {
					n--
				}
			}
		}(w, quota[i])
	}
	for int(ready.Load()) < len(ws) {
		runtime.Gosched()
	}
	goFlag.Store(1)
	wg.Wait()
	e.lastOK = false
}

// rebindAll unbinds every stream (quiescent phase) and binds each again with the same info and
// next writer.
func (e *env) rebindAll(icpt interceptor.Interceptor) {
	for _, st := range e.streams {
		icpt.UnbindLocalStream(st.info)
	}
	icpt.UnbindLocalStream(e.ffInfo)
	for _, st := range e.streams {
		st.w = icpt.BindLocalStream(st.info, st.g)
	}
	e.ffW = icpt.BindLocalStream(e.ffInfo, e.ff)
}

// sequential performs n negotiated writes from the calling goroutine (quiescent phase).
func (e *env) sequential(w *writer, n int) {
	e.running.Store(1)
	for n > 0 {
		if w.op(e, true) {
			n--
			last := &w.recs[len(w.recs)-1]
			e.lastOK, e.lastNum = last.flag == fFwd, last.num
		}
	}
}

// burst releases the writers from a spin barrier so that their first prepared writes
// really start together; the writes were drawn (and their headers cloned) beforehand.
func (e *env) burst(ws []*writer, preps [][]*prepared) {
	var wg sync.WaitGroup
	var ready, goFlag atomic.Int32
	e.running.Store(int64(len(ws)))
	for i, w := range ws {
		wg.Add(1)
		go func(w *writer, ps []*prepared) {
			defer wg.Done()
			defer e.running.Add(-1)
			ready.Add(1)
			for goFlag.Load() == 0 {
				runtime.Gosched()
			}
			for _, p := range ps {
				w.exec(e, p)
			}
		}(w, preps[i])
	}
	for int(ready.Load()) < len(ws) {
		runtime.Gosched()
	}
	goFlag.Store(1)
	wg.Wait()
	e.lastOK = false
}

func split(r *vf.Rand, total, parts int) []int {
	q := make([]int, parts)
	if parts == 1 {
		q[0] = total
		return q
	}
	switch r.Intn(3) {
	case 0: // even
		for i := range q {
			q[i] = total / parts
		}
		q[0] += total - (total/parts)*parts
	case 1: // one dominant writer
		big := total * r.Range(50, 90) / 100
		rest := total - big
		for i := 1; i < parts; i++ {
			q[i] = rest / (parts - 1)
		}
		used := 0
		for i := 1; i < parts; i++ {
			used += q[i]
		}
		q[0] = total - used
	default: // random weights
		w := make([]int, parts)
		sum := 0
		for i := range w {
			w[i] = r.Range(1, 100)
			sum += w[i]
		}
		used := 0
		for i := range q {
			q[i] = total * w[i] / sum
			used += q[i]
		}
		q[r.Intn(parts)] += total - used
	}
	return q
}

// ---------------------------------------------------------------------------------
// the oracle over the recorded history

type summary struct {
	fwd, rej, nn int
	wraps        int
	overlapping  int
	maxWindow    int
	switches     int
	start        int // start value of the run (informational)
	unused       int // places of the run no forwarded write got (allowed: <= rejected writes)
	fp           uint64
	decided      bool
}

func opString(b *rec) string {
	return fmt.Sprintf("writer %d stream %d [call %d, return %d] -> %d", b.gid, b.st, b.call, b.ret, b.num)
}

func analyze(e *env, recs []rec) summary {
	var sm summary
	var fw []*rec
	var starts, fins []int64
	for i := range recs {
		b := &recs[i]
		switch b.flag {
		case fFwd:
			fw = append(fw, b)
			starts = append(starts, b.call)
			fins = append(fins, b.ret)
		case fRej:
			sm.rej++
			starts = append(starts, b.call)
		default:
			sm.nn++
		}
	}
	sm.fwd = len(fw)
	n := len(fw)
	if n == 0 {
		return sm
	}

	// --- multiset clause (exact; only when no write was rejected)
	if sm.rej == 0 {
		counts := make([]int32, 65536)
		for _, b := range fw {
			counts[b.num]++
		}
		q, r := int32(n/65536), n%65536
		ok := true
		for v, cnt := range counts {
			hi := q + 1
			if r == 0 {
				hi = q
			}
			if cnt > hi {
				var who []string
				for _, b := range fw {
					if int(b.num) == v && len(who) < 6 {
						who = append(who, opString(b))
					}
				}
				e.viol("multiset/duplicate", "%d numbers were assigned by one instance; value %d was assigned %d times, a run of %d consecutive values mod 2^16 contains it at most %d times (non-negotiated writes: %d)\n  %s",
					n, v, cnt, n, hi, sm.nn, strings.Join(who, "\n  "))
				ok = false
				break
			}
		}
		if ok {
			for v, cnt := range counts {
				if cnt < q {
					e.viol("multiset/gap", "%d numbers were assigned by one instance; value %d was assigned %d times, a run of %d consecutive values mod 2^16 contains it at least %d times (non-negotiated writes: %d)",
						n, v, cnt, n, q, sm.nn)
					ok = false
					break
				}
			}
		}
		if ok && r > 0 {
			// the r values counted q+1 must be one cyclic run
			runs, first := 0, -1
			for v := 0; v < 65536; v++ {
				prev := counts[(v+65535)%65536]
				if counts[v] == q+1 && prev != q+1 {
					runs++
					if first < 0 {
						first = v
					}
				}
			}
			if runs != 1 {
				var edges []int
				for v := 0; v < 65536 && len(edges) < 8; v++ {
					if counts[v] == q+1 && counts[(v+65535)%65536] != q+1 {
						edges = append(edges, v)
					}
				}
				e.viol("multiset/not-one-run", "%d numbers assigned (q=%d full cycles + %d); the %d values assigned %d times form %d separate runs (starting at %v), not one run of consecutive values: there is a gap (non-negotiated writes: %d)",
					n, q, r, r, q+1, runs, edges, sm.nn)
			}
		}
	}

	// --- windows from real-time order
	sort.Slice(starts, func(i, j int) bool { return starts[i] < starts[j] })
	sort.Slice(fins, func(i, j int) bool { return fins[i] < fins[j] })
	lo := make([]int, n) // #forwarded writes returned before call(b)
	hi := make([]int, n) // #writes (forwarded or rejected) called before return(b), b included
	wide := false
	minRetIdx := 0
	for i, b := range fw {
		lo[i] = sort.Search(len(fins), func(k int) bool { return fins[k] >= b.call })
		hi[i] = sort.Search(len(starts), func(k int) bool { return starts[k] >= b.ret })
		if w := hi[i] - lo[i]; w > 1 {
			sm.overlapping++
			if w > sm.maxWindow {
				sm.maxWindow = w
			}
			if w >= 65536 {
				wide = true
			}
		}
		if b.ret < fw[minRetIdx].ret {
			minRetIdx = i
		}
	}
	if wide {
		e.c.Inconclusive("a write overlapped >= 65536 others: its 16-bit number cannot be unwrapped from real-time order; order clauses not decided")
		return sm
	}
	// candidate start values: the first write to return has index in [0, hi)
	b0 := fw[minRetIdx]
	var cands []uint16
	for k := lo[minRetIdx]; k < hi[minRetIdx]; k++ {
		cands = append(cands, b0.num-uint16(k))
	}
	fits := func(s uint16) int { // index of the first write outside its window, -1 if none
		for i, b := range fw {
			if int(b.num-s-uint16(lo[i])) >= hi[i]-lo[i] {
				return i
			}
		}
		return -1
	}
	var firstSig, firstDetail string
	fail := func(sig, format string, args ...any) {
		if firstSig == "" {
			firstSig, firstDetail = sig, fmt.Sprintf(format, args...)
		}
	}
	nmax := n + sm.rej
	ks := make([]int, n)
	byK := make([]int32, nmax)
	for _, s := range cands {
		if i := fits(s); i >= 0 {
			b := fw[i]
			fail("order/outside-realtime-window", "%s: %d forwarded writes had returned before its call and %d writes had been called before its return, so its index in the run is in [%d,%d), i.e. its number one of %d values from %d (run starting at %d, fixed by the first write to return: %s); it got %d",
				opString(b), lo[i], hi[i], lo[i], hi[i], hi[i]-lo[i], uint16(lo[i])+s, s, opString(b0), b.num)
			continue
		}
		// unwrap
		good := true
		for k := range byK {
			byK[k] = -1
		}
		maxk := 0
		for i, b := range fw {
			k := lo[i] + int(b.num-s-uint16(lo[i]))
			ks[i] = k
			if byK[k] >= 0 {
				fail("unwrap/duplicate", "two writes got the same place (index %d, value %d) in the run: %s and %s", k, b.num, opString(fw[byK[k]]), opString(b))
				good = false
				break
			}
			byK[k] = int32(i)
			if k > maxk {
				maxk = k
			}
		}
		if !good {
			continue
		}
		if missing := maxk + 1 - n; missing > sm.rej {
			gap := -1
			for k := 0; k <= maxk; k++ {
				if byK[k] < 0 {
					gap = k
					break
				}
			}
			fail("unwrap/gap", "%d forwarded writes span %d places of the run (start value %d); %d places are unused (first: index %d, value %d) but only %d writes were rejected", n, maxk+1, s, missing, gap, uint16(gap)+s, sm.rej)
			continue
		}
		// per goroutine: program order
		last := map[uint8]int{}
		lastIdx := map[uint8]int{}
		for i, b := range fw {
			if p, ok := last[b.gid]; ok && ks[i] <= p {
				fail("order/per-goroutine", "writer %d: %s was written after %s (same goroutine) but its place in the run is not later (%d <= %d)", b.gid, opString(b), opString(fw[lastIdx[b.gid]]), ks[i], p)
				good = false
				break
			}
			last[b.gid], lastIdx[b.gid] = ks[i], i
		}
		if !good {
			continue
		}
		// real-time order: sweep from the highest place down, keeping the earliest return above
		minRet, minRetOp := int64(1<<62), -1
		for k := maxk; k >= 0; k-- {
			i := byK[k]
			if i < 0 {
				continue
			}
			b := fw[i]
			if minRet < b.call {
				a := fw[minRetOp]
				fail("order/realtime", "%s returned before %s was called, yet its place in the run is later (%d > %d)", opString(a), opString(b), ks[minRetOp], k)
				good = false
				break
			}
			if b.ret < minRet {
				minRet, minRetOp = b.ret, int(i)
			}
		}
		if !good {
			continue
		}
		// consistent
		sm.decided = true
		sm.unused = maxk + 1 - n
		sm.start = int(s)
		sm.wraps = (maxk + int(s)) / 65536
		h := vf.NewHash()
		prev := -1
		gids := make([]byte, 0, maxk+1)
		for k := 0; k <= maxk; k++ {
			if i := byK[k]; i >= 0 {
				g := int(fw[i].gid)
				if g != prev && prev >= 0 {
					sm.switches++
				}
				prev = g
				gids = append(gids, fw[i].gid<<3|fw[i].st)
			} else {
				gids = append(gids, 0xff)
			}
		}
		sm.fp = h.Bytes(gids).Sum()
		return sm
	}
	if firstSig != "" {
		e.viol(firstSig, "(%d candidate start values tried) %s", len(cands), firstDetail)
	}
	return sm
}

// ---------------------------------------------------------------------------------
// porcupine cross-check

func porcupineModel() porcupine.Model {
	nm := porcupine.NondeterministicModel{
		Init: func() []interface{} { return []interface{}{-1} }, // start value not assumed
		Step: func(state, _ interface{}, output interface{}) []interface{} {
			s, o := state.(int), output.(int)
			if o < 0 { // rejected write: may or may not have consumed a number
				if s < 0 {
					return []interface{}{-1}
				}
				return []interface{}{s, (s + 1) & 0xffff}
			}
			if s < 0 || o == s {
				return []interface{}{(o + 1) & 0xffff}
			}
			return nil
		},
		Equal: func(a, b interface{}) bool { return a.(int) == b.(int) },
		Hash:  func(a interface{}) uint64 { return uint64(a.(int) + 7) },
	}
	return nm.ToModel()
}

var pcModel = porcupineModel()

// seenEpochFP de-duplicates porcupine history interleavings within this process.
var seenEpochFP = map[uint64]struct{}{}

func checkPorcupine(e *env, hist []rec) {
	ops := make([]porcupine.Operation, 0, len(hist))
	for i := range hist {
		b := &hist[i]
		out := -1
		switch b.flag {
		case fFwd:
			out = int(b.num)
		case fNN:
			continue
		}
		ops = append(ops, porcupine.Operation{ClientId: int(b.gid), Input: 0, Call: b.call, Output: out, Return: b.ret})
	}
	res := porcupine.CheckOperationsTimeout(pcModel, ops, 20*time.Second)
	switch res {
	case porcupine.Ok:
		e.c.Add("porcupine_histories_linearizable", 1)
	case porcupine.Unknown:
		e.c.Add("porcupine_histories_timeout", 1)
		e.c.Inconclusive("porcupine timed out on a history of %d operations", len(ops))
	default:
		e.c.Add("porcupine_histories_not_linearizable", 1)
		var sb strings.Builder
		sort.Slice(ops, func(i, j int) bool { return ops[i].Call < ops[j].Call })
		for i, o := range ops {
			if i >= 120 {
				fmt.Fprintf(&sb, " … (%d more)", len(ops)-i)
				break
			}
			fmt.Fprintf(&sb, " w%d[%d,%d]->%d", o.ClientId, o.Call, o.Return, o.Output)
		}
		e.viol("porcupine/not-linearizable", "history of %d writes is not linearizable w.r.t. fetch-and-increment mod 2^16 (unknown initial value; -1 = rejected write, may or may not consume):%s", len(ops), sb.String())
	}
	e.c.Add("porcupine_operations", int64(len(ops)))
	h := vf.NewHash()
	order := make([]int, len(hist))
	for i := range order {
		order[i] = i
	}
	sort.Slice(order, func(i, j int) bool { return hist[order[i]].call < hist[order[j]].call })
	for _, i := range order {
		h.Int(int(hist[i].gid)).Int(int(hist[i].num - hist[order[0]].num))
	}
	if _, ok := seenEpochFP[h.Sum()]; !ok {
		seenEpochFP[h.Sum()] = struct{}{}
		e.c.Add("porcupine_histories_distinct_interleavings", 1)
	}
}

// ---------------------------------------------------------------------------------
// case kinds

func (e *env) finish(kind string, ws []*writer, icpt interceptor.Interceptor, needWrap bool, extra map[string]any) {
	c := e.c
	for _, st := range e.streams {
		icpt.UnbindLocalStream(st.info)
	}
	icpt.UnbindLocalStream(e.ffInfo)
	if err := icpt.Close(); err != nil {
		e.viol("setup/close", "Close: %v", err)
	}
	e.cut(ws)
	var sm summary
	sm.decided = true
	nontrivial := false
	fph := vf.NewHash()
	for _, seg := range e.segments {
		s1 := analyze(e, seg)
		sm.fwd += s1.fwd
		sm.rej += s1.rej
		sm.nn += s1.nn
		sm.wraps += s1.wraps
		sm.overlapping += s1.overlapping
		sm.switches += s1.switches
		sm.unused += s1.unused
		sm.maxWindow = max(sm.maxWindow, s1.maxWindow)
		sm.decided = sm.decided && (s1.decided || s1.fwd == 0)
		c.Max("max_packets_in_one_run", int64(s1.fwd))
		if len(e.segments) == 1 {
			sm.start = s1.start
		}
		fph.U64(s1.fp)
		if s1.decided && s1.switches >= 2 && s1.overlapping >= 1 && (!needWrap || s1.wraps >= 1) {
			nontrivial = true
			if needWrap {
				c.Add("wraps_crossed_by_overlapping_writes", int64(s1.wraps))
			}
		}
	}
	sm.fp = fph.Sum()
	c.Add("monitored_runs_decided_separately", int64(len(e.segments)))
	c.Add("quiescent_fast_forward_writes_checked_consecutive", e.ff.n)
	for _, v := range e.viols {
		c.Violation(v.sig, "[%s] %s", kind, v.detail)
	}
	c.Add("runs_"+kind, 1)
	c.Add("packets_negotiated_forwarded_with_number", int64(sm.fwd))
	c.Add("packets_non_negotiated_passed_through", int64(sm.nn))
	c.Add("writes_rejected_or_without_number", int64(sm.rej))
	c.Add("numbers_consumed_by_rejected_writes", int64(sm.unused))
	c.Add("packets_compared_at_gate", e.compared.Load())
	c.Add("wire_level_extension_checks", e.wireChecks.Load())
	c.Add("wraps_observed", int64(sm.wraps))
	c.Add("writes_overlapping_another", int64(sm.overlapping))
	c.Add("gate_yields_inside_downstream_write", e.gateYields.Load())
	c.Add("gate_holds_inside_downstream_write", e.holds.Load())
	c.Add("goroutine_switches_in_number_order", int64(sm.switches))
	if sm.decided {
		c.Add("runs_order_decided", 1)
	}
	c.Max("max_concurrent_window", int64(sm.maxWindow))
	c.Max("max_writers", int64(len(ws)-1))
	var kinds [nKinds]int64
	for _, w := range ws {
		for k, v := range w.kinds {
			kinds[k] += v
		}
	}
	for k, v := range kinds {
		if v > 0 {
			c.Add("headers_"+kindNames[k], v)
		}
	}
	nneg := 0
	ids := map[uint8]bool{}
	for _, st := range e.streams {
		if st.negotiated {
			nneg++
			ids[st.id] = true
		}
	}
	if nneg < len(e.streams) {
		c.Add("runs_with_non_negotiated_streams", 1)
	}
	if len(ids) > 1 {
		c.Add("runs_with_different_ids_per_stream", 1)
	}
	if nontrivial {
		c.Nontrivial(sm.fp)
	}
	if c.WantSample() {
		var ss []string
		for _, st := range e.streams {
			if st.negotiated {
				ss = append(ss, fmt.Sprintf("s%d:id%d", st.idx, st.id))
			} else {
				ss = append(ss, fmt.Sprintf("s%d:not-negotiated(kind %d)", st.idx, st.nnKind))
			}
		}
		m := map[string]any{"kind": kind, "streams": ss, "writers": len(ws) - 1, "forwarded_with_number": sm.fwd,
			"non_negotiated": sm.nn, "rejected": sm.rej, "wraps": sm.wraps, "monitored_runs": len(e.segments),
			"overlapping_writes": sm.overlapping, "goroutine_switches_in_number_order": sm.switches,
			"max_window": sm.maxWindow, "gomaxprocs": runtime.GOMAXPROCS(0)}
		for k, v := range extra {
			m[k] = v
		}
		c.Sample(m)
	}
	c.Logf("case %d %s: %+v viols=%d", c.Idx, kind, sm, len(e.viols))
}

func gather(ws []*writer) []rec {
	n := 0
	for _, w := range ws {
		n += len(w.recs)
	}
	out := make([]rec, 0, n)
	for _, w := range ws {
		out = append(out, w.recs...)
	}
	return out
}

func setYields(e *env, r *vf.Rand, big bool) {
	e.pYieldGate = float64(r.Pick(0, 1, 5, 20, 50)) / 100
	e.pYieldPre = float64(r.Pick(0, 0, 2, 20)) / 100
	if big {
		e.pYieldGate = float64(r.Pick(0, 1, 3, 10)) / 100
		e.pYieldPre = float64(r.Pick(0, 0, 1, 5)) / 100
		if r.Chance(0.3) {
			e.pHold = 0.0005
		}
	} else if r.Chance(0.4) {
		e.pHold = float64(r.Pick(1, 5)) / 100
	}
	if r.Chance(0.25) {
		e.pInject = float64(r.Pick(1, 10)) / 100
	}
}

// runBig: one instance, 70 000..300 000 numbered packets so the counter wraps 1..4 times.
func runBig(c *vf.Case) {
	r := c.R
	o := opts{nStreams: r.Range(1, 6), nWriters: r.Pick(1, 2, 3, 4, 8, 16, r.Range(1, 16), r.Range(2, 16)),
		maxPayload: 1500, smallPayloads: true, tmplPerStream: r.Range(3, 6)}
	o.allowReject = r.Chance(0.25)
	o.pReject = float64(r.Pick(1, 5, 20)) / 100000
	e, ws, icpt := newEnv(c, r, o)
	if e == nil {
		return
	}
	e.wireEvery = 61
	setYields(e, r, true)
	total := r.Pick(70000, 131072, 200000, r.Range(70000, 300000), r.Range(70000, 300000), r.Range(70000, 140000))
	// a short quiescent prefix, then everybody at once
	seq := ws[len(ws)-1]
	e.sequential(seq, r.Range(1, 3))
	quota := split(r, total, o.nWriters)
	for i, w := range ws[:o.nWriters] {
		w.recs = make([]rec, 0, quota[i]+quota[i]/3+16)
	}
	e.epoch(ws[:o.nWriters], quota)
	e.sequential(seq, r.Range(1, 3))
	e.finish("big", ws, icpt, true, map[string]any{"target_packets": total})
}

// runMedium: 200..6000 packets with everything switched on.
func runMedium(c *vf.Case) {
	r := c.R
	o := opts{nStreams: r.Range(1, 6), nWriters: r.Pick(2, 3, 4, 8, 16, r.Range(1, 16)),
		maxPayload: 1500, tmplPerStream: r.Range(4, 10)}
	o.allowReject = r.Chance(0.4)
	o.allowNil = o.allowReject && r.Chance(0.5)
	o.pReject = float64(r.Pick(1, 3, 10)) / 100
	e, ws, icpt := newEnv(c, r, o)
	if e == nil {
		return
	}
	e.wireEvery = 1
	setYields(e, r, false)
	seq := ws[len(ws)-1]
	e.sequential(seq, 1)
	rounds := r.Range(1, 4)
	for k := 0; k < rounds; k++ {
		g := o.nWriters
		if k > 0 {
			g = r.Range(1, o.nWriters)
		}
		e.epoch(ws[:g], split(r, r.Range(200, 1500), g))
		if r.Bool() {
			e.sequential(seq, r.Range(1, 20))
		}
		if k+1 < rounds && r.Chance(0.4) {
			// track replacement between two epochs: every stream is unbound and bound again (same
			// next writers); the interceptor's one run of numbers goes on across it
			e.rebindAll(icpt)
			c.Add("histories_with_all_streams_unbound_and_bound_again", 1)
		}
	}
	e.finish("medium", ws, icpt, false, nil)
}

// runShort: one instance, many short concurrent histories (<= 8 goroutines x 40 writes),
// each preceded by a quiescent anchor write and handed to porcupine; the whole case
// history is also decided by analyze. Now and then the instance is fast-forwarded so
// that a history straddles the 16-bit wrap.
func runShort(c *vf.Case, epochs int) {
	r := c.R
	o := opts{nStreams: r.Range(1, 6), nWriters: r.Range(2, 8), maxPayload: 300, smallPayloads: true, tmplPerStream: r.Range(3, 8)}
	o.allowReject = r.Chance(0.3)
	o.allowNil = o.allowReject && r.Chance(0.3)
	o.pReject = float64(r.Pick(1, 3, 10)) / 100
	e, ws, icpt := newEnv(c, r, o)
	if e == nil {
		return
	}
	e.wireEvery = 1
	setYields(e, r, false)
	seq := ws[len(ws)-1]
	wrapAt := map[int]bool{}
	if r.Chance(0.5) {
		for k := r.Range(1, 3); k > 0; k-- {
			wrapAt[r.Intn(epochs)] = true
		}
	}
	straddled := 0
	for ep := 0; ep < epochs; ep++ {
		g := r.Range(2, o.nWriters)
		if r.Chance(0.1) {
			g = 1
		}
		quota := make([]int, g)
		tot := 0
		for i := range quota {
			quota[i] = r.Pick(1, 2, 5, 40, r.Range(1, 40), r.Range(1, 40))
			tot += quota[i]
		}
		if wrapAt[ep] {
			// bring the counter (quiescent, cheap, un-recorded) to just below 2^16 so that
			// this history crosses the wrap
			if e.seek(ws, uint16(65536-r.Range(1, tot))) {
				straddled++
			}
		}
		mark := make([]int, len(ws))
		for i, w := range ws {
			mark[i] = len(w.recs)
		}
		e.sequential(seq, 1) // the quiescent anchor
		e.epoch(ws[:g], quota)
		var hist []rec
		// the anchor is the last negotiated sequential write before the epoch
		for i := len(seq.recs) - 1; i >= mark[len(ws)-1]; i-- {
			if seq.recs[i].flag != fNN {
				hist = append(hist, seq.recs[i])
				break
			}
		}
		for i, w := range ws[:g] {
			hist = append(hist, w.recs[mark[i]:]...)
		}
		checkPorcupine(e, hist)
		if r.Chance(0.2) {
			e.sequential(seq, r.Range(1, 50))
		}
	}
	e.finish("short", ws, icpt, false, map[string]any{"porcupine_histories": epochs, "histories_straddling_wrap": straddled})
}

// runStorm aims the contention at the 16-bit wrap itself: the instance is fast-forwarded
// (quiescent) to a few numbers below 2^16, then 2..16 writers are released together from a
// spin barrier with a handful of pre-drawn writes each, so that the writes that take
// 65535, 0, 1 ... overlap. Each round is a monitored run of its own.
func runStorm(c *vf.Case, rounds int) {
	r := c.R
	o := opts{nStreams: r.Range(1, 4), nWriters: r.Pick(2, 3, 4, 4, 8, 16), maxPayload: 64, smallPayloads: true, tmplPerStream: r.Range(2, 5)}
	e, ws, icpt := newEnv(c, r, o)
	if e == nil {
		return
	}
	light := r.Chance(0.7) // no yields, no wire check: as much of each write as possible is library code
	if !light {
		e.wireEvery = 1
		setYields(e, r, false)
		e.pHold = 0
	}
	seq := ws[len(ws)-1]
	for k := 0; k < rounds; k++ {
		g := o.nWriters
		if r.Chance(0.3) {
			g = r.Range(2, o.nWriters)
		}
		preps := make([][]*prepared, g)
		tot := 0
		for i := 0; i < g; i++ {
			n := r.Pick(1, 2, 3, 6, r.Range(1, 10))
			tot += n
			for j := 0; j < n; j++ {
				preps[i] = append(preps[i], ws[i].prepare(e, true, light))
			}
		}
		// the burst starts d numbers below the wrap (one of them is the anchor)
		d := r.Pick(1, 2, r.Range(1, g+1), r.Range(1, tot))
		if !e.seek(ws, uint16(65536-d)) {
			continue
		}
		e.sequential(seq, 1)
		e.burst(ws[:g], preps)
		e.sequential(seq, 1)
	}
	e.finish("storm", ws, icpt, true, map[string]any{"rounds": rounds})
}
