// Package obs holds the instrumented boundary objects ("gates") that the harness hands
// to interceptors: recording RTP/RTCP writers, scripted RTP/RTCP readers, a logical
// clock. Every gate takes one mutex for its own state and stamps every event from one
// atomic logical clock, so the monitor can never be the race the detector reports.
package obs

import (
	"bytes"
	"errors"
	"fmt"
	"sync"
	"sync/atomic"
	"time"

	"github.com/pion/interceptor"
	"github.com/pion/rtcp"
	"github.com/pion/rtp"
)

// Clock is the logical clock shared by all gates of one scenario.
type Clock struct{ n atomic.Int64 }

// Tick returns the next stamp.
func (c *Clock) Tick() int64 { return c.n.Add(1) }

// Now returns the current stamp without advancing.
func (c *Clock) Now() int64 { return c.n.Load() }

// RTPEvent is one call of a downstream RTP writer.
type RTPEvent struct {
	Stamp     int64 // logical stamp at entry
	ExitStamp int64
	VTime     time.Time // time.Now() at entry (virtual inside a bubble)
	Header    rtp.Header
	Payload   []byte // copy at entry
	PayloadAtExit []byte // copy at exit (only when the gate held/yielded; nil otherwise)
	HeaderPtr *rtp.Header
	Attr      interceptor.Attributes
	Err       error
	N         int
	Stream    uint32 // SSRC of the stream the writer was bound for
}

// ErrInjected is the sentinel wrapped by every injected fault.
var ErrInjected = errors.New("verif: injected fault")

// InjErr is an injected error with an identity.
type InjErr struct{ ID int }

func (e *InjErr) Error() string { return fmt.Sprintf("verif: injected fault #%d", e.ID) }
func (e *InjErr) Unwrap() error { return ErrInjected }

// RTPGate is a recording downstream RTP writer.
type RTPGate struct {
	mu      sync.Mutex
	clk     *Clock
	Stream  uint32
	events  []RTPEvent
	calls   int
	FailAt  map[int]error // call index -> error to return
	Hook    func(call int, h *rtp.Header, payload []byte) // runs inside Write after recording entry (no gate lock held)
	NoCopy  bool                                        // do not copy payload (cheap counting mode)
	Count   atomic.Int64
	Bytes   atomic.Int64
	ReturnN func(h *rtp.Header, payload []byte) int
	// FailIf, when set, decides per packet whether the write fails (checked after FailAt).
	FailIf func(h *rtp.Header, payload []byte) error
}

// NewRTPGate creates a gate.
func NewRTPGate(clk *Clock, stream uint32) *RTPGate {
	return &RTPGate{clk: clk, Stream: stream, FailAt: map[int]error{}}
}

// Write implements interceptor.RTPWriter.
func (g *RTPGate) Write(h *rtp.Header, payload []byte, a interceptor.Attributes) (int, error) {
	g.Count.Add(1)
	g.Bytes.Add(int64(len(payload)))
	ev := RTPEvent{Stamp: g.clk.Tick(), VTime: time.Now(), HeaderPtr: h, Attr: a, Stream: g.Stream}
	if h != nil {
		ev.Header = h.Clone()
	}
	if !g.NoCopy {
		ev.Payload = append([]byte(nil), payload...)
		if payload == nil {
			ev.Payload = nil
		}
	}
	g.mu.Lock()
	call := g.calls
	g.calls++
	err := g.FailAt[call]
	hook := g.Hook
	failIf := g.FailIf
	g.mu.Unlock()
	if err == nil && failIf != nil {
		err = failIf(h, payload)
	}
	if hook != nil {
		hook(call, h, payload)
		if !g.NoCopy {
			ev.PayloadAtExit = append([]byte{}, payload...)
		}
	}
	n := 0
	if err == nil {
		if g.ReturnN != nil {
			n = g.ReturnN(h, payload)
		} else if h != nil {
			n = h.MarshalSize() + len(payload)
		}
	}
	ev.Err, ev.N = err, n
	ev.ExitStamp = g.clk.Tick()
	g.mu.Lock()
	g.events = append(g.events, ev)
	g.mu.Unlock()
	return n, err
}

// Events returns a snapshot of the recorded events (in completion order).
func (g *RTPGate) Events() []RTPEvent {
	g.mu.Lock()
	defer g.mu.Unlock()
	return append([]RTPEvent(nil), g.events...)
}

// Len is the number of completed calls.
func (g *RTPGate) Len() int {
	g.mu.Lock()
	defer g.mu.Unlock()
	return len(g.events)
}

// Calls is the number of calls started.
func (g *RTPGate) Calls() int {
	g.mu.Lock()
	defer g.mu.Unlock()
	return g.calls
}

// SetFail injects err at call index k.
func (g *RTPGate) SetFail(k int, err error) {
	g.mu.Lock()
	g.FailAt[k] = err
	g.mu.Unlock()
}

// SetHook installs the in-call hook.
func (g *RTPGate) SetHook(f func(call int, h *rtp.Header, payload []byte)) {
	g.mu.Lock()
	g.Hook = f
	g.mu.Unlock()
}

// Reset drops the recorded events.
func (g *RTPGate) Reset() {
	g.mu.Lock()
	g.events = nil
	g.mu.Unlock()
}

// RTCPEvent is one call of the downstream RTCP writer.
type RTCPEvent struct {
	Stamp int64
	VTime time.Time
	Pkts  []rtcp.Packet // the objects as passed
	Raw   [][]byte      // Marshal() of each packet at entry (nil entry if Marshal failed)
	MErr  []error
	Attr  interceptor.Attributes
	Err   error
}

// RTCPGate is a recording downstream RTCP writer.
type RTCPGate struct {
	mu     sync.Mutex
	clk    *Clock
	events []RTCPEvent
	calls  int
	FailAt map[int]error
	FailAll error
	Hook   func(call int, pkts []rtcp.Packet)
	Count  atomic.Int64
	// FailIf decides per batch whether the write fails.
	FailIf func(pkts []rtcp.Packet) error
	// Annotate makes the gate behave like a writer that stores something in the attributes it
	// is given (as Attributes.GetRTCPPackets-style caching does). AttrReused counts writes whose
	// attributes already carried the annotation of an EARLIER write: the map was shared.
	Annotate   bool
	AttrReused atomic.Int64
}

type annotationKey struct{}

// NewRTCPGate creates a gate.
func NewRTCPGate(clk *Clock) *RTCPGate { return &RTCPGate{clk: clk, FailAt: map[int]error{}} }

// Write implements interceptor.RTCPWriter.
func (g *RTCPGate) Write(pkts []rtcp.Packet, a interceptor.Attributes) (int, error) {
	g.Count.Add(1)
	if g.Annotate && a != nil {
		if a.Get(annotationKey{}) != nil {
			g.AttrReused.Add(1)
		}
		a.Set(annotationKey{}, g)
	}
	ev := RTCPEvent{Stamp: g.clk.Tick(), VTime: time.Now(), Pkts: append([]rtcp.Packet(nil), pkts...), Attr: a}
	n := 0
	for _, p := range pkts {
		if p == nil {
			ev.Raw = append(ev.Raw, nil)
			ev.MErr = append(ev.MErr, errors.New("nil packet"))
			continue
		}
		b, err := p.Marshal()
		ev.Raw = append(ev.Raw, b)
		ev.MErr = append(ev.MErr, err)
		n += len(b)
	}
	g.mu.Lock()
	call := g.calls
	g.calls++
	err := g.FailAt[call]
	if err == nil {
		err = g.FailAll
	}
	hook := g.Hook
	if err == nil && g.FailIf != nil {
		err = g.FailIf(pkts)
	}
	g.mu.Unlock()
	if hook != nil {
		hook(call, pkts)
	}
	ev.Err = err
	g.mu.Lock()
	g.events = append(g.events, ev)
	g.mu.Unlock()
	if err != nil {
		return 0, err
	}
	return n, nil
}

// ChangedAfterWrite re-marshals every packet object the gate was handed and compares with its
// wire form at the time of the Write: a writer may queue what it is given, so a packet that
// reads differently later was written into after it had been handed over. Returns a
// description of the first such packet, or "".
func (g *RTCPGate) ChangedAfterWrite() string {
	for _, ev := range g.Events() {
		for i, p := range ev.Pkts {
			if p == nil || i >= len(ev.Raw) || ev.MErr[i] != nil {
				continue
			}
			b, err := p.Marshal()
			if err != nil || !bytes.Equal(b, ev.Raw[i]) {
				return fmt.Sprintf("%T written at logical stamp %d as %x now marshals to %x (err %v)", p, ev.Stamp, ev.Raw[i], b, err)
			}
		}
	}
	return ""
}

// Events returns a snapshot.
func (g *RTCPGate) Events() []RTCPEvent {
	g.mu.Lock()
	defer g.mu.Unlock()
	return append([]RTCPEvent(nil), g.events...)
}

// Len is the number of completed calls.
func (g *RTCPGate) Len() int {
	g.mu.Lock()
	defer g.mu.Unlock()
	return len(g.events)
}

// SetFail injects err at call index k.
func (g *RTCPGate) SetFail(k int, err error) {
	g.mu.Lock()
	g.FailAt[k] = err
	g.mu.Unlock()
}

// SetFailAll makes every call fail (nil to stop).
func (g *RTCPGate) SetFailAll(err error) {
	g.mu.Lock()
	g.FailAll = err
	g.mu.Unlock()
}

// Reset drops recorded events.
func (g *RTCPGate) Reset() {
	g.mu.Lock()
	g.events = nil
	g.mu.Unlock()
}

// Feed is a scripted reader: each Read delivers the next queued item.
type Feed struct {
	mu    sync.Mutex
	clk   *Clock
	queue []FeedItem
	Reads []FeedRead
	// Stale, when set, fills the tail of the caller's buffer beyond n with this byte
	// (stale bytes from an earlier, longer packet).
	Stale *byte
	// NoLog disables the Reads record (long-running memory measurements).
	NoLog bool
}

// FeedItem is one scripted read result.
type FeedItem struct {
	Data []byte
	Err  error
	Attr interceptor.Attributes
	// NWithErr: a failing read still reports how many bytes it wrote into the buffer
	// (io.Reader style: n > 0 together with an error).
	NWithErr bool
}

// FeedRead records what the inner reader delivered.
type FeedRead struct {
	Stamp int64
	N     int
	Err   error
	Data  []byte
}

// ErrFeedEmpty is returned when nothing is queued.
var ErrFeedEmpty = errors.New("verif: feed empty")

// NewFeed creates an empty feed.
func NewFeed(clk *Clock) *Feed { return &Feed{clk: clk} }

// Push queues items.
func (f *Feed) Push(items ...FeedItem) {
	f.mu.Lock()
	f.queue = append(f.queue, items...)
	f.mu.Unlock()
}

// Read implements both interceptor.RTPReader and interceptor.RTCPReader.
func (f *Feed) Read(b []byte, a interceptor.Attributes) (int, interceptor.Attributes, error) {
	f.mu.Lock()
	defer f.mu.Unlock()
	stamp := f.clk.Tick()
	if len(f.queue) == 0 {
		if !f.NoLog {
			f.Reads = append(f.Reads, FeedRead{Stamp: stamp, Err: ErrFeedEmpty})
		}
		return 0, a, ErrFeedEmpty
	}
	it := f.queue[0]
	f.queue = f.queue[1:]
	if it.Attr != nil {
		if a == nil {
			a = it.Attr
		} else {
			for k, v := range it.Attr {
				a[k] = v
			}
		}
	}
	n := copy(b, it.Data)
	if f.Stale != nil {
		for i := n; i < len(b); i++ {
			b[i] = *f.Stale
		}
	}
	if !f.NoLog {
		f.Reads = append(f.Reads, FeedRead{Stamp: stamp, N: n, Err: it.Err, Data: append([]byte(nil), it.Data[:n]...)})
	}
	if it.Err != nil {
		// a failed read may still have scribbled the buffer (the "poison" packet)
		if it.NWithErr {
			return n, a, it.Err
		}
		return 0, a, it.Err
	}
	return n, a, nil
}

// Pending is the number of queued items.
func (f *Feed) Pending() int {
	f.mu.Lock()
	defer f.mu.Unlock()
	return len(f.queue)
}
