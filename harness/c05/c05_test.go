// C05 – TWCC feedback reports exactly what was received, in valid wire form.
//
// Monitor: the real twcc.Recorder (driven directly) and the real twcc.SenderInterceptor
// (driven inside a synctest bubble, feedback observed at the bound RTCP writer) are fed
// seeded hostile histories of (transport sequence number, arrival time) records
// interleaved with feedback builds. Every feedback packet is marshalled and decoded by an
// independent decoder of the draft-holmer wire format (decode() below works on the bytes
// only) and decided against a ground-truth model written from the property statement:
//
//   - "number" = the index an independent re-implementation of the unwrapping rule
//     (nearest to the previous result, floor at zero) assigns to the recorded 16-bit
//     inputs in record order; a feedback's 16-bit base is mapped to the index nearest
//     below-or-equal the highest recorded one.
//   - per number the model keeps the recorded arrivals with a three-valued held state:
//     an arrival is *possibly culled* once a later Record carried a time >= it+500 ms or
//     the number fell >= 2^15 behind the highest; otherwise it is *definitely held*.
//     "must" clauses only bind definitely-held arrivals, so legal culling never alarms.
//
// Case kinds (by case index): idx%12==11 -> SenderInterceptor in a bubble, else Recorder.
package c05

import (
	"bytes"
	"container/heap"
	"encoding/binary"
	"fmt"
	"strings"
	"sync"
	"testing"
	"time"

	"github.com/pion/interceptor"
	"github.com/pion/interceptor/pkg/twcc"
	"github.com/pion/interceptor/verif/gen"
	"github.com/pion/interceptor/verif/vf"
	"github.com/pion/rtcp"
	"github.com/pion/rtp"
)

const (
	refPeriodUS = int64(1<<24) * 64000 // 24-bit reference time in 64 ms units
	historyUS   = int64(500000)        // 500 ms history
	windowN     = int64(1 << 15)       // numbers held behind the highest
	tolUS       = int64(125)           // half a 250 us delta tick
	twccURI     = "http://www.ietf.org/id/draft-holmer-rmcat-transport-wide-cc-extensions-01"
)

func cases(tier string) int {
	if tier == "thorough" {
		return 100000
	}
	return 3000
}

func TestCheck(t *testing.T) {
	vf.Main(t, vf.Spec{Prop: "C05", Cases: cases, Run: run})
}

func run(c *vf.Case) {
	if c.Idx%12 == 11 {
		runInterceptor(c)
		return
	}
	runDirect(c)
}

// =====================================================================================
// Independent decoder of the transport-wide-cc feedback wire format (from the draft).
// =====================================================================================

type decoded struct {
	pad        bool
	declared   int // 4*(length+1) from the header bytes
	senderSSRC uint32
	mediaSSRC  uint32
	base       uint16
	count      uint16
	ref        uint32 // 24 bit
	fbCount    uint8
	chunkKinds []byte  // 'R' run length, '1' one-bit vector, '2' two-bit vector
	symbols    []uint8 // exactly count entries: 0 not received, 1 small delta, 2 large delta, 3 reserved
	deltas     []int64 // microseconds, one per received symbol
	nLarge     int
	nNeg       int
}

// decode parses one marshalled feedback packet. On a malformed packet it returns the
// failing clause (used as the signature suffix) and a description.
func decode(b []byte) (*decoded, string, string) {
	if len(b) < 20 || len(b)%4 != 0 {
		return nil, "short-or-unaligned", fmt.Sprintf("%d bytes", len(b))
	}
	d := &decoded{}
	if b[0]>>6 != 2 {
		return nil, "rtcp-version", fmt.Sprintf("first byte %#x", b[0])
	}
	d.pad = b[0]&0x20 != 0
	if b[0]&0x1f != 15 || b[1] != 205 {
		return nil, "fmt-or-type", fmt.Sprintf("FMT=%d PT=%d, want 15/205", b[0]&0x1f, b[1])
	}
	d.declared = 4 * (int(binary.BigEndian.Uint16(b[2:])) + 1)
	if d.declared != len(b) {
		return nil, "length-field", fmt.Sprintf("length field declares %d bytes, packet has %d", d.declared, len(b))
	}
	d.senderSSRC = binary.BigEndian.Uint32(b[4:])
	d.mediaSSRC = binary.BigEndian.Uint32(b[8:])
	d.base = binary.BigEndian.Uint16(b[12:])
	d.count = binary.BigEndian.Uint16(b[14:])
	d.ref = uint32(b[16])<<16 | uint32(b[17])<<8 | uint32(b[18])
	d.fbCount = b[19]
	if d.count == 0 {
		return nil, "zero-status-count", "packet status count is 0"
	}
	off := 20
	want := int(d.count)
	d.symbols = make([]uint8, 0, want)
	for len(d.symbols) < want {
		if off+2 > len(b) {
			return nil, "chunks-truncated", fmt.Sprintf("status count %d but chunks cover only %d statuses", want, len(d.symbols))
		}
		ch := binary.BigEndian.Uint16(b[off:])
		off += 2
		remaining := want - len(d.symbols)
		if ch&0x8000 == 0 { // run length chunk
			sym := uint8(ch >> 13 & 3)
			runLen := int(ch & 0x1fff)
			d.chunkKinds = append(d.chunkKinds, 'R')
			if runLen == 0 {
				return nil, "zero-run-length", fmt.Sprintf("chunk %d has run length 0", len(d.chunkKinds)-1)
			}
			if runLen > remaining {
				return nil, "status-surplus", fmt.Sprintf("run length %d exceeds the %d statuses left of status count %d", runLen, remaining, want)
			}
			for i := 0; i < runLen; i++ {
				d.symbols = append(d.symbols, sym)
			}
			continue
		}
		var syms [14]uint8
		n := 0
		if ch&0x4000 == 0 { // 14 one-bit symbols: 0 not received, 1 received (small delta)
			d.chunkKinds = append(d.chunkKinds, '1')
			n = 14
			for i := 0; i < 14; i++ {
				syms[i] = uint8(ch >> (13 - i) & 1)
			}
		} else { // 7 two-bit symbols
			d.chunkKinds = append(d.chunkKinds, '2')
			n = 7
			for i := 0; i < 7; i++ {
				syms[i] = uint8(ch >> (12 - 2*i) & 3)
			}
		}
		for i := 0; i < n; i++ {
			if i < remaining {
				d.symbols = append(d.symbols, syms[i])
			} else if syms[i] != 0 {
				return nil, "status-surplus", fmt.Sprintf("vector chunk %#04x carries a non-zero symbol beyond status count %d", ch, want)
			}
		}
	}
	for i, s := range d.symbols {
		switch s {
		case 1:
			if off+1 > len(b) {
				return nil, "deltas-truncated", fmt.Sprintf("no delta byte left for status %d", i)
			}
			d.deltas = append(d.deltas, int64(b[off])*250)
			off++
		case 2:
			if off+2 > len(b) {
				return nil, "deltas-truncated", fmt.Sprintf("no delta bytes left for status %d", i)
			}
			v := int64(int16(binary.BigEndian.Uint16(b[off:]))) * 250
			d.deltas = append(d.deltas, v)
			d.nLarge++
			if v < 0 {
				d.nNeg++
			}
			off += 2
		case 3:
			return nil, "reserved-symbol", fmt.Sprintf("status %d uses the reserved symbol 3", i)
		}
	}
	rem := len(b) - off
	if d.pad {
		if rem < 1 || rem > 3 || int(b[len(b)-1]) != rem {
			return nil, "padding", fmt.Sprintf("P bit set, %d bytes follow the last delta, last byte %d", rem, b[len(b)-1])
		}
	} else if rem != 0 {
		return nil, "trailing-bytes", fmt.Sprintf("P bit clear but %d bytes follow the last delta (more bytes than one delta per received status)", rem)
	}
	return d, "", ""
}

func (d *decoded) summary() string {
	recv := len(d.deltas)
	return fmt.Sprintf("fb=%d base=%d count=%d recv=%d ref=%d chunks=%s", d.fbCount, d.base, d.count, recv, d.ref, squeeze(d.chunkKinds))
}

// squeeze renders a chunk-kind sequence compactly (R R R 2 -> "R3 2").
func squeeze(k []byte) string {
	var sb strings.Builder
	for i := 0; i < len(k); {
		j := i
		for j < len(k) && k[j] == k[i] {
			j++
		}
		if sb.Len() > 0 {
			sb.WriteByte(' ')
		}
		sb.WriteByte(k[i])
		if j-i > 1 {
			fmt.Fprintf(&sb, "x%d", j-i)
		}
		i = j
		if sb.Len() > 120 {
			sb.WriteString(" …")
			break
		}
	}
	return sb.String()
}

// =====================================================================================
// Ground-truth model and oracle.
// =====================================================================================

type arrival struct {
	idx        int64
	seq        uint16
	t          int64
	rec        int
	timeCulled bool // a later Record carried a time >= t + 500 ms
	first      bool // no earlier arrival of this number could still be held when recorded => definitely stored
	reported   bool
}

type numState struct {
	cands []*arrival // arrivals that may be the one held (all but the last are possibly culled)
	dups  []int64    // times of arrivals recorded while an earlier one was definitely held
	gone  []int64    // times of arrivals the feedback legitimately declared not received
}

const pageSize = 1024

func (m *monitor) num(idx int64) *numState {
	pg := idx >> 10
	if !m.lastOK || pg != m.lastPg {
		m.lastPg, m.lastPtr, m.lastOK = pg, m.pages[pg], true
	}
	if m.lastPtr == nil {
		return nil
	}
	return m.lastPtr[idx&(pageSize-1)]
}

func (m *monitor) numCreate(idx int64) *numState {
	pg := idx >> 10
	p := m.pages[pg]
	if p == nil {
		p = new([pageSize]*numState)
		m.pages[pg] = p
	}
	m.lastPg, m.lastPtr, m.lastOK = pg, p, true
	st := p[idx&(pageSize-1)]
	if st == nil {
		st = &numState{}
		p[idx&(pageSize-1)] = st
	}
	return st
}

type arrHeap []*arrival

func (h arrHeap) Len() int            { return len(h) }
func (h arrHeap) Less(i, j int) bool  { return h[i].t < h[j].t }
func (h arrHeap) Swap(i, j int)       { h[i], h[j] = h[j], h[i] }
func (h *arrHeap) Push(x interface{}) { *h = append(*h, x.(*arrival)) }
func (h *arrHeap) Pop() interface{} {
	old := *h
	n := len(old)
	x := old[n-1]
	*h = old[:n-1]
	return x
}

type monitor struct {
	c    *vf.Case
	comp string // "recorder" | "sender-interceptor"

	uInit bool
	uLast int64

	highest int64
	pages   map[int64]*[pageSize]*numState // numbers are looked up in long consecutive runs
	lastPg  int64
	lastPtr *[pageSize]*numState
	lastOK  bool
	live    arrHeap
	pending []*arrival
	nRec    int
	nBuild  int
	lastFb  int

	dead bool // a violation was recorded; stop deciding this case

	events []string // recent history for witnesses

	fp         *vf.Hash
	nontrivial bool

	// evidence
	nPkts, nStatus, nRecv, nNotRecv, nLarge, nNeg                    int64
	nRL, nV1, nV2                                                    int64
	nSplit, nDup, nCandAfterCull, nExempt, nRereport, nGone, nGaps   int64
	nFloor, nFar, nRefWrap, nEmptyBuild, nTimeCulledHeldReport, nPad int64
	maxStatus, maxPkts                                               int64
}

func newMonitor(c *vf.Case, comp string) *monitor {
	return &monitor{c: c, comp: comp, highest: -1, pages: map[int64]*[pageSize]*numState{}, lastFb: -1, fp: vf.NewHash()}
}

func (m *monitor) logEvent(format string, args ...any) {
	if len(m.events) >= 400 {
		m.events = append(m.events[:0], m.events[200:]...)
	}
	m.events = append(m.events, fmt.Sprintf(format, args...))
}

func (m *monitor) tail(n int) string {
	ev := m.events
	pre := ""
	if len(ev) > n {
		pre = fmt.Sprintf("… (%d records, %d builds so far; last %d events)\n", m.nRec, m.nBuild, n)
		ev = ev[len(ev)-n:]
	}
	return pre + strings.Join(ev, "\n")
}

func (m *monitor) violation(sub, clause, format string, args ...any) {
	m.dead = true
	m.c.Violation(sub+"/"+m.comp+"/"+clause, "%s\n--- history (R=Record seq16 -> model index @ arrival us, B=build) ---\n%s",
		fmt.Sprintf(format, args...), m.tail(45))
}

// wouldTie tells whether recording x now would be exactly 2^15 away from the previous
// number (either unwrapping is legitimate then; the generators avoid it).
func (m *monitor) wouldTie(x uint16) bool {
	return m.uInit && uint16(x-uint16(m.uLast)) == 32768
}

func (m *monitor) unwrap(x uint16) int64 {
	if !m.uInit {
		m.uInit = true
		m.uLast = int64(x)
		return m.uLast
	}
	d := int64(uint16(x - uint16(m.uLast)))
	switch {
	case d < 32768:
		m.uLast += d
	case m.uLast+d-65536 >= 0:
		m.uLast += d - 65536
	default: // floor at zero: the backward candidate would be negative
		m.uLast += d
		m.nFloor++
	}
	return m.uLast
}

// held: the arrival is definitely still in the recorder's history. Only an arrival that
// was recorded while no earlier arrival of its number could still be held (a.first) is
// known to have been stored at all: one recorded while an earlier arrival was *possibly*
// culled may just as well have been dropped as a duplicate of it.
func (m *monitor) held(a *arrival) bool {
	return a.first && !a.timeCulled && m.highest-a.idx < windowN
}

// record feeds one Record(ssrc, seq, t) into the model (call it in the order the
// recorder sees the records).
func (m *monitor) record(seq uint16, t int64) {
	if m.dead {
		return
	}
	m.nRec++
	prev := m.uLast
	idx := m.unwrap(seq)
	if m.nRec > 1 && (idx-prev >= windowN || prev-idx >= windowN) {
		m.nFar++
	}
	for len(m.live) > 0 && m.live[0].t <= t-historyUS {
		heap.Pop(&m.live).(*arrival).timeCulled = true
	}
	st := m.numCreate(idx)
	for _, a := range st.cands {
		if m.held(a) {
			if len(st.dups) < 6 {
				st.dups = append(st.dups, t)
			}
			m.nDup++
			m.logEvent("R%d %d -> %d @%d (duplicate of held arrival @%d)", m.nRec, seq, idx, t, a.t)
			return
		}
	}
	a := &arrival{idx: idx, seq: seq, t: t, rec: m.nRec, first: len(st.cands) == 0}
	if !a.first {
		m.nCandAfterCull++
	}
	st.cands = append(st.cands, a)
	heap.Push(&m.live, a)
	if idx > m.highest {
		m.highest = idx
	}
	if a.first {
		m.pending = append(m.pending, a)
	}
	m.logEvent("R%d %d -> %d @%d", m.nRec, seq, idx, t)
}

func near(t, a int64) (bool, bool) {
	d := (t - a) % refPeriodUS
	if d < 0 {
		d += refPeriodUS
	}
	ok := d <= tolUS || d >= refPeriodUS-tolUS
	plain := t-a <= tolUS && a-t <= tolUS
	return ok, ok && !plain
}

func safeMarshal(p rtcp.Packet) (b []byte, err error, pan any) {
	defer func() {
		if r := recover(); r != nil {
			pan = r
		}
	}()
	b, err = p.Marshal()
	return
}

func safeUnmarshal(b []byte) (ps []rtcp.Packet, err error, pan any) {
	defer func() {
		if r := recover(); r != nil {
			pan = r
		}
	}()
	ps, err = rtcp.Unmarshal(b)
	return
}

func describePacket(tl *rtcp.TransportLayerCC) string {
	nl := 0
	for _, d := range tl.RecvDeltas {
		if d.Type == rtcp.TypeTCCPacketReceivedLargeDelta {
			nl++
		}
	}
	return fmt.Sprintf("struct{Length=%d Padding=%v base=%d count=%d ref=%d fb=%d chunks=%d deltas=%d (large %d)}",
		tl.Header.Length, tl.Header.Padding, tl.BaseSequenceNumber, tl.PacketStatusCount, tl.ReferenceTime, tl.FbPktCount,
		len(tl.PacketChunks), len(tl.RecvDeltas), nl)
}

// wire performs the wire-form checks of one packet and returns its decoding.
func (m *monitor) wire(p rtcp.Packet, k int) *decoded {
	tl, ok := p.(*rtcp.TransportLayerCC)
	if !ok {
		m.violation("wire", "not-a-twcc-packet", "packet %d of build %d is a %T", k, m.nBuild, p)
		return nil
	}
	b, err, pan := safeMarshal(tl)
	if declared := 4 * (int(tl.Header.Length) + 1); declared > 65535 && (pan != nil || err != nil || len(b) != declared) {
		// pion/rtcp computes the marshalled size in a uint16
		m.violation("wire", "packet-over-65535-bytes-not-marshallable",
			"packet %d of build %d declares Length=%d i.e. %d bytes (> 65535): Marshal gives %d bytes, err=%v, panic=%v\n%s",
			k, m.nBuild, tl.Header.Length, declared, len(b), err, pan, describePacket(tl))
		return nil
	}
	if pan != nil {
		m.violation("wire", "marshal-panics", "packet %d of build %d: Marshal panicked: %v\n%s", k, m.nBuild, pan, describePacket(tl))
		return nil
	}
	if err != nil {
		m.violation("wire", "marshal-error", "packet %d of build %d: Marshal: %v\n%s", k, m.nBuild, err, describePacket(tl))
		return nil
	}
	if want := 4 * (int(tl.Header.Length) + 1); len(b) != want {
		m.violation("wire", "marshal-length-differs-from-declared",
			"packet %d of build %d: header declares Length=%d i.e. %d bytes, Marshal produced %d bytes\n%s",
			k, m.nBuild, tl.Header.Length, want, len(b), describePacket(tl))
		return nil
	}
	ps, err, pan := safeUnmarshal(b)
	if pan != nil || err != nil || len(ps) != 1 {
		m.violation("wire", "does-not-parse-back", "packet %d of build %d: rtcp.Unmarshal of the %d marshalled bytes: err=%v panic=%v packets=%d\n%s",
			k, m.nBuild, len(b), err, pan, len(ps), describePacket(tl))
		return nil
	}
	back, ok := ps[0].(*rtcp.TransportLayerCC)
	if !ok {
		m.violation("wire", "does-not-parse-back", "packet %d of build %d parses back as %T", k, m.nBuild, ps[0])
		return nil
	}
	b2, err, pan := safeMarshal(back)
	if pan != nil || err != nil || !bytes.Equal(b, b2) {
		m.violation("wire", "roundtrip-differs", "packet %d of build %d: Marshal->Unmarshal->Marshal: err=%v panic=%v, %d vs %d bytes, first difference at byte %d\n%s",
			k, m.nBuild, err, pan, len(b), len(b2), firstDiff(b, b2), describePacket(tl))
		return nil
	}
	d, clause, detail := decode(b)
	if d == nil {
		m.violation("wire", clause, "packet %d of build %d: independent decoder: %s\n%s\nfirst bytes % x", k, m.nBuild, detail, describePacket(tl), b[:min(len(b), 48)])
		return nil
	}
	// the parsed-back structure must agree with the bytes (one delta per received status)
	recv := len(d.deltas)
	if len(tl.RecvDeltas) != recv || len(back.RecvDeltas) != recv {
		m.violation("wire", "delta-count", "packet %d of build %d: %d received statuses on the wire, built packet has %d RecvDeltas, parsed-back packet has %d\n%s",
			k, m.nBuild, recv, len(tl.RecvDeltas), len(back.RecvDeltas), describePacket(tl))
		return nil
	}
	if back.BaseSequenceNumber != d.base || back.PacketStatusCount != d.count || back.ReferenceTime != d.ref || back.FbPktCount != d.fbCount ||
		len(back.PacketChunks) != len(d.chunkKinds) {
		m.violation("wire", "parsed-fields-differ", "packet %d of build %d: parsed back %s, independent decoder %s", k, m.nBuild, describePacket(back), d.summary())
		return nil
	}
	for i, rd := range back.RecvDeltas {
		if rd.Delta != d.deltas[i] {
			m.violation("wire", "parsed-fields-differ", "packet %d of build %d: delta %d parsed back as %d us, independent decoder %d us", k, m.nBuild, i, rd.Delta, d.deltas[i])
			return nil
		}
	}
	if d.pad {
		m.nPad++
	}
	return d
}

func firstDiff(a, b []byte) int {
	for i := 0; i < len(a) && i < len(b); i++ {
		if a[i] != b[i] {
			return i
		}
	}
	return min(len(a), len(b))
}

// build decides one BuildFeedbackPacket result (nil/empty = no feedback produced).
func (m *monitor) build(pkts []rtcp.Packet) {
	if m.dead {
		return
	}
	m.nBuild++
	if len(pkts) == 0 {
		m.nEmptyBuild++
		if len(m.pending) > 0 {
			m.logEvent("B%d -> no packets", m.nBuild)
		}
		m.checkPending(nil, nil)
		return
	}
	if m.highest < 0 {
		m.violation("build", "feedback-without-records", "build %d produced %d packets before anything was recorded", m.nBuild, len(pkts))
		return
	}
	pend := map[int64]*arrival{}
	for _, a := range m.pending {
		pend[a.idx] = a
	}
	type rng struct{ lo, hi int64 }
	var ranges []rng
	m.fp.Int(-len(pkts))
	for k, p := range pkts {
		d := m.wire(p, k)
		if d == nil {
			return
		}
		m.nPkts++
		m.logEvent("B%d[%d/%d] %s", m.nBuild, k, len(pkts), d.summary())
		if m.lastFb >= 0 && d.fbCount != uint8(m.lastFb+1) {
			m.violation("counter", "not-plus-one", "packet %d of build %d carries feedback packet count %d, the previous feedback packet carried %d",
				k, m.nBuild, d.fbCount, m.lastFb)
			return
		}
		m.lastFb = int(d.fbCount)
		base := m.highest - int64(uint16(uint16(m.highest)-d.base))
		end := base + int64(d.count)
		if len(ranges) > 0 {
			prev := ranges[len(ranges)-1]
			if base < prev.hi {
				m.violation("ranges", "overlap-or-misordered", "build %d: packet %d covers numbers [%d,%d) but packet %d already covered [%d,%d)",
					m.nBuild, k, base, end, k-1, prev.lo, prev.hi)
				return
			}
			if base > prev.hi {
				m.nGaps++
				// "consecutive ranges": the one gap a correct recorder leaves is when it gives up
				// on numbers missing too long ago - the packet after the gap then starts with
				// 0x7FFE not-received statuses. A packet that starts right at (or near) its first
				// received number after a gap has dropped the losses in between.
				firstRecv := -1
				for i, sy := range d.symbols {
					if sy != 0 {
						firstRecv = i
						break
					}
				}
				if firstRecv >= 0 && firstRecv < 0x7FFE {
					m.violation("ranges", "not-consecutive", "build %d: packet %d ends at %d, packet %d starts at %d (%d numbers covered by no packet of the build) although its first received status is only %d after its base",
						m.nBuild, k-1, prev.hi, k, base, base-prev.hi, firstRecv)
					return
				}
				for idx := prev.hi; idx < base; idx++ {
					if st := m.num(idx); st != nil {
						for _, a := range st.cands {
							if m.held(a) {
								m.violation("ranges", "gap-skips-held-arrival",
									"build %d: packet %d ends at %d, packet %d starts at %d, but number %d (seq %d) has a held arrival @%d us in between",
									m.nBuild, k-1, prev.hi, k, base, idx, a.seq, a.t)
								return
							}
						}
					}
				}
			}
		}
		ranges = append(ranges, rng{base, end})

		// fingerprint / non-triviality
		kinds := map[byte]bool{}
		for _, ck := range d.chunkKinds {
			kinds[ck] = true
			switch ck {
			case 'R':
				m.nRL++
			case '1':
				m.nV1++
			default:
				m.nV2++
			}
		}
		m.fp.Bytes(d.chunkKinds)
		if len(kinds) >= 2 && d.nLarge > 0 {
			m.nontrivial = true
		}
		m.nLarge += int64(d.nLarge)
		m.nNeg += int64(d.nNeg)
		if int64(d.count) > m.maxStatus {
			m.maxStatus = int64(d.count)
		}

		t := int64(d.ref) * 64000
		di := 0
		for i, s := range d.symbols {
			idx := base + int64(i)
			m.nStatus++
			if s == 0 {
				m.nNotRecv++
				if !m.checkNotReceived(idx, k, i) {
					return
				}
				continue
			}
			t += d.deltas[di]
			if !m.checkReceived(idx, t, k, i, d, di, pend) {
				return
			}
			di++
			m.nRecv++
		}
	}
	if len(pkts) > 1 {
		m.nSplit++
		m.nontrivial = true
	}
	if int64(len(pkts)) > m.maxPkts {
		m.maxPkts = int64(len(pkts))
	}
	covered := func(idx int64) string {
		for k, r := range ranges {
			if idx >= r.lo && idx < r.hi {
				return fmt.Sprintf("inside the range [%d,%d) of packet %d but not marked received", r.lo, r.hi, k)
			}
		}
		var sb strings.Builder
		for _, r := range ranges {
			fmt.Fprintf(&sb, "[%d,%d) ", r.lo, r.hi)
		}
		return "outside every range of the build: " + sb.String()
	}
	m.checkPending(pend, covered)
}

func (m *monitor) checkNotReceived(idx int64, k, i int) bool {
	st := m.num(idx)
	if st == nil || len(st.cands) == 0 {
		return true
	}
	for _, a := range st.cands {
		if m.held(a) {
			m.violation("notrecv", "held-arrival",
				"build %d packet %d status %d marks number %d (seq %d) NOT received, but Record #%d stored its arrival @%d us; no later Record carried a time >= %d us and the highest number is %d (< %d+2^15), so it is still held",
				m.nBuild, k, i, idx, a.seq, a.rec, a.t, a.t+historyUS, m.highest, idx)
			return false
		}
	}
	// all arrivals were possibly culled and the feedback says they are gone: from now on a
	// new arrival of this number is a first-time arrival again.
	for _, a := range st.cands {
		if len(st.gone) < 6 {
			st.gone = append(st.gone, a.t)
		}
	}
	st.cands = nil
	st.dups = nil
	m.nGone++
	return true
}

func (m *monitor) checkReceived(idx, t int64, k, i int, d *decoded, di int, pend map[int64]*arrival) bool {
	st := m.num(idx)
	where := func() string {
		lo := max(0, di-3)
		return fmt.Sprintf("build %d packet %d (%s) status %d = number %d (seq %d), decoded arrival %d us (ref*64ms=%d, deltas[%d..%d]=%v)",
			m.nBuild, k, d.summary(), i, idx, uint16(idx), t, int64(d.ref)*64000, lo, di, d.deltas[lo:di+1])
	}
	if st == nil || len(st.cands) == 0 {
		if st != nil {
			for _, g := range st.gone {
				if ok, _ := near(t, g); ok {
					m.violation("recv", "resurrected-after-not-received", "%s: an earlier feedback declared this number not received after its arrival @%d us left the history, nothing was recorded for it since", where(), g)
					return false
				}
			}
		}
		m.violation("recv", "no-recorded-arrival", "%s is marked received, but no arrival was ever recorded for this number (highest recorded number %d)", where(), m.highest)
		return false
	}
	for _, a := range st.cands {
		if ok, wrapped := near(t, a.t); ok {
			if wrapped {
				m.nRefWrap++
			}
			if a.reported {
				m.nRereport++
			}
			if a.timeCulled {
				m.nTimeCulledHeldReport++
			}
			a.reported = true
			delete(pend, idx)
			return true
		}
	}
	var cand []string
	for _, a := range st.cands {
		cand = append(cand, fmt.Sprintf("@%d(Record #%d%s)", a.t, a.rec, map[bool]string{true: ", possibly culled", false: ", held"}[!m.held(a)]))
	}
	for _, dt := range st.dups {
		if ok, _ := near(t, dt); ok {
			m.violation("time", "later-duplicate-reported", "%s matches the duplicate arrival @%d us, but the first arrival still held is %s", where(), dt, strings.Join(cand, " "))
			return false
		}
	}
	m.violation("time", "decoded-arrival-off", "%s is more than 125 us (mod 2^24*64 ms) from every arrival that can be the first one still held: %s; later duplicates %v",
		where(), strings.Join(cand, " "), st.dups)
	return false
}

// checkPending: every first-time arrival recorded since the previous build must have been
// marked received by this build, unless its number fell out of the 2^15 window.
func (m *monitor) checkPending(pend map[int64]*arrival, covered func(int64) string) {
	for _, a := range m.pending {
		if pend != nil {
			if _, still := pend[a.idx]; !still {
				continue
			}
		}
		if m.highest-a.idx >= windowN {
			m.nExempt++
			continue
		}
		how := "the build produced no feedback packet"
		if covered != nil {
			how = covered(a.idx)
		}
		m.violation("coverage", "recorded-not-reported-by-next-build",
			"Record #%d stored the first arrival of number %d (seq %d) @%d us after the previous build; build %d does not report it: %s (highest number %d, so it is inside the 2^15 window)",
			a.rec, a.idx, a.seq, a.t, m.nBuild, how, m.highest)
		break
	}
	m.pending = m.pending[:0]
}

func (m *monitor) finish(kind string, extra map[string]any) {
	c := m.c
	c.Add("records_fed", int64(m.nRec))
	c.Add("builds", int64(m.nBuild))
	c.Add("builds_without_feedback", m.nEmptyBuild)
	c.Add("feedback_packets_decoded", m.nPkts)
	c.Add("statuses_checked", m.nStatus)
	c.Add("received_statuses_time_checked", m.nRecv)
	c.Add("not_received_statuses_checked", m.nNotRecv)
	c.Add("chunks_run_length", m.nRL)
	c.Add("chunks_one_bit_vector", m.nV1)
	c.Add("chunks_two_bit_vector", m.nV2)
	c.Add("large_deltas", m.nLarge)
	c.Add("negative_deltas", m.nNeg)
	c.Add("padded_packets", m.nPad)
	c.Add("split_builds", m.nSplit)
	c.Add("duplicates_of_held_arrival", m.nDup)
	c.Add("rearrivals_after_possible_cull", m.nCandAfterCull)
	c.Add("pending_exempt_fell_out_of_2^15_window", m.nExempt)
	c.Add("rereported_arrivals", m.nRereport)
	c.Add("reported_arrivals_older_than_500ms_history", m.nTimeCulledHeldReport)
	c.Add("numbers_declared_gone_after_cull", m.nGone)
	c.Add("range_gaps_without_held_arrival", m.nGaps)
	c.Add("unwrap_floor_at_zero", m.nFloor)
	c.Add("steps_beyond_2^15", m.nFar)
	c.Add("reference_time_wrap_matches", m.nRefWrap)
	c.Add("cases_"+kind, 1)
	c.Max("max_statuses_in_one_packet", m.maxStatus)
	c.Max("max_packets_in_one_build", m.maxPkts)
	if m.nontrivial && !m.dead {
		c.Nontrivial(m.fp.Sum())
	}
	if c.WantSample() {
		s := map[string]any{"kind": kind, "records": m.nRec, "builds": m.nBuild, "feedback_packets": m.nPkts,
			"statuses": m.nStatus, "large_deltas": m.nLarge, "split_builds": m.nSplit, "history_tail": m.events[max(0, len(m.events)-6):]}
		for k, v := range extra {
			s[k] = v
		}
		c.Sample(s)
	}
}

// =====================================================================================
// Workload generators shared by both drivers.
// =====================================================================================

var boundaryGaps = []int64{
	0, 1, 124, 125, 126, 249, 250, 251, 374, 375, 376,
	63749, 63750, 63751, 63874, 63875, 63876, 64000, 64001, 63999, 127999, 128000,
	100000, 250000, 499999, 500000, 500001, 750000, 1000000, 3000000,
	8191624, 8191625, 8191749, 8191750, 8191751, 8191874, 8191875, 8191876, 8192000, 8192125, 8200000,
	10000000, 20000000, 60000000, 600000000,
}

// clock produces arrival instants (microseconds) with hostile gaps.
type clock struct {
	r      *vf.Rand
	mode   int   // 0 dense, 1 mixed, 2 sparse
	pBack  float64
	now    int64
	maxGap int64
}

func (k *clock) gap() int64 {
	r := k.r
	dense := func() int64 {
		switch r.Intn(7) {
		case 0:
			return 0
		case 1:
			return int64(r.Range(1, 249))
		case 2:
			return int64(r.Pick(124, 125, 126, 249, 250, 251, 500))
		case 3:
			return int64(r.Range(1000, 5000))
		case 4:
			return int64(r.Range(0, 20000))
		case 5:
			return int64(r.Range(20000, 70000))
		default:
			return int64(r.Range(0, 1500))
		}
	}
	sparse := func() int64 {
		switch r.Intn(6) {
		case 0:
			return int64(r.Range(63000, 65000))
		case 1:
			return int64(r.Range(100000, 1000000))
		case 2:
			return int64(r.Range(499990, 500010))
		case 3:
			return int64(r.Range(1000000, 9000000))
		case 4:
			return int64(r.Range(8191000, 8192500))
		default:
			return boundaryGaps[r.Intn(len(boundaryGaps))]
		}
	}
	var g int64
	switch k.mode {
	case 0:
		g = dense()
		if r.Chance(0.01) {
			g = sparse()
		}
	case 1:
		if r.Chance(0.75) {
			g = dense()
		} else if r.Chance(0.5) {
			g = boundaryGaps[r.Intn(len(boundaryGaps))]
		} else {
			g = sparse()
		}
	default:
		if r.Chance(0.7) {
			g = sparse()
		} else {
			g = dense()
		}
	}
	if k.maxGap > 0 && g > k.maxGap {
		g = k.maxGap
	}
	return g
}

// next advances the clock and returns the arrival instant for the next record.
func (k *clock) next() int64 {
	r := k.r
	k.now += k.gap()
	if r.Chance(0.04) { // land on / next to a 64 ms reference boundary
		snapped := (k.now/64000+1)*64000 + int64(r.Pick(0, 1, 124, 125, 126, 249, 250, -1, -125, -126, -250))
		if snapped >= k.now && (k.maxGap == 0 || snapped-k.now <= k.maxGap) {
			k.now = snapped
		}
	}
	t := k.now
	if k.pBack > 0 && r.Chance(k.pBack) { // clock reading behind the previous one
		t -= int64(r.Pick(1, 200, 1000, 100000, 600000, 9000000, r.Range(1, 2000000)))
		if t < 0 {
			t = 0
		}
	}
	return t
}

// seqSource produces the 16-bit transport sequence numbers of a hostile history.
type seqSource struct {
	r        *vf.Rand
	arr      []int64
	pos      int
	offset   int64
	pSpecial float64
	emitted  []int64
}

func newSeqSource(r *vf.Rand, n int, pSpecial float64) *seqSource {
	start := gen.StartIndex(r)
	o := gen.RandomHistoryOpts(r, start, n)
	return &seqSource{r: r, arr: gen.Arrivals(r, o), pSpecial: pSpecial}
}

func (s *seqSource) done() bool { return s.pos >= len(s.arr) }

var farSteps = []int64{32767, 32768, 32769, 33000, 40000, 65535, 65536, 65537, 70000, 100000, 16384, 30000}

// next returns the next true index to deliver (may be a special: stale packet far behind,
// late duplicate, packet from before the stream's first number, far forward jump).
func (s *seqSource) next() int64 {
	r := s.r
	if s.pSpecial > 0 && len(s.emitted) > 0 && r.Chance(s.pSpecial) {
		switch r.Intn(5) {
		case 0: // stale packet far behind
			v := s.emitted[len(s.emitted)-1] - farSteps[r.Intn(len(farSteps))]
			s.emitted = append(s.emitted, v)
			return v
		case 1: // forward jump for the rest of the stream
			s.offset += farSteps[r.Intn(len(farSteps))]
		case 2: // late duplicate
			v := s.emitted[len(s.emitted)-1-r.Intn(min(len(s.emitted), 3000))]
			s.emitted = append(s.emitted, v)
			return v
		case 3: // before the first number of the stream
			v := s.emitted[0] - int64(r.Range(1, 200))
			s.emitted = append(s.emitted, v)
			return v
		default: // moderately old packet (re-expands the map after culling)
			v := s.emitted[len(s.emitted)-1] - int64(r.Range(1, 3000))
			s.emitted = append(s.emitted, v)
			return v
		}
	}
	v := s.arr[s.pos] + s.offset
	s.pos++
	s.emitted = append(s.emitted, v)
	return v
}

func baseTime(r *vf.Rand) int64 {
	switch r.Intn(10) {
	case 0, 1, 2:
		return 0
	case 3:
		return int64(r.Range(0, 1000))
	case 4:
		return int64(r.Range(0, 700000))
	case 5:
		return int64(r.U64() % uint64(3600*1000000))
	case 6: // just below the 24-bit reference-time wrap
		return refPeriodUS - int64(r.Range(1, 30000000))
	case 7:
		return refPeriodUS + int64(r.Range(-700000, 700000))
	case 8:
		return int64(r.Intn(4))*refPeriodUS + int64(r.U64()%uint64(refPeriodUS))
	default:
		return int64(r.Range(400000, 600000))
	}
}

// =====================================================================================
// (a) twcc.Recorder driven directly.
// =====================================================================================

func runDirect(c *vf.Case) {
	r := c.R
	m := newMonitor(c, "recorder")
	rec := twcc.NewRecorder(r.U32())

	fam := r.Intn(100)
	if fam < 1 {
		runHuge(c, m, rec)
		return
	}
	n := r.Range(20, 2000)
	pSpecial := r.Float() * 0.01
	kind := "recorder-history"
	switch {
	case fam < 16: // short and sharp: small witnesses, many specials
		n = r.Range(2, 40)
		pSpecial = 0.05 + r.Float()*0.25
		kind = "recorder-short"
	case fam < 24:
		n = r.Range(2, 200)
		pSpecial = r.Float() * 0.05
	case fam < 27 && c.Tier == "thorough":
		n = r.Pick(20000, 50000, 100000)
		kind = "recorder-long"
	}
	src := newSeqSource(r, n, pSpecial)
	clk := &clock{r: r, mode: r.Intn(3), now: baseTime(r)}
	if r.Chance(0.2) {
		clk.pBack = r.Float() * 0.2
	}
	pBuild := []float64{0.003, 0.02, 0.1, 0.3, 0.6}[r.Intn(5)]
	if n > 10000 {
		pBuild = []float64{0.0005, 0.003, 0.02}[r.Intn(3)]
	}
	ssrcs := []uint32{r.U32(), r.U32(), r.U32()}[:r.Pick(1, 1, 1, 2, 3)]

	doBuild := func() {
		m.build(rec.BuildFeedbackPacket())
	}
	if r.Chance(0.1) {
		doBuild() // before anything was recorded
	}
	var prevSeq uint16
	for !src.done() && !m.dead {
		seq := uint16(src.next())
		if m.wouldTie(seq) {
			seq++
		}
		if seq != prevSeq+1 && r.Chance(0.15) {
			// a loss burst (or a jump) directly followed by a pause long enough to split the
			// next build's report between two feedback packets at exactly this packet
			clk.now += int64(r.Pick(8191876, 8192000, 8200000, 9000000, 20000000))
		}
		prevSeq = seq
		t := clk.next()
		rec.Record(ssrcs[r.Intn(len(ssrcs))], seq, t)
		m.record(seq, t)
		if r.Chance(pBuild) {
			doBuild()
			if r.Chance(0.05) {
				doBuild()
			}
		}
	}
	doBuild()
	doBuild()
	m.finish(kind, map[string]any{"clock_mode": clk.mode, "p_build": pBuild, "p_special": pSpecial})
}

// runHuge: one build covering up to the whole 2^15 window, most statuses with large
// (two-byte, positive and negative) deltas: the biggest feedback packets the recorder can
// be asked for.
func runHuge(c *vf.Case, m *monitor, rec *twcc.Recorder) {
	r := c.R
	n := r.Range(24000, 33500)
	if r.Chance(0.3) {
		n = r.Range(32700, 32800)
	}
	g := r.Pick(2, 2, 3, 7, 8)
	start := int64(r.U16())
	sep := make([]int64, g)
	for j := range sep {
		sep[j] = int64(r.Pick(70000, 100000, 1000000, 300000, 64000))
	}
	ssrc := r.U32()
	t := baseTime(r)
	step := int64(r.Pick(0, 1, 10, 100))
	for j := 0; j < g && !m.dead; j++ {
		for i := int64(j); i < int64(n); i += int64(g) {
			seq := uint16(start + i)
			if m.wouldTie(seq) {
				continue
			}
			rec.Record(ssrc, seq, t)
			m.record(seq, t)
			t += step
		}
		t += sep[j]
	}
	m.build(rec.BuildFeedbackPacket())
	m.build(rec.BuildFeedbackPacket())
	m.finish("recorder-huge-build", map[string]any{"n": n, "passes": g})
}

// =====================================================================================
// (b) twcc.SenderInterceptor inside a synctest bubble.
// =====================================================================================

type written struct {
	at   time.Duration
	pkts []rtcp.Packet
}

type rtcpGate struct {
	mu    sync.Mutex
	start time.Time
	w     []written
}

func (g *rtcpGate) Write(pkts []rtcp.Packet, _ interceptor.Attributes) (int, error) {
	g.mu.Lock()
	g.w = append(g.w, written{at: time.Since(g.start), pkts: pkts})
	g.mu.Unlock()
	return 0, nil
}

type feeder struct{ cur []byte }

func (f *feeder) Read(b []byte, a interceptor.Attributes) (int, interceptor.Attributes, error) {
	return copy(b, f.cur), a, nil
}

func runInterceptor(c *vf.Case) {
	c.Bubble(func() { interceptorScenario(c) }, func(dump string) {
		// vf.Bubble compares runtime.NumGoroutine() before/after, which also counts e.g. the
		// finalizer goroutine while it runs: only a library goroutine is a real leftover.
		if !strings.Contains(dump, "github.com/pion/interceptor/pkg/") {
			c.Add("bubble_goroutine_count_false_positive", 1)
			return
		}
		c.Inconclusive("goroutines left in the bubble after Close:\n%s", dump)
	})
}

func interceptorScenario(c *vf.Case) {
	r := c.R
	m := newMonitor(c, "sender-interceptor")

	interval := time.Duration(r.Pick(5, 20, 100, 100, 250, 1000, 60000)) * time.Millisecond
	opts := []twcc.Option{}
	if interval != 100*time.Millisecond || r.Bool() {
		opts = append(opts, twcc.SendInterval(interval))
	}
	f, err := twcc.NewSenderInterceptor(opts...)
	if err != nil {
		c.Inconclusive("NewSenderInterceptor: %v", err)
		return
	}
	start := time.Now() // virtual: identical to the interceptor's startTime below
	icpt, err := f.NewInterceptor("c05")
	if err != nil {
		c.Inconclusive("NewInterceptor: %v", err)
		return
	}
	gate := &rtcpGate{start: start}
	icpt.BindRTCPWriter(gate)

	type stream struct {
		ssrc   uint32
		extID  uint8 // 0: TWCC not negotiated on this stream
		twoB   bool
		feed   *feeder
		reader interceptor.RTPReader
	}
	nStreams := r.Pick(1, 1, 2, 3)
	streams := make([]*stream, nStreams)
	for i := range streams {
		s := &stream{ssrc: r.U32(), feed: &feeder{}}
		s.twoB = r.Chance(0.3)
		if s.twoB {
			s.extID = uint8(r.Range(1, 255))
		} else {
			s.extID = uint8(r.Range(1, 14))
		}
		info := &interceptor.StreamInfo{SSRC: s.ssrc, RTPHeaderExtensions: []interceptor.RTPHeaderExtension{
			{URI: "urn:ietf:params:rtp-hdrext:sdes:mid", ID: int(s.extID)%14 + 1},
		}}
		negotiated := i == 0 || r.Chance(0.85)
		if negotiated {
			info.RTPHeaderExtensions = append(info.RTPHeaderExtensions, interceptor.RTPHeaderExtension{URI: twccURI, ID: int(s.extID)})
		}
		s.reader = icpt.BindRemoteStream(info, s.feed)
		if !negotiated {
			s.extID = 0
		}
		streams[i] = s
	}

	n := r.Range(5, 400)
	if r.Chance(0.2) {
		n = r.Range(2, 30)
	}
	src := newSeqSource(r, n, r.Float()*0.03)
	// gaps: at most ~3000 ticks per gap so that virtual ticks stay cheap
	clk := &clock{r: r, mode: r.Intn(3), maxGap: int64(interval/time.Microsecond) * 3000}
	first := baseTime(r) % (refPeriodUS + 2000000)
	if r.Chance(0.6) {
		first = int64(r.Range(0, 2000000))
	}
	clk.now = first

	var firstAt time.Duration // virtual instant of the first accepted packet: T0 of the ticker
	haveFirst := false
	lastTick := int64(0) // ticks 1..lastTick have been decided
	wIdx := 0
	tickBudget := int64(12000) // bound the number of virtual ticks per case
	buf := make([]byte, 1500)
	fed, ignored := 0, 0

	drain := func(now time.Duration) bool {
		if !haveFirst {
			return true
		}
		for {
			tk := firstAt + time.Duration(lastTick+1)*interval
			if tk >= now {
				break
			}
			lastTick++
			var pk []rtcp.Packet
			gate.mu.Lock()
			if wIdx < len(gate.w) && gate.w[wIdx].at == tk {
				pk = gate.w[wIdx].pkts
				wIdx++
			} else if wIdx < len(gate.w) && gate.w[wIdx].at < tk {
				at := gate.w[wIdx].at
				gate.mu.Unlock()
				c.Inconclusive("RTCP written at virtual %v which is not a tick instant (T0=%v interval=%v)", at, firstAt, interval)
				return false
			}
			gate.mu.Unlock()
			m.build(pk)
			if m.dead {
				return false
			}
		}
		return true
	}

	sleepTo := func(at time.Duration) {
		if d := at - time.Since(start); d > 0 {
			time.Sleep(d)
		}
	}

	ok := true
	for !src.done() && !m.dead && ok {
		seq := uint16(src.next())
		prev := clk.now
		us := clk.next()
		if us < prev {
			us = prev
		}
		if gapTicks := (us - prev) / int64(interval/time.Microsecond); gapTicks > 0 {
			if gapTicks > tickBudget {
				us = prev + int64(r.Range(0, 2000))
			} else {
				tickBudget -= gapTicks
			}
		}
		clk.now = us
		// sub-microsecond phase: first packet at +250 ns, all later ones at +750 ns, so that
		// no arrival instant coincides with a tick instant T0 + k*interval.
		at := time.Duration(us)*time.Microsecond + 750
		if !haveFirst {
			at = time.Duration(us)*time.Microsecond + 250
		}
		sleepTo(at)
		now := time.Since(start)
		if !drain(now) {
			ok = false
			break
		}
		s := streams[r.Intn(len(streams))]
		malformed := false
		withExt := s.extID != 0 && !r.Chance(0.05)
		if withExt && m.wouldTie(seq) {
			seq++
		}
		// build the RTP packet
		shape := gen.RandomShape(r)
		if shape.ExtKind == 3 {
			shape.ExtKind = 0
		}
		if s.twoB {
			if shape.ExtKind == 1 {
				shape.ExtKind = 2
			}
		} else if shape.ExtKind == 2 {
			shape.ExtKind = 1
		}
		shape.Padding = 0
		avoid := s.extID
		h := gen.Header(r, shape, s.ssrc, uint8(r.Range(96, 127)), r.U16(), r.U32(), avoid)
		if withExt || (s.extID == 0 && r.Bool()) {
			if !h.Extension {
				h.Extension = true
				h.ExtensionProfile = rtp.ExtensionProfileOneByte
				if s.twoB {
					h.ExtensionProfile = rtp.ExtensionProfileTwoByte
				}
			}
			id := s.extID
			if id == 0 {
				id = 5
			}
			ext, _ := (&rtp.TransportCCExtension{TransportSequence: seq}).Marshal()
			if malformed = withExt && r.Chance(0.03); malformed {
				ext = ext[:1] // an element too short to hold a transport-wide number: nothing to record
			}
			if err := h.SetExtension(id, ext); err != nil {
				c.Inconclusive("SetExtension(%d): %v", id, err)
				ok = false
				break
			}
		}
		pkt := rtp.Packet{Header: h, Payload: gen.Payload(r, gen.PayloadLen(r, 1200), uint64(fed))}
		raw, err := pkt.Marshal()
		if err != nil || len(raw) > len(buf) {
			// oversized / unmarshalable generator output: feed a plain packet instead
			pkt.Payload = pkt.Payload[:min(len(pkt.Payload), 100)]
			raw, err = pkt.Marshal()
			if err != nil {
				c.Inconclusive("rtp marshal: %v", err)
				ok = false
				break
			}
		}
		s.feed.cur = raw
		var attr interceptor.Attributes
		if r.Bool() {
			attr = interceptor.Attributes{}
		}
		nRead, _, err := s.reader.Read(buf, attr)
		if malformed {
			// rejected with an error or passed through, but never recorded
			c.Add("packets_with_malformed_transport_cc_element", 1)
			ignored++
			continue
		}
		if err != nil || nRead != len(raw) {
			c.Inconclusive("bound reader returned n=%d err=%v for a %d byte packet", nRead, err, len(raw))
			ok = false
			break
		}
		if time.Since(start) != now {
			c.Inconclusive("virtual time moved during Read")
			ok = false
			break
		}
		if withExt {
			if !haveFirst {
				haveFirst = true
				firstAt = now
			}
			fed++
			m.record(seq, int64(now/time.Microsecond))
		} else {
			ignored++
		}
	}
	if ok && !m.dead && haveFirst {
		// let the remaining ticks happen: everything recorded must be reported
		end := time.Since(start) + 2*interval + time.Microsecond
		sleepTo(end)
		drain(time.Since(start))
	}
	if err := icpt.Close(); err != nil {
		c.Inconclusive("Close: %v", err)
	}
	if ok && !m.dead {
		gate.mu.Lock()
		left := len(gate.w) - wIdx
		gate.mu.Unlock()
		if left != 0 {
			c.Inconclusive("%d RTCP writes were not matched to a tick instant", left)
		}
	}
	c.Add("interceptor_rtp_without_negotiated_twcc_ext", int64(ignored))
	c.Add("interceptor_ticks_decided", lastTick)
	m.finish("sender-interceptor", map[string]any{"interval_ms": int64(interval / time.Millisecond), "streams": nStreams, "first_arrival_us": first})
}
