// C14 – FlexFEC-03 repair packets recover any single loss in their group.
//
// Monitor: the real flexfec.FlexEncoder03 (EncodeFec) and the real FecInterceptor are
// driven with generated batches of consecutive media packets; every repair packet that
// comes out is decided by an INDEPENDENT decoder written from the FlexFEC-03 draft
// (draft-ietf-payload-flexible-fec-scheme-03, flexible-mask single-SSRC form) that works
// on wire bytes only (never on the library's decoder, coverage tables or iterators):
//
//	 0                   1                   2                   3
//	 0 1 2 3 4 5 6 7 8 9 0 1 2 3 4 5 6 7 8 9 0 1 2 3 4 5 6 7 8 9 0 1
//	|R|F|P|X|  CC   |M| PT recovery |        length recovery        |
//	|                          TS recovery                          |
//	|   SSRCCount   |                    reserved                   |
//	|                             SSRC_i                            |
//	|           SN base_i           |k|          Mask [0-14]        |
//	|k|                   Mask [15-45] (optional)                   |
//	|k|                   Mask [46-108] (optional, 64 bit)          |
//	|  repair payload = XOR of everything after the 12-byte header  |
//
// Sub-oracles (signature prefixes):
//
//	repair/...      RTP header of a repair packet (FEC SSRC, PT, sequence +1 mod 2^16), FEC header parseable
//	mask/...        the mask names exactly the packets that were combined (zero residue)
//	recover/...     XOR of the repair packet with all-but-one masked packets == Marshal() of the missing one
//	coverage/...    every media packet of a batch with n>=1 is in at least one mask
//	media/..., passthrough/...   media first, unmodified (EncodeFec must not touch its input;
//	                through the interceptor the media packet reaches the writer before the repair packets)
//
// Case kinds (by case index): G = exhaustive (k,n) grid; M = sampled multi-batch histories
// through one encoder (1..50 batches, (k,n) changing); I = FecInterceptor streams;
// W = long run that wraps the repair sequence number.
package c14

import (
	"errors"
	"bytes"
	"crypto/subtle"
	"encoding/binary"
	"encoding/hex"
	"fmt"
	"strings"
	"testing"

	"github.com/pion/interceptor"
	"github.com/pion/interceptor/pkg/flexfec"
	"github.com/pion/rtp"

	"github.com/pion/interceptor/verif/gen"
	"github.com/pion/interceptor/verif/vf"
)

const (
	maxK       = 110 // statement quantifier: 1..110 media packets
	maxN       = 110 // statement quantifier: 0..110 FEC packets
	maskBits03 = 109 // the -03 flexible mask has 15+31+63 = 109 bits (indices 0..108)
)

type tierPlan struct{ nG, nM, nI, nW, nChunk int }

func plan(tier string) tierPlan {
	if tier == "thorough" {
		// G: 110 values of k x 3 chunks of 37 values of n = all 110x111 (k,n) pairs
		return tierPlan{nG: 110 * 3, nM: 400000, nI: 50000, nW: 64, nChunk: 3}
	}
	// G: k = 1..20, each with n = 0..6
	return tierPlan{nG: 20, nM: 4800, nI: 1200, nW: 2, nChunk: 1}
}

func cases(tier string) int {
	p := plan(tier)
	return p.nG + p.nM + p.nI + p.nW
}

func TestCheck(t *testing.T) {
	vf.Main(t, vf.Spec{Prop: "C14", Cases: cases, Run: run})
}

func run(c *vf.Case) {
	p := plan(c.Tier)
	// Deterministic start state of the library's global scratch-buffer pool: another
	// stream's encoder has marshalled a full-size packet before (see dirtyPool).
	dirtyPool(c.R.Fork())
	x := newCtx(c)
	switch {
	case c.Idx < p.nG:
		runGrid(x, p)
	case c.Idx < p.nG+p.nM:
		runMulti(x)
	case c.Idx < p.nG+p.nM+p.nI:
		runInterceptor(x)
	default:
		runSeqWrap(x)
	}
	x.finish()
}

// dirtyPool models an unrelated stream in the same process whose encoder used the
// library's pooled 1500-byte scratch buffer before this case: afterwards the buffer holds
// non-zero bytes. It makes a case replayed alone start from the same pool state as a case
// run in the middle of a shard. (Within a case, earlier batches do the same naturally.)
func dirtyPool(r *vf.Rand) {
	p := r.Bytes(1488)
	for i := range p {
		p[i] |= 1
	}
	enc := flexfec.NewFlexEncoder03(127, 0xD1D1D1D1)
	enc.EncodeFec([]rtp.Packet{{Header: rtp.Header{Version: 2, SequenceNumber: 7, SSRC: 0xD0D0D0D0}, Payload: p}}, 1)
}

// ---------------------------------------------------------------------------------------
// per-case context

type ctx struct {
	c       *vf.Case
	seen    map[string]bool
	hist    []string // (k,n) of the batches pushed through the encoder so far
	fp      *vf.Hash
	sizes   map[int]struct{}
	shaped  bool // some media packet had CSRC / extension / padding
	recOK   int64
	repairs int64
	nextID  uint64
}

func newCtx(c *vf.Case) *ctx {
	return &ctx{c: c, seen: map[string]bool{}, fp: vf.NewHash(), sizes: map[int]struct{}{}}
}

// viol reports the first witness per signature and case (the rest is counted).
func (x *ctx) viol(sig, format string, args ...any) {
	if x.seen[sig] {
		x.c.Add("further_witnesses_same_signature_same_case", 1)
		return
	}
	x.seen[sig] = true
	x.c.Violation(sig, "%s\nhistory through this encoder (k,n): %s", fmt.Sprintf(format, args...), x.histString())
}

func (x *ctx) histString() string {
	h := x.hist
	pre := ""
	if len(h) > 8 {
		pre = fmt.Sprintf("...%d earlier... ", len(h)-8)
		h = h[len(h)-8:]
	}
	return pre + strings.Join(h, " ")
}

func (x *ctx) finish() {
	x.c.Add("single_loss_recoveries_verified_equal", x.recOK)
	// non-trivial: mixed lengths, at least one packet with CSRC/extension/padding, and at
	// least one repair packet decoded with a successful recovery.
	if len(x.sizes) >= 2 && x.shaped && x.recOK > 0 && x.repairs > 0 {
		x.c.Nontrivial(x.fp.Sum())
	}
}

// ---------------------------------------------------------------------------------------
// media generation

type media struct {
	pkt   rtp.Packet
	wire  []byte // Marshal() of the original, taken before the library sees the packet
	idx   int    // index in its batch
	shape gen.Shape
	// wire offsets [padLo,padHi) of the RTP padding octets other than the final count octet
	padLo, padHi int
}

func (m *media) seq() uint16 { return binary.BigEndian.Uint16(m.wire[2:4]) }

func (m *media) String() string {
	ext := "none"
	if m.pkt.Header.Extension {
		ext = fmt.Sprintf("profile %#04x", m.pkt.Header.ExtensionProfile)
	}
	return fmt.Sprintf("media[idx %d seq %d pt %d marker %v csrc %d ext %s padding %d payload %d B, wire %d B]",
		m.idx, m.seq(), m.pkt.Header.PayloadType, m.pkt.Header.Marker, len(m.pkt.Header.CSRC), ext,
		m.pkt.Header.PaddingSize, len(m.pkt.Payload), len(m.wire))
}

// bits returns the FEC bit string of a media packet per -03: first two header octets,
// 16-bit length of everything after the fixed header, timestamp; then that "everything".
func bitsOf(w []byte) (h [8]byte, body []byte) {
	h[0], h[1] = w[0], w[1]
	l := len(w) - 12
	h[2], h[3] = byte(l>>8), byte(l)
	copy(h[4:8], w[4:8])
	return h, w[12:]
}

type batchStyle struct {
	shapeMode int // 0 plain, 1 one random shape for all, 2 per-packet shapes
	padding   bool
	mixedPT   bool
	tsMode    int
	lenMode   int
	maxLen    int
}

func drawStyle(r *vf.Rand) batchStyle {
	s := batchStyle{maxLen: 1500}
	switch v := r.Intn(10); {
	case v < 2:
		s.shapeMode = 0
	case v < 4:
		s.shapeMode = 1
	default:
		s.shapeMode = 2
	}
	s.padding = r.Bool()
	s.mixedPT = r.Chance(0.3)
	s.tsMode = r.Intn(3)
	switch v := r.Intn(20); {
	case v < 10:
		s.lenMode = 0 // boundary-biased mix 0..1500
	case v < 13:
		s.lenMode = 1 // all equal
	case v < 16:
		s.lenMode = 2 // small
	case v < 18:
		s.lenMode = 3 // one long, rest short
	case v < 19:
		s.lenMode = 4 // all empty
	default:
		s.lenMode = 5 // near the 1500-byte scratch buffer size
	}
	return s
}

func genBatch(x *ctx, r *vf.Rand, k int, base uint16, ssrc uint32, st batchStyle) []*media {
	out := make([]*media, k)
	pt := uint8(r.Intn(128))
	ts := r.U32()
	if r.Chance(0.2) {
		ts = 0xffffffff - uint32(r.Intn(3000*k+1)) // timestamp wraps inside the batch
	}
	common := gen.RandomShape(r)
	eqLen := gen.PayloadLen(r, st.maxLen)
	long := r.Intn(k)
	for i := 0; i < k; i++ {
		var sh gen.Shape
		switch st.shapeMode {
		case 1:
			sh = common
		case 2:
			sh = gen.RandomShape(r)
		}
		if !st.padding {
			sh.Padding = 0
		}
		if st.mixedPT {
			pt = uint8(r.Intn(128))
		}
		switch st.tsMode {
		case 0:
			ts += 3000
		case 1:
			ts = r.U32()
		default:
			if r.Chance(0.3) {
				ts += uint32(r.Intn(90000))
			}
		}
		var n int
		switch st.lenMode {
		case 0:
			n = gen.PayloadLen(r, st.maxLen)
		case 1:
			n = eqLen
		case 2:
			n = r.Intn(21)
		case 3:
			n = r.Intn(30)
			if i == long {
				n = r.Range(1000, st.maxLen)
			}
		case 4:
			n = 0
		default:
			n = r.Range(st.maxLen-100, st.maxLen)
		}
		if n > st.maxLen {
			n = st.maxLen
		}
		x.nextID++
		h := gen.Header(r, sh, ssrc, pt, base+uint16(i), ts)
		m := &media{pkt: rtp.Packet{Header: h, Payload: gen.Payload(r, n, uint64(x.c.Idx)<<32|x.nextID)}, idx: i, shape: sh}
		w, err := m.pkt.Marshal()
		if err != nil {
			panic(fmt.Sprintf("generator produced an unmarshalable packet: %v (%+v)", err, sh))
		}
		m.wire = w
		if h.Padding && h.PaddingSize > 1 {
			m.padLo, m.padHi = len(w)-int(h.PaddingSize), len(w)-1
		}
		out[i] = m
		x.sizes[len(w)] = struct{}{}
		if sh.CSRC > 0 || sh.ExtKind > 0 || sh.Padding > 0 {
			x.shaped = true
		}
		if sh.Padding > 0 {
			x.c.Add("media_with_padding", 1)
		}
		if sh.CSRC > 0 {
			x.c.Add("media_with_csrc", 1)
		}
		if sh.ExtKind > 0 {
			x.c.Add("media_with_extension", 1)
		}
		if len(w) > 1500 {
			x.c.Add("media_larger_than_1500B_on_wire", 1)
		}
		x.fp.Int(len(w)).Int(sh.CSRC).Int(sh.ExtKind).Int(sh.Padding)
	}
	x.c.Add("media_packets", int64(k))
	if base > base+uint16(k-1) {
		x.c.Add("batches_crossing_seq_wrap", 1)
	}
	return out
}

func drawBase(r *vf.Rand, k int) uint16 {
	switch r.Intn(5) {
	case 0:
		return uint16(65536 - r.Range(1, k)) // the batch straddles 65535 -> 0 (or ends at 65535)
	case 1:
		return uint16(r.Pick(0, 1, 65535, 32767, 32768))
	default:
		return r.U16()
	}
}

func drawK(r *vf.Rand) int {
	if r.Chance(0.35) {
		return r.Pick(1, 2, 3, 14, 15, 16, 17, 45, 46, 47, 48, 63, 64, 65, 66, 108, 109, 110)
	}
	if r.Chance(0.4) {
		return r.Range(1, 24)
	}
	return r.Range(1, maxK)
}

func drawN(r *vf.Rand, k int) int {
	var n int
	switch v := r.Intn(20); {
	case v < 5:
		n = r.Pick(0, 1, 2, 3, k-1, k, k+1, maxN, maxN-1)
	case v < 14:
		n = r.Range(1, 8)
	default:
		n = r.Range(0, maxN)
	}
	if n < 0 {
		n = 0
	}
	if n > maxN {
		n = maxN
	}
	return n
}

// ---------------------------------------------------------------------------------------
// independent FlexFEC-03 decoder (wire bytes only)

type fecHeader struct {
	rBit, fBit bool
	ssrcCount  byte
	ssrc       uint32
	snBase     uint16
	idx        []int // mask bits set, as offsets from snBase
	hdrLen     int
}

func parseFEC03(p []byte) (fh fecHeader, bad string) {
	if len(p) < 20 {
		return fh, "shorter-than-20-bytes"
	}
	fh.rBit = p[0]&0x80 != 0
	fh.fBit = p[0]&0x40 != 0
	fh.ssrcCount = p[8]
	fh.ssrc = binary.BigEndian.Uint32(p[12:16])
	fh.snBase = binary.BigEndian.Uint16(p[16:18])
	m1 := binary.BigEndian.Uint16(p[18:20])
	for i := 0; i < 15; i++ {
		if m1>>(14-i)&1 == 1 {
			fh.idx = append(fh.idx, i)
		}
	}
	fh.hdrLen = 20
	if m1&0x8000 != 0 {
		return fh, ""
	}
	if len(p) < 24 {
		return fh, "k-bit-promises-second-mask-but-packet-ends"
	}
	m2 := binary.BigEndian.Uint32(p[20:24])
	for i := 0; i < 31; i++ {
		if m2>>(30-i)&1 == 1 {
			fh.idx = append(fh.idx, 15+i)
		}
	}
	fh.hdrLen = 24
	if m2&0x80000000 != 0 {
		return fh, ""
	}
	if len(p) < 32 {
		return fh, "k-bit-promises-third-mask-but-packet-ends"
	}
	m3 := binary.BigEndian.Uint64(p[24:32])
	for i := 0; i < 63; i++ {
		if m3>>(62-i)&1 == 1 {
			fh.idx = append(fh.idx, 46+i)
		}
	}
	fh.hdrLen = 32
	if m3&(1<<63) == 0 {
		return fh, "third-mask-k-bit-clear"
	}
	return fh, ""
}

func xorBytes(dst, src []byte) {
	n := min(len(dst), len(src))
	if n > 0 {
		subtle.XORBytes(dst[:n], dst[:n], src[:n])
	}
}

// xorGrow XORs src into dst, zero-extending dst when src is longer.
func xorGrow(dst, src []byte) []byte {
	if len(src) > len(dst) {
		dst = append(dst, make([]byte, len(src)-len(dst))...)
	}
	xorBytes(dst, src)
	return dst
}

func allZero(b []byte) bool {
	for _, v := range b {
		if v != 0 {
			return false
		}
	}
	return true
}

// recoverOne is the draft's reconstruction: XOR the repair packet's FEC bit string with
// the bit strings of all other protected packets, then build the RTP packet from the
// recovered fields, SN base + offset and SSRC_i.
func recoverOne(p []byte, fh fecHeader, others [][]byte, seq uint16) (rec []byte, bad string) {
	var h [8]byte
	copy(h[:], p[:8])
	body := append([]byte(nil), p[fh.hdrLen:]...)
	for _, w := range others {
		oh, ob := bitsOf(w)
		for i := range h {
			h[i] ^= oh[i]
		}
		body = xorGrow(body, ob)
	}
	l := int(h[2])<<8 | int(h[3])
	have := l
	if l > len(body) {
		bad = fmt.Sprintf("recovered length %d exceeds the %d bytes available after XOR", l, len(body))
		have = len(body)
	}
	rec = make([]byte, 12+have)
	rec[0] = 0x80 | h[0]&0x3f // version 2; R and F are skipped
	rec[1] = h[1]
	binary.BigEndian.PutUint16(rec[2:4], seq)
	copy(rec[4:8], h[4:8])
	binary.BigEndian.PutUint32(rec[8:12], fh.ssrc)
	copy(rec[12:], body[:have])
	return rec, bad
}

// diffField names the first field in which a recovered packet differs from the original.
func diffField(rec, want []byte) (field string, off int) {
	if len(rec) != len(want) {
		return "length", -1
	}
	for i := range want {
		if rec[i] != want[i] {
			switch {
			case i == 0:
				return "header-bits-P-X-CC", i
			case i == 1:
				return "marker-or-payload-type", i
			case i < 4:
				return "sequence-number", i
			case i < 8:
				return "timestamp", i
			case i < 12:
				return "ssrc", i
			default:
				return "body", i
			}
		}
	}
	return "", -1
}

func window(b []byte, off int) string {
	lo := max(0, off-4)
	hi := min(len(b), off+12)
	return fmt.Sprintf("[%d:%d]=%s", lo, hi, hex.EncodeToString(b[lo:hi]))
}

// ---------------------------------------------------------------------------------------
// batch oracle

type repair struct {
	hdr     rtp.Header
	payload []byte
	avail   int // how many media packets of the batch had reached the writer before this repair packet
}

type encTrack struct {
	fecSSRC uint32
	fecPT   uint8
	have    bool
	next    uint16
}

func maskString(idx []int) string {
	if len(idx) > 24 {
		return fmt.Sprintf("%v...(%d bits set)...%v", idx[:8], len(idx), idx[len(idx)-4:])
	}
	return fmt.Sprint(idx)
}

// padConfined reports whether all non-zero octets of body-residue res lie inside the
// padding regions (minus the count octet) of the given packets.
func padConfined(res []byte, pk []*media) bool {
	for i, v := range res {
		if v == 0 {
			continue
		}
		ok := false
		for _, m := range pk {
			if m.padHi > m.padLo && i+12 >= m.padLo && i+12 < m.padHi {
				ok = true
				break
			}
		}
		if !ok {
			return false
		}
	}
	return true
}

// checkBatch decides one batch: batch = the k media packets (consecutive), reps = the
// repair packets that came out for it, n = requested FEC count.
func checkBatch(x *ctx, tr *encTrack, batch []*media, reps []repair, n int, where string) {
	c := x.c
	k := len(batch)
	base := batch[0].seq()
	covered := make([]int, k)
	c.Add("batches", 1)
	c.Add("repair_packets_decoded", int64(len(reps)))
	x.repairs += int64(len(reps))
	if n > k {
		c.Add("batches_with_more_fec_than_media", 1)
	}
	c.Max("max_media_in_batch", int64(k))
	c.Max("max_fec_requested", int64(n))

	for ri, rp := range reps {
		at := fmt.Sprintf("%s: k=%d n=%d base seq %d, repair packet #%d (rtp seq %d)", where, k, n, base, ri, rp.hdr.SequenceNumber)
		// --- RTP header of the repair packet
		if rp.hdr.SSRC != tr.fecSSRC {
			x.viol("repair/ssrc", "%s carries SSRC %#x, FEC SSRC is %#x", at, rp.hdr.SSRC, tr.fecSSRC)
		}
		if rp.hdr.PayloadType != tr.fecPT {
			x.viol("repair/payload-type", "%s carries PT %d, FEC PT is %d", at, rp.hdr.PayloadType, tr.fecPT)
		}
		if tr.have && rp.hdr.SequenceNumber != tr.next {
			x.viol("repair/sequence-step", "%s: previous repair packet of this encoder had seq %d, want %d", at, tr.next-1, tr.next)
		}
		if tr.have && rp.hdr.SequenceNumber == 0 && tr.next == 0 {
			c.Add("repair_seq_wraps_observed", 1)
		}
		tr.have, tr.next = true, rp.hdr.SequenceNumber+1

		// --- FEC header
		fh, bad := parseFEC03(rp.payload)
		if bad != "" {
			x.viol("repair/fec-header/"+bad, "%s: FEC header not decodable per -03: %s; first bytes %s", at, bad,
				hex.EncodeToString(rp.payload[:min(len(rp.payload), 32)]))
			continue
		}
		if fh.rBit || fh.fBit {
			x.viol("repair/fec-header/R-or-F-bit-set", "%s: R=%v F=%v, a -03 flexible-mask repair packet has both 0", at, fh.rBit, fh.fBit)
			continue
		}
		if fh.ssrcCount != 1 {
			x.viol("repair/fec-header/ssrc-count", "%s: SSRCCount=%d, batch has one media SSRC", at, fh.ssrcCount)
			continue
		}
		switch fh.hdrLen {
		case 20:
			c.Add("repair_with_15bit_mask", 1)
		case 24:
			c.Add("repair_with_46bit_mask", 1)
		default:
			c.Add("repair_with_109bit_mask", 1)
		}

		// --- which packets does the mask name?
		var masked []*media
		inMask := make([]bool, k)
		outside := false
		for _, off := range fh.idx {
			bi := int(fh.snBase + uint16(off) - base) // offset from the batch's first seq, mod 2^16
			if bi >= k {
				x.viol("mask/names-packet-outside-batch", "%s: SN base %d mask %s names seq %d, the batch is seq %d..%d",
					at, fh.snBase, maskString(fh.idx), fh.snBase+uint16(off), base, base+uint16(k-1))
				outside = true
				break
			}
			if bi >= rp.avail {
				x.viol("passthrough/repair-before-protected-media", "%s names %s which had not reached the writer yet (%d of the batch had)",
					at, batch[bi], rp.avail)
			}
			masked = append(masked, batch[bi])
			inMask[bi] = true
		}
		if outside {
			continue
		}
		for _, m := range masked {
			covered[m.idx]++
		}
		c.Max("max_group_size", int64(len(masked)))

		// --- residue: repair bit string XOR all named bit strings must vanish
		var resH [8]byte
		copy(resH[:], rp.payload[:8])
		resH[0] &= 0x3f
		resB := append([]byte(nil), rp.payload[fh.hdrLen:]...)
		maxBody := 0
		for _, m := range masked {
			h, b := bitsOf(m.wire)
			h[0] &= 0x3f
			for i := range resH {
				resH[i] ^= h[i]
			}
			resB = xorGrow(resB, b)
			maxBody = max(maxBody, len(b))
		}
		c.Add("repair_bytes_checked_for_zero_residue", int64(8+len(resB)))
		residueZero := allZero(resH[:]) && allZero(resB)

		// explain a non-zero residue, so that each root cause gets its own signature
		var unnamed, phantom *media
		stale := false
		if !residueZero {
			if allZero(resH[:]) && padConfined(resB, masked) {
				stale = true
			} else {
				try := func(u *media) (exact, withStale bool) {
					h, b := bitsOf(u.wire)
					h[0] &= 0x3f
					for i := range h {
						h[i] ^= resH[i]
					}
					if !allZero(h[:]) {
						return false, false
					}
					rb := xorGrow(append([]byte(nil), resB...), b)
					if allZero(rb) {
						return true, false
					}
					return false, padConfined(rb, append([]*media{u}, masked...))
				}
				// Highest index first: when several unnamed packets have identical bit
				// strings (empty payloads, same timestamp) the one the -03 mask cannot
				// name at all is the explanation that needs no further assumption.
				for bi := k - 1; bi >= 0; bi-- {
					u := batch[bi]
					if inMask[u.idx] {
						continue
					}
					if ex, ws := try(u); ex || ws {
						unnamed, stale = u, ws
						break
					}
				}
				if unnamed == nil {
					for _, u := range masked {
						if ex, ws := try(u); ex || ws {
							phantom, stale = u, ws
							break
						}
					}
				}
			}
		}

		// --- the statement's procedure, literally: for every named j, XOR the repair
		// packet with all named packets but j and compare with Marshal() of j.
		type failure struct {
			m          *media
			field, msg string
			off        int
			rec        []byte
		}
		var fails []failure
		others := make([][]byte, 0, len(masked))
		for ji, mj := range masked {
			others = others[:0]
			for oi, mo := range masked {
				if oi != ji {
					others = append(others, mo.wire)
				}
			}
			rec, badLen := recoverOne(rp.payload, fh, others, mj.seq())
			c.Add("recovered_bytes_compared", int64(len(mj.wire)))
			field, off := diffField(rec, mj.wire)
			if badLen != "" {
				field = "length"
			}
			if field == "" {
				x.recOK++
				continue
			}
			if len(fails) < 2 {
				fails = append(fails, failure{mj, field, badLen, off, rec})
			}
			c.Add("single_loss_recoveries_failed", 1)
		}
		witness := func() string {
			if len(fails) == 0 {
				return "no single-loss recovery failed (the residue lies beyond every protected packet's length)"
			}
			f := fails[0]
			s := fmt.Sprintf("losing %s and decoding with the other %d named packets gives a packet that differs in: %s", f.m, len(masked)-1, f.field)
			if f.msg != "" {
				s += " (" + f.msg + ")"
			}
			if f.off >= 0 {
				s += fmt.Sprintf("; first difference at wire offset %d: want %s got %s", f.off, window(f.m.wire, f.off), window(f.rec, f.off))
			} else {
				s += fmt.Sprintf("; want %d bytes on the wire, recovered %d", len(f.m.wire), len(f.rec))
			}
			return s
		}
		groupDesc := fmt.Sprintf("SN base %d, mask %s (%d-byte FEC header, repair payload %d B)", fh.snBase, maskString(fh.idx), fh.hdrLen, len(rp.payload)-fh.hdrLen)

		switch {
		case residueZero:
			if len(fails) > 0 {
				// only the fields that come from the FEC header itself can do this (SSRC_i)
				x.viol("recover/"+fails[0].field, "%s, %s: residue is zero but %s", at, groupDesc, witness())
			}
		case unnamed != nil || phantom != nil || stale:
			if unnamed != nil {
				sig := "mask/combined-packet-not-named/representable-index"
				note := ""
				if unnamed.idx >= maskBits03 {
					sig = "mask/combined-packet-not-named/index-beyond-03-mask"
					note = fmt.Sprintf(" (offset %d from SN base has no bit in the 109-bit -03 mask)", unnamed.idx)
				}
				x.viol(sig, "%s, %s: the repair data is the XOR of the named packets AND of %s%s, which the mask does not name; %s",
					at, groupDesc, unnamed, note, witness())
			}
			if phantom != nil {
				x.viol("mask/named-packet-not-combined", "%s, %s: the mask names %s but it was not XORed into the repair data; %s",
					at, groupDesc, phantom, witness())
			}
			if stale {
				var padded []string
				for _, m := range masked {
					if m.padHi > m.padLo {
						padded = append(padded, m.String())
					}
				}
				if unnamed != nil && unnamed.padHi > unnamed.padLo {
					padded = append(padded, unnamed.String())
				}
				first := 0
				for i, v := range resB {
					if v != 0 {
						first = i
						break
					}
				}
				x.viol("recover/body/stale-bytes-in-padding-region",
					"%s, %s: XOR of the repair payload with all named packets is not zero; every non-zero octet lies where a padded packet has its padding octets (Marshal() writes zeros there), first at body offset %d: residue %s; padded packets in the group: %s; %s (pool state: every case starts after another encoder in the process marshalled a 1500-byte packet, see dirtyPool; earlier batches of this encoder leave the pooled buffer dirty in the same way)",
					at, groupDesc, first, window(resB, first), strings.Join(padded, ", "), witness())
			}
		default:
			if len(fails) > 0 {
				x.viol("recover/"+fails[0].field, "%s, %s: %s", at, groupDesc, witness())
			} else {
				// nothing the statement demands is affected: bytes beyond every protected length
				c.Add("repairs_with_residue_beyond_protected_length_only", 1)
			}
		}
	}

	// --- coverage
	if n >= 1 {
		if len(reps) == 0 {
			x.viol("coverage/no-repair-packet-emitted", "%s: k=%d n=%d base seq %d: accepted configuration but no repair packet came out", where, k, n, base)
			return
		}
		for i, cv := range covered {
			if cv > 0 {
				continue
			}
			sig := "coverage/packet-in-no-mask/representable-index"
			if i >= maskBits03 {
				sig = "coverage/packet-in-no-mask/index-beyond-03-mask"
			}
			x.viol(sig, "%s: k=%d n=%d base seq %d, %d repair packets: %s is named by no repair packet's mask", where, k, n, base, len(reps), batch[i])
		}
		c.Add("media_packets_checked_for_coverage", int64(k))
	}
}

// ---------------------------------------------------------------------------------------
// driving EncodeFec directly

type directEnc struct {
	enc *flexfec.FlexEncoder03
	tr  encTrack
}

func newDirect(r *vf.Rand) *directEnc {
	d := &directEnc{}
	d.tr.fecPT = uint8(r.Range(1, 127))
	d.tr.fecSSRC = r.U32() | 1
	d.enc = flexfec.NewFlexEncoder03(d.tr.fecPT, d.tr.fecSSRC)
	return d
}

// encode pushes one batch through the encoder and decides it.
func (d *directEnc) encode(x *ctx, batch []*media, n int, where string) {
	k := len(batch)
	x.hist = append(x.hist, fmt.Sprintf("(%d,%d)", k, n))
	x.fp.Int(k).Int(n)
	in := make([]rtp.Packet, k)
	for i, m := range batch {
		in[i] = m.pkt
	}
	var out []rtp.Packet
	panicked := func() (p any) {
		defer func() { p = recover() }()
		out = d.enc.EncodeFec(in, uint32(n))
		return nil
	}()
	if panicked != nil {
		x.viol("encode/panic", "%s: EncodeFec(k=%d, n=%d, base seq %d) panicked: %v", where, k, n, batch[0].seq(), panicked)
		return
	}
	// media unmodified: the encoder must not have touched the caller's packets
	for i, m := range batch {
		w, err := in[i].Marshal()
		if err != nil || !bytes.Equal(w, m.wire) {
			x.viol("media/modified-by-encoder", "%s: after EncodeFec(k=%d,n=%d) %s marshals differently (err %v)", where, k, n, m, err)
			break
		}
	}
	if out == nil && n >= 1 && k > maskBits03 {
		// rejected: k is not representable in the -03 mask; outside the statement
		x.c.Add("batches_rejected_by_encoder_k_beyond_03_mask", 1)
		return
	}
	reps := make([]repair, len(out))
	for i, p := range out {
		reps[i] = repair{hdr: p.Header, payload: p.Payload, avail: k}
	}
	if n == 0 {
		x.c.Add("batches_with_zero_fec_requested", 1)
	}
	checkBatch(x, &d.tr, batch, reps, n, where)
}

// G: exhaustive (k,n) grid. Each (k,n) gets a fresh encoder and two successive batches
// (the second reuses the coverage table and a used scratch buffer).
func runGrid(x *ctx, p tierPlan) {
	r := x.c.R
	var k, nLo, nHi int
	if x.c.Tier == "thorough" {
		k = x.c.Idx/p.nChunk + 1
		ch := x.c.Idx % p.nChunk
		nLo, nHi = ch*37, ch*37+36
	} else {
		k = x.c.Idx + 1
		nLo, nHi = 0, 6
	}
	ssrc := r.U32()
	for n := nLo; n <= nHi && n <= maxN; n++ {
		d := newDirect(r)
		x.hist = x.hist[:0]
		base := drawBase(r, k)
		for b := 0; b < 2; b++ {
			st := drawStyle(r)
			if x.c.Tier == "thorough" && k*n > 2000 {
				st.maxLen = 400 // keep the exhaustive sweep cheap; M cases use full-size payloads
			}
			batch := genBatch(x, r, k, base, ssrc, st)
			d.encode(x, batch, n, fmt.Sprintf("grid (fresh encoder, batch %d)", b))
			base += uint16(k)
		}
		x.c.Add("grid_kn_pairs", 1)
	}
	if x.c.WantSample() {
		x.c.Sample(map[string]any{"kind": "grid", "k": k, "n": fmt.Sprintf("%d..%d", nLo, nHi), "batches_per_pair": 2})
	}
}

// M: one encoder, 1..50 successive batches with (k,n) changing or repeating.
func runMulti(x *ctx) {
	r := x.c.R
	d := newDirect(r)
	var nb int
	switch v := r.Intn(20); {
	case v < 10:
		nb = r.Range(1, 6)
	case v < 17:
		nb = r.Range(7, 20)
	default:
		nb = r.Range(21, 50)
	}
	ssrc := r.U32()
	k := drawK(r)
	n := drawN(r, k)
	base := drawBase(r, k)
	small := nb > 20
	reuse, change := 0, 0
	for b := 0; b < nb; b++ {
		if b > 0 {
			switch v := r.Intn(20); {
			case v < 7: // same shape: the coverage table is reused
				reuse++
			case v < 11:
				n = drawN(r, k)
				change++
			case v < 14:
				k = drawK(r)
				change++
			default:
				k = drawK(r)
				n = drawN(r, k)
				change++
			}
			if r.Chance(0.25) {
				base = drawBase(r, k) // the stream jumped / another stream
			}
			if r.Chance(0.1) {
				ssrc = r.U32()
			}
		}
		st := drawStyle(r)
		if small && k > 40 {
			st.maxLen = 300
		}
		batch := genBatch(x, r, k, base, ssrc, st)
		d.encode(x, batch, n, fmt.Sprintf("batch %d of %d through one encoder", b, nb))
		base += uint16(k)
	}
	x.c.Add("batches_reusing_previous_kn", int64(reuse))
	x.c.Add("batches_changing_kn", int64(change))
	x.c.Max("max_batches_through_one_encoder", int64(nb))
	if x.c.WantSample() {
		x.c.Sample(map[string]any{"kind": "multi-batch", "batches": nb, "kn_history": x.histString(), "recoveries_ok": x.recOK})
	}
}

// W: long run through one encoder until its repair sequence number has wrapped.
func runSeqWrap(x *ctx) {
	r := x.c.R
	d := newDirect(r)
	k := r.Range(60, maskBits03)
	n := k
	if r.Bool() {
		n = r.Range(k/2, maxN)
	}
	ssrc := r.U32()
	base := r.U16()
	emitted := 0
	st := batchStyle{shapeMode: 2, lenMode: 2, maxLen: 20}
	for b := 0; emitted < 66000 && b < 3000; b++ {
		batch := genBatch(x, r, k, base, ssrc, st)
		before := x.repairs
		d.encode(x, batch, n, fmt.Sprintf("long run, batch %d", b))
		emitted += int(x.repairs - before)
		base += uint16(k)
		if x.c.Violated() && b > 5 {
			break
		}
		if len(x.hist) > 4 {
			x.hist = x.hist[len(x.hist)-4:]
		}
	}
	x.c.Add("long_run_repair_packets", int64(emitted))
	if x.c.WantSample() {
		x.c.Sample(map[string]any{"kind": "repair-seq-wrap", "k": k, "n": n, "repair_packets": emitted})
	}
}

// ---------------------------------------------------------------------------------------
// driving the FecInterceptor

type event struct {
	hdr     rtp.Header
	payload []byte
}

type recorder struct {
	evs       []event
	failEvery int // > 0: the write of every failEvery-th packet returns an error
}

func (rc *recorder) write(h *rtp.Header, payload []byte, _ interceptor.Attributes) (int, error) {
	rc.evs = append(rc.evs, event{hdr: h.Clone(), payload: append([]byte(nil), payload...)})
	if rc.failEvery > 0 && len(rc.evs)%rc.failEvery == 0 {
		// a transient error of the next writer: this packet was handed over (recorded); the other
		// packets of the batch, repair packets included, are still owed
		return 0, errNextWriter
	}
	return h.MarshalSize() + len(payload), nil
}

var errNextWriter = errors.New("verif: next writer fails this packet")

type icStream struct {
	info   *interceptor.StreamInfo
	rec    *recorder
	w      interceptor.RTPWriter
	tr     encTrack
	base   uint16
	style  batchStyle
	batch  []*media // current batch being written
	pos    int      // media of the current batch already written
	reps   []repair // repair packets seen for the current batch
	nbatch int
	hist   []string
}

func runInterceptor(x *ctx) {
	c := x.c
	r := c.R
	k := drawK(r)
	if r.Chance(0.6) {
		k = r.Range(1, 20)
	}
	n := drawN(r, k)
	f, err := flexfec.NewFecInterceptor(flexfec.NumMediaPackets(uint32(k)), flexfec.NumFECPackets(uint32(n)))
	if err != nil {
		c.Inconclusive("NewFecInterceptor: %v", err)
		return
	}
	ic, err := f.NewInterceptor("c14")
	if err != nil {
		c.Inconclusive("NewInterceptor: %v", err)
		return
	}
	ns := r.Range(1, 3)
	failing := r.Chance(0.25)
	if failing {
		c.Add("interceptor_cases_whose_next_writer_fails_some_packets", 1)
	}
	streams := make([]*icStream, ns)
	for i := range streams {
		s := &icStream{rec: &recorder{}}
		if failing {
			s.rec.failEvery = r.Pick(2, 3, 5, 7, 11)
		}
		s.tr.fecPT = uint8(r.Range(1, 127))
		s.tr.fecSSRC = r.U32() | 1
		s.info = &interceptor.StreamInfo{
			SSRC:                              uint32(0x10000000*(i+1)) | r.U32()>>8,
			PayloadTypeForwardErrorCorrection: s.tr.fecPT,
			SSRCForwardErrorCorrection:        s.tr.fecSSRC,
		}
		s.w = ic.BindLocalStream(s.info, interceptor.RTPWriterFunc(s.rec.write))
		s.base = drawBase(r, k)
		streams[i] = s
	}
	nb := r.Range(1, 8)
	if k > 40 {
		nb = r.Range(1, 3)
	}
	total := nb * k * ns
	extra := r.Intn(k) // an incomplete tail batch on some stream
	for step := 0; step < total+extra; step++ {
		s := streams[r.Intn(ns)]
		if s.nbatch >= nb && step < total {
			// pick a stream that still has batches to write
			for _, t := range streams {
				if t.nbatch < nb {
					s = t
					break
				}
			}
		}
		x.hist = s.hist
		if s.pos == 0 {
			s.style = drawStyle(r)
			if k > 40 {
				s.style.maxLen = 500
			}
			s.batch = genBatch(x, r, k, s.base, s.info.SSRC, s.style)
			s.base += uint16(k)
			s.reps = nil
		}
		// occasionally a packet of another SSRC goes through the same writer (the
		// statement is silent about it: it must simply not disturb the batch)
		if r.Chance(0.03) {
			fh := rtp.Header{Version: 2, SSRC: s.info.SSRC ^ 0x5a5a5a5a, SequenceNumber: r.U16(), PayloadType: 111}
			s.rec.evs = s.rec.evs[:0]
			_, _ = s.w.Write(&fh, r.Bytes(r.Intn(50)), nil)
			c.Add("interceptor_foreign_ssrc_packets", 1)
		}
		m := s.batch[s.pos]
		where := fmt.Sprintf("interceptor stream %#x batch %d", s.info.SSRC, s.nbatch)
		h := m.pkt.Header.Clone()
		s.rec.evs = s.rec.evs[:0]
		panicked := func() (p any) {
			defer func() { p = recover() }()
			_, _ = s.w.Write(&h, m.pkt.Payload, interceptor.Attributes{})
			return nil
		}()
		if panicked != nil {
			x.viol("encode/panic", "%s: Write of %s panicked (NumMediaPackets=%d NumFECPackets=%d): %v", where, m, k, n, panicked)
			return
		}
		s.pos++
		evs := s.rec.evs
		c.Add("interceptor_downstream_packets", int64(len(evs)))
		// media first and unmodified: find the downstream packet that is byte-equal to
		// the original; everything else written during this call is a repair packet.
		mediaAt := -1
		dup := make([]bool, len(evs))
		for i, e := range evs {
			w, err := (&rtp.Packet{Header: e.hdr, Payload: e.payload}).Marshal()
			if err == nil && bytes.Equal(w, m.wire) {
				if mediaAt >= 0 {
					x.viol("passthrough/media-duplicated", "%s: writing %s: it reached the writer twice", where, m)
					dup[i] = true // not a repair packet
					continue
				}
				mediaAt = i
			}
		}
		switch {
		case len(evs) == 0:
			x.viol("passthrough/media-missing", "%s: writing %s produced no downstream packet", where, m)
		case mediaAt == 0:
			c.Add("interceptor_media_seen_first_and_equal", 1)
		case mediaAt > 0:
			x.viol("passthrough/media-not-first", "%s: writing %s: %d packet(s) reached the writer before it, the first with ssrc %#x pt %d seq %d",
				where, m, mediaAt, evs[0].hdr.SSRC, evs[0].hdr.PayloadType, evs[0].hdr.SequenceNumber)
		default:
			// no byte-equal packet: the one that is not a repair packet is the (modified) media packet
			mediaAt = 0
			for i, e := range evs {
				if e.hdr.SSRC != s.tr.fecSSRC {
					mediaAt = i
					break
				}
			}
			w, err := (&rtp.Packet{Header: evs[mediaAt].hdr, Payload: evs[mediaAt].payload}).Marshal()
			x.viol("passthrough/media-modified", "%s: writing %s: no downstream packet equals the original; downstream packet %d (err %v): want %s... got %s...",
				where, m, mediaAt, err, hex.EncodeToString(m.wire[:min(len(m.wire), 24)]), hex.EncodeToString(w[:min(len(w), 24)]))
		}
		for i, e := range evs {
			if i == mediaAt || dup[i] {
				continue
			}
			avail := s.pos - 1 // media of this batch that reached the writer before this packet
			if mediaAt >= 0 && mediaAt < i {
				avail = s.pos
			}
			s.reps = append(s.reps, repair{hdr: e.hdr, payload: e.payload, avail: avail})
		}
		// the caller's packet is unmodified
		if w, err := (&rtp.Packet{Header: h, Payload: m.pkt.Payload}).Marshal(); err != nil || !bytes.Equal(w, m.wire) {
			x.viol("media/modified-by-interceptor", "%s: after Write, the caller's %s marshals differently (err %v)", where, m, err)
		}
		if s.pos == k {
			s.hist = append(s.hist, fmt.Sprintf("(%d,%d)", k, n))
			x.hist = s.hist
			x.fp.Int(k).Int(n)
			if len(s.reps) == 0 && n >= 1 && k > maskBits03 {
				c.Add("batches_rejected_by_encoder_k_beyond_03_mask", 1)
			} else {
				checkBatch(x, &s.tr, s.batch, s.reps, n, where)
			}
			c.Add("interceptor_batches", 1)
			s.pos = 0
			s.nbatch++
		}
	}
	for _, s := range streams {
		ic.UnbindLocalStream(s.info)
	}
	_ = ic.Close()
	if c.WantSample() {
		c.Sample(map[string]any{"kind": "interceptor", "NumMediaPackets": k, "NumFECPackets": n, "streams": ns, "batches_per_stream": nb, "recoveries_ok": x.recOK})
	}
}
