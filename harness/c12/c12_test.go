// C12 – memory held per interceptor is bounded regardless of stream length.
//
// Monitor: every interceptor kind is driven (in a virtual-time bubble, so time based
// eviction runs at protocol speed) through 6 equal phases of a steady workload
// {in-order, 5% loss, duplicates, reordering} x {with periodic feedback, without any};
// after each phase the heap is measured after two forced GCs (runtime.ReadMemStats).
// Steady state = phases 3..6. A second family churns streams: bind a NEW ssrc, traffic,
// unbind, thousands of times, with finalizer canaries on the objects handed to Bind.
package c12

import (
	"errors"
	"fmt"
	"os"
	"runtime"
	"runtime/pprof"
	"sync/atomic"
	"testing"
	"testing/synctest"
	"time"

	"github.com/pion/interceptor"
	"github.com/pion/rtcp"
	"github.com/pion/rtp"

	"github.com/pion/interceptor/verif/obs"
	"github.com/pion/interceptor/verif/vf"
	"github.com/pion/interceptor/verif/zoo"
)

type workload struct {
	name     string
	loss     int // percent
	dup      int
	reorder  bool
	feedback bool
	backlog  int // packets queued up front (pacing interceptor driven exactly at its rate)
	resend   int // percent of outgoing packets that repeat a recently sent sequence number (retransmission without RTX)
	failW    bool // the next writer of local stream 1 fails every write, the one of stream 0 every 7th
	rtcpHeavy bool // feedback read and application RTCP written on EVERY packet step (2 packets each)
	inBurst   int  // every 1000 steps this many extra in-order packets arrive on remote stream 0 at one instant
}

var workloads = []workload{
	{"in-order+feedback", 0, 0, false, true, 0, 0, false, false, 0},
	{"in-order/no-feedback", 0, 0, false, false, 0, 0, false, false, 0},
	{"loss5+feedback", 5, 0, false, true, 0, 0, false, false, 0},
	{"loss5/no-feedback", 5, 0, false, false, 0, 0, false, false, 0},
	{"dup+reorder+feedback", 2, 5, true, true, 0, 0, false, false, 0},
	{"dup+reorder/no-feedback", 2, 5, true, false, 0, 0, false, false, 0},
	{"resend10+feedback", 0, 0, false, true, 0, 10, false, false, 0},
	{"resend10/no-feedback", 0, 0, false, false, 0, 10, false, false, 0},
	{"next-writer-fails+feedback", 0, 0, false, true, 0, 0, true, false, 0},
	{"rtcp-on-every-step", 0, 0, false, true, 0, 0, false, true, 0},
	{"incoming-bursts+feedback", 0, 0, false, true, 0, 0, false, false, 700},
}

// backlogWorkload keeps the pacing interceptor's queue non-empty for the whole run: the pacer
// rate equals what the driver sends (two packets = 1056 bits per virtual millisecond).
var backlogWorkload = workload{name: "standing-backlog/at-pacer-rate", backlog: 300}

func nSteady() int { return len(zoo.All)*len(workloads) + 1 }

func cases(tier string) int { return nSteady() + len(zoo.All) } // + one churn case per kind

func TestCheck(t *testing.T) {
	vf.Main(t, vf.Spec{Prop: "C12", Cases: cases, Run: run})
}

func run(c *vf.Case) {
	if c.Idx == nSteady()-1 {
		runSteady(c, zoo.Pacing, backlogWorkload)
		return
	}
	if c.Idx < nSteady() {
		runSteady(c, zoo.All[c.Idx%len(zoo.All)], workloads[c.Idx/len(zoo.All)])
		return
	}
	runChurn(c, zoo.All[c.Idx-nSteady()])
}

const twccID = 5

type heapPoint struct {
	Alloc   uint64
	Objects uint64
}

func measure() heapPoint {
	var ms runtime.MemStats
	// not while the harness's own watchdog is holding a goroutine dump
	vf.Quiesced(func() {
		runtime.GC()
		runtime.GC()
		runtime.ReadMemStats(&ms)
	})
	return heapPoint{ms.HeapAlloc, ms.HeapObjects}
}

// counting writers: nothing is stored
type nullRTP struct {
	n         atomic.Int64
	failEvery int64 // > 0: every failEvery-th write fails (1 = all)
}

var errNextWriter = errors.New("verif: next writer fails")

func (w *nullRTP) Write(h *rtp.Header, p []byte, _ interceptor.Attributes) (int, error) {
	if n := w.n.Add(1); w.failEvery > 0 && n%w.failEvery == 0 {
		return 0, errNextWriter
	}
	return h.MarshalSize() + len(p), nil
}

type nullRTCP struct{ n atomic.Int64 }

func (w *nullRTCP) Write(p []rtcp.Packet, _ interceptor.Attributes) (int, error) {
	w.n.Add(int64(len(p)))
	return 0, nil
}

type driver struct {
	c       *vf.Case
	b       *zoo.Built
	lw      [2]interceptor.RTPWriter
	rr      [2]interceptor.RTPReader
	rf      [2]*obs.Feed
	rtcpR   interceptor.RTCPReader
	rtcpW   interceptor.RTCPWriter
	rtcpIn  *obs.Feed
	lseq    [2]uint16
	rseq    [2]uint16
	twcc    uint16
	twccTotal int64
	rtwcc   uint16
	ts      uint32
	held    []byte // a reordered packet waiting to be delivered
	rbuf    []byte
	payload []byte
	step    int
	rng     *vf.Rand
	outGaps bool // the outgoing streams have occasional sequence discontinuities too
	resend  int
	burst   int // packet steps sent back to back before the driver sleeps as many virtual ms
	single  bool // only one remote stream carries traffic (the jitter buffer interceptor owns ONE buffer)
}

func newDriver(c *vf.Case, b *zoo.Built, wl workload) *driver {
	clk := &obs.Clock{}
	d := &driver{c: c, b: b, rbuf: make([]byte, 1500), payload: make([]byte, 50), rng: c.R.Fork()}
	d.rtcpW = b.I.BindRTCPWriter(&nullRTCP{})
	d.rtcpIn = obs.NewFeed(clk)
	d.rtcpR = b.I.BindRTCPReader(d.rtcpIn)
	for i := 0; i < 2; i++ {
		lo := zoo.StreamOpts{SSRC: uint32(1000 * (i + 1)), PT: 96, ClockRate: 90000, Nack: true, TWCCID: twccID * (1 - i), RTX: i == 0, FEC: i == 0}
		nw := &nullRTP{}
		if wl.failW {
			nw.failEvery = []int64{7, 1}[i] // stream 0: a transient error now and then; stream 1: always
		}
		d.lw[i] = b.I.BindLocalStream(zoo.Info(lo), nw)
		ro := zoo.StreamOpts{SSRC: uint32(3000 + 1000*i), PT: 96, ClockRate: 90000, Nack: true, PLI: true, TWCCID: twccID * (1 - i)}
		d.rf[i] = obs.NewFeed(clk)
		d.rf[i].NoLog = true
		d.rr[i] = b.I.BindRemoteStream(zoo.Info(ro), d.rf[i])
	}
	d.rtcpIn.NoLog = true
	synctest.Wait()
	return d
}

func (d *driver) write(st int) {
	d.lseq[st]++
	if d.outGaps && d.rng.Intn(200) == 0 {
		d.lseq[st] += uint16(d.rng.Pick(1, 2, 65535)) // the sender skips a number / repeats one
	}
	seq := d.lseq[st]
	if d.resend > 0 && d.rng.Intn(100) < d.resend {
		d.lseq[st]-- // no new number: an earlier packet goes out again under its own number
		seq -= uint16(d.rng.Range(1, 60))
	}
	h := rtp.Header{Version: 2, PayloadType: 96, SequenceNumber: seq, Timestamp: d.ts, SSRC: uint32(1000 * (st + 1))}
	if st == 0 {
		d.twcc++
		d.twccTotal++
		ext, _ := (&rtp.TransportCCExtension{TransportSequence: d.twcc}).Marshal()
		_ = h.SetExtension(twccID, ext)
	}
	_, _ = d.lw[st].Write(&h, d.payload, interceptor.Attributes{})
}

func (d *driver) deliver(st int, pkt []byte) {
	d.rf[st].Push(obs.FeedItem{Data: pkt})
	_, _, _ = d.rr[st].Read(d.rbuf, interceptor.Attributes{})
}

func (d *driver) incoming(st int, wl workload) {
	d.rseq[st]++
	if st == 0 {
		d.rtwcc++
	}
	if wl.loss > 0 && d.rng.Intn(100) < wl.loss {
		return
	}
	h := rtp.Header{Version: 2, PayloadType: 96, SequenceNumber: d.rseq[st], Timestamp: d.ts, SSRC: uint32(3000 + 1000*st)}
	if st == 0 {
		ext, _ := (&rtp.TransportCCExtension{TransportSequence: d.rtwcc}).Marshal()
		_ = h.SetExtension(twccID, ext)
	}
	pkt, _ := (&rtp.Packet{Header: h, Payload: d.payload}).Marshal()
	if wl.reorder && st == 0 && d.held == nil && d.rng.Intn(100) < 5 {
		d.held = pkt // delivered after the next one
		return
	}
	d.deliver(st, pkt)
	if wl.dup > 0 && d.rng.Intn(100) < wl.dup {
		d.deliver(st, pkt)
	}
	if d.held != nil && st == 0 {
		d.deliver(0, d.held)
		d.held = nil
	}
}

// feedback about the last n packets sent on the local streams, all received 1 ms apart
func (d *driver) feedback(n int) {
	var pkts []rtcp.Packet
	// one arrival clock across reports, as a real receiver has: transport-wide number t arrived at
	// t ms, so consecutive arrivals are 1 ms apart also from the last packet of one report to the
	// first packet of the next
	a0 := (d.twccTotal - int64(n) + 1) * 1000 // us
	tw := &rtcp.TransportLayerCC{
		Header:     rtcp.Header{Count: rtcp.FormatTCC, Type: rtcp.TypeTransportSpecificFeedback},
		SenderSSRC: 9, MediaSSRC: 1000, BaseSequenceNumber: d.twcc - uint16(n) + 1, PacketStatusCount: uint16(n),
		ReferenceTime: uint32(a0/64000) & 0xffffff, FbPktCount: uint8(d.step / 100),
		PacketChunks: []rtcp.PacketStatusChunk{&rtcp.RunLengthChunk{Type: rtcp.TypeTCCRunLengthChunk, PacketStatusSymbol: rtcp.TypeTCCPacketReceivedSmallDelta, RunLength: uint16(n)}},
	}
	for i := 0; i < n; i++ {
		tw.RecvDeltas = append(tw.RecvDeltas, &rtcp.RecvDelta{Type: rtcp.TypeTCCPacketReceivedSmallDelta, Delta: 1000})
	}
	tw.RecvDeltas[0].Delta = a0 % 64000 / 250 * 250
	l := 20 + 2 + n
	if l%4 != 0 {
		tw.Header.Padding = true
		l += 4 - l%4
	}
	tw.Header.Length = uint16(l/4 - 1)
	pkts = append(pkts, tw)
	// RFC 8888 feedback for the non-TWCC stream
	blk := rtcp.CCFeedbackReportBlock{MediaSSRC: 2000, BeginSequence: d.lseq[1] - uint16(n) + 1}
	for i := 0; i < n; i++ {
		blk.MetricBlocks = append(blk.MetricBlocks, rtcp.CCFeedbackMetricBlock{Received: true, ArrivalTimeOffset: uint16(n - i)})
	}
	pkts = append(pkts, &rtcp.CCFeedbackReport{SenderSSRC: 9, ReportBlocks: []rtcp.CCFeedbackReportBlock{blk}, ReportTimestamp: uint32(d.step) << 6})
	pkts = append(pkts,
		&rtcp.TransportLayerNack{SenderSSRC: 9, MediaSSRC: 1000, Nacks: []rtcp.NackPair{{PacketID: d.lseq[0] - 3, LostPackets: 1}}},
		&rtcp.SenderReport{SSRC: 3000, NTPTime: uint64(d.step) << 20, RTPTime: d.ts, PacketCount: uint32(d.step)},
		&rtcp.ReceiverReport{SSRC: 9, Reports: []rtcp.ReceptionReport{{SSRC: 1000, LastSequenceNumber: uint32(d.lseq[0]), Jitter: 3}}},
	)
	raw, err := rtcp.Marshal(pkts)
	if err != nil {
		d.c.Inconclusive("cannot marshal feedback: %v", err)
		return
	}
	d.rtcpIn.Push(obs.FeedItem{Data: raw})
	_, _, _ = d.rtcpR.Read(d.rbuf, interceptor.Attributes{})
	// the application's own RTCP goes out through the interceptor too: reports with several
	// blocks, feedback requests, extended reports with several reference-time blocks
	ntp := uint64(d.step) << 22
	_, _ = d.rtcpW.Write([]rtcp.Packet{
		&rtcp.SenderReport{SSRC: 1000, NTPTime: ntp, RTPTime: d.ts, PacketCount: uint32(d.step), OctetCount: uint32(d.step) * 50},
		&rtcp.ReceiverReport{SSRC: 1000, Reports: []rtcp.ReceptionReport{{SSRC: 3000, LastSequenceNumber: uint32(d.rseq[0])}, {SSRC: 4000, LastSequenceNumber: uint32(d.rseq[1])}}},
		&rtcp.ExtendedReport{SenderSSRC: 1000, Reports: []rtcp.ReportBlock{
			&rtcp.ReceiverReferenceTimeReportBlock{NTPTimestamp: ntp}, &rtcp.ReceiverReferenceTimeReportBlock{NTPTimestamp: ntp + 1<<20},
			&rtcp.DLRRReportBlock{Reports: []rtcp.DLRRReport{{SSRC: 3000, LastRR: uint32(ntp >> 16), DLRR: 7}}}}},
		&rtcp.PictureLossIndication{SenderSSRC: 1000, MediaSSRC: 3000},
		&rtcp.TransportLayerNack{SenderSSRC: 1000, MediaSSRC: 3000, Nacks: []rtcp.NackPair{{PacketID: d.rseq[0] - 2, LostPackets: 3}}},
		&rtcp.FullIntraRequest{SenderSSRC: 1000, MediaSSRC: 3000, FIR: []rtcp.FIREntry{{SSRC: 3000, SequenceNumber: uint8(d.step)}}},
	}, interceptor.Attributes{})
}

func (d *driver) runSteps(n int, wl workload) {
	for i := 0; i < n; i++ {
		vf.Progress()
		d.step++
		d.ts += 90
		d.write(0)
		d.write(1)
		d.incoming(0, wl)
		if !d.single {
			d.incoming(1, wl)
		}
		if wl.inBurst > 0 && d.step%1000 == 0 {
			// far more packets between two reports than one report can name
			for k := 0; k < wl.inBurst; k++ {
				d.incoming(0, wl)
			}
		}
		if wl.rtcpHeavy {
			d.feedback(2)
		} else if wl.feedback && d.step%100 == 0 {
			d.feedback(100)
		}
		if d.step%d.burst == 0 {
			time.Sleep(time.Duration(d.burst) * time.Millisecond)
		}
	}
	synctest.Wait()
}

// phaseLen: 16-bit keyed index maps (one key per packet, both local streams send on every
// step) are full after 65 536 steps, i.e. before phase 3 ends the warm-up.
func phaseLen(tier string, kind zoo.Kind) int {
	n := 25_000
	if tier == "thorough" {
		n = 300_000
	}
	if kind == zoo.JitterBuffer {
		// a buffer that stops draining makes every push O(n): keep the run bounded
		n /= 6
	}
	return n
}

func runSteady(c *vf.Case, kind zoo.Kind, wl workload) {
	n := phaseLen(c.Tier, kind)
	if kind == zoo.CCLeakyBucket && wl.feedback {
		// The estimator may lower its target far below what this fixed-rate workload sends;
		// the pacer queue then grows because the APPLICATION ignores the target bitrate.
		// That is outside the property; the feedback path is covered with the no-op pacer.
		c.Add("skipped_leaky_bucket_with_feedback", 1)
		return
	}
	var pts []heapPoint
	var desc string
	c.Bubble(func() {
		b, err := zoo.Build(c.R, kind, zoo.Opts{HighRates: wl.backlog == 0, PacingRate: 1_056_000})
		if err != nil {
			c.Violation("build/"+kind.String(), "%v", err)
			return
		}
		desc = b.Desc
		d := newDriver(c, b, wl)
		d.single = kind == zoo.JitterBuffer
		d.outGaps = wl.loss > 0 || wl.dup > 0
		d.resend = wl.resend
		// paced like media (one packet step per virtual ms); the reordering workloads send in
		// bursts of 25 instead
		d.burst = 1
		if wl.reorder {
			d.burst = 25
		}
		if wl.backlog > 0 {
			for i := 0; i < wl.backlog; i++ { // a standing, bounded backlog in front of the pacer
				d.write(i % 2)
			}
		}
		pts = append(pts, measure())
		for p := 0; p < 6; p++ {
			d.runSteps(n, wl)
			pts = append(pts, measure())
		}
		if f := os.Getenv("VERIF_C12_HEAPPROFILE"); f != "" {
			// diagnosis of a growth: what holds the memory (go tool pprof -sample_index=inuse_space)
			if w, err := os.Create(f); err == nil {
				_ = pprof.Lookup("heap").WriteTo(w, 0)
				_ = w.Close()
			}
		}
		_ = b.I.Close()
		synctest.Wait()
		runtime.KeepAlive(d)
	}, nil)
	if len(pts) != 7 {
		return
	}
	c.Add("steady_runs", 1)
	c.Add("packet_steps_driven", int64(6*n))
	series := make([]uint64, 0, 7)
	for _, p := range pts {
		series = append(series, p.Alloc/1024)
	}
	growth := int64(pts[6].Alloc) - int64(pts[3].Alloc)
	threshold := int64(max(256<<10, 4*3*n))
	monotone := pts[3].Objects < pts[4].Objects && pts[4].Objects < pts[5].Objects && pts[5].Objects < pts[6].Objects
	c.Max("max_steady_growth_bytes", max(0, growth))
	// a single growing slice shows as HeapAlloc growth in (amortised) jumps with a constant object
	// count: growth far above any allocator noise is decisive on its own
	big := growth > int64(max(2<<20, 32*3*n))
	if (growth > threshold && monotone) || big {
		c.Violation(fmt.Sprintf("steady-growth/%s/%s", kind, fbClass(wl)),
			"interceptor %s, workload %s: retained heap after forced GC keeps growing in steady state: per-phase HeapAlloc KiB %v (phase = %d packet steps), objects %d -> %d -> %d -> %d; growth phases 3..6 = %d bytes = %.1f B per packet step (threshold %d)",
			desc, wl.name, series, n, pts[3].Objects, pts[4].Objects, pts[5].Objects, pts[6].Objects, growth, float64(growth)/float64(3*n), threshold)
	}
	c.Nontrivial(vf.NewHash().Str(kind.String()).Str(wl.name).Sum())
	if c.WantSample() || growth > threshold/4 {
		c.Sample(map[string]any{"interceptor": desc, "workload": wl.name, "heap_KiB_after_each_phase": series, "phase_packet_steps": n})
	}
}

func fbClass(wl workload) string {
	s := "no-feedback"
	if wl.feedback {
		s = "with-feedback"
	}
	if wl.loss > 0 || wl.dup > 0 {
		s += "/lossy"
	}
	if wl.resend > 0 {
		s += "/resent-numbers"
	}
	if wl.rtcpHeavy {
		s += "/rtcp-on-every-step"
	}
	if wl.failW {
		s += "/next-writer-fails"
	}
	if wl.inBurst > 0 {
		s += "/incoming-bursts"
	}
	return s
}

// ---- churn -----------------------------------------------------------------------------

type canary struct {
	nullRTP
	pad [64]byte
}

type canaryFeed struct {
	*obs.Feed
	pad [64]byte
}

func runChurn(c *vf.Case, kind zoo.Kind) {
	cycles := 2000
	if c.Tier == "thorough" {
		cycles = 10_000
	}
	var pts []heapPoint
	var desc string
	var finW, finR atomic.Int64
	total := 0
	c.Bubble(func() {
		b, err := zoo.Build(c.R, kind, zoo.Opts{HighRates: true})
		if err != nil {
			c.Violation("build/"+kind.String(), "%v", err)
			return
		}
		desc = b.Desc
		clk := &obs.Clock{}
		_ = b.I.BindRTCPWriter(&nullRTCP{})
		rbuf := make([]byte, 1500)
		payload := make([]byte, 50)
		ssrc := uint32(100000)
		cycle := func() {
			vf.Progress()
			ssrc++
			lo := zoo.StreamOpts{SSRC: ssrc, PT: 96, ClockRate: 90000, Nack: true, TWCCID: twccID, RTX: true, FEC: true}
			linfo := zoo.Info(lo)
			cw := &canary{}
			runtime.SetFinalizer(cw, func(*canary) { finW.Add(1) })
			w := b.I.BindLocalStream(linfo, cw)
			ro := zoo.StreamOpts{SSRC: ssrc + 5_000_000, PT: 96, ClockRate: 90000, Nack: true, PLI: true, TWCCID: twccID}
			rinfo := zoo.Info(ro)
			cf := &canaryFeed{Feed: obs.NewFeed(clk)}
			cf.NoLog = true
			runtime.SetFinalizer(cf, func(*canaryFeed) { finR.Add(1) })
			rd := b.I.BindRemoteStream(rinfo, cf)
			for k := 0; k < 20; k++ {
				h := rtp.Header{Version: 2, PayloadType: 96, SequenceNumber: uint16(k), Timestamp: uint32(k * 90), SSRC: ssrc}
				ext, _ := (&rtp.TransportCCExtension{TransportSequence: uint16(total)}).Marshal()
				_ = h.SetExtension(twccID, ext)
				_, _ = w.Write(&h, payload, interceptor.Attributes{})
				h.SSRC = ro.SSRC
				pkt, _ := (&rtp.Packet{Header: h, Payload: payload}).Marshal()
				cf.Push(obs.FeedItem{Data: pkt})
				_, _, _ = rd.Read(rbuf, interceptor.Attributes{})
				total++
			}
			time.Sleep(30 * time.Millisecond)
			synctest.Wait()
			b.I.UnbindLocalStream(linfo)
			b.I.UnbindRemoteStream(rinfo)
			time.Sleep(30 * time.Millisecond)
			synctest.Wait()
		}
		for p := 0; p < 4; p++ {
			for i := 0; i < cycles; i++ {
				cycle()
			}
			time.Sleep(2 * time.Second) // time based eviction (500 ms histories) has run
			synctest.Wait()
			// the canaries of this block are freed one GC after their finalizers ran: let the
			// finalizer goroutine catch up so that they do not count as retained heap
			for i, last := 0, int64(-1); i < 20; i++ {
				runtime.GC()
				for k := 0; k < 200; k++ {
					runtime.Gosched()
				}
				if n := finW.Load() + finR.Load(); n == last {
					break
				} else {
					last = n
				}
			}
			pts = append(pts, measure())
		}
		for i := 0; i < 3; i++ {
			runtime.GC()
			time.Sleep(5 * time.Millisecond)
		}
		// canaries: everything but the most recent streams must have been finalized BEFORE Close
		all := int64(4 * cycles)
		if got := finW.Load(); got < all-all/10-2 {
			c.Violation(fmt.Sprintf("retained-after-unbind/%s/local-stream-writer", kind),
				"interceptor %s: %d local streams were bound and unbound, only %d of the writers handed to BindLocalStream became collectable", desc, all, got)
		}
		if got := finR.Load(); got < all-all/10-2 {
			c.Violation(fmt.Sprintf("retained-after-unbind/%s/remote-stream-reader", kind),
				"interceptor %s: %d remote streams were bound and unbound, only %d of the readers handed to BindRemoteStream became collectable", desc, all, got)
		}
		_ = b.I.Close()
		synctest.Wait()
	}, nil)
	if len(pts) != 4 {
		return
	}
	c.Add("churn_runs", 1)
	c.Add("bind_unbind_cycles", int64(4*cycles))
	series := []uint64{pts[0].Alloc / 1024, pts[1].Alloc / 1024, pts[2].Alloc / 1024, pts[3].Alloc / 1024}
	growth := int64(pts[3].Alloc) - int64(pts[1].Alloc)
	perCycle := float64(growth) / float64(2*cycles)
	monotone := pts[1].Objects < pts[2].Objects && pts[2].Objects < pts[3].Objects
	c.Max("max_churn_growth_bytes_per_cycle", int64(max(0, perCycle)))
	if growth > 64<<10 && perCycle > 24 && monotone {
		c.Violation(fmt.Sprintf("churn-growth/%s", kind),
			"interceptor %s: heap retained after forced GC grows with every bind/traffic/unbind cycle of a new SSRC: HeapAlloc KiB after each block of %d cycles %v, objects %d -> %d -> %d; %.0f bytes per cycle",
			desc, cycles, series, pts[1].Objects, pts[2].Objects, pts[3].Objects, perCycle)
	}
	c.Add("canaries_finalized", finW.Load()+finR.Load())
	c.Nontrivial(vf.NewHash().Str(kind.String()).Str("churn").Sum())
	c.Sample(map[string]any{"interceptor": desc, "workload": "churn", "heap_KiB_after_each_block": series, "cycles_per_block": cycles})
}
