// C02 – no untrusted packet can crash or wedge an interceptor.
//
// Monitor: every interceptor kind is bound to harness gates inside a virtual-time bubble,
// given a short valid prior history, and then fed hostile inputs through every
// Bind*Reader path and through the local-stream writer, alternating with well-formed
// probes. Observed per call: panic in the caller path (recover), call still blocked after
// quiescence + one virtual hour, returned n vs what the wrapped reader delivered; per
// probe: the well-formed packet still passes. A panic in a background goroutine or a
// runtime fatal error kills the child process; the parent then reports the case that was
// running (cases are deterministic in (seed, index), so the replay reproduces it).
package c02

import (
	"bytes"
	"encoding/binary"
	"fmt"
	"testing"
	"testing/synctest"
	"time"

	"github.com/pion/interceptor"
	"github.com/pion/rtcp"
	"github.com/pion/rtp"

	"github.com/pion/interceptor/verif/gen"
	"github.com/pion/interceptor/verif/obs"
	"github.com/pion/interceptor/verif/rig"
	"github.com/pion/interceptor/verif/vf"
	"github.com/pion/interceptor/verif/zoo"
)

func cases(tier string) int {
	if tier == "thorough" {
		return 18000
	}
	return 2880
}

func TestCheck(t *testing.T) {
	vf.Main(t, vf.Spec{Prop: "C02", Cases: cases, Run: run})
}

const twccID = 5

type scenario struct {
	c     *vf.Case
	r     *vf.Rand
	kind  zoo.Kind
	b     *zoo.Built
	rg    *rig.Rig
	h     *vf.Hash
	probeIDs map[uint64]bool // ids of outgoing probes (must reach the gate)
	nextID   uint64
	accepted, rejected int
	stop     bool
	maxDelivered int // longest packet any wrapped RTP reader has delivered so far
}

func run(c *vf.Case) {
	kind := zoo.All[c.Idx%len(zoo.All)]
	c.Bubble(func() { runScenario(c, kind) }, func(dump string) {
		// goroutines left behind: lifecycle is C11's business; here it only matters that
		// the process state is no longer trustworthy, so the child restarts.
		c.Add("scenarios_with_goroutines_left_after_close", 1)
	})
}

func runScenario(c *vf.Case, kind zoo.Kind) {
	r := c.R
	b, err := zoo.Build(r, kind, zoo.Opts{})
	if err != nil {
		c.Violation("build/"+kind.String(), "cannot build: %v", err)
		return
	}
	s := &scenario{c: c, r: r, kind: kind, b: b, rg: rig.New(b.I), h: vf.NewHash().Str(b.Desc), probeIDs: map[uint64]bool{}, nextID: 1}
	rg := s.rg
	if res := rg.BindRTCP(); s.bad("bind-rtcp", res) {
		return
	}
	tw := twccID
	locals := []zoo.StreamOpts{
		{SSRC: 1000, PT: 96, ClockRate: 90000, Nack: true, TWCCID: tw, RTX: r.Bool(), FEC: true},
		{SSRC: 2000, PT: 111, ClockRate: 48000},
	}
	remotes := []zoo.StreamOpts{
		{SSRC: 3000, PT: 96, ClockRate: 90000, Nack: true, PLI: true, TWCCID: tw},
		{SSRC: 4000, PT: 111, ClockRate: 48000},
	}
	for _, o := range locals {
		if _, res := rg.AddLocal(o); s.bad("bind-local", res) {
			return
		}
	}
	for _, o := range remotes {
		if _, res := rg.AddRemote(o); s.bad("bind-remote", res) {
			return
		}
	}
	for _, l := range rg.Locals {
		l.Seq, l.TS = r.U16(), r.U32()
		l.Gate.NoCopy = false
	}
	for _, m := range rg.Remotes {
		m.Seq, m.TS, m.TWCC = r.U16(), r.U32(), r.U16()
	}

	// ---- valid prior history -----------------------------------------------------
	nPrior := r.Range(20, 80)
	for i := 0; i < nPrior && !s.stop; i++ {
		switch r.Intn(4) {
		case 0, 1:
			s.probeWrite(rg.Locals[r.Intn(2)], "prior")
		case 2:
			m := rg.Remotes[r.Intn(2)]
			if r.Chance(0.1) {
				m.Seq += uint16(r.Range(1, 4)) // a gap
			}
			s.probeRead(m, "prior")
		default:
			s.probeRTCP("prior")
		}
		if r.Chance(0.3) {
			s.advance(time.Duration(r.Range(1, 40)) * time.Millisecond)
		}
	}

	// ---- "an arbitrary prior history": several hundred SSRCs seen on one reader (a conference
	// bridge, SSRC churn, or simply a hostile sender): every per-SSRC structure has that many entries
	if c.Idx/len(zoo.All)%8 == 3 && !s.stop {
		m := rg.Remotes[0]
		nSSRC := r.Pick(150, 300, 400, 700)
		for k := 0; k < nSSRC && !s.stop; k++ {
			h := rtp.Header{Version: 2, PayloadType: m.Opts.PT, SequenceNumber: uint16(k), Timestamp: uint32(k), SSRC: 0x51000000 + uint32(k)}
			pkt, _ := (&rtp.Packet{Header: h, Payload: []byte{1, 2, 3}}).Marshal()
			out := rg.ReadRTP(m, obs.FeedItem{Data: pkt}, 1500, 0xAA)
			if s.bad("read-rtp/many-ssrcs", out.Result, "well-formed packet of one more SSRC") {
				break
			}
		}
		s.advance(300 * time.Millisecond)
		c.Add("scenarios_with_hundreds_of_ssrcs_on_one_reader", 1)
	}

	// ---- hostile inputs alternating with probes -----------------------------------
	n := 100
	if c.Tier == "thorough" {
		n = 300
	}
	for i := 0; i < n && !s.stop; i++ {
		path := r.Intn(5)
		switch path {
		case 0, 1:
			s.hostileRead(rg.Remotes[path])
			if !s.stop {
				s.advance(time.Duration(r.Range(0, 30)) * time.Millisecond)
				s.probeRead(rg.Remotes[path], "probe")
			}
		case 2:
			s.hostileRTCP()
			if !s.stop {
				s.advance(time.Duration(r.Range(0, 30)) * time.Millisecond)
				s.probeRTCP("probe")
			}
		default:
			l := rg.Locals[path-3]
			s.hostileWrite(l)
			if !s.stop {
				s.advance(time.Duration(r.Range(0, 30)) * time.Millisecond)
				s.probeWrite(l, "probe")
			}
		}
	}
	if !s.stop {
		s.finalDelivery()
	}
	c.Add("hostile_inputs_accepted", int64(s.accepted))
	c.Add("hostile_inputs_rejected_with_error", int64(s.rejected))
	c.Add("scenarios_"+kind.String(), 1)
	if !s.stop && s.accepted > 0 && s.rejected > 0 {
		c.Nontrivial(s.h.Sum())
	}
	if c.WantSample() {
		c.Sample(map[string]any{"interceptor": b.Desc, "prior_ops": nPrior, "hostile_inputs": n,
			"accepted": s.accepted, "rejected": s.rejected})
	}
	// Close (a blocked or panicking Close is C11's; here we only need the bubble to end)
	res, _ := rg.Close()
	if res.Blocked {
		c.Add("close_blocked_after_hostile_input", 1)
	}
}

// bad records a panic / blocked call and tells the scenario to stop.
func (s *scenario) bad(where string, res rig.Result, witness ...string) bool {
	if res.Panic == nil && !res.Blocked {
		return false
	}
	w := ""
	if len(witness) > 0 {
		w = witness[0]
	}
	if res.Panic != nil {
		s.c.Violation(fmt.Sprintf("panic/%s/%s/%s", s.kind, where, rig.PanicSite(res.Stack)),
			"interceptor %s, %s\n%s\ninput: %s", s.b.Desc, where, res.Describe(), w)
	} else {
		s.c.Violation(fmt.Sprintf("blocked/%s/%s", s.kind, where),
			"interceptor %s, %s: %s\ninput: %s", s.b.Desc, where, res.Describe(), w)
		s.stop = true
		s.c.ExitResume() // a goroutine is stuck inside the bubble
	}
	s.stop = true
	return true
}

func (s *scenario) advance(d time.Duration) {
	if d > 0 {
		time.Sleep(d)
	}
	synctest.Wait()
}

func hexw(b []byte) string {
	if len(b) > 96 {
		return fmt.Sprintf("%d bytes %x…", len(b), b[:96])
	}
	return fmt.Sprintf("%d bytes %x", len(b), b)
}

// ---- well-formed traffic -----------------------------------------------------------

func (s *scenario) validHeader(ssrc uint32, pt uint8, seq uint16, ts uint32, twcc int, twccSeq uint16) rtp.Header {
	sh := gen.RandomShape(s.r)
	if sh.ExtKind == 3 && twcc != 0 {
		sh.ExtKind = 1 // a negotiated TWCC extension needs an RFC 8285 profile
	}
	h := gen.Header(s.r, sh, ssrc, pt, seq, ts, uint8(twcc))
	if twcc != 0 {
		ext, _ := (&rtp.TransportCCExtension{TransportSequence: twccSeq}).Marshal()
		if h.Extension && h.ExtensionProfile == rtp.ExtensionProfileTwoByte {
			_ = h.SetExtension(uint8(twcc), ext)
		} else {
			if !h.Extension {
				h.Extension, h.ExtensionProfile = true, rtp.ExtensionProfileOneByte
			}
			_ = h.SetExtension(uint8(twcc), ext)
		}
	}
	return h
}

func (s *scenario) probeWrite(l *rig.Local, phase string) {
	id := s.nextID
	s.nextID++
	l.Seq++
	l.TS += 3000
	h := s.validHeader(l.Opts.SSRC, l.Opts.PT, l.Seq, l.TS, l.Opts.TWCCID, uint16(id))
	h.Padding, h.PaddingSize = false, 0
	payload := gen.Payload(s.r, s.r.Range(8, 1200), id)
	want := append([]byte(nil), payload...)
	before := l.Gate.Len()
	out := s.rg.WriteRTP(l, &h, payload, interceptor.Attributes{})
	if s.bad("write-rtp/"+phase, out.Result, "well-formed packet") {
		return
	}
	s.c.Add("probes_rtp_write", 1)
	if out.Err != nil {
		s.c.Violation(fmt.Sprintf("probe-rejected/%s/write-rtp", s.kind),
			"interceptor %s: well-formed outgoing packet (ssrc %d seq %d payload %d bytes) rejected after hostile input: %v",
			s.b.Desc, l.Opts.SSRC, l.Seq, len(want), out.Err)
		s.stop = true
		return
	}
	if !bytes.Equal(payload, want) {
		s.c.Violation(fmt.Sprintf("payload-modified/%s/write-rtp", s.kind), "caller's payload changed by Write")
		s.stop = true
		return
	}
	s.probeIDs[id] = true
	if s.buffering() {
		return // delivery is checked at the end
	}
	// pass-through kinds: the packet must have reached the gate during the call
	evs := l.Gate.Events()
	found := false
	for _, ev := range evs[before:] {
		if pid, ok := gen.PayloadID(ev.Payload); ok && pid == id && ev.Header.SSRC == l.Opts.SSRC {
			found = true
		}
	}
	if !found {
		s.c.Violation(fmt.Sprintf("probe-not-forwarded/%s/write-rtp", s.kind),
			"interceptor %s: well-formed outgoing packet id %d did not reach the next writer", s.b.Desc, id)
		s.stop = true
	}
}

func (s *scenario) buffering() bool {
	return s.kind == zoo.CCLeakyBucket || s.kind == zoo.Pacing
}

func (s *scenario) validIncoming(m *rig.Remote) []byte {
	m.Seq++
	m.TS += 3000
	m.TWCC++
	h := s.validHeader(m.Opts.SSRC, m.Opts.PT, m.Seq, m.TS, m.Opts.TWCCID, m.TWCC)
	p := rtp.Packet{Header: h, Payload: s.r.Bytes(s.r.Range(1, 1200))}
	if h.Padding {
		// last padding byte must carry the count: Marshal handles Header.PaddingSize
	}
	b, err := p.Marshal()
	if err != nil {
		h.Padding, h.PaddingSize = false, 0
		p.Header = h
		b, _ = p.Marshal()
	}
	return b
}

func (s *scenario) probeRead(m *rig.Remote, phase string) {
	data := s.validIncoming(m)
	bufSize := len(data)
	if s.r.Bool() {
		bufSize = max(len(data), s.r.Pick(1500, len(data)+1, len(data)+s.r.Range(1, 200)))
	}
	out := s.rg.ReadRTP(m, obs.FeedItem{Data: data}, bufSize, 0xAA)
	if s.bad("read-rtp/"+phase, out.Result, "well-formed packet "+hexw(data)) {
		return
	}
	s.c.Add("probes_rtp_read", 1)
	s.maxDelivered = max(s.maxDelivered, len(data))
	limit := len(data)
	if s.kind == zoo.JitterBuffer {
		limit = s.maxDelivered // it hands out an earlier packet, which may be longer than this one
	}
	if out.N > limit || out.N > bufSize {
		s.c.Violation(fmt.Sprintf("n-too-large/%s/read-rtp", s.kind),
			"interceptor %s: wrapped reader delivered %d bytes into a %d-byte buffer, Read returned n=%d (err=%v)",
			s.b.Desc, len(data), bufSize, out.N, out.Err)
		s.stop = true
		return
	}
	if s.kind == zoo.JitterBuffer {
		return // buffering by design: returns other packets or ErrPopWhileBuffering
	}
	if out.Err != nil || out.N != len(data) || !bytes.Equal(out.Buf[:out.N], data) {
		s.c.Violation(fmt.Sprintf("probe-rejected/%s/read-rtp", s.kind),
			"interceptor %s: well-formed incoming packet not passed through after hostile input: n=%d want %d err=%v\npacket %s",
			s.b.Desc, out.N, len(data), out.Err, hexw(data))
		s.stop = true
	}
}

func (s *scenario) ssrcs() []uint32 { return []uint32{1000, 2000, 3000, 4000, 1000 + 0x10000} }

func (s *scenario) probeRTCP(phase string) {
	var data []byte
	if s.r.Chance(0.4) {
		// feedback about things really sent: NACK / TWCC / CCFB for recent numbers of local stream 0
		l := s.rg.Locals[0]
		switch s.r.Intn(3) {
		case 0:
			p := &rtcp.TransportLayerNack{SenderSSRC: 1, MediaSSRC: l.Opts.SSRC,
				Nacks: []rtcp.NackPair{{PacketID: l.Seq - uint16(s.r.Intn(8)), LostPackets: rtcp.PacketBitmap(s.r.U16())}}}
			data, _ = p.Marshal()
		case 1:
			recv := make([]bool, s.r.Range(1, 30))
			for i := range recv {
				recv[i] = s.r.Chance(0.8)
			}
			base := uint16(s.nextID) - uint16(s.r.Intn(40))
			data, _ = gen.ValidTWCC(s.r, l.Opts.SSRC, base, recv, uint8(s.r.Intn(256))).Marshal()
		default:
			recv := make([]bool, s.r.Range(1, 30))
			for i := range recv {
				recv[i] = s.r.Chance(0.8)
			}
			data, _ = gen.ValidCCFB(s.r, l.Opts.SSRC, l.Seq-uint16(s.r.Intn(40)), recv, s.r.U32()).Marshal()
		}
	}
	if data == nil {
		data, _ = gen.Compound(s.r, s.ssrcs(), s.r.Range(1, 4))
	}
	bufSize := len(data)
	if s.r.Bool() {
		bufSize = max(len(data), s.r.Pick(1500, len(data)+4, len(data)+s.r.Range(1, 200)))
	}
	out := s.rg.ReadRTCP(obs.FeedItem{Data: data}, bufSize, 0xAA)
	if s.bad("read-rtcp/"+phase, out.Result, "well-formed compound "+hexw(data)) {
		return
	}
	s.c.Add("probes_rtcp_read", 1)
	if out.N > len(data) || out.N > bufSize {
		s.c.Violation(fmt.Sprintf("n-too-large/%s/read-rtcp", s.kind), "delivered %d, returned n=%d", len(data), out.N)
		s.stop = true
		return
	}
	if out.Err != nil || out.N != len(data) || !bytes.Equal(out.Buf[:out.N], data) {
		s.c.Violation(fmt.Sprintf("probe-rejected/%s/read-rtcp", s.kind),
			"interceptor %s: well-formed RTCP not passed through after hostile input: n=%d want %d err=%v\ncompound %s",
			s.b.Desc, out.N, len(data), out.Err, hexw(data))
		s.stop = true
	}
}

// ---- hostile inputs ----------------------------------------------------------------

func (s *scenario) hostileRTPBytes(m *rig.Remote) []byte {
	r := s.r
	switch r.Intn(9) {
	case 0:
		return r.Bytes(r.Range(0, 1500))
	case 1:
		return r.Bytes(r.Range(0, 16))
	case 2, 3:
		return gen.Mutate(r, s.validIncomingNoAdvance(m))
	case 4: // 12-byte header announcing 15 CSRCs
		b := []byte{0x8f, byte(m.Opts.PT), 0, 1, 0, 0, 0, 1, 0, 0, 0, 0}
		binary.BigEndian.PutUint32(b[8:], m.Opts.SSRC)
		return append(b, r.Bytes(r.Pick(0, 0, 3, 59, 60))...)
	case 5: // extension bit with a lying extension length
		b := []byte{0x90, byte(m.Opts.PT), 0, 2, 0, 0, 0, 2, 0, 0, 0, 0, 0xBE, 0xDE, 0, 0}
		binary.BigEndian.PutUint32(b[8:], m.Opts.SSRC)
		binary.BigEndian.PutUint16(b[14:], uint16(r.Pick(1, 2, 100, 0xffff)))
		return append(b, r.Bytes(r.Pick(0, 3, 4, 7))...)
	case 6: // TWCC extension id present with a wrong length (1 or 3 bytes) or empty
		h := rtp.Header{Version: 2, PayloadType: m.Opts.PT, SequenceNumber: m.Seq + 1, SSRC: m.Opts.SSRC,
			Extension: true, ExtensionProfile: rtp.ExtensionProfileOneByte}
		_ = h.SetExtension(twccID, r.Bytes(r.Pick(1, 3, 4)))
		b, _ := (&rtp.Packet{Header: h, Payload: r.Bytes(r.Intn(20))}).Marshal()
		return b
	case 7: // padding bit with an impossible count
		b := s.validIncomingNoAdvance(m)
		if len(b) > 0 {
			b[0] |= 0x20
			b[len(b)-1] = byte(r.Pick(0, 255, len(b), len(b)-11))
		}
		return b
	default: // version != 2 / all 0xff
		b := s.validIncomingNoAdvance(m)
		if len(b) > 0 {
			b[0] = byte(r.Intn(256))
		}
		return b
	}
}

func (s *scenario) validIncomingNoAdvance(m *rig.Remote) []byte {
	seq, ts, tw := m.Seq, m.TS, m.TWCC
	b := s.validIncoming(m)
	if s.r.Bool() {
		m.Seq, m.TS, m.TWCC = seq, ts, tw
	}
	return b
}

func (s *scenario) hostileRead(m *rig.Remote) {
	data := s.hostileRTPBytes(m)
	s.h.Bytes(data)
	bufSize := len(data)
	switch s.r.Intn(4) {
	case 0:
		bufSize = 1500
	case 1:
		bufSize = len(data) + s.r.Range(1, 100)
	case 2:
		if len(data) > 0 {
			bufSize = s.r.Range(0, len(data)) // buffer shorter than the packet
		}
	}
	item := obs.FeedItem{Data: data}
	if s.r.Chance(0.05) {
		item.Err = &obs.InjErr{ID: 1}
		item.NWithErr = s.r.Bool()
	}
	s.c.Logf("hostile read-rtp ssrc=%d buf=%d data=%s", m.Opts.SSRC, bufSize, hexw(data))
	out := s.rg.ReadRTP(m, item, bufSize, 0x55)
	if s.bad("read-rtp/hostile", out.Result, hexw(data)+fmt.Sprintf(" into a %d-byte buffer", bufSize)) {
		return
	}
	s.c.Add("hostile_rtp_reads", 1)
	delivered := min(len(data), bufSize)
	if item.Err != nil && !item.NWithErr {
		delivered = 0
	}
	s.maxDelivered = max(s.maxDelivered, delivered)
	if s.kind == zoo.JitterBuffer && item.Err == nil {
		delivered = s.maxDelivered // it hands out an earlier packet, which may be longer than this one
	}
	if out.N > delivered || out.N > bufSize || out.N < 0 {
		s.c.Violation(fmt.Sprintf("n-too-large/%s/read-rtp", s.kind),
			"interceptor %s: wrapped reader delivered %d bytes into a %d-byte buffer, Read returned n=%d (err=%v)\ninput %s",
			s.b.Desc, delivered, bufSize, out.N, out.Err, hexw(data))
		s.stop = true
		return
	}
	if out.Err == nil {
		s.accepted++
	} else {
		s.rejected++
	}
}

func (s *scenario) hostileRTCPBytes() []byte {
	r := s.r
	l := s.rg.Locals[0]
	switch r.Intn(10) {
	case 0:
		return r.Bytes(r.Range(0, 1500))
	case 1, 2:
		b, _ := gen.Compound(r, s.ssrcs(), r.Range(1, 4))
		return gen.Mutate(r, b)
	case 3, 4:
		base := uint16(s.nextID) - uint16(r.Intn(60))
		if r.Chance(0.3) {
			base = r.U16()
		}
		return gen.InconsistentTWCC(r, l.Opts.SSRC, base)
	case 5: // RFC 8888 block whose range wraps, or refers to numbers never sent
		recv := make([]bool, r.Pick(1, 20, 300, 2000))
		for i := range recv {
			recv[i] = r.Chance(0.7)
		}
		b, _ := gen.ValidCCFB(r, l.Opts.SSRC, uint16(r.Pick(65530, 65535, 0, int(l.Seq), int(l.Seq)+30000)), recv, r.U32()).Marshal()
		return b
	case 6: // RFC 8888 with zero-length report blocks and duplicated SSRC blocks
		rep := &rtcp.CCFeedbackReport{SenderSSRC: r.U32(), ReportTimestamp: r.U32()}
		for i := r.Range(1, 5); i > 0; i-- {
			blk := rtcp.CCFeedbackReportBlock{MediaSSRC: l.Opts.SSRC, BeginSequence: l.Seq - uint16(r.Intn(10))}
			for j := r.Pick(0, 0, 1, 3); j > 0; j-- {
				blk.MetricBlocks = append(blk.MetricBlocks, rtcp.CCFeedbackMetricBlock{Received: r.Bool(), ArrivalTimeOffset: uint16(r.Intn(0x2000))})
			}
			rep.ReportBlocks = append(rep.ReportBlocks, blk)
		}
		b, _ := rep.Marshal()
		return b
	case 7: // a NACK whose bitmask runs across the wrap / for numbers never sent, many pairs
		n := &rtcp.TransportLayerNack{SenderSSRC: 1, MediaSSRC: l.Opts.SSRC}
		for i := r.Range(1, 40); i > 0; i-- {
			n.Nacks = append(n.Nacks, rtcp.NackPair{PacketID: r.EdgeU16(), LostPackets: rtcp.PacketBitmap(r.Pick(0xffff, int(r.U16())))})
		}
		b, _ := n.Marshal()
		return b
	case 8: // valid TWCC feedback for numbers far from anything sent, with extreme deltas/ref time
		recv := make([]bool, r.Range(1, 200))
		for i := range recv {
			recv[i] = r.Chance(0.9)
		}
		t := gen.ValidTWCC(r, l.Opts.SSRC, r.U16(), recv, 0)
		t.ReferenceTime = uint32(r.Pick(0, 0xffffff, 0x800000))
		for _, d := range t.RecvDeltas {
			if d.Type == rtcp.TypeTCCPacketReceivedLargeDelta {
				d.Delta = int64(r.Pick(-32768, 32767, -1, 0)) * 250
			}
		}
		b, _ := t.Marshal()
		return b
	default: // SR/RR/XR with extreme field values
		pk := []rtcp.Packet{
			&rtcp.SenderReport{SSRC: 3000, NTPTime: uint64(r.Pick(0, 1)) * ^uint64(0), RTPTime: ^uint32(0), PacketCount: ^uint32(0), OctetCount: ^uint32(0),
				Reports: []rtcp.ReceptionReport{{SSRC: 1000, FractionLost: 255, TotalLost: 0xffffff, LastSequenceNumber: ^uint32(0), Jitter: ^uint32(0), LastSenderReport: ^uint32(0), Delay: ^uint32(0)}}},
			&rtcp.ExtendedReport{SenderSSRC: 3000, Reports: []rtcp.ReportBlock{&rtcp.DLRRReportBlock{Reports: []rtcp.DLRRReport{{SSRC: 1000, LastRR: ^uint32(0), DLRR: ^uint32(0)}}}}},
		}
		b, _ := rtcp.Marshal(pk)
		return b
	}
}

func (s *scenario) hostileRTCP() {
	data := s.hostileRTCPBytes()
	s.h.Bytes(data)
	bufSize := len(data)
	switch s.r.Intn(3) {
	case 0:
		bufSize = max(1500, len(data))
	case 1:
		bufSize = len(data) + s.r.Range(1, 100)
	}
	s.c.Logf("hostile read-rtcp buf=%d data=%s", bufSize, hexw(data))
	out := s.rg.ReadRTCP(obs.FeedItem{Data: data}, bufSize, 0x55)
	if s.bad("read-rtcp/hostile", out.Result, hexw(data)) {
		return
	}
	s.c.Add("hostile_rtcp_reads", 1)
	if out.N > len(data) || out.N > bufSize || out.N < 0 {
		s.c.Violation(fmt.Sprintf("n-too-large/%s/read-rtcp", s.kind),
			"interceptor %s: delivered %d bytes, Read returned n=%d (err=%v)\ninput %s", s.b.Desc, len(data), out.N, out.Err, hexw(data))
		s.stop = true
		return
	}
	if out.Err == nil {
		s.accepted++
	} else {
		s.rejected++
	}
}

func (s *scenario) hostileWrite(l *rig.Local) {
	r := s.r
	l.Seq += uint16(r.Pick(1, 1, 1, 0, 2, 40000)) // duplicates, gaps, backwards jumps too
	sh := gen.RandomShape(r)
	h := gen.Header(r, sh, l.Opts.SSRC, l.Opts.PT, l.Seq, r.U32())
	switch r.Intn(8) {
	case 0: // no TWCC extension on a TWCC-negotiated stream
	case 1: // TWCC extension id with wrong-size payload
		if h.Extension && h.ExtensionProfile != rtp.ExtensionProfileOneByte && h.ExtensionProfile != rtp.ExtensionProfileTwoByte {
			h.Extension, h.Extensions, h.ExtensionProfile = false, nil, 0
		}
		_ = h.SetExtension(uint8(l.Opts.TWCCID|1), r.Bytes(r.Pick(1, 3)))
	case 2: // foreign SSRC / PT
		h.SSRC = r.U32()
	case 3: // Padding flag without PaddingSize: legacy form, last payload byte is the count (possibly impossible)
		h.Padding, h.PaddingSize = true, 0
	case 4: // extension flag set with no extensions at all
		h.Extension, h.Extensions = true, nil
		h.ExtensionProfile = uint16(r.Pick(0xBEDE, 0x1000, 0x1234))
	default:
		if l.Opts.TWCCID != 0 && sh.ExtKind != 3 {
			ext, _ := (&rtp.TransportCCExtension{TransportSequence: r.U16()}).Marshal()
			if !h.Extension {
				h.Extension, h.ExtensionProfile = true, rtp.ExtensionProfileOneByte
			}
			_ = h.SetExtension(uint8(l.Opts.TWCCID), ext)
		}
	}
	var payload []byte
	switch r.Intn(8) {
	case 0:
		payload = nil
	case 1:
		payload = []byte{}
	case 2:
		payload = r.Bytes(r.Pick(1461, 1462, 1500, 2000, 9000, 65535, r.Range(1461, 65535)))
	case 3:
		payload = r.Bytes(r.Pick(1458, 1459, 1460))
	default:
		payload = r.Bytes(gen.PayloadLen(r, 1460))
	}
	if h.Padding && h.PaddingSize == 0 && len(payload) > 0 {
		payload[len(payload)-1] = byte(r.Pick(0, 1, len(payload), len(payload)+1, 255))
	}
	s.h.U64(uint64(len(payload))).U64(uint64(h.MarshalSize()))
	s.c.Logf("hostile write-rtp ssrc=%d seq=%d hdr=%+v payload=%d bytes", l.Opts.SSRC, h.SequenceNumber, h, len(payload))
	var hp *rtp.Header = &h
	out := s.rg.WriteRTP(l, hp, payload, interceptor.Attributes{})
	if s.bad("write-rtp/hostile", out.Result, fmt.Sprintf("header %+v payload %d bytes", h, len(payload))) {
		return
	}
	s.c.Add("hostile_rtp_writes", 1)
	if out.Err == nil {
		s.accepted++
	} else {
		s.rejected++
	}
}

// finalDelivery: buffering senders must still deliver every accepted well-formed probe.
func (s *scenario) finalDelivery() {
	if !s.buffering() {
		return
	}
	seen := func() int {
		n := 0
		for _, l := range s.rg.Locals {
			for _, ev := range l.Gate.Events() {
				if id, ok := gen.PayloadID(ev.Payload); ok && s.probeIDs[id] {
					n++
				}
			}
		}
		return n
	}
	// up to one virtual hour, in growing steps
	step := 100 * time.Millisecond
	for waited := time.Duration(0); waited < time.Hour && seen() < len(s.probeIDs); waited += step {
		s.advance(step)
		if step < time.Minute {
			step *= 2
		}
	}
	if got := seen(); got < len(s.probeIDs) {
		s.c.Violation(fmt.Sprintf("wedged/%s/probes-never-delivered", s.kind),
			"interceptor %s: %d of %d accepted well-formed packets were not delivered within one virtual hour after the last write",
			s.b.Desc, len(s.probeIDs)-got, len(s.probeIDs))
	}
	s.c.Add("buffered_probes_delivered", int64(seen()))
}
