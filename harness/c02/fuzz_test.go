package c02

// Coverage-guided extension of C02 (thorough tier only): Go's native fuzzer mutates the bytes
// handed to every Bind*Reader path of a freshly built interceptor (kind chosen by the first
// byte). The oracle is the process staying alive, no panic in the caller path, no blocked call
// and n <= delivered - the same as in the generated workload; the fuzzer only contributes inputs
// that reach new code. A crasher is written by the Go tool under testdata/fuzz and reported by
// the runner as a violation of the running target.

import (
	"os"
	"strconv"
	"strings"
	"testing"
	"testing/synctest"
	"time"

	"github.com/pion/interceptor"
	"github.com/pion/rtcp"
	"github.com/pion/rtp"

	"github.com/pion/interceptor/verif/gen"
	"github.com/pion/interceptor/verif/obs"
	"github.com/pion/interceptor/verif/rig"
	"github.com/pion/interceptor/verif/vf"
	"github.com/pion/interceptor/verif/zoo"
)

func fuzzOne(t *testing.T, sel uint8, rtcpPath bool, data []byte) {
	kind := zoo.All[int(sel)%len(zoo.All)]
	synctest.Test(t, func(t *testing.T) {
		r := vf.NewRand(uint64(sel), "fuzz", 0)
		b, err := zoo.Build(r, kind, zoo.Opts{})
		if err != nil {
			t.Fatalf("build: %v", err)
		}
		rg := rig.New(b.I)
		rg.BlockAllowance = time.Minute
		if res := rg.BindRTCP(); res.Panic != nil || res.Blocked {
			t.Fatalf("bind rtcp: %s", res.Describe())
		}
		l, _ := rg.AddLocal(zoo.StreamOpts{SSRC: 1000, PT: 96, ClockRate: 90000, Nack: true, TWCCID: twccID, RTX: true, FEC: true})
		m, _ := rg.AddRemote(zoo.StreamOpts{SSRC: 3000, PT: 96, ClockRate: 90000, Nack: true, PLI: true, TWCCID: twccID})
		// a little valid history so that rings / logs / histories are populated
		for i := 0; i < 12; i++ {
			h := rtp.Header{Version: 2, PayloadType: 96, SequenceNumber: uint16(100 + i), Timestamp: uint32(i * 3000), SSRC: 1000}
			ext, _ := (&rtp.TransportCCExtension{TransportSequence: uint16(i)}).Marshal()
			_ = h.SetExtension(twccID, ext)
			rg.WriteRTP(l, &h, []byte{1, 2, 3, 4, 5, 6, 7, 8}, interceptor.Attributes{})
			h.SSRC, h.SequenceNumber = 3000, uint16(500+2*i)
			pkt, _ := (&rtp.Packet{Header: h, Payload: []byte{9, 9, 9}}).Marshal()
			rg.ReadRTP(m, obs.FeedItem{Data: pkt}, 1500, 0)
		}
		var out rig.ReadOut
		bufSize := len(data) + int(sel>>5)*37
		if rtcpPath {
			out = rg.ReadRTCP(obs.FeedItem{Data: data}, bufSize, 0x55)
		} else {
			out = rg.ReadRTP(m, obs.FeedItem{Data: data}, bufSize, 0x55)
		}
		if out.Panic != nil {
			t.Fatalf("%s: panic on hostile input: %s", kind, out.Describe())
		}
		if out.Blocked {
			t.Fatalf("%s: call blocked on hostile input", kind)
		}
		if kind != zoo.JitterBuffer && (out.N > len(data) || out.N > bufSize) {
			t.Fatalf("%s: reader delivered %d bytes, Read returned n=%d", kind, len(data), out.N)
		}
		time.Sleep(300 * time.Millisecond)
		synctest.Wait()
		// the interceptor keeps working: a well-formed packet still passes
		if kind != zoo.JitterBuffer {
			h := rtp.Header{Version: 2, PayloadType: 96, SequenceNumber: 900, Timestamp: 1, SSRC: 3000}
			pkt, _ := (&rtp.Packet{Header: h, Payload: []byte{7, 7, 7, 7}}).Marshal()
			pr := rg.ReadRTP(m, obs.FeedItem{Data: pkt}, 1500, 0)
			if pr.Panic != nil || pr.Blocked || pr.Err != nil || pr.N != len(pkt) {
				t.Fatalf("%s: well-formed packet after hostile input: n=%d err=%v %s", kind, pr.N, pr.Err, pr.Describe())
			}
		}
		rg.Close()
		synctest.Wait()
	})
}

func seedCorpus(f *testing.F, rtcpPath bool) {
	r := vf.NewRand(1, "fuzzseed", 0)
	for sel := 0; sel < len(zoo.All); sel++ {
		if rtcpPath {
			b, _ := gen.Compound(r, []uint32{1000, 3000}, 3)
			f.Add(uint8(sel), b)
			f.Add(uint8(sel), gen.InconsistentTWCC(r, 1000, 5))
			recv := []bool{true, false, true, true}
			c, _ := gen.ValidCCFB(r, 1000, 100, recv, 77).Marshal()
			f.Add(uint8(sel), c)
			n, _ := (&rtcp.TransportLayerNack{SenderSSRC: 1, MediaSSRC: 1000, Nacks: []rtcp.NackPair{{PacketID: 105, LostPackets: 7}}}).Marshal()
			f.Add(uint8(sel), n)
		} else {
			h := gen.Header(r, gen.RandomShape(r), 3000, 96, 600, 7, twccID)
			p, _ := (&rtp.Packet{Header: h, Payload: r.Bytes(20)}).Marshal()
			f.Add(uint8(sel), p)
			f.Add(uint8(sel), []byte{0x8f, 96, 0, 1, 0, 0, 0, 1, 0, 0, 0x0b, 0xb8})
		}
	}
}

func FuzzRTCPRead(f *testing.F) {
	seedCorpus(f, true)
	f.Fuzz(func(t *testing.T, sel uint8, data []byte) {
		if len(data) > 1500 {
			data = data[:1500]
		}
		fuzzOne(t, sel, true, data)
	})
}

func FuzzRTPRead(f *testing.F) {
	seedCorpus(f, false)
	f.Fuzz(func(t *testing.T, sel uint8, data []byte) {
		if len(data) > 1500 {
			data = data[:1500]
		}
		fuzzOne(t, sel, false, data)
	})
}

// TestFuzzReplay re-runs one saved fuzz input (Go corpus file format) through the same oracle:
// VERIF_FUZZ_FILE=<corpus file> VERIF_FUZZ_TARGET=FuzzRTCPRead|FuzzRTPRead.
func TestFuzzReplay(t *testing.T) {
	file := os.Getenv("VERIF_FUZZ_FILE")
	if file == "" {
		t.Skip("no VERIF_FUZZ_FILE")
	}
	raw, err := os.ReadFile(file)
	if err != nil {
		t.Fatal(err)
	}
	var sel uint8
	var data []byte
	for _, ln := range strings.Split(string(raw), "\n") {
		ln = strings.TrimSpace(ln)
		switch {
		case strings.HasPrefix(ln, "byte(") && strings.HasSuffix(ln, ")"):
			v, _, _, err := strconv.UnquoteChar(strings.Trim(ln[5:len(ln)-1], "'"), '\'')
			if err != nil {
				t.Fatalf("corpus line %q: %v", ln, err)
			}
			sel = uint8(v)
		case strings.HasPrefix(ln, "uint8(") && strings.HasSuffix(ln, ")"):
			n, err := strconv.ParseUint(ln[6:len(ln)-1], 0, 8)
			if err != nil {
				t.Fatalf("corpus line %q: %v", ln, err)
			}
			sel = uint8(n)
		case strings.HasPrefix(ln, "[]byte(") && strings.HasSuffix(ln, ")"):
			s, err := strconv.Unquote(ln[7 : len(ln)-1])
			if err != nil {
				t.Fatalf("corpus line %q: %v", ln, err)
			}
			data = []byte(s)
		}
	}
	t.Logf("replaying sel=%d (%s) %d bytes %x", sel, zoo.All[int(sel)%len(zoo.All)], len(data), data)
	fuzzOne(t, sel, os.Getenv("VERIF_FUZZ_TARGET") != "FuzzRTPRead", data)
}
