// C06 – receiver reports follow RFC 3550 for the observed reception history.
//
// Monitor: the real report.ReceiverInterceptor runs inside a synctest bubble (virtual
// time). A recording RTCPWriter is bound (this starts the ticker loop at a known virtual
// instant T0), 1..3 remote streams are bound, and a generated timeline of RTP arrivals
// (through the RTPReader returned by BindRemoteStream) and RTCP compounds (through the
// reader returned by BindRTCPReader) is replayed at chosen virtual instants. Arrival
// instants are odd multiples of 0.5 us, tick instants are multiples of 1 ms, so "before
// the tick" is never a tie. Every receiver report written is stamped with the virtual
// clock and decided by an independent model (see model.go) of the RFC 3550 arithmetic on
// the history prefix that precedes the report.
//
// Case kinds (chosen per case index from the case PRNG):
//
//	general   1..3 streams, loss / dup / reorder / jumps, 3..40 ticks        (primary domain)
//	cycles    several 16-bit cycles through sender jumps <= 8192 per interval (primary)
//	dense     tens of thousands of packets in (nearly) sending order          (primary)
//	saturate  cumulative lost driven past 2^24-1                              (primary)
//	secondary report intervals > 8192 numbers, late packets >= 8192 behind    (secondary)
//
// Primary domain (the statement's "within the 8192-packet history"): every report interval
// spans <= 8192 sequence numbers and every late packet is < 8192 behind the highest.
// Mismatches of the loss fields outside that domain are reported under `secondary/...`.
package c06

import (
	"fmt"
	"runtime"
	"sort"
	"sync"
	"testing"
	"testing/synctest"
	"time"

	"github.com/pion/interceptor"
	"github.com/pion/interceptor/pkg/report"
	"github.com/pion/rtcp"
	"github.com/pion/rtp"

	"github.com/pion/interceptor/verif/gen"
	"github.com/pion/interceptor/verif/vf"
)

func cases(tier string) int {
	if tier == "thorough" {
		return 40000
	}
	return 1200
}

func TestCheck(t *testing.T) {
	vf.Main(t, vf.Spec{Prop: "C06", Cases: cases, Run: run})
}

const (
	kGeneral = iota
	kCycles
	kDense
	kSaturate
	kSecondary
)

var kindNames = []string{"general", "cycles", "dense", "saturate", "secondary"}

// ---------------------------------------------------------------------------------
// scenario

type arrival struct {
	idx int64  // true index; sequence number = uint16(idx)
	ts  uint32 // RTP timestamp
	at  int64  // virtual ns after T0 (odd multiple of 500 ns)
}

type streamScn struct {
	ssrc      uint32
	rate      uint32
	shape     gen.Shape
	pt        uint8
	bindEarly bool // bound before BindRTCPWriter
	arr       []arrival
}

type rtcpEvent struct {
	at   int64
	pkts []rtcp.Packet
	raw  []byte
}

type scenario struct {
	kind      int
	secondary bool
	interval  time.Duration // 0 = library default (1 s)
	ivNs      int64
	injected  bool  // ReceiverNow injected
	num, den  int64 // injected clock speed
	quantum   int64 // injected clock resolution (ns)
	epoch     time.Time
	pre       time.Duration // virtual delay before BindRTCPWriter
	streams   []*streamScn
	rtcps     []rtcpEvent
	end       int64 // virtual ns after T0 at which the run stops
}

func pickKind(r *vf.Rand) int {
	switch p := r.Intn(1000); {
	case p < 660:
		return kGeneral
	case p < 790:
		return kCycles
	case p < 810:
		return kDense
	case p < 817:
		return kSaturate
	default:
		return kSecondary
	}
}

// tsPlan maps a true index to an RTP timestamp.
type tsPlan struct {
	base      uint32
	step      uint32 // per frame
	perFrame  int64  // packets per frame (multi-packet frames)
	mode      int    // 0 frames, 1 frames with B-frame style backwards steps, 2 per-packet noise, 3 constant
	start     int64
	noiseSeed uint64
}

func mix64(z uint64) uint64 {
	z += 0x9e3779b97f4a7c15
	z = (z ^ (z >> 30)) * 0xbf58476d1ce4e5b9
	z = (z ^ (z >> 27)) * 0x94d049bb133111eb
	return z ^ (z >> 31)
}

func (p *tsPlan) ts(idx int64) uint32 {
	rel := idx - p.start
	frame := rel / p.perFrame
	switch p.mode {
	case 1:
		// groups of 4 frames sent in order 0,3,1,2: timestamps step backwards inside a group
		perm := [4]int64{0, 3, 1, 2}
		frame = frame - frame%4 + perm[frame%4]
	case 2:
		n := int64(mix64(p.noiseSeed^uint64(idx))%uint64(4*p.step+1)) - int64(2*p.step)
		return p.base + uint32(frame)*p.step + uint32(n)
	case 3:
		return p.base
	}
	return p.base + uint32(frame)*p.step
}

func makeTSPlan(r *vf.Rand, rate uint32, start int64, span int64) *tsPlan {
	p := &tsPlan{start: start, perFrame: 1, noiseSeed: r.U64()}
	switch rate {
	case 8000:
		p.step = uint32(r.Pick(160, 80, 240))
	case 48000:
		p.step = uint32(r.Pick(960, 480, 2880))
	default:
		p.step = uint32(r.Pick(3000, 3600, 1500, 9000))
	}
	if r.Chance(0.4) {
		p.perFrame = int64(r.Pick(2, 3, 5, 12, 40))
	}
	switch q := r.Intn(20); {
	case q < 12:
		p.mode = 0
	case q < 15:
		p.mode = 1
	case q < 19:
		p.mode = 2
	default:
		p.mode = 3
	}
	// total timestamp advance over the history (kept far below 2^30 per step by the
	// index-step limits; see model.go for why that matters)
	adv := uint64(span/p.perFrame+1) * uint64(p.step)
	switch q := r.Intn(10); {
	case q < 1:
		p.base = 0
	case q < 4: // the 2^32 wrap falls inside the history
		if adv > 1<<32-1 {
			adv = 1<<32 - 1
		}
		p.base = uint32(-int64(uint64(r.Float()*float64(adv)) + 1))
	case q < 5:
		p.base = 1<<31 - uint32(r.Intn(int(adv%(1<<30))+1))
	case q < 6:
		p.base = uint32(-int64(r.Intn(3)) - 0) // 0, 2^32-1, 2^32-2
	default:
		p.base = r.U32()
	}
	return p
}

// placeTimes assigns virtual arrival instants to an arrival order and enforces the
// family's domain:
//   - primary: a late packet >= 8192 behind the highest is dropped; when the highest would
//     move more than 8192 numbers past the value it had at the previous tick, the arrival is
//     postponed until after the next tick.
//   - both: a forward step >= 2^15 (undecidable in 16 bits) ends the stream.
func placeTimes(r *vf.Rand, order []int64, plan *tsPlan, ivNs int64, meanGapUs int64, primary bool, t0us int64) []arrival {
	out := make([]arrival, 0, len(order))
	curUs := t0us // arrival instant = curUs*1000+500 ns
	ivUs := ivNs / 1000
	var highest, hAtTick int64
	lastTickNo := int64(0)
	pSpecial := 0.03
	if n := float64(len(order)); n > 300 {
		pSpecial = 9 / n
	}
	crossed := func() {
		if tn := (curUs*1000 + 500) / ivNs; tn != lastTickNo {
			lastTickNo = tn
			hAtTick = highest
		}
	}
	for i, idx := range order {
		if i == 0 {
			highest, hAtTick = idx, idx-1
			lastTickNo = (curUs*1000 + 500) / ivNs
			out = append(out, arrival{idx: idx, ts: plan.ts(idx), at: curUs*1000 + 500})
			continue
		}
		// gap (the special placements are rarer in long histories so that the number of
		// ticks stays proportional to the planned duration)
		switch q := r.Float(); {
		case q < 0.14: // equal instants
		case q < 0.14+pSpecial: // long silence: one or more ticks with nothing between
			curUs += ivUs*int64(r.Range(1, 3)) + int64(r.Intn(int(ivUs)))
		case q < 0.14+2*pSpecial: // just before the next tick
			curUs = ((curUs*1000+500)/ivNs + 1) * ivUs
			curUs-- // tick - 0.5 us
		case q < 0.14+3*pSpecial: // just after the next tick
			curUs = ((curUs*1000+500)/ivNs + 1) * ivUs
		default:
			curUs += int64(r.Intn(int(2*meanGapUs) + 1))
		}
		crossed()
		if idx > highest {
			if idx-highest >= 1<<15 {
				break
			}
			if primary && idx-hAtTick > 8192 {
				// postpone past the next tick
				curUs = ((curUs*1000+500)/ivNs+1)*ivUs + int64(r.Intn(int(meanGapUs)+1))
				crossed()
				if idx-hAtTick > 8192 {
					break // single step > 8192: cannot be placed inside the primary domain
				}
			}
			highest = idx
		} else if highest-idx >= 1<<15 || (primary && highest-idx >= 8192) {
			// >= 2^15 behind is indistinguishable from a forward step in 16 bits
			continue
		}
		out = append(out, arrival{idx: idx, ts: plan.ts(idx), at: curUs*1000 + 500})
	}
	return out
}

func buildScenario(r *vf.Rand, tier string) *scenario {
	s := &scenario{kind: pickKind(r)}
	s.secondary = s.kind == kSecondary
	switch r.Intn(5) {
	case 0:
		s.interval = 0 // default 1 s
		s.ivNs = int64(time.Second)
	case 1:
		s.interval = 50 * time.Millisecond
	case 2:
		s.interval = 200 * time.Millisecond
	case 3:
		s.interval = 5 * time.Second
	default:
		s.interval = time.Duration(r.Range(1, 3000)) * time.Millisecond
	}
	if s.interval != 0 {
		s.ivNs = int64(s.interval)
	}
	if r.Chance(0.45) {
		s.injected = true
		s.num, s.den = 1, 1
		switch r.Intn(5) {
		case 0:
			s.num, s.den = 3, 2
		case 1:
			s.num, s.den = 1, 2
		case 2:
			s.num, s.den = 1000, 1001
		case 3:
			s.num, s.den = 2, 1
		}
		s.quantum = int64(r.Pick(1, 1, 1000, 1000000, 10000000))
		s.epoch = time.Unix(int64(r.Pick(0, 1000000000, 2208988800, 2000000000)), int64(r.Intn(1000000000)))
	}
	s.pre = time.Duration(r.Intn(3000)) * time.Millisecond
	nStreams := r.Range(1, 3)
	if s.kind == kDense || s.kind == kSaturate {
		nStreams = r.Range(1, 2)
	}
	ssrcs := map[uint32]bool{}
	for len(s.streams) < nStreams {
		ssrc := r.U32()
		if r.Chance(0.2) {
			ssrc = uint32(r.Pick(0, 1, 0xffffffff))
		}
		if ssrcs[ssrc] {
			continue
		}
		ssrcs[ssrc] = true
		st := &streamScn{ssrc: ssrc, rate: uint32(r.Pick(8000, 48000, 90000)), pt: uint8(r.Intn(128)), bindEarly: r.Bool()}
		if r.Chance(0.3) && s.kind != kDense {
			st.shape = gen.RandomShape(r)
			st.shape.Padding = 0
		}
		start := gen.StartIndex(r)
		var order []int64
		meanTicks := r.Range(3, 40)
		switch s.kind {
		case kGeneral:
			n := r.Range(20, 2500)
			if r.Chance(0.2) {
				n = r.Range(2, 40)
			}
			o := gen.RandomHistoryOpts(r, start, n)
			if o.MaxJump > 1000 && r.Bool() {
				o.MaxJump = 1000
			}
			order = gen.Arrivals(r, o)
		case kCycles:
			n := r.Range(200, 1500)
			o := gen.RandomHistoryOpts(r, start, n)
			o.JumpProb, o.MaxJump = 0.1+r.Float()*0.4, r.Pick(2000, 4000, 8000)
			if o.MaxDispl > 3 {
				o.MaxDispl = 3
			}
			order = gen.Arrivals(r, o)
			meanTicks = 0
		case kDense:
			n := r.Range(15000, 70000)
			if tier == "thorough" && r.Chance(0.3) {
				n = r.Range(90000, 200000)
			}
			o := gen.HistoryOpts{Start: start, N: n, Loss: r.Float() * 0.05}
			if r.Bool() {
				o.Reorder, o.MaxDispl = 0.01, r.Range(1, 30)
				o.Dup = 0.005
			}
			order = gen.Arrivals(r, o)
			meanTicks = n/r.Range(2000, 7000) + 2
		case kSaturate:
			n := r.Range(2450, 2700)
			cur := start
			for i := 0; i < n; i++ {
				order = append(order, cur)
				if i > 0 && r.Chance(0.1) {
					order = append(order, cur-int64(r.Range(0, 2))) // dup / slightly late
				}
				cur += int64(r.Range(6000, 8192))
			}
			meanTicks = 0
		case kSecondary:
			switch r.Intn(4) {
			case 0: // dense: many more than 8192 numbers per interval, with loss
				n := r.Range(9000, 20000)
				o := gen.RandomHistoryOpts(r, start, n)
				if o.Loss == 0 && o.BurstLoss == 0 {
					o.Loss = 0.05
				}
				order = gen.Arrivals(r, o)
				meanTicks = r.Range(1, 3)
			case 1: // jumps between 8192 and 2^15
				n := r.Range(50, 1500)
				o := gen.RandomHistoryOpts(r, start, n)
				o.JumpProb, o.MaxJump = 0.02+r.Float()*0.1, r.Pick(9000, 20000, 30000)
				order = gen.Arrivals(r, o)
			case 2: // very late packets (>= 8192 behind)
				n := r.Range(9000, 16000)
				o := gen.RandomHistoryOpts(r, start, n)
				o.Reorder, o.MaxDispl = 0.002+r.Float()*0.01, r.Pick(8192, 9000, 12000, 20000)
				o.Dup = 0.002
				order = gen.Arrivals(r, o)
				meanTicks = r.Range(4, 30)
			default: // intervals >= 65536 numbers through many medium jumps
				n := r.Range(100, 1200)
				o := gen.RandomHistoryOpts(r, start, n)
				o.JumpProb, o.MaxJump = 0.3, r.Pick(4000, 20000)
				order = gen.Arrivals(r, o)
				meanTicks = r.Range(1, 6)
			}
		}
		if len(order) == 0 {
			order = []int64{start}
		}
		span := order[len(order)-1] - start
		for _, v := range order {
			if v-start > span {
				span = v - start
			}
		}
		plan := makeTSPlan(r, st.rate, start, span)
		meanGapUs := int64(1)
		if meanTicks > 0 {
			meanGapUs = int64(meanTicks) * s.ivNs / 1000 / int64(len(order))
		} else {
			meanGapUs = s.ivNs / 1000 / int64(r.Range(2, 30))
		}
		if meanGapUs < 1 {
			meanGapUs = 1
		}
		t0us := int64(r.Intn(int(2*s.ivNs/1000) + 1))
		st.arr = placeTimes(r, order, plan, s.ivNs, meanGapUs, !s.secondary, t0us)
		if n := len(st.arr); n > 0 && st.arr[n-1].at > s.end {
			s.end = st.arr[n-1].at
		}
		s.streams = append(s.streams, st)
	}
	// stop a little after the last arrival: 1..3 more ticks (two ticks with nothing between)
	s.end = (s.end/s.ivNs+int64(r.Range(1, 3)))*s.ivNs + 500
	// RTCP compounds
	nSR := r.Range(0, 12)
	for i := 0; i < nSR; i++ {
		var ev rtcpEvent
		us := int64(r.U64() % uint64(s.end/1000))
		switch r.Intn(6) {
		case 0: // just before a tick
			us = (us*1000/s.ivNs+1)*(s.ivNs/1000) - 1
		case 1: // early in the run: large DLSR later
			us = us % (s.ivNs / 1000)
		}
		ev.at = us*1000 + 500
		if ev.at >= s.end {
			continue
		}
		mkSR := func(ssrc uint32) *rtcp.SenderReport {
			sr := &rtcp.SenderReport{SSRC: ssrc, NTPTime: r.U64(), RTPTime: r.U32(), PacketCount: r.U32(), OctetCount: r.U32()}
			if r.Chance(0.2) {
				sr.NTPTime = uint64(r.Pick(0, 1)) * 0xffffffffffffffff
			}
			if r.Chance(0.3) {
				// reception report blocks naming our streams must not be mistaken for an SR
				sr.Reports = append(sr.Reports, rtcp.ReceptionReport{SSRC: s.streams[r.Intn(len(s.streams))].ssrc, LastSenderReport: r.U32(), Delay: r.U32()})
			}
			return sr
		}
		own := s.streams[r.Intn(len(s.streams))].ssrc
		other := own + uint32(r.Range(1, 5))
		if ssrcs[other] {
			other = r.U32()
		}
		switch r.Intn(10) {
		case 0, 1: // SR for another SSRC only
			ev.pkts = []rtcp.Packet{mkSR(other)}
		case 2: // RR whose block names our stream + SR for another
			ev.pkts = []rtcp.Packet{
				&rtcp.ReceiverReport{SSRC: own, Reports: []rtcp.ReceptionReport{{SSRC: own, LastSenderReport: r.U32()}}},
				mkSR(other),
			}
		case 3: // compound with SRs for two of our streams (or ours + other)
			second := s.streams[r.Intn(len(s.streams))].ssrc
			ev.pkts = []rtcp.Packet{mkSR(own), mkSR(second), mkSR(other)}
			for k := len(ev.pkts) - 1; k > 0; k-- { // any order: a foreign SR may come first
				j := r.Intn(k + 1)
				ev.pkts[k], ev.pkts[j] = ev.pkts[j], ev.pkts[k]
			}
		case 4: // two SRs for the same stream in one compound: the later one counts
			ev.pkts = []rtcp.Packet{mkSR(own), mkSR(own)}
		default:
			ev.pkts = []rtcp.Packet{mkSR(own)}
			if r.Bool() {
				ev.pkts = append(ev.pkts, &rtcp.SourceDescription{Chunks: []rtcp.SourceDescriptionChunk{{
					Source: own, Items: []rtcp.SourceDescriptionItem{{Type: rtcp.SDESCNAME, Text: "c06"}},
				}}})
			}
		}
		raw, err := rtcp.Marshal(ev.pkts)
		if err != nil {
			continue
		}
		ev.raw = raw
		s.rtcps = append(s.rtcps, ev)
	}
	sort.SliceStable(s.rtcps, func(i, j int) bool { return s.rtcps[i].at < s.rtcps[j].at })
	return s
}

// ---------------------------------------------------------------------------------
// recording writer

type obsReport struct {
	at      int64 // virtual ns after T0 at which Write was called
	nPkts   int
	nBlocks int
	rr      rtcp.ReceptionReport
}

type recWriter struct {
	mu   sync.Mutex
	t0   time.Time
	reps []obsReport
	bad  []string
}

func (w *recWriter) Write(pkts []rtcp.Packet, _ interceptor.Attributes) (int, error) {
	at := int64(time.Since(w.t0))
	w.mu.Lock()
	defer w.mu.Unlock()
	for _, p := range pkts {
		rr, ok := p.(*rtcp.ReceiverReport)
		if !ok {
			w.bad = append(w.bad, fmt.Sprintf("%T", p))
			continue
		}
		for _, b := range rr.Reports {
			w.reps = append(w.reps, obsReport{at: at, nPkts: len(pkts), nBlocks: len(rr.Reports), rr: b})
		}
	}
	return 0, nil
}

// ---------------------------------------------------------------------------------
// driver

type step struct {
	at     int64
	stream int // -1: rtcp
	i      int
}

func run(c *vf.Case) {
	s := buildScenario(c.R, c.Tier)
	c.Add("cases_"+kindNames[s.kind], 1)

	// merged timeline (stable: ties keep per-stream order; rtcp after rtp at equal instants
	// is as good as any order since the driver performs them sequentially and the model
	// only needs per-stream order)
	var tl []step
	for si, st := range s.streams {
		for i := range st.arr {
			tl = append(tl, step{st.arr[i].at, si, i})
		}
	}
	for i := range s.rtcps {
		tl = append(tl, step{s.rtcps[i].at, -1, i})
	}
	sort.SliceStable(tl, func(i, j int) bool { return tl[i].at < tl[j].at })

	w := &recWriter{}
	var t0off int64 // T0 - bubble start (ns)
	var fed, fedRTCP int64
	var harnessErr string

	c.Bubble(func() {
		bubbleStart := time.Now()
		g0 := runtime.NumGoroutine()
		opts := []report.ReceiverOption{}
		if s.interval != 0 {
			opts = append(opts, report.ReceiverInterval(s.interval))
		}
		if s.injected {
			opts = append(opts, report.ReceiverNow(func() time.Time {
				return s.epoch.Add(time.Duration(s.injNs(int64(time.Since(bubbleStart)))))
			}))
		}
		f, err := report.NewReceiverInterceptor(opts...)
		if err != nil {
			harnessErr = err.Error()
			return
		}
		ic, err := f.NewInterceptor("")
		if err != nil {
			harnessErr = err.Error()
			return
		}
		var cur []byte
		readers := make([]interceptor.RTPReader, len(s.streams))
		bind := func(si int) {
			st := s.streams[si]
			// the negotiated payload type is set in most cases; packets of another payload type on
			// the same SSRC (comfort noise, telephone-event, a codec switch) are reception history too
			readers[si] = ic.BindRemoteStream(&interceptor.StreamInfo{SSRC: st.ssrc, ClockRate: st.rate, PayloadType: uint8(c.R.Pick(0, int(st.pt), int(st.pt), int(st.pt)))},
				interceptor.RTPReaderFunc(func(b []byte, a interceptor.Attributes) (int, interceptor.Attributes, error) {
					return copy(b, cur), a, nil
				}))
		}
		var curRTCP []byte
		rtcpReader := ic.BindRTCPReader(interceptor.RTCPReaderFunc(func(b []byte, a interceptor.Attributes) (int, interceptor.Attributes, error) {
			return copy(b, curRTCP), a, nil
		}))
		for si, st := range s.streams {
			if st.bindEarly {
				bind(si)
			}
		}
		time.Sleep(s.pre)
		w.t0 = time.Now()
		t0off = int64(w.t0.Sub(bubbleStart))
		ic.BindRTCPWriter(w)
		synctest.Wait() // the loop goroutine has created its ticker (at virtual T0) and parked
		for si, st := range s.streams {
			if !st.bindEarly {
				bind(si)
			}
		}
		buf := make([]byte, 1500)
		pkt := make([]byte, 0, 1500)
		hr := c.R.Fork()
		for _, e := range tl {
			if d := e.at - int64(time.Since(w.t0)); d > 0 {
				time.Sleep(time.Duration(d))
			}
			if int64(time.Since(w.t0)) != e.at {
				harnessErr = "virtual clock not at the planned instant"
				break
			}
			if e.stream < 0 {
				curRTCP = s.rtcps[e.i].raw
				if _, _, err := rtcpReader.Read(buf, interceptor.Attributes{}); err != nil {
					harnessErr = "rtcp read: " + err.Error()
					break
				}
				fedRTCP++
				continue
			}
			st := s.streams[e.stream]
			a := st.arr[e.i]
			if st.shape.CSRC == 0 && st.shape.ExtKind == 0 {
				pkt = append(pkt[:0], 0x80, st.pt, byte(a.idx>>8), byte(a.idx),
					byte(a.ts>>24), byte(a.ts>>16), byte(a.ts>>8), byte(a.ts),
					byte(st.ssrc>>24), byte(st.ssrc>>16), byte(st.ssrc>>8), byte(st.ssrc),
					byte(a.idx), byte(a.idx>>8), byte(a.idx>>16), byte(a.idx>>24))
				if a.idx&7 == 0 {
					pkt[1] |= 0x80 // marker
				}
			} else {
				pt := st.pt
				if hr.Chance(0.04) {
					pt = uint8(hr.Pick(13, 101, 110, int(st.pt+1)&0x7f))
				}
				var h rtp.Header = gen.Header(hr, st.shape, st.ssrc, pt, uint16(a.idx), a.ts)
				hb, err := h.Marshal()
				if err != nil {
					harnessErr = "marshal: " + err.Error()
					break
				}
				pkt = append(append(pkt[:0], hb...), 1, 2, 3, 4)
			}
			cur = pkt
			var attr interceptor.Attributes
			if a.idx&1 == 0 {
				attr = interceptor.Attributes{}
			}
			if _, _, err := readers[e.stream].Read(buf, attr); err != nil {
				harnessErr = "rtp read: " + err.Error()
				break
			}
			fed++
		}
		if harnessErr == "" {
			if d := s.end - int64(time.Since(w.t0)); d > 0 {
				time.Sleep(time.Duration(d))
			}
			synctest.Wait()
		}
		_ = ic.Close()
		synctest.Wait()
		// Close has waited for the loop goroutine (wg); give the runtime the few
		// scheduler steps it needs to retire it before the bubble's leak check looks.
		for i := 0; i < 1000000 && runtime.NumGoroutine() > g0; i++ {
			runtime.Gosched()
		}
	}, func(dump string) {
		c.Inconclusive("goroutines left in bubble:\n%s", trunc(dump, 3000))
	})

	if harnessErr != "" {
		c.Inconclusive("harness: %s", harnessErr)
		return
	}
	c.Add("rtp_packets_fed", fed)
	c.Add("rtcp_compounds_fed", fedRTCP)
	decide(c, s, w, t0off)
}

// injNs maps virtual ns since bubble start to injected-clock ns since the epoch.
func (s *scenario) injNs(v int64) int64 {
	x := v / s.den * s.num
	x += v % s.den * s.num / s.den
	return x - x%s.quantum
}

// wall returns the reading of the interceptor's clock (ns, arbitrary origin) at virtual
// instant `at` after T0.
func (s *scenario) wall(t0off, at int64) int64 {
	if !s.injected {
		return t0off + at
	}
	return s.injNs(t0off + at)
}

func trunc(s string, n int) string {
	if len(s) > n {
		return s[:n] + "…"
	}
	return s
}
