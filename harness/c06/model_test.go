package c06

// Independent model of the RFC 3550 receiver-report arithmetic, written from the
// statement of C06 (not from the library):
//
//	ext-highest  = true index of the highest packet received (first index < 65536, so the
//	               upper 16 bits are the number of 16-bit cycles since the first packet)
//	expected     = ext-highest(now) - ext-highest(previous report)   (first-1 for the first)
//	lost         = numbers in that interval not received by report time
//	               (where duplicates / packets of an earlier interval arrived in the interval,
//	               the RFC A.3 count `expected - packets received in the interval`, floored
//	               at 0, is accepted as well: the statement fixes `lost` only through
//	               lost/expected per interval)
//	fraction     = floor(256*lost/expected), 0 if expected == 0
//	cumulative   = min(previous cumulative + lost, 2^24-1)
//	jitter       = A.8: J += (|D| - J)/16 per arrival after the first, with
//	               D = (arrival_i - arrival_{i-1})*rate - int32(ts_i - ts_{i-1}); tolerance +-2
//	LSR / DLSR   = middle 32 bits of the NTP time of the last SR for that SSRC /
//	               floor(65536*(now - t_SR)) +-1; both 0 before any SR.
//
// Integers everywhere except the jitter recurrence (float64 on an exactly computed D).

import (
	"fmt"
	"math"

	"github.com/pion/rtcp"

	"github.com/pion/interceptor/verif/vf"
)

type srRec struct {
	at  int64
	ntp uint64
}

type streamModel struct {
	scn  *streamScn
	next int
	srs  []srRec
	nsr  int

	started         bool
	first           int64
	highest, prevH  int64
	seen            map[int64]struct{}
	distinctCur     int64 // first-time arrivals above prevH since the previous report
	allCur          int64 // all arrivals since the previous report
	lateBeyond      bool  // an arrival >= 8192 behind the highest since the previous report
	lastTS          uint32
	lastWall        int64
	jit, jitNaive   float64 // wrap-safe model; diagnosis-only replica of a float64 (non wrap-safe) difference
	naiveDiffers    bool    // the two recurrences have been fed different D at least once
	jitterUndecided bool    // a step outside |d| < 2^30: signed-32-bit reading is ambiguous
	haveSR          bool
	lsr             uint32
	srWall          int64
	prevCum         uint32
	reports         int
	maxLate         int64

	lossSeen, reorderAcross, seqWrapped, tsWrapped, dupSeen bool
}

type expectTuple struct {
	ext, exp, lost uint32
	jit            uint32
}

func fracOf(lost, expected int64) uint8 {
	if expected <= 0 || lost <= 0 {
		return 0
	}
	return uint8(256 * lost / expected)
}

func sat24(prev uint32, lost int64) uint32 {
	v := int64(prev) + lost
	if v > 0xFFFFFF {
		v = 0xFFFFFF
	}
	if v < 0 {
		v = 0
	}
	return uint32(v)
}

func (m *streamModel) feed(s *scenario, t0off int64, a arrival) {
	wall := s.wall(t0off, a.at)
	m.allCur++
	if !m.started {
		m.started = true
		m.first, m.highest, m.prevH = a.idx, a.idx, a.idx-1
		m.seen = map[int64]struct{}{a.idx: {}}
		m.distinctCur = 1
		m.lastTS, m.lastWall = a.ts, wall
		return
	}
	if _, dup := m.seen[a.idx]; dup {
		m.dupSeen = true
	} else {
		m.seen[a.idx] = struct{}{}
		if a.idx > m.prevH {
			m.distinctCur++
		} else {
			m.reorderAcross = true
		}
	}
	if a.idx > m.highest {
		if a.idx>>16 != m.highest>>16 {
			m.seqWrapped = true
		}
		m.highest = a.idx
	} else if m.highest-a.idx >= 8192 {
		m.lateBeyond = true
	} else if d := m.highest - a.idx; d > m.maxLate {
		m.maxLate = d
	}
	// A.8
	d32 := int32(a.ts - m.lastTS)
	dArr := float64(wall-m.lastWall) * float64(m.scn.rate) / 1e9
	if d32 >= 1<<30 || d32 <= -(1<<30) || math.Abs(dArr) >= 1<<30 {
		m.jitterUndecided = true
	}
	D := math.Abs(dArr - float64(d32))
	m.jit += (D - m.jit) / 16
	naive := float64(a.ts) - float64(m.lastTS)
	if naive != float64(d32) {
		m.naiveDiffers = true
		m.tsWrapped = true
	}
	Dn := math.Abs(dArr - naive)
	m.jitNaive += (Dn - m.jitNaive) / 16
	m.lastTS, m.lastWall = a.ts, wall
}

func nearU32(obs uint32, model float64, tol float64) bool {
	return math.Abs(float64(obs)-math.Floor(model)) <= tol
}

// window renders the last few arrivals of a stream before position `upto`.
func (m *streamModel) window(s *scenario, t0off int64, upto, n int) string {
	from := upto - n
	if from < 0 {
		from = 0
	}
	out := ""
	if from > 0 {
		out = fmt.Sprintf("…(%d earlier) ", from)
	}
	for i := from; i < upto; i++ {
		a := m.scn.arr[i]
		out += fmt.Sprintf("[idx=%d seq=%d ts=%d at=%dns clk=%dns] ", a.idx, uint16(a.idx), a.ts, a.at, s.wall(t0off, a.at))
	}
	return out
}

func decide(c *vf.Case, s *scenario, w *recWriter, t0off int64) {
	w.mu.Lock()
	reps := append([]obsReport(nil), w.reps...)
	bad := append([]string(nil), w.bad...)
	w.mu.Unlock()
	if len(bad) > 0 {
		c.Violation("report/not-a-receiver-report", "packets of type %v written by the receiver interceptor", bad)
	}
	models := map[uint32]*streamModel{}
	for _, st := range s.streams {
		models[st.ssrc] = &streamModel{scn: st}
	}
	for _, ev := range s.rtcps {
		for _, p := range ev.pkts {
			if sr, ok := p.(*rtcp.SenderReport); ok {
				if m := models[sr.SSRC]; m != nil {
					m.srs = append(m.srs, srRec{ev.at, sr.NTPTime})
				}
			}
		}
	}
	ctx := fmt.Sprintf("kind=%s interval=%dns injectedClock=%v", kindNames[s.kind], s.ivNs, s.injected)
	if s.injected {
		ctx += fmt.Sprintf(" (speed %d/%d quantum %dns)", s.num, s.den, s.quantum)
	}
	h := vf.NewHash()
	var tuples []expectTuple
	var nReports, nPreStart, nChecked int64
	ticks := map[int64]bool{}
	for _, o := range reps {
		m := models[o.rr.SSRC]
		if m == nil {
			c.Violation("report/unknown-ssrc", "%s: report for SSRC %d which is not a bound stream", ctx, o.rr.SSRC)
			continue
		}
		if o.at%1000 != 0 {
			c.Inconclusive("report written at %dns after T0: not a tick instant the generator kept free", o.at)
			return
		}
		ticks[o.at] = true
		nReports++
		st := m.scn
		for m.next < len(st.arr) && st.arr[m.next].at < o.at {
			m.feed(s, t0off, st.arr[m.next])
			m.next++
		}
		for m.nsr < len(m.srs) && m.srs[m.nsr].at < o.at {
			m.haveSR = true
			m.lsr = uint32(m.srs[m.nsr].ntp >> 16)
			m.srWall = s.wall(t0off, m.srs[m.nsr].at)
			m.nsr++
		}
		m.reports++
		where := fmt.Sprintf("%s ssrc=%d rate=%d report#%d at T0+%dns", ctx, st.ssrc, st.rate, m.reports, o.at)

		// --- LSR / DLSR
		nowWall := s.wall(t0off, o.at)
		if !m.haveSR {
			if o.rr.LastSenderReport != 0 || o.rr.Delay != 0 {
				c.Violation("sr/nonzero-before-any-sr", "%s: LSR=%d DLSR=%d but no sender report for this SSRC has been received", where, o.rr.LastSenderReport, o.rr.Delay)
			}
		} else {
			if o.rr.LastSenderReport != m.lsr {
				c.Violation("sr/lsr", "%s: LSR=%#x, middle 32 bits of the last SR's NTP time (%#x, received at T0+%dns) are %#x",
					where, o.rr.LastSenderReport, m.srs[m.nsr-1].ntp, m.srs[m.nsr-1].at, m.lsr)
			}
			dns := nowWall - m.srWall
			want := dns / 1000000000 * 65536
			want += dns % 1000000000 * 65536 / 1000000000
			if d := int64(o.rr.Delay) - want; d < -1 || d > 1 {
				c.Violation("sr/dlsr", "%s: DLSR=%d, want floor(65536*%dns)=%d +-1 (SR received at T0+%dns, clock then %dns, clock at report %dns)",
					where, o.rr.Delay, dns, want, m.srs[m.nsr-1].at, m.srWall, nowWall)
			}
			c.Add("reports_with_sr_checked", 1)
		}

		if !m.started {
			nPreStart++
			continue // nothing received yet: the statement fixes none of the other fields
		}
		nChecked++

		// --- extended highest
		ext := uint32(m.highest)
		if o.rr.LastSequenceNumber != ext {
			sig := "ext-highest/seq"
			if uint16(o.rr.LastSequenceNumber) == uint16(ext) {
				sig = "ext-highest/cycles"
			}
			c.Violation(sig, "%s: extended highest = %d (cycles %d, seq %d), want %d (cycles %d, seq %d); first index %d; last arrivals: %s",
				where, o.rr.LastSequenceNumber, o.rr.LastSequenceNumber>>16, uint16(o.rr.LastSequenceNumber), ext, ext>>16, uint16(ext), m.first,
				m.window(s, t0off, m.next, 6))
		}

		// --- loss
		expected := m.highest - m.prevH
		lostSet := expected - m.distinctCur
		lostRFC := expected - m.allCur
		if lostRFC < 0 {
			lostRFC = 0
		}
		if lostSet > 0 {
			m.lossSeen = true
		}
		okCum, okFrac, okBoth := false, false, false
		for _, L := range []int64{lostSet, lostRFC} {
			cu := o.rr.TotalLost == sat24(m.prevCum, L)
			fr := o.rr.FractionLost == fracOf(L, expected)
			okCum = okCum || cu
			okFrac = okFrac || fr
			okBoth = okBoth || (cu && fr)
		}
		if m.lateBeyond {
			// a packet >= 8192 behind the highest arrived in this interval: outside the
			// statement's "reordering within the 8192-packet history"; the loss fields of this
			// report are not decided (everything else still is)
			c.Add("reports_loss_undecided_late_beyond_history", 1)
		} else if !okBoth {
			sig := "loss/fraction+cumulative"
			switch {
			case okCum:
				sig = "loss/fraction"
			case okFrac && int64(m.prevCum)+lostSet > 0xFFFFFF:
				sig = "loss/cumulative-saturation"
			case okFrac:
				sig = "loss/cumulative"
			}
			if m.prevH == m.first-1 {
				sig += "/first-interval"
			}
			// outside the primary domain the class of the interval is the signature
			switch {
			case expected >= 65536:
				sig = "secondary/interval-ge-65536/loss"
			case expected > 8192:
				sig = "secondary/interval-gt-8192/loss"
			}
			alt := ""
			if lostRFC != lostSet {
				alt = fmt.Sprintf(" (or, counting the %d arrivals of the interval as RFC A.3 does, lost=%d fraction=%d cumulative=%d)",
					m.allCur, lostRFC, fracOf(lostRFC, expected), sat24(m.prevCum, lostRFC))
			}
			c.Violation(sig, "%s: fraction=%d cumulative=%d; interval (%d, %d] expected=%d, numbers not received by now=%d -> fraction=%d cumulative=min(%d+%d, 2^24-1)=%d%s; late-beyond-8192 in interval=%v; last arrivals: %s",
				where, o.rr.FractionLost, o.rr.TotalLost, m.prevH, m.highest, expected, lostSet, fracOf(lostSet, expected), m.prevCum, lostSet,
				sat24(m.prevCum, lostSet), alt, m.lateBeyond, m.window(s, t0off, m.next, 8))
		}
		if expected > 8192 || m.lateBeyond {
			c.Add("reports_outside_primary_domain", 1)
			if !s.secondary {
				c.Add("primary_cases_out_of_domain", 1)
			}
		}
		if int64(m.prevCum)+lostSet > 0xFFFFFF {
			c.Add("reports_at_cumulative_saturation", 1)
		}
		if expected == 8192 {
			c.Add("reports_interval_exactly_8192", 1)
		}
		if expected <= 8192 {
			c.Max("max_interval_numbers_in_domain", expected)
		}
		c.Max("max_late_distance_in_domain", m.maxLate)
		c.Max("max_interval_numbers", expected)
		c.Max("max_cycles", m.highest>>16)
		// the next interval's cumulative is checked against what this report said
		// (cumulative = previous cumulative + this interval's loss, by induction)
		m.prevCum = o.rr.TotalLost
		m.prevH = m.highest
		m.distinctCur, m.allCur, m.lateBeyond = 0, 0, false

		// --- jitter
		if m.jitterUndecided {
			c.Add("reports_jitter_undecided", 1)
		} else if !nearU32(o.rr.Jitter, m.jit, 2) {
			sig := "jitter/mismatch"
			why := ""
			if m.naiveDiffers && nearU32(o.rr.Jitter, m.jitNaive, 2+m.jitNaive*1e-9) {
				sig = "jitter/rtp-timestamp-wrap"
				why = fmt.Sprintf(" (equals %.1f, the recurrence fed with the timestamp difference taken WITHOUT 32-bit wrap-around)", m.jitNaive)
			}
			c.Violation(sig, "%s: jitter=%d, A.8 recurrence with int32 timestamp differences gives %.3f%s; last arrivals: %s",
				where, o.rr.Jitter, m.jit, why, m.window(s, t0off, m.next, 6))
		}
		tuples = append(tuples, expectTuple{ext, uint32(expected), uint32(lostSet), uint32(m.jit)})
		h.U64(uint64(ext)).U64(uint64(expected)).U64(uint64(lostSet)).U64(uint64(m.jit)).U64(uint64(m.lsr))
	}

	c.Add("reports_observed", nReports)
	c.Add("reports_before_first_packet", nPreStart)
	c.Add("reports_fully_checked", nChecked)
	c.Add("tick_instants_with_reports", int64(len(ticks)))
	wantTicks := s.end / s.ivNs
	if int64(len(ticks)) != wantTicks {
		c.Inconclusive("%s: reports seen at %d tick instants, %d ticks elapsed", ctx, len(ticks), wantTicks)
	}
	loss, reorder, multi := false, false, false
	for _, m := range models {
		loss = loss || m.lossSeen
		reorder = reorder || m.reorderAcross
		multi = multi || m.reports >= 2
		if m.seqWrapped {
			c.Add("streams_crossing_seq_wrap", 1)
		}
		if m.tsWrapped {
			c.Add("streams_crossing_rtp_timestamp_wrap", 1)
		}
		if m.dupSeen {
			c.Add("streams_with_duplicates", 1)
		}
		if m.reorderAcross {
			c.Add("streams_with_late_packet_across_report_boundary", 1)
		}
	}
	if multi && loss && reorder {
		c.Nontrivial(h.Sum())
	}
	if c.WantSample() && len(tuples) > 0 {
		if len(tuples) > 6 {
			tuples = tuples[:6]
		}
		var ex []string
		for _, t := range tuples {
			ex = append(ex, fmt.Sprintf("ext=%d expected=%d lost=%d jitter=%d", t.ext, t.exp, t.lost, t.jit))
		}
		c.Sample(map[string]any{
			"case": c.Idx, "kind": kindNames[s.kind], "streams": len(s.streams), "interval_ns": s.ivNs,
			"injected_clock": s.injected, "rtp_packets": len(s.streams[0].arr), "rtcp_compounds": len(s.rtcps),
			"reports": nReports, "first_expected_reports": ex,
		})
	}
}
