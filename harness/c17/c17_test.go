// C17 – pacers deliver each accepted packet once, in order, intact, within the rate.
//
// Monitor: the real, unmodified pacers run inside a synctest bubble (virtual time):
//
//	pacing            pacing.NewInterceptor(InitialRate, Interval) + factory.SetRate, 1..4 local streams
//	leaky-bucket      gcc.NewLeakyBucketPacer + AddStream per SSRC + SetTargetBitrate
//	send-side-bwe     gcc.NewSendSideBWE (default leaky bucket pacer), writer returned by AddStream
//	noop              gcc.NewNoOpPacer
//	send-side-bwe-noop gcc.NewSendSideBWE(SendSideBWEPacer(NewNoOpPacer()))
//
// Every stream has its own recording gate (obs.RTPGate) as next writer; the gate stamps each
// downstream Write with the shared logical clock and with the virtual clock and deep-copies
// header and payload at entry (and the payload again at exit, after yielding, so that a
// buffer that changes under the downstream writer is seen).
//
// 1..6 writer goroutines run inside the bubble. Each packet carries a case-unique 31-bit id
// in its RTP timestamp and (for payloads >= 8 bytes) a 64-bit id in the payload, so a packet
// seen downstream names the Write it came from. Writers stamp call and return of every
// Write, and scribble header and payload (or refill a reused buffer) right after Write
// returned.
//
// Oracle (written from the statement, not from the code):
//
//	once      every accepted packet (Write returned nil) reaches ITS stream's gate exactly once
//	order     if Write(a) returned before Write(b) was called then a precedes b at the gate
//	          (this contains per-writer program order)
//	intact    header (marshalled bytes, Padding, PaddingSize) and payload at the gate equal the
//	          clone taken at acceptance; payload unchanged while the downstream Write runs
//	envelope  pacing interceptor only: for every pair of virtual instants t1 <= t2 the bits
//	          released in [t1,t2] never exceed burst allowance + integral of the configured rate
//	          over [t1,t2]; t1 = creation of the interceptor is the statement's own wording
//	          ("cumulative bits released by any instant"), the general window is the same
//	          token-bucket bound started at a later instant and has its own signature
//	bounded   after input stops everything accepted has been delivered within
//	          4*queued_bits/rate + 1 s of virtual time
//	fifo      porcupine cross-check of short histories against a sequential FIFO queue
//
// Delivery after Close, the order between different streams, attributes and the value
// returned by Write are outside the statement and are not judged.
package c17

import (
	"io"
	"errors"
	"bytes"
	"fmt"
	"math"
	"runtime"
	"sort"
	"strings"
	"sync"
	"sync/atomic"
	"testing"
	"testing/synctest"
	"time"

	"github.com/anishathalye/porcupine"
	"github.com/pion/interceptor"
	"github.com/pion/interceptor/pkg/gcc"
	"github.com/pion/interceptor/pkg/pacing"
	"github.com/pion/rtp"

	"github.com/pion/interceptor/verif/gen"
	"github.com/pion/interceptor/verif/obs"
	"github.com/pion/interceptor/verif/vf"
)

func cases(tier string) int {
	if tier == "thorough" {
		return 200000
	}
	return 6400
}

func TestCheck(t *testing.T) {
	vf.Main(t, vf.Spec{Prop: "C17", Cases: cases, Run: run})
}

const (
	kPacing = iota
	kLeaky
	kBWE
	kNoOp
	kBWENoOp
)

var compNames = []string{"pacing", "leaky-bucket", "send-side-bwe", "noop", "send-side-bwe-noop"}

const (
	minRate = 10_000
	maxRate = 100_000_000
	// the transport-wide-cc extension URI SendSideBWE looks for in StreamInfo
	twccURI = "http://www.ietf.org/id/draft-holmer-rmcat-transport-wide-cc-extensions-01"
)

// ---------------------------------------------------------------------------------
// scenario

type pktPlan struct {
	uid      uint32 // < 2^31, unique in the case; carried in the RTP timestamp
	w, s     int    // writer, stream (-1: an SSRC no stream was added for)
	at       int64  // planned virtual ns after t0
	scribble bool
	attr     int // 0 nil, 1 empty, 2 one entry

	hdr     rtp.Header // live header handed to Write (scribbled afterwards)
	payload []byte     // acceptance clone of the payload
	hdrRef  hdrImage   // acceptance clone of the header
	bits    int        // 8*(header.MarshalSize()+len(payload))
}

type hdrImage struct {
	raw     []byte
	padding bool
	padSize byte
}

type streamPlan struct {
	ssrc   uint32
	twccID uint8
	pt     uint8
}

type ctlPlan struct {
	at   int64
	rate int
}

type scenario struct {
	kind     int
	rate0    int
	deadWriter error // when set (and there are >= 2 streams) the next writer of stream 0 fails every packet with it
	lowRate  bool // rate0 below minRate (leaky bucket only): no rate changes, sized for rate0
	interval time.Duration // pacing interval (gcc pacers: fixed 5 ms)
	defaults bool          // pacing: no options at all (1 Mbit/s, 5 ms)
	streams  []streamPlan
	writers  int
	reuseBuf []bool      // per writer: one payload buffer refilled for every packet
	pkts     [][]pktPlan // per writer, in program order
	ctls     []ctlPlan
	yields   int  // Gosched calls inside the downstream Write
	short    bool // porcupine cross-check
	oversize bool // deliberately contains packets of >= burst bits
	npk      int
	end      int64
}

func drawRate(r *vf.Rand) int {
	if r.Chance(0.35) {
		// 2_400_000 bit/s * 5 ms = 12000 bit = the documented minimum burst of one 1500 byte packet
		return r.Pick(10_000, 15_000, 64_000, 300_000, 1_000_000, 2_400_000, 2_400_200, 3_000_000,
			10_000_000, 50_000_000, 100_000_000)
	}
	// log-uniform 10 kbit/s .. 100 Mbit/s
	v := math.Exp(math.Log(minRate) + r.Float()*(math.Log(maxRate)-math.Log(minRate)))
	return clampRate(int(v))
}

func clampRate(v int) int {
	return max(minRate, min(maxRate, v))
}

func drawInterval(r *vf.Rand) time.Duration {
	switch q := r.Intn(100); {
	case q < 25:
		return 5 * time.Millisecond
	case q < 45:
		return time.Millisecond
	case q < 80:
		return time.Duration(r.Pick(2, 4, 8, 10, 20, 25, 40, 50, 100)) * time.Millisecond
	case q < 92: // not a divisor of one second
		return time.Duration(r.Pick(3, 7, 15, 33, 60)) * time.Millisecond
	case q < 96: // fractional milliseconds
		return time.Duration(r.Pick(1500, 2500)) * time.Microsecond
	default:
		return time.Duration(r.Pick(200, 250, 500, 1000)) * time.Millisecond
	}
}

func buildScenario(r *vf.Rand) *scenario {
	s := &scenario{}
	switch q := r.Intn(100); {
	case q < 50:
		s.kind = kPacing
	case q < 72:
		s.kind = kLeaky
	case q < 84:
		s.kind = kBWE
	case q < 92:
		s.kind = kNoOp
	default:
		s.kind = kBWENoOp
	}
	s.rate0 = drawRate(r)
	s.interval = 5 * time.Millisecond
	if s.kind == kLeaky && r.Chance(0.08) {
		// a configuration extreme: less than one byte of budget per 5 ms tick
		s.rate0 = r.Pick(200, 800, 1500, 1599, 1600, 4000)
		s.lowRate = true
	}
	if s.kind == kPacing {
		s.interval = drawInterval(r)
		if r.Chance(0.06) {
			s.defaults = true
			s.rate0, s.interval = 1_000_000, 5*time.Millisecond
		}
	}
	s.short = r.Chance(0.3)
	s.yields = r.Pick(0, 0, 1, 3)
	if r.Chance(0.12) {
		s.deadWriter = []error{io.ErrClosedPipe, io.EOF, errors.New("verif: next writer is gone")}[r.Intn(3)]
	}

	// rate changes (values first: the workload is sized for the lowest rate)
	rates := []int{s.rate0}
	if (s.kind == kPacing || s.kind == kLeaky) && !s.short && !s.lowRate && r.Chance(0.6) {
		cur := s.rate0
		for i, n := 0, r.Range(1, 4); i < n; i++ {
			switch r.Intn(4) {
			case 0:
				cur = drawRate(r)
			case 1:
				cur = clampRate(cur / r.Pick(2, 4, 10, 100))
			case 2:
				cur = clampRate(cur * r.Pick(2, 4, 10, 100))
			default:
				cur = clampRate(int(float64(cur) * (0.5 + r.Float())))
			}
			rates = append(rates, cur)
		}
	}
	lowest := rates[0]
	for _, v := range rates {
		lowest = min(lowest, v)
	}

	// streams
	nStreams := r.Range(1, 4)
	if s.short {
		nStreams = r.Range(1, 2)
	}
	used := map[uint32]bool{}
	for len(s.streams) < nStreams {
		ssrc := r.U32()
		if r.Chance(0.15) {
			ssrc = uint32(r.Pick(0, 1, 0xffffffff, 0x80000000))
		}
		// the scribble flips ssrc^0x01010101: keep that value and the unknown-stream SSRC free
		if used[ssrc] || used[ssrc^0x01010101] || ssrc == 0xdeadbeef {
			continue
		}
		used[ssrc] = true
		st := streamPlan{ssrc: ssrc, pt: uint8(r.Intn(128))}
		if (s.kind == kBWE || s.kind == kBWENoOp) && r.Chance(0.5) {
			st.twccID = uint8(r.Range(1, 14))
		}
		s.streams = append(s.streams, st)
	}

	s.writers = r.Pick(1, 2, 2, 3, 4, 6, r.Range(1, 6))
	if s.short {
		s.writers = r.Range(2, 4)
	}
	for w := 0; w < s.writers; w++ {
		s.reuseBuf = append(s.reuseBuf, r.Chance(0.4))
	}

	// number of packets and bit budget (drain time at the lowest rate stays bounded so that a
	// stalled pacer costs a bounded number of virtual ticks)
	var npk int
	switch q := r.Intn(10); {
	case s.short:
		npk = r.Range(2, 12)
	case q < 4:
		npk = r.Range(5, 60)
	case q < 8:
		npk = r.Range(60, 400)
	default:
		npk = r.Range(400, 1800)
	}
	maxDrain := 12.0 // seconds of queued data at the lowest rate
	if s.kind == kPacing && s.interval < 2*time.Millisecond {
		maxDrain = 6
	}
	budgetBits := float64(lowest) * maxDrain * (0.05 + 0.95*r.Float())
	smallBias := lowest < 200_000 && r.Chance(0.7)

	// oversize packets: total size >= the pacing interceptor's burst (only reachable when the
	// burst is the documented minimum of 8*1500 bit and the header is large)
	s.oversize = s.kind == kPacing && r.Chance(0.1)

	// timeline
	iv := int64(s.interval)
	cur := int64(0)
	var all []pktPlan
	bits := 0.0
	uid := uint32(r.Intn(1 << 20))
	hr := r.Fork()
	for len(all) < npk {
		// gap before the episode
		switch q := r.Intn(100); {
		case q < 30:
		case q < 70:
			cur += int64(r.Intn(int(3*iv) + 1))
		case q < 95:
			cur += iv * int64(r.Range(1, 400))
		default: // long idle gap
			cur += iv*int64(r.Range(400, 20000)) + int64(r.Intn(int(iv)))
		}
		if r.Chance(0.25) { // exactly on a tick of the pacer
			cur = (cur/iv + 1) * iv
		}
		mode := r.Intn(3) // 0 burst at one instant, 1 micro gaps, 2 near the configured rate
		n := r.Range(1, max(1, (npk-len(all))))
		if r.Chance(0.5) {
			n = r.Range(1, max(1, min(n, 40)))
		}
		for i := 0; i < n && len(all) < npk; i++ {
			p := pktPlan{uid: uid & 0x7fffffff, w: r.Intn(s.writers), s: r.Intn(len(s.streams)), at: cur}
			uid++
			p.scribble = r.Chance(0.7)
			p.attr = r.Intn(3)
			plen := gen.PayloadLen(r, 1460)
			if smallBias && r.Chance(0.8) {
				plen = r.Pick(0, 1, 7, 8, 20, 60, r.Range(0, 200))
			}
			if plen > 1460 {
				plen = 1460
			}
			shape := gen.Shape{Marker: r.Bool()}
			if r.Chance(0.45) {
				shape = gen.RandomShape(r)
			}
			if s.oversize && r.Chance(0.15) {
				shape.CSRC = 15
				plen = r.Range(1428, 1460)
			}
			st := s.streams[p.s]
			if st.twccID != 0 && shape.ExtKind == 3 {
				shape.ExtKind = 0
			}
			if (s.kind == kNoOp || s.kind == kBWENoOp) && r.Chance(0.04) {
				p.s = -1
			}
			ssrc, pt := uint32(0xdeadbeef), uint8(96)
			if p.s >= 0 {
				ssrc, pt = st.ssrc, st.pt
			}
			seq := uint16(p.uid)
			if r.Chance(0.1) {
				seq = uint16(r.Pick(0, 65535))
			}
			p.hdr = gen.Header(hr, shape, ssrc, pt, seq, p.uid, st.twccID)
			if p.s >= 0 && st.twccID != 0 {
				_ = p.hdr.SetExtension(st.twccID, []byte{byte(p.uid >> 8), byte(p.uid)})
			}
			if s.kind == kPacing && !s.oversize {
				// Packets of 1500 bytes or more (>= the minimum bucket of 8*1500 bit) are the
				// input class of the `oversize` cases only, so that a pacer that cannot
				// release them does not blind the other oracles in every case with a large
				// header.
				if hs := p.hdr.MarshalSize(); hs+plen >= 1500 {
					plen = max(0, 1499-hs)
				}
			}
			p.payload = gen.Payload(hr, plen, uint64(p.uid)<<32|uint64(p.w)<<16|uint64(uint16(p.s)))
			p.hdrRef = imageOf(&p.hdr)
			p.bits = 8 * (p.hdr.MarshalSize() + len(p.payload))
			if bits+float64(p.bits) > budgetBits && len(all) >= 2 {
				npk = len(all)
				break
			}
			bits += float64(p.bits)
			all = append(all, p)
			switch mode {
			case 1:
				cur += int64(r.Intn(int(2*iv)/8 + 1))
			case 2:
				cur += int64(float64(p.bits) / float64(s.rate0) * 1e9 * (0.5 + r.Float()))
			}
		}
	}
	s.npk = len(all)
	s.end = cur
	s.pkts = make([][]pktPlan, s.writers)
	for _, p := range all {
		s.pkts[p.w] = append(s.pkts[p.w], p)
	}

	// rate change instants
	for i := 1; i < len(rates); i++ {
		at := int64(r.Float() * float64(s.end+iv))
		switch r.Intn(4) {
		case 0: // on a tick
			at = at / iv * iv
		case 1: // together with a packet
			at = all[r.Intn(len(all))].at
		}
		s.ctls = append(s.ctls, ctlPlan{at: at})
	}
	sort.Slice(s.ctls, func(i, j int) bool { return s.ctls[i].at < s.ctls[j].at })
	for i := range s.ctls {
		s.ctls[i].rate = rates[i+1]
	}
	return s
}

func imageOf(h *rtp.Header) hdrImage {
	raw, err := h.Marshal()
	if err != nil {
		raw = []byte("marshal error: " + err.Error())
	}
	return hdrImage{raw: raw, padding: h.Padding, padSize: h.PaddingSize}
}

func (a hdrImage) equal(b hdrImage) bool {
	return bytes.Equal(a.raw, b.raw) && a.padding == b.padding && a.padSize == b.padSize
}

// scribble is what a caller may do with its own header and payload once Write returned.
func scribble(h *rtp.Header, payload []byte) {
	for i := range payload {
		payload[i] ^= 0xff
	}
	h.SequenceNumber ^= 0x5555
	h.Timestamp |= 0x80000000 // the id stays readable
	h.SSRC ^= 0x01010101
	h.Marker = !h.Marker
	h.PayloadType ^= 0x15
	for i := range h.CSRC {
		h.CSRC[i] ^= 0xffffffff
	}
	for _, id := range h.GetExtensionIDs() {
		b := h.GetExtension(id)
		for i := range b {
			b[i] ^= 0xff
		}
	}
	if h.Padding {
		h.PaddingSize ^= 0x7f
	}
}

// ---------------------------------------------------------------------------------
// burst allowance of the pacing interceptor

// allowance is the burst the envelope oracle grants the token-bucket pacing interceptor for
// a configured rate (bit/s) and pacing interval.
//
// The package documents: "Interceptor implements packet pacing using a token bucket filter
// and sends packets at a fixed interval" and, for the bucket size, "the minimal burst size
// required to reach the given rate and pacing interval", with a floor of one 1500 byte
// packet (8*1500 bit). The minimal burst that reaches `rate` when sending once per
// `interval` is rate*interval. The implementation counts the intervals per second as an
// integer (1000 ms / whole milliseconds of the interval, rounded down), which rounds the
// burst up for intervals that do not divide one second; that rounding is configuration
// detail the statement does not forbid, so the oracle takes the larger of the two (the
// permissive side). For the divisors of 1 s that dominate the workload both agree exactly.
func allowance(rate int, interval time.Duration) float64 {
	a := float64(rate) * interval.Seconds()
	if ms := interval.Milliseconds(); ms > 0 {
		if perSec := 1000 / ms; perSec > 0 {
			a = math.Max(a, float64(rate)/float64(perSec))
		}
	}
	return math.Max(8*1500, math.Ceil(a))
}

// configuredBurst is the smaller reading of the documented bucket size ("minimal burst
// required to reach the given rate and pacing interval", floor 8*1500 bit). It is used only
// to name the input class of a stall (packet >= bucket), never to decide a violation.
func configuredBurst(rate int, interval time.Duration) float64 {
	a := float64(rate) * interval.Seconds()
	if ms := interval.Milliseconds(); ms > 0 {
		if perSec := 1000 / ms; perSec > 0 {
			a = math.Min(a, float64(rate)/float64(perSec))
		}
	}
	return math.Max(8*1500, math.Floor(a))
}

// ---------------------------------------------------------------------------------
// records

type rec struct {
	p          *pktPlan
	call, ret  int64 // logical stamps
	callV      int64 // virtual ns after t0
	err        error
	accepted   bool
	scribbled  bool
	hdrAfter   hdrImage // header as the caller left it after the write
	delivered  int
	firstPos   int   // position in its stream's delivery order
	firstStamp int64 // gate entry stamp of the first delivery
}

type rateChange struct {
	at   int64 // virtual ns after t0
	rate int
}

type gateFlag struct {
	call int
	what string
}

type result struct {
	t0off      time.Time
	recs       [][]rec
	rates      []rateChange // actual, rates[0] = {0, rate0}
	events     [][]obs.RTPEvent
	flags      [][]gateFlag
	stopAt     int64 // virtual ns after t0 when the last writer finished
	queuedBits int64
	finalRate  int
	bound      time.Duration
	drainedAt  int64 // virtual ns after t0 when everything accepted had been seen (or -1)
	snapStamp  int64
	harnessErr string
}

// cappedWriter forwards to the recording gate until a pacer has made far more downstream
// calls than packets were written (3*packets+1000); from then on calls are only counted, so
// that a pacer that re-sends a packet on every tick cannot make a case arbitrarily expensive.
// The duplicates recorded up to the cap are what the oracle reports.
type cappedWriter struct {
	g       *obs.RTPGate
	limit   int64
	calls   atomic.Int64
	dropped atomic.Int64
	// failWith, when set, is returned for every packet AFTER it was recorded: the next writer of
	// this one stream is gone (a stopped sender); the pacer's other streams are not affected and
	// a delivery that ends in an error is still the one delivery of that packet
	failWith error
}

func (w *cappedWriter) Write(h *rtp.Header, payload []byte, a interceptor.Attributes) (int, error) {
	if w.calls.Add(1) > w.limit {
		w.dropped.Add(1)
		return h.MarshalSize() + len(payload), nil
	}
	n, err := w.g.Write(h, payload, a)
	if w.failWith != nil {
		return 0, w.failWith
	}
	return n, err
}

// ---------------------------------------------------------------------------------
// driver

func run(c *vf.Case) {
	if c.Idx%25 == 7 {
		runCloseWithBacklog(c)
		return
	}
	s := buildScenario(c.R)
	comp := compNames[s.kind]
	c.Add("cases_"+comp, 1)

	res := &result{drainedAt: -1}
	clk := &obs.Clock{}
	gates := make([]*obs.RTPGate, len(s.streams))
	next := make([]*cappedWriter, len(s.streams)) // what the pacer gets as next writer
	res.flags = make([][]gateFlag, len(s.streams))
	var flagMu sync.Mutex
	for i, st := range s.streams {
		g := obs.NewRTPGate(clk, st.ssrc)
		if s.yields > 0 {
			si := i
			g.SetHook(func(call int, h *rtp.Header, _ []byte) {
				before := imageOf(h)
				for k := 0; k < s.yields; k++ {
					runtime.Gosched()
				}
				if after := imageOf(h); !before.equal(after) {
					flagMu.Lock()
					res.flags[si] = append(res.flags[si], gateFlag{call, fmt.Sprintf("header %x -> %x", before.raw, after.raw)})
					flagMu.Unlock()
				}
			})
		}
		gates[i] = g
		next[i] = &cappedWriter{g: g, limit: int64(3*s.npk + 1000)}
		if i == 0 && len(s.streams) > 1 && s.deadWriter != nil {
			next[i].failWith = s.deadWriter
		}
	}
	res.recs = make([][]rec, s.writers)
	for w := range res.recs {
		res.recs[w] = make([]rec, len(s.pkts[w]))
		for i := range res.recs[w] {
			res.recs[w][i].p = &s.pkts[w][i]
		}
	}

	c.Bubble(func() {
		g0 := runtime.NumGoroutine()
		t0 := time.Now()
		res.t0off = t0
		var writers []interceptor.RTPWriter // per stream
		var unknown interceptor.RTPWriter   // for packets of an SSRC that was never added
		var setRate func(int)
		var closeFn func() error

		switch s.kind {
		case kPacing:
			var opts []pacing.Option
			if !s.defaults {
				opts = append(opts, pacing.InitialRate(s.rate0), pacing.Interval(s.interval))
			}
			f := pacing.NewInterceptor(opts...)
			ic, err := f.NewInterceptor("c17")
			if err != nil {
				res.harnessErr = err.Error()
				return
			}
			for i, st := range s.streams {
				writers = append(writers, ic.BindLocalStream(&interceptor.StreamInfo{SSRC: st.ssrc}, next[i]))
			}
			setRate = func(v int) { f.SetRate("c17", v) }
			closeFn = ic.Close
		case kLeaky:
			p := gcc.NewLeakyBucketPacer(s.rate0)
			for i, st := range s.streams {
				p.AddStream(st.ssrc, next[i])
				writers = append(writers, p)
			}
			setRate = p.SetTargetBitrate
			closeFn = p.Close
		case kNoOp:
			p := gcc.NewNoOpPacer()
			for i, st := range s.streams {
				p.AddStream(st.ssrc, next[i])
				writers = append(writers, p)
			}
			unknown = p
			setRate = p.SetTargetBitrate
			closeFn = p.Close
		case kBWE, kBWENoOp:
			opts := []gcc.Option{gcc.SendSideBWEInitialBitrate(s.rate0), gcc.SendSideBWEMaxBitrate(2 * maxRate)}
			if s.kind == kBWENoOp {
				opts = append(opts, gcc.SendSideBWEPacer(gcc.NewNoOpPacer()))
			}
			bwe, err := gcc.NewSendSideBWE(opts...)
			if err != nil {
				res.harnessErr = err.Error()
				return
			}
			for i, st := range s.streams {
				info := &interceptor.StreamInfo{SSRC: st.ssrc}
				if st.twccID != 0 {
					info.RTPHeaderExtensions = []interceptor.RTPHeaderExtension{{URI: twccURI, ID: int(st.twccID)}}
				}
				w := bwe.AddStream(info, next[i])
				writers = append(writers, w)
				unknown = w
			}
			setRate = func(int) {}
			closeFn = bwe.Close
		}
		synctest.Wait() // the pacer goroutine has created its ticker at virtual t0 and parked

		res.rates = []rateChange{{0, s.rate0}}
		var wg sync.WaitGroup
		for w := 0; w < s.writers; w++ {
			wg.Add(1)
			go func(w int) {
				defer wg.Done()
				var reuse []byte
				if s.reuseBuf[w] {
					reuse = make([]byte, 1460)
				}
				for i := range s.pkts[w] {
					p := &s.pkts[w][i]
					r := &res.recs[w][i]
					if d := p.at - int64(time.Since(t0)); d > 0 {
						time.Sleep(time.Duration(d))
					}
					var live []byte
					if reuse != nil {
						live = reuse[:len(p.payload)]
						copy(live, p.payload)
					} else {
						live = append([]byte{}, p.payload...)
					}
					var attr interceptor.Attributes
					switch p.attr {
					case 1:
						attr = interceptor.Attributes{}
					case 2:
						attr = interceptor.Attributes{"c17": p.uid}
					}
					wr := unknown
					if p.s >= 0 {
						wr = writers[p.s]
					}
					r.callV = int64(time.Since(t0))
					r.call = clk.Tick()
					_, err := wr.Write(&p.hdr, live, attr)
					r.ret = clk.Tick()
					r.err = err
					r.accepted = err == nil
					if p.scribble {
						scribble(&p.hdr, live)
						r.scribbled = true
					}
					r.hdrAfter = imageOf(&p.hdr)
				}
			}(w)
		}
		wg.Add(1)
		go func() {
			defer wg.Done()
			for _, ct := range s.ctls {
				if d := ct.at - int64(time.Since(t0)); d > 0 {
					time.Sleep(time.Duration(d))
				}
				setRate(ct.rate)
				res.rates = append(res.rates, rateChange{int64(time.Since(t0)), ct.rate})
			}
		}()
		wg.Wait()
		synctest.Wait()
		res.stopAt = int64(time.Since(t0))
		res.finalRate = res.rates[len(res.rates)-1].rate

		// bounded delivery: 4*queued_bits/rate + 1 s of virtual time after input stopped
		want := map[uint32]int{} // uid -> stream, accepted packets
		var acceptedBits int64
		for w := range res.recs {
			for i := range res.recs[w] {
				if r := &res.recs[w][i]; r.accepted && r.p.s >= 0 {
					want[r.p.uid] = r.p.s
					acceptedBits += int64(r.p.bits)
				}
			}
		}
		missing := func() (int, int64) {
			seen := map[uint32]bool{}
			var bits int64
			for si, g := range gates {
				for _, ev := range g.Events() {
					id := ev.Header.Timestamp & 0x7fffffff
					if st, ok := want[id]; ok && st == si && !seen[id] {
						seen[id] = true
						bits += int64(8 * (ev.Header.MarshalSize() + len(ev.Payload)))
					}
				}
			}
			return len(want) - len(seen), acceptedBits - bits
		}
		miss, qbits := missing()
		res.queuedBits = max(0, qbits)
		res.bound = time.Duration(4*float64(res.queuedBits)/float64(res.finalRate)*1e9) + time.Second
		deadline := res.stopAt + int64(res.bound)
		if miss == 0 {
			res.drainedAt = res.stopAt
		}
		step := max(s.interval, res.bound/64)
		for miss > 0 && int64(time.Since(t0)) < deadline {
			d := min(int64(step), deadline-int64(time.Since(t0)))
			time.Sleep(time.Duration(d))
			synctest.Wait()
			var cnt int64
			for _, g := range gates {
				cnt += g.Count.Load()
			}
			if cnt < int64(len(want)) && int64(time.Since(t0)) < deadline {
				continue
			}
			if miss, _ = missing(); miss == 0 {
				res.drainedAt = int64(time.Since(t0))
			}
		}
		if miss == 0 {
			// a few more ticks so that a late duplicate would still be seen
			time.Sleep(4 * s.interval)
			synctest.Wait()
		}
		res.snapStamp = clk.Tick()
		res.events = make([][]obs.RTPEvent, len(gates))
		for i, g := range gates {
			res.events[i] = g.Events()
		}
		_ = closeFn()
		synctest.Wait()
		for i := 0; i < 1000000 && runtime.NumGoroutine() > g0; i++ {
			runtime.Gosched()
		}
	}, func(dump string) {
		c.Inconclusive("goroutines left in bubble after Close:\n%s", trunc(dump, 3000))
	})

	if res.harnessErr != "" {
		c.Inconclusive("harness: %s", res.harnessErr)
		return
	}
	for _, w := range next {
		c.Add("downstream_calls_beyond_recording_cap", w.dropped.Load())
	}
	decide(c, s, res)
}

// ---------------------------------------------------------------------------------
// oracle

func decide(c *vf.Case, s *scenario, res *result) {
	comp := compNames[s.kind]
	byUID := map[uint32]*rec{}
	var offered, accepted, rejected, scribbled int64
	for w := range res.recs {
		for i := range res.recs[w] {
			r := &res.recs[w][i]
			r.firstPos = -1
			byUID[r.p.uid] = r
			offered++
			if r.accepted {
				accepted++
			} else {
				rejected++
			}
			if r.scribbled {
				scribbled++
			}
			if r.accepted && r.p.s < 0 {
				// a stream-less packet was accepted: there is no next writer to look at; the
				// statement says nothing about it.
				c.Add("accepted_without_a_stream", 1)
			}
		}
	}
	c.Add("packets_offered", offered)
	c.Add("packets_accepted", accepted)
	c.Add("packets_rejected_by_write_error", rejected)
	c.Add("packets_scribbled_after_write", scribbled)
	c.Add("set_rate_calls", int64(len(res.rates)-1))

	describe := func(r *rec) string {
		return fmt.Sprintf("packet id=%#x writer=%d stream=%d(ssrc=%#x) size=%dB (hdr %dB + payload %dB) Write called at t0+%v stamps[call=%d ret=%d]",
			r.p.uid, r.p.w, r.p.s, s.streams[max(0, r.p.s)].ssrc, r.p.bits/8, len(r.p.hdrRef.raw), len(r.p.payload),
			time.Duration(r.callV), r.call, r.ret)
	}
	cfg := fmt.Sprintf("%s rate0=%d bit/s interval=%v streams=%d writers=%d packets=%d rate changes=%v",
		comp, s.rate0, s.interval, len(s.streams), s.writers, s.npk, res.rates[1:])

	// ---- identity, exactly-once, intact ------------------------------------------------
	var compared, comparedBytes, yieldCompared int64
	type release struct {
		t    int64
		bits float64
		raw  int
		uid  uint32
	}
	var rels []release
	for si, evs := range res.events {
		sort.SliceStable(evs, func(i, j int) bool { return evs[i].Stamp < evs[j].Stamp })
		pos := 0
		for _, ev := range evs {
			rels = append(rels, release{
				t: int64(ev.VTime.Sub(res.t0off)), raw: 8 * (ev.Header.MarshalSize() + len(ev.Payload)),
				uid: ev.Header.Timestamp & 0x7fffffff,
			})
			id := ev.Header.Timestamp & 0x7fffffff
			r, ok := byUID[id]
			if !ok {
				c.Violation("intact/"+comp+"/delivered-packet-matches-no-written-packet",
					"%s\nstream %d gate received a packet whose id %#x (timestamp %#x) was never written: header %x payload[%d] %x",
					cfg, si, id, ev.Header.Timestamp, imageOf(&ev.Header).raw, len(ev.Payload), head(ev.Payload, 24))
				continue
			}
			if r.p.s != si {
				c.Violation("route/"+comp+"/delivered-to-another-streams-writer",
					"%s\n%s\nwas handed to the next writer of stream %d (ssrc %#x)", cfg, describe(r), si, s.streams[si].ssrc)
				continue
			}
			if !r.accepted {
				c.Add("rejected_packets_seen_downstream", 1) // not judged
				continue
			}
			r.delivered++
			if r.delivered == 1 {
				r.firstPos = pos
				r.firstStamp = ev.Stamp
				pos++
			} else if r.delivered == 2 {
				c.Violation("once/"+comp+"/delivered-more-than-once",
					"%s\n%s\nreached its stream's next writer again at t0+%v (gate stamp %d; first delivery stamp %d)",
					cfg, describe(r), ev.VTime.Sub(res.t0off), ev.Stamp, r.firstStamp)
			}
			// intact: header
			got := imageOf(&ev.Header)
			compared++
			comparedBytes += int64(len(got.raw) + len(ev.Payload))
			if !got.equal(r.p.hdrRef) {
				sig := "intact/" + comp + "/header-differs-from-header-at-acceptance"
				if r.scribbled && got.equal(r.hdrAfter) {
					sig = "intact/" + comp + "/header-shows-callers-modification-after-write-returned"
				}
				c.Violation(sig, "%s\n%s\nheader at acceptance: %x padding=%v/%d\nheader at the gate:   %x padding=%v/%d",
					cfg, describe(r), r.p.hdrRef.raw, r.p.hdrRef.padding, r.p.hdrRef.padSize, got.raw, got.padding, got.padSize)
			}
			// intact: payload
			if !bytes.Equal(ev.Payload, r.p.payload) {
				sig := "intact/" + comp + "/payload-differs-from-payload-at-acceptance"
				if len(ev.Payload) == len(r.p.payload) && len(ev.Payload) > 0 {
					inv := true
					for i := range ev.Payload {
						if ev.Payload[i] != r.p.payload[i]^0xff {
							inv = false
							break
						}
					}
					if inv && r.scribbled {
						sig = "intact/" + comp + "/payload-shows-callers-scribble-after-write-returned"
					}
				} else if len(ev.Payload) != len(r.p.payload) {
					sig = "intact/" + comp + "/payload-length-differs-from-acceptance"
				}
				c.Violation(sig, "%s\n%s\npayload at acceptance [%d]: %x…\npayload at the gate   [%d]: %x… (first difference at byte %d)",
					cfg, describe(r), len(r.p.payload), head(r.p.payload, 32), len(ev.Payload), head(ev.Payload, 32), firstDiff(ev.Payload, r.p.payload))
			}
			if ev.PayloadAtExit != nil {
				yieldCompared++
				if !bytes.Equal(ev.PayloadAtExit, ev.Payload) {
					c.Violation("intact/"+comp+"/payload-changes-while-downstream-write-runs",
						"%s\n%s\npayload at entry of the downstream Write: %x…\nat its exit: %x… (first difference at byte %d)",
						cfg, describe(r), head(ev.Payload, 32), head(ev.PayloadAtExit, 32), firstDiff(ev.Payload, ev.PayloadAtExit))
				}
			}
		}
		for _, f := range res.flags[si] {
			c.Violation("intact/"+comp+"/header-changes-while-downstream-write-runs",
				"%s\nstream %d downstream call #%d: %s", cfg, si, f.call, f.what)
		}
	}
	c.Add("deliveries_compared_with_acceptance_clone", compared)
	c.Add("bytes_compared", comparedBytes)
	c.Add("deliveries_rechecked_at_exit_of_downstream_write", yieldCompared)

	// ---- order --------------------------------------------------------------------------
	// delivered (first occurrences) in gate order per stream; a precedes b is demanded when
	// ret(a) < call(b).
	var orderPairs int64
	perStream := make([][]*rec, len(s.streams))
	for _, r := range byUID {
		if r.accepted && r.p.s >= 0 && r.delivered > 0 {
			perStream[r.p.s] = append(perStream[r.p.s], r)
		}
	}
	for si := range perStream {
		lst := perStream[si]
		sort.Slice(lst, func(i, j int) bool { return lst[i].firstPos < lst[j].firstPos })
		var latest *rec // delivered so far with the largest call stamp
		reported := 0
		for _, a := range lst {
			if latest != nil {
				orderPairs++
				if a.ret < latest.call && reported < 2 {
					reported++
					b := latest
					sig := "order/" + comp + "/write-that-returned-before-another-was-called-is-delivered-after-it"
					if a.p.w == b.p.w {
						sig = "order/" + comp + "/one-writers-packets-delivered-out-of-program-order"
					}
					c.Violation(sig, "%s\nA: %s\nB: %s\nWrite(A) returned (stamp %d) before Write(B) was called (stamp %d), but stream %d's next writer received B at position %d (stamp %d) and A at position %d (stamp %d)\ndelivery order around them: %s",
						cfg, describe(a), describe(b), a.ret, b.call, si, b.firstPos, b.firstStamp, a.firstPos, a.firstStamp, window(lst, b.firstPos, a.firstPos))
				}
			}
			if latest == nil || a.call > latest.call {
				latest = a
			}
		}
	}
	c.Add("order_constraints_checked", orderPairs)

	// ---- missing: lost vs not delivered within the bound ------------------------------
	var undelivered []*rec
	for _, r := range byUID {
		if r.accepted && r.p.s >= 0 && r.delivered == 0 {
			undelivered = append(undelivered, r)
		}
	}
	sort.Slice(undelivered, func(i, j int) bool { return undelivered[i].call < undelivered[j].call })
	var stalled []*rec
	lostReported := 0
	for _, a := range undelivered {
		// lost: a later write (called after a returned) on the same stream was delivered
		var later *rec
		for _, b := range perStream[a.p.s] {
			if b.call > a.ret {
				later = b
				break
			}
		}
		if later == nil {
			stalled = append(stalled, a)
			continue
		}
		if lostReported++; lostReported <= 2 {
			c.Violation("once/"+comp+"/accepted-packet-never-delivered-while-later-ones-were",
				"%s\n%s\nwas accepted (Write returned nil) but never reached stream %d's next writer within the bound (%v after input stopped), although the later\n%s\nwas delivered (position %d)",
				cfg, describe(a), a.p.s, res.bound, describe(later), later.firstPos)
		}
	}
	if len(stalled) > 0 {
		head0 := stalled[0]
		var stalledBits int64
		for _, r := range stalled {
			stalledBits += int64(r.p.bits)
		}
		sig := "bounded-delivery/" + comp + "/accepted-packets-not-delivered-within-bound"
		extra := ""
		if s.kind == kPacing {
			// Which input class is it? The interceptor keeps ONE queue for all its streams. A
			// stalled packet may be at the head of that queue iff no other stalled packet's
			// Write returned before its own Write was called. If such a possible head has at
			// least as many bits as the bucket holds (the smaller reading of the configured
			// burst: this only names the signature, it does not decide the violation), the
			// stall is the head-of-line block of an oversize packet.
			b := configuredBurst(res.finalRate, s.interval)
			minRet := int64(math.MaxInt64)
			for _, r := range stalled {
				minRet = min(minRet, r.ret)
			}
			for _, r := range stalled {
				if r.call <= minRet && float64(r.p.bits) >= b {
					sig = "bounded-delivery/pacing/head-of-line-packet-of-at-least-burst-bits-is-never-released"
					extra = fmt.Sprintf("\nhead of the queue: %s\nit has %d bits >= the bucket's burst of %.0f bits (rate %d bit/s, interval %v): the bucket can never hold more tokens than the packet needs, so it is never released and blocks every packet behind it, on all streams",
						describe(r), r.p.bits, b, res.finalRate, s.interval)
					break
				}
			}
		}
		c.Violation(sig, "%s\ninput stopped at t0+%v with %d bits queued; final rate %d bit/s => bound 4*queued/rate+1s = %v; at t0+%v %d accepted packets (%d bits) had still not been delivered.\nfirst of them: %s%s",
			cfg, time.Duration(res.stopAt), res.queuedBits, res.finalRate, res.bound, time.Duration(res.stopAt)+res.bound,
			len(stalled), stalledBits, describe(head0), extra)
		c.Add("cases_with_packets_stalled", 1)
	}
	if res.drainedAt >= 0 {
		c.Add("cases_drained_within_bound", 1)
		c.Max("max_virtual_ms_from_input_stop_to_drained", (res.drainedAt-res.stopAt)/1e6)
	}

	// ---- envelope (pacing interceptor) ----------------------------------------------------
	if s.kind == kPacing {
		sort.SliceStable(rels, func(i, j int) bool { return rels[i].t < rels[j].t })
		// rate segments: seg k in effect on [tc[k], tc[k+1]]
		segs := res.rates
		burstOf := make([]float64, len(segs))
		for k := range segs {
			burstOf[k] = allowance(segs[k].rate, s.interval)
		}
		integ := func(t int64) float64 { // integral of the configured rate over [0,t], bits
			var sum float64
			for k := range segs {
				endT := t
				if k+1 < len(segs) && segs[k+1].at < t {
					endT = segs[k+1].at
				}
				if endT > segs[k].at {
					sum += float64(segs[k].rate) * float64(endT-segs[k].at) / 1e9
				}
			}
			return sum
		}
		// burstMax over the closed window [a,b]: every segment that touches it (permissive at
		// the instants of a rate change)
		burstMax := func(a, b int64) float64 {
			m := 0.0
			for k := range segs {
				lo := segs[k].at
				hi := int64(math.MaxInt64)
				if k+1 < len(segs) {
					hi = segs[k+1].at
				}
				if lo <= b && hi >= a {
					m = math.Max(m, burstOf[k])
				}
			}
			return m
		}
		// A packet of at least `burst` bits can never be covered by the bucket; the most a
		// token bucket can do is to send it when the bucket is full. The envelope therefore
		// charges such a packet the full burst (permissive; see the head-of-line finding).
		type inst struct {
			t    int64
			bits float64
			n    int
		}
		var insts []inst
		var oversizeReleased int64
		for _, r := range rels {
			b := float64(r.raw)
			if lim := burstMax(r.t, r.t); b > lim {
				// charged what the bucket can hold at most under the SMALLER reading of the
				// documented bucket size: the allowance above is rounded up (permissive for the
				// envelope), and charging that rounded-up value to every oversize packet would
				// demand more than rate x interval tokens per interval (one bit too many per
				// packet when rate x interval is not whole: false alarm in the thorough tier)
				b = lim
				for k := range segs {
					hi := int64(math.MaxInt64)
					if k+1 < len(segs) {
						hi = segs[k+1].at
					}
					if segs[k].at <= r.t && hi >= r.t {
						b = math.Min(b, configuredBurst(segs[k].rate, s.interval))
					}
				}
				oversizeReleased++
			}
			if n := len(insts); n > 0 && insts[n-1].t == r.t {
				insts[n-1].bits += b
				insts[n-1].n++
			} else {
				insts = append(insts, inst{r.t, b, 1})
			}
		}
		c.Add("oversize_packets_released", oversizeReleased)
		c.Add("release_instants", int64(len(insts)))
		R := make([]float64, len(insts))
		cum := make([]float64, len(insts)+1)
		for i, in := range insts {
			R[i] = integ(in.t)
			cum[i+1] = cum[i] + in.bits
		}
		tol := func(span float64) float64 { return 1 + 1e-9*span }
		var windows int64
		fired := false
		// (1) the statement's wording: from the creation of the interceptor (t=0) to any instant
		for j := range insts {
			windows++
			allow := burstMax(0, insts[j].t) + R[j]
			if cum[j+1] > allow+tol(R[j]) {
				c.Violation("envelope/pacing/cumulative-bits-exceed-burst-plus-rate-x-elapsed",
					"%s\nby t0+%v the interceptor had released %.0f bits in %d instants; burst allowance %.0f + integral of configured rate %.1f = %.1f bits (excess %.1f)\nlast instants: %s",
					cfg, time.Duration(insts[j].t), cum[j+1], j+1, burstMax(0, insts[j].t), R[j], allow, cum[j+1]-allow, instWindow(insts[:j+1], func(in inst) string {
						return fmt.Sprintf("t0+%v:%.0fb/%dpkt", time.Duration(in.t), in.bits, in.n)
					}))
				fired = true
				break
			}
		}
		// (2) the same bound started at any later release instant
		if !fired {
			constBurst := len(segs) == 1
		outer:
			for i := range insts {
				for j := i; j < len(insts); j++ {
					windows++
					var bm float64
					if constBurst {
						bm = burstOf[0]
					} else {
						bm = burstMax(insts[i].t, insts[j].t)
					}
					span := R[j] - R[i]
					got := cum[j+1] - cum[i]
					if got > bm+span+tol(span) {
						c.Violation("envelope/pacing/window-bits-exceed-burst-plus-rate-x-window",
							"%s\nin the window [t0+%v, t0+%v] the interceptor released %.0f bits; burst allowance %.0f + integral of configured rate over the window %.1f = %.1f bits (excess %.1f)\ninstants: %s",
							cfg, time.Duration(insts[i].t), time.Duration(insts[j].t), got, bm, span, bm+span, got-bm-span, instWindow(insts[i:j+1], func(in inst) string {
								return fmt.Sprintf("t0+%v:%.0fb/%dpkt", time.Duration(in.t), in.bits, in.n)
							}))
						break outer
					}
				}
			}
		}
		c.Add("envelope_windows_checked", windows)
	}

	// ---- porcupine: FIFO queue cross-check of short histories ---------------------------
	if s.short && !c.Violated() {
		for si := range s.streams {
			var ops []porcupine.Operation
			for _, r := range byUID {
				if r.accepted && r.p.s == si {
					ops = append(ops, porcupine.Operation{ClientId: r.p.w, Input: fifoIn{enq: true, id: r.p.uid}, Call: r.call, Return: r.ret})
				}
			}
			for _, ev := range res.events[si] {
				id := ev.Header.Timestamp & 0x7fffffff
				if r, ok := byUID[id]; ok && r.accepted && r.p.s == si {
					ops = append(ops, porcupine.Operation{ClientId: 7, Input: fifoIn{}, Output: id, Call: ev.Stamp, Return: ev.ExitStamp})
				}
			}
			if len(ops) == 0 {
				continue
			}
			switch porcupine.CheckOperationsTimeout(fifoModel, ops, 5*time.Second) {
			case porcupine.Ok:
				c.Add("porcupine_histories_linearizable", 1)
				c.Add("porcupine_operations", int64(len(ops)))
			case porcupine.Unknown:
				c.Add("porcupine_checker_timeouts", 1)
				c.Inconclusive("porcupine timed out on a history of %d operations", len(ops))
			default:
				c.Violation("fifo/"+comp+"/history-not-linearizable-as-fifo-queue",
					"%s\nstream %d: no linearization of the Write calls and downstream deliveries is a FIFO queue history:\n%s", cfg, si, describeOps(ops))
			}
		}
	}

	// ---- non-triviality, fingerprint, sample -----------------------------------------------
	type qe struct {
		stamp int64
		d     int
	}
	var q []qe
	for _, r := range byUID {
		if r.accepted && r.p.s >= 0 {
			q = append(q, qe{r.ret, 1})
			if r.delivered > 0 {
				q = append(q, qe{r.firstStamp, -1})
			}
		}
	}
	sort.Slice(q, func(i, j int) bool { return q[i].stamp < q[j].stamp })
	depth, maxDepth := 0, 0
	for _, e := range q {
		depth += e.d
		maxDepth = max(maxDepth, depth)
	}
	c.Max("max_queue_depth", int64(maxDepth))
	overlap := false
	{
		type iv struct{ call, ret int64; w int }
		var ivs []iv
		for _, r := range byUID {
			ivs = append(ivs, iv{r.call, r.ret, r.p.w})
		}
		sort.Slice(ivs, func(i, j int) bool { return ivs[i].call < ivs[j].call })
		for i := 1; i < len(ivs) && !overlap; i++ {
			if ivs[i].call < ivs[i-1].ret && ivs[i].w != ivs[i-1].w {
				overlap = true
			}
		}
	}
	if overlap {
		c.Add("cases_with_overlapping_writes_of_two_writers", 1)
	}
	nontrivial := s.writers >= 2 && maxDepth >= 2
	if s.kind == kNoOp || s.kind == kBWENoOp {
		nontrivial = s.writers >= 2 && overlap
	}
	if nontrivial {
		h := vf.NewHash().Int(s.kind).Int(s.rate0).Int(int(s.interval)).Int(len(s.streams)).Int(s.writers)
		for w := range s.pkts {
			for i := range s.pkts[w] {
				p := &s.pkts[w][i]
				h.Int(p.w).Int(p.s).U64(uint64(p.at)).Int(p.bits)
			}
		}
		for _, rc := range res.rates {
			h.U64(uint64(rc.at)).Int(rc.rate)
		}
		c.Nontrivial(h.Sum())
	}
	if c.WantSample() {
		c.Sample(map[string]any{
			"case": c.Idx, "component": comp, "rate0": s.rate0, "interval": s.interval.String(), "streams": len(s.streams),
			"writers": s.writers, "packets": s.npk, "accepted": accepted, "delivered_compared": compared,
			"rate_changes": fmt.Sprint(res.rates[1:]), "max_queue_depth": maxDepth,
			"input_stopped_at": time.Duration(res.stopAt).String(), "queued_bits_then": res.queuedBits, "bound": res.bound.String(),
			"drained_after": time.Duration(max(0, res.drainedAt-res.stopAt)).String(),
		})
	}
	c.Logf("%s\nstop=%v queued=%d bound=%v drainedAt=%v maxDepth=%d accepted=%d compared=%d", cfg,
		time.Duration(res.stopAt), res.queuedBits, res.bound, time.Duration(res.drainedAt), maxDepth, accepted, compared)
}

// ---------------------------------------------------------------------------------
// porcupine model: a sequential FIFO queue of packet ids

type fifoIn struct {
	enq bool
	id  uint32
}

var fifoModel = porcupine.Model{
	Init: func() any { return "" },
	Step: func(state, input, output any) (bool, any) {
		st := state.(string)
		in := input.(fifoIn)
		if in.enq {
			return true, st + fmt.Sprintf("%08x", in.id)
		}
		want := fmt.Sprintf("%08x", output.(uint32))
		if !strings.HasPrefix(st, want) {
			return false, st
		}
		return true, st[8:]
	},
}

func describeOps(ops []porcupine.Operation) string {
	sort.Slice(ops, func(i, j int) bool { return ops[i].Call < ops[j].Call })
	var sb strings.Builder
	for i, o := range ops {
		if i >= 40 {
			sb.WriteString("…")
			break
		}
		if in := o.Input.(fifoIn); in.enq {
			fmt.Fprintf(&sb, "  writer %d Write(id=%#x) [%d,%d]\n", o.ClientId, in.id, o.Call, o.Return)
		} else {
			fmt.Fprintf(&sb, "  downstream got id=%#x [%d,%d]\n", o.Output.(uint32), o.Call, o.Return)
		}
	}
	return sb.String()
}

// ---------------------------------------------------------------------------------
// small helpers

func head(b []byte, n int) []byte {
	if len(b) > n {
		return b[:n]
	}
	return b
}

func firstDiff(a, b []byte) int {
	for i := 0; i < len(a) && i < len(b); i++ {
		if a[i] != b[i] {
			return i
		}
	}
	return min(len(a), len(b))
}

func window(lst []*rec, from, to int) string {
	var sb strings.Builder
	lo, hi := max(0, from-2), min(len(lst), to+3)
	if hi-lo > 16 {
		hi = lo + 16
	}
	for i := lo; i < hi; i++ {
		fmt.Fprintf(&sb, "[%d id=%#x w%d call=%d ret=%d] ", lst[i].firstPos, lst[i].p.uid, lst[i].p.w, lst[i].call, lst[i].ret)
	}
	return sb.String()
}

func instWindow[T any](v []T, f func(T) string) string {
	var parts []string
	lo := 0
	if len(v) > 12 {
		lo = len(v) - 12
		parts = append(parts, "…")
	}
	for _, x := range v[lo:] {
		parts = append(parts, f(x))
	}
	return strings.Join(parts, " ")
}

func trunc(s string, n int) string {
	if len(s) > n {
		return s[:n] + "…"
	}
	return s
}
