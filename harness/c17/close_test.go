package c17

// Close with a standing backlog (added after seeded change C17-r4b): the rate clause of the
// property holds "by any instant", the instant of Close included. The pacing interceptor is
// given far more than its bucket holds, a few intervals pass, then Close runs; every release
// the next writer sees - before, during and after Close - stays under burst + rate x elapsed.
// Packets still queued at Close may be dropped (the statement binds delivery only while the
// pacer is open); what is released must still be in acceptance order and exactly once.

import (
	"fmt"
	"time"

	"github.com/pion/interceptor"
	"github.com/pion/interceptor/pkg/pacing"
	"github.com/pion/rtp"

	"github.com/pion/interceptor/verif/obs"
	"github.com/pion/interceptor/verif/vf"
)

func runCloseWithBacklog(c *vf.Case) {
	r := c.R
	rate := r.Pick(100_000, 300_000, 1_000_000, 2_400_000, 10_000_000)
	interval := time.Duration(r.Pick(1, 5, 5, 10, 20)) * time.Millisecond
	n := r.Range(20, 200)
	size := r.Pick(100, 500, 1200, 1200)
	waitTicks := r.Range(0, 12)
	c.Add("cases_pacing_close_with_backlog", 1)
	clk := &obs.Clock{}
	gate := obs.NewRTPGate(clk, 1)
	gate.NoCopy = true
	var t0 time.Time
	var accepted int
	var closeAt time.Duration
	c.Bubble(func() {
		f := pacing.NewInterceptor(pacing.InitialRate(rate), pacing.Interval(interval))
		ic, err := f.NewInterceptor("c17close")
		if err != nil {
			c.Inconclusive("harness: %v", err)
			return
		}
		w := ic.BindLocalStream(&interceptor.StreamInfo{SSRC: 1}, gate)
		t0 = time.Now()
		payload := make([]byte, size)
		for i := 0; i < n; i++ {
			h := rtp.Header{Version: 2, SSRC: 1, SequenceNumber: uint16(i), Timestamp: uint32(i)}
			if _, err := w.Write(&h, payload, nil); err == nil {
				accepted++
			}
		}
		time.Sleep(time.Duration(waitTicks)*interval + interval/2)
		closeAt = time.Since(t0)
		_ = ic.Close()
		time.Sleep(10 * interval)
	}, nil)
	if c.Violated() {
		return
	}
	burst := allowance(rate, interval)
	cfg := fmt.Sprintf("pacing rate=%d bit/s interval=%v, %d packets of %d bytes accepted at t0, Close at t0+%v", rate, interval, accepted, size+12, closeAt)
	var cum float64
	last := -1
	evs := gate.Events()
	for _, ev := range evs {
		if int(ev.Header.SequenceNumber) != last+1 {
			c.Violation("order/pacing/close-with-backlog/not-in-acceptance-order-or-duplicated",
				"%s\npacket seq %d released after seq %d", cfg, ev.Header.SequenceNumber, last)
			return
		}
		last = int(ev.Header.SequenceNumber)
		cum += float64(8 * (ev.Header.MarshalSize() + size))
		el := ev.VTime.Sub(t0)
		if allow := burst + float64(rate)*el.Seconds(); cum > allow+1+1e-9*allow {
			c.Violation("envelope/pacing/close-releases-the-backlog-above-burst-plus-rate-x-elapsed",
				"%s\nby t0+%v the interceptor had released %.0f bits in %d packets; burst allowance %.0f + rate x elapsed %.1f = %.1f bits (excess %.1f)",
				cfg, el, cum, last+1, burst, float64(rate)*el.Seconds(), allow, cum-allow)
			return
		}
	}
	c.Add("releases_checked_against_envelope_around_close", int64(len(evs)))
	c.Add("packets_still_queued_at_close", int64(accepted-len(evs)))
	if accepted > len(evs) && len(evs) > 0 {
		c.Nontrivial(vf.NewHash().Str("close-backlog").Int(rate).Int(int(interval)).Int(n).Int(size).Int(waitTicks).Sum())
	}
}
