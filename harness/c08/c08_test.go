// C08 – RFC 8888 reports reflect the reception history and respect the size limit.
//
// Monitor: the real rfc8888.Recorder (AddPacket / BuildReport) and the real
// SenderInterceptor (inside a synctest bubble: default now/ticker are virtual, or an
// injected ticker / skewed clock) are driven with generated arrival histories built on
// true 64-bit indices. An independent model written from the property statement keeps,
// per stream, the arrival instants of every copy of every packet (by true index), the
// highest index received, which packets were reported received, which were acknowledged
// in the gap-free prefix of an earlier report and how far the size limit has pushed the
// report window. Every report that leaves the library is decided against that model.
//
// Case kinds (by case index mod 20):
//
//	0..12  H  random histories, 1..6 SSRCs, reports at random places, all clock/size classes
//	13     G  big forward gaps with large maxSize (long blocks)
//	14     O  packets older than the first-ever packet of a stream (own signature family)
//	15,16  T  arrival-time-offset targets: persistent gap, duplicates, reports at chosen offsets
//	17..19 I  SenderInterceptor in a bubble
package c08

import (
	"fmt"
	"math"
	"reflect"
	"sort"
	"strings"
	"sync"
	"testing"
	"testing/synctest"
	"time"

	"github.com/pion/interceptor"
	"github.com/pion/interceptor/pkg/rfc8888"
	"github.com/pion/interceptor/verif/gen"
	"github.com/pion/interceptor/verif/vf"
	"github.com/pion/rtcp"
	"github.com/pion/rtp"
)

func cases(tier string) int {
	if tier == "thorough" {
		return 80000
	}
	return 8000
}

func TestCheck(t *testing.T) {
	vf.Main(t, vf.Spec{Prop: "C08", Cases: cases, Run: run})
}

func run(c *vf.Case) {
	switch k := c.Idx % 20; {
	case k <= 12:
		runHistory(c)
	case k == 13:
		if c.Idx%100 == 13 {
			runLongCleanRun(c)
		} else {
			runBigGap(c)
		}
	case k == 14:
		runOlderThanFirst(c)
	case k <= 16:
		runATOTargets(c)
	default:
		runInterceptor(c)
	}
}

// =====================================================================================
// The model / oracle (written from the statement; integer arithmetic only)
// =====================================================================================

const (
	atoTooLarge = 0x1FFE
	atoAfterRep = 0x1FFF
	atoMaxValue = 0x1FFD
	unit        = int64(1_000_000_000) // ns per second
)

type pkt struct {
	copies   []int64 // arrival instant (unix ns) of every copy, in call order; [0] is the first copy
	ecn      uint8   // ECN of the first copy
	reported bool    // was marked received in some earlier report
	acked    bool    // was in the gap-free received prefix of some earlier report
}

type stream struct {
	ssrc     uint32
	pk       map[int64]*pkt
	hi       int64 // highest true index received
	first    int64 // true index of the first-ever packet
	floor    int64 // highest begin of an earlier report that was at its size budget
	fresh    []int64
	desync   bool
	preFirst bool // a packet older than the first-ever packet has arrived
	preZero  bool // ... and its number lies in the 16-bit cycle before the first-ever packet's (it crossed seq 0 backwards)
	hist     []string
}

type model struct {
	c       *vf.Case
	streams map[uint32]*stream
	order   []uint32
	seen    map[string]bool
	t0      int64
	haveT0  bool
	fp      *vf.Hash

	dupsPending  int64 // duplicates that arrived while the first copy was known and not yet acknowledged
	dups         int64
	truncated    int64
	multiStream  bool
	reports      int64
	lastMaxSize  int
	lastReportNs int64
}

func newModel(c *vf.Case) *model {
	return &model{c: c, streams: map[uint32]*stream{}, seen: map[string]bool{}, fp: vf.NewHash()}
}

func (m *model) rel(ns int64) string {
	d := ns - m.t0
	sign := ""
	if d < 0 {
		sign, d = "-", -d
	}
	return fmt.Sprintf("%s%d.%09ds", sign, d/unit, d%unit)
}

func (s *stream) note(format string, args ...any) {
	if len(s.hist) >= 40 {
		copy(s.hist, s.hist[1:])
		s.hist = s.hist[:len(s.hist)-1]
	}
	s.hist = append(s.hist, fmt.Sprintf(format, args...))
}

// violation records at most one witness per signature and case.
func (m *model) violation(s *stream, sig, format string, args ...any) {
	if s != nil && s.preZero {
		// A packet older than the first-ever packet whose number lies before sequence number 0
		// of the first packet's cycle is its own input class: whatever sub-oracle notices the
		// consequences, it is reported under one signature and the stream is not judged further.
		format = "[sub-oracle that fired: " + sig + "] " + format
		sig = "stream-window/corrupted-by-packet-older-than-first-across-seq-0"
		s.desync = true
	}
	if m.seen[sig] {
		m.c.Add("violations_repeated_in_same_case", 1)
		return
	}
	m.seen[sig] = true
	detail := fmt.Sprintf(format, args...)
	if s != nil {
		floor := "none yet"
		if s.floor != math.MinInt64 {
			floor = fmt.Sprint(s.floor)
		}
		detail += fmt.Sprintf("\nstream ssrc=%#x first-ever idx=%d highest idx=%d (seq %d) begin of the last size-limited window=%s; %d streams known; recent events of this stream (times relative to the first event):\n  %s",
			s.ssrc, s.first, s.hi, uint16(s.hi), floor, len(m.order), strings.Join(s.hist, "\n  "))
	}
	m.c.Violation(sig, "%s", detail)
}

// add feeds one arrival (true index idx) into the model.
func (m *model) add(ts time.Time, ssrc uint32, idx int64, ecn uint8) {
	ns := ts.UnixNano()
	if !m.haveT0 {
		m.haveT0, m.t0 = true, ns
	}
	s := m.streams[ssrc]
	if s == nil {
		s = &stream{ssrc: ssrc, pk: map[int64]*pkt{}, hi: idx, first: idx, floor: math.MinInt64}
		m.streams[ssrc] = s
		m.order = append(m.order, ssrc)
		if len(m.order) >= 2 {
			m.multiStream = true
		}
	}
	p := s.pk[idx]
	if p == nil {
		p = &pkt{ecn: ecn}
		s.pk[idx] = p
		s.fresh = append(s.fresh, idx)
		if idx < s.first {
			s.preFirst = true
			m.c.Add("arrivals_older_than_first_packet", 1)
			if idx < s.first-s.first%65536 {
				s.preZero = true
				m.c.Add("arrivals_older_than_first_packet_across_seq_0", 1)
			}
		}
		s.note("add idx=%d seq=%d t=%s", idx, uint16(idx), m.rel(ns))
	} else {
		m.dups++
		if !p.acked {
			m.dupsPending++
		}
		s.note("add idx=%d seq=%d t=%s DUPLICATE #%d (first copy t=%s, acked=%v)", idx, uint16(idx), m.rel(ns), len(p.copies), m.rel(p.copies[0]), p.acked)
	}
	if len(p.copies) < 8 {
		p.copies = append(p.copies, ns)
	}
	if idx > s.hi {
		s.hi = idx
	}
}

// atoAccept returns the acceptable encodings for an offset of d ns (report - arrival) and
// the exact floor value q = floor(1024*d/1e9) (q = -1 for d < 0).
func atoAccept(d int64) (acc [3]uint16, n int, q int64, nearInt bool) {
	put := func(v int64) {
		var e uint16
		if v > atoMaxValue {
			e = atoTooLarge
		} else {
			e = uint16(v)
		}
		for i := 0; i < n; i++ {
			if acc[i] == e {
				return
			}
		}
		acc[n] = e
		n++
	}
	if d < 0 {
		acc[0], n = atoAfterRep, 1
		return acc, n, -1, false
	}
	num := d * 1024 // d < 2^53 ns always here
	q = num / unit
	r := num % unit
	put(q)
	// float tolerance: +-1 only when the exact value is within 1e-6 of an integer
	if r < 1000 && q > 0 {
		put(q - 1)
		nearInt = true
	}
	if r > unit-1000 {
		put(q + 1)
		nearInt = true
	}
	// RFC 8888 says "greater than 8189/1024 s => 0x1FFE", the statement says floor(): for
	// exact values strictly between 8189 and 8190 both encodings are accepted.
	if q == atoMaxValue && r > 0 {
		put(atoMaxValue + 1)
	}
	return acc, n, q, nearInt
}

func accepts(acc [3]uint16, n int, got uint16) bool {
	for i := 0; i < n; i++ {
		if acc[i] == got {
			return true
		}
	}
	return false
}

// wrap16 is what an unchecked conversion of q to 16 bits followed by saturation yields.
func wrap16(q int64) uint16 {
	v := uint16(q)
	if v > atoMaxValue {
		return atoTooLarge
	}
	return v
}

func exactNTP32(ns int64) uint32 {
	sec := ns / unit
	frac := ns % unit
	if frac < 0 {
		frac += unit
		sec--
	}
	sec += 2208988800
	return uint32(sec&0xffff)<<16 | uint32(frac*65536/unit)
}

type blockShape struct {
	l, recv, tooLarge, after int
	trunc                    bool
}

// report decides one report against the model and then updates the model from what the
// report acknowledged. via names the driver ("recorder" or "interceptor").
func (m *model) report(rep *rtcp.CCFeedbackReport, now time.Time, maxSize int, via string) {
	c := m.c
	nowNs := now.UnixNano()
	if !m.haveT0 {
		m.haveT0, m.t0 = true, nowNs
	}
	m.reports++
	n := len(m.order)
	c.Add("reports_checked", 1)
	if via == "interceptor" {
		c.Add("reports_from_interceptor", 1)
	}
	if rep == nil {
		m.violation(nil, "report/nil", "BuildReport(now=%s, maxSize=%d) returned nil with %d streams", m.rel(nowNs), maxSize, n)
		return
	}

	// --- report timestamp = NTP32(now) +-1
	if d := int32(rep.ReportTimestamp - exactNTP32(nowNs)); d < -1 || d > 1 {
		m.violation(nil, "timestamp/not-ntp32-of-report-time", "report time unix-ns %d: ReportTimestamp=%#x, NTP32(now)=%#x (diff %d units of 1/65536 s)",
			nowNs, rep.ReportTimestamp, exactNTP32(nowNs), d)
	}

	// --- one block per known stream
	blocks := map[uint32]*rtcp.CCFeedbackReportBlock{}
	for i := range rep.ReportBlocks {
		b := &rep.ReportBlocks[i]
		if _, known := m.streams[b.MediaSSRC]; !known {
			m.violation(nil, "block/unknown-ssrc", "report contains a block for ssrc %#x which never received a packet", b.MediaSSRC)
			continue
		}
		if blocks[b.MediaSSRC] != nil {
			m.violation(m.streams[b.MediaSSRC], "block/duplicate-ssrc", "report contains two blocks for ssrc %#x", b.MediaSSRC)
			continue
		}
		blocks[b.MediaSSRC] = b
	}

	// --- size
	avail := maxSize - 12 - 8*n
	fair := 0
	if avail >= 0 && n > 0 {
		fair = (avail / 2) / n
		if fair > 16384 {
			fair = 16384 // RFC 8888: a block cannot hold more (Marshal refuses it)
		}
	}
	lens := make([]int, 0, n)
	sumBlocks, odd, maxL := 0, 0, 0
	for _, b := range rep.ReportBlocks {
		l := len(b.MetricBlocks)
		lens = append(lens, l)
		sumBlocks += l
		odd += l & 1
		if l > maxL {
			maxL = l
		}
	}
	raw, err := rep.Marshal()
	switch {
	case err != nil:
		c.Add("reports_marshal_error", 1)
		if maxL > 16384 {
			m.violation(nil, "marshal/error/more-than-16384-metric-blocks-in-a-block",
				"%s: BuildReport(now, maxSize=%d) with %d streams returned block lengths %v; Marshal() fails: %v (RFC 8888 num_reports <= 16384)", via, maxSize, n, lens, err)
		} else {
			m.violation(nil, "marshal/error/other", "%s: BuildReport(now, maxSize=%d) with %d streams, block lengths %v: Marshal() fails: %v", via, maxSize, n, lens, err)
		}
	case avail >= 0:
		c.Add("reports_size_checked", 1)
		if odd > 0 {
			c.Add("reports_size_checked_with_odd_length_block", 1)
		}
		if len(raw) > maxSize {
			if 12+8*len(rep.ReportBlocks)+2*sumBlocks <= maxSize {
				m.violation(nil, "size/exceeds-max/block-padding-not-budgeted",
					"%s report: maxSize=%d, %d streams (per-stream headers need %d): len(Marshal())=%d > maxSize; block lengths %v (%d odd => 2 bytes of padding each; unpadded total %d would fit)",
					via, maxSize, n, 12+8*n, len(raw), lens, odd, 12+8*len(rep.ReportBlocks)+2*sumBlocks)
			} else {
				m.violation(nil, "size/exceeds-max/too-many-metric-blocks",
					"%s report: maxSize=%d, %d streams (per-stream headers need %d): len(Marshal())=%d > maxSize; block lengths %v", via, maxSize, n, 12+8*n, len(raw), lens)
			}
		}
	default:
		c.Add("reports_max_below_headers_size_not_demanded", 1)
	}
	if err == nil {
		c.Max("max_marshalled_len", int64(len(raw)))
	}

	// --- per stream
	shapes := make([]blockShape, 0, n)
	for _, ssrc := range m.order {
		s := m.streams[ssrc]
		if s.desync {
			s.fresh = s.fresh[:0]
			continue
		}
		b := blocks[ssrc]
		var mbs []rtcp.CCFeedbackMetricBlock
		begin := uint16(0)
		if b != nil {
			mbs, begin = b.MetricBlocks, b.BeginSequence
		}
		L := int64(len(mbs))
		atBudget := L >= int64(fair)-1
		c.Add("blocks_checked", 1)
		s.note("REPORT now=%s maxSize=%d (fair share %d blocks/stream) -> begin_seq=%d num_reports=%d", m.rel(nowNs), maxSize, fair, begin, L)
		sh := blockShape{l: int(L)}

		if L == 0 {
			c.Add("blocks_empty", 1)
			if fair-1 >= 1 {
				if idx, ok := s.pending(); ok {
					m.violation(s, "block/empty-although-unacknowledged-arrivals",
						"%s report now=%s maxSize=%d: block of ssrc %#x is empty although idx %d (seq %d) arrived at %s, was never acknowledged, lies above every size-limited window so far and the budget is %d blocks",
						via, m.rel(nowNs), maxSize, ssrc, idx, uint16(idx), m.rel(s.pk[idx].copies[0]), fair)
				}
			}
		} else if end := begin + uint16(L-1); end != uint16(s.hi) {
			m.violation(s, "block/end-not-highest-received",
				"%s report now=%s maxSize=%d: block of ssrc %#x is begin_seq=%d num_reports=%d, i.e. ends at seq %d, but the highest sequence number received is idx %d = seq %d",
				via, m.rel(nowNs), maxSize, ssrc, begin, L, end, s.hi, uint16(s.hi))
			s.desync = true
			s.fresh = s.fresh[:0]
			continue
		}
		B := s.hi - L + 1

		// flags and offsets
		gapFree := true
		for i := int64(0); i < L; i++ {
			idx := B + i
			mb := mbs[i]
			p := s.pk[idx]
			c.Add("metric_entries_checked", 1)
			switch {
			case p != nil && !mb.Received && p.reported:
				m.violation(s, "never-lost/received-then-reported-lost",
					"%s report now=%s: idx %d (seq %d) of ssrc %#x is marked NOT received, but an earlier report marked it received (first copy arrived %s)",
					via, m.rel(nowNs), idx, uint16(idx), ssrc, m.rel(p.copies[0]))
			case p != nil && !mb.Received:
				m.violation(s, "flag/arrived-packet-marked-lost",
					"%s report now=%s: idx %d (seq %d) of ssrc %#x is marked NOT received, but its first copy arrived at %s (before this report was built); block begin_seq=%d num_reports=%d",
					via, m.rel(nowNs), idx, uint16(idx), ssrc, m.rel(p.copies[0]), begin, L)
			case p == nil && mb.Received:
				m.violation(s, "flag/never-arrived-packet-marked-received",
					"%s report now=%s: idx %d (seq %d) of ssrc %#x is marked received (offset %#x) but no copy of it ever arrived; block begin_seq=%d num_reports=%d",
					via, m.rel(nowNs), idx, uint16(idx), ssrc, mb.ArrivalTimeOffset, begin, L)
			}
			if !mb.Received {
				gapFree = false
				continue
			}
			sh.recv++
			if p == nil {
				gapFree = false
				continue
			}
			if p.acked {
				c.Add("acknowledged_packet_listed_again_as_received", 1)
			}
			p.reported = true
			if gapFree {
				p.acked = true
			}
			m.checkATO(s, p, idx, mb, nowNs, via, &sh)
		}

		// every first-time arrival since the last report appears, unless pushed out by the size limit
		for _, idx := range s.fresh {
			c.Add("first_arrivals_tracked", 1)
			if L > 0 && idx >= B {
				c.Add("first_arrivals_listed_in_next_report", 1)
				continue
			}
			switch {
			case atBudget:
				c.Add("first_arrivals_pushed_out_by_size_limit", 1)
			case idx < s.floor:
				c.Add("late_first_arrivals_below_an_earlier_size_limited_window", 1)
			case idx < s.first:
				m.violation(s, "appear/older-than-first-packet-not-reported",
					"%s report now=%s maxSize=%d: idx %d (seq %d) of ssrc %#x arrived for the first time since the last report (at %s) but is not in the next report: block begin_seq=%d num_reports=%d with a budget of %d blocks; it is older than the first-ever packet idx %d of the stream",
					via, m.rel(nowNs), maxSize, idx, uint16(idx), ssrc, m.rel(s.pk[idx].copies[0]), begin, L, fair, s.first)
			default:
				m.violation(s, "appear/first-arrival-missing-although-below-budget",
					"%s report now=%s maxSize=%d: idx %d (seq %d) of ssrc %#x arrived for the first time since the last report (at %s) but is not in the next report: block begin_seq=%d num_reports=%d (covers idx %d..%d) although the budget is %d blocks per stream",
					via, m.rel(nowNs), maxSize, idx, uint16(idx), ssrc, m.rel(s.pk[idx].copies[0]), begin, L, B, s.hi, fair)
			}
		}
		s.fresh = s.fresh[:0]

		if atBudget {
			// the size limit applied to this block: everything below its begin (for an
			// empty block: everything up to the highest) has been passed by the window.
			if B > s.floor {
				s.floor = B
			}
			if L > 0 && L >= int64(fair) && B > s.first {
				sh.trunc = true
			}
		}
		if sh.trunc {
			m.truncated++
			c.Add("blocks_at_full_budget", 1)
		}
		if L&1 == 1 {
			c.Add("blocks_with_odd_length", 1)
		}
		shapes = append(shapes, sh)
	}
	sort.Slice(shapes, func(i, j int) bool {
		a, b := shapes[i], shapes[j]
		if a.l != b.l {
			return a.l < b.l
		}
		return a.recv < b.recv
	})
	for _, sh := range shapes {
		t := 0
		if sh.trunc {
			t = 1
		}
		m.fp.Int(sh.l).Int(sh.recv).Int(sh.tooLarge).Int(sh.after).Int(t)
	}
	m.fp.Int(-1)
}

// pending returns an arrived packet that was never acknowledged and lies above every
// size-limited window so far (and is not older than the first-ever packet).
func (s *stream) pending() (int64, bool) {
	best, ok := int64(0), false
	for idx, p := range s.pk {
		if !p.acked && idx >= s.floor && idx >= s.first {
			if !ok || idx < best {
				best, ok = idx, true
			}
		}
	}
	return best, ok
}

func (m *model) checkATO(s *stream, p *pkt, idx int64, mb rtcp.CCFeedbackMetricBlock, nowNs int64, via string, sh *blockShape) {
	c := m.c
	got := mb.ArrivalTimeOffset
	d := nowNs - p.copies[0]
	acc, n, q, nearInt := atoAccept(d)
	c.Add("received_entries_offset_checked", 1)
	if nearInt {
		c.Add("offsets_within_1e-6_of_an_integer", 1)
	}
	switch {
	case d < 0:
		sh.after++
		c.Add("offsets_expect_0x1FFF_arrival_after_report", 1)
	case q > atoMaxValue:
		sh.tooLarge++
		c.Add("offsets_expect_0x1FFE_too_large", 1)
		if q >= 65536 {
			c.Add("offsets_of_64s_or_more", 1)
		}
	}
	if uint8(mb.ECN) == p.ecn {
		c.Add("ecn_equals_first_copy", 1)
	} else {
		c.Add("ecn_differs_from_first_copy_not_demanded", 1)
	}
	if accepts(acc, n, got) {
		return
	}
	// classify first (never share a signature between two defects); the witness text is only
	// built for the first occurrence of a signature in a case
	sig, note := "", ""
	if q >= 65536 && got == wrap16(q) {
		sig, note = "ato/offset-of-64s-or-more-wraps-instead-of-0x1FFE", "\n  (the value is floor(1024*x) mod 65536)"
	}
	for i := 1; sig == "" && i < len(p.copies); i++ {
		a2, n2, q2, _ := atoAccept(nowNs - p.copies[i])
		if accepts(a2, n2, got) || (q2 >= 65536 && got == wrap16(q2)) {
			sig, note = "ato/computed-from-a-duplicate-not-the-first-copy", fmt.Sprintf("\n  (the value matches copy %d, a later duplicate)", i)
		}
	}
	if sig == "" {
		switch {
		case d < 0:
			sig = "ato/arrival-after-report-time-not-0x1FFF"
		case q > atoMaxValue:
			sig = "ato/too-large-not-0x1FFE"
		case got == atoTooLarge || got == atoAfterRep:
			sig = "ato/special-code-for-representable-offset"
		default:
			sig = "ato/wrong-value"
		}
	}
	if m.seen[sig] && !s.preZero {
		c.Add("violations_repeated_in_same_case", 1)
		return
	}
	want := fmt.Sprintf("%#x", acc[0])
	for i := 1; i < n; i++ {
		want += fmt.Sprintf(" or %#x", acc[i])
	}
	copies := make([]string, len(p.copies))
	for i, t := range p.copies {
		copies[i] = fmt.Sprintf("copy %d arrived %s (report-arrival = %d ns, floor(1024*x) = %d)", i, m.rel(t), nowNs-t, floorQ(nowNs-t))
	}
	m.violation(s, sig, "%s report now=%s: idx %d (seq %d) of ssrc %#x has arrival-time offset %#x (%d), expected %s from the FIRST copy: report-arrival = %d ns, exact 1024*x = %d + %d/1e9\n  %s%s",
		via, m.rel(nowNs), idx, uint16(idx), s.ssrc, got, got, want, d, q, (d*1024)%unit, strings.Join(copies, "\n  "), note)
}

func floorQ(d int64) int64 {
	if d < 0 {
		return -1
	}
	return d * 1024 / unit
}

// finish records evidence and the non-triviality verdict of the case.
func (m *model) finish(kind string, extra map[string]any) {
	c := m.c
	c.Add("cases_kind_"+kind, 1)
	c.Add("streams", int64(len(m.order)))
	c.Add("duplicates_fed", m.dups)
	c.Add("duplicates_fed_while_first_copy_unacknowledged", m.dupsPending)
	wraps := int64(0)
	for _, s := range m.streams {
		if s.hi/65536 != s.first/65536 {
			wraps++
		}
	}
	c.Add("streams_crossing_a_16bit_wrap", wraps)
	if m.reports > 0 && (m.multiStream || m.truncated > 0) && m.dups > 0 {
		c.Nontrivial(m.fp.Sum())
	}
	if c.WantSample() {
		s := map[string]any{"kind": kind, "streams": len(m.order), "reports": m.reports, "duplicates": m.dups,
			"blocks_at_full_budget": m.truncated, "violated": c.Violated()}
		for k, v := range extra {
			s[k] = v
		}
		c.Sample(s)
	}
}

// =====================================================================================
// Drivers on the Recorder API
// =====================================================================================

type direct struct {
	c   *vf.Case
	rec *rfc8888.Recorder
	m   *model
}

func newDirect(c *vf.Case) *direct {
	return &direct{c: c, rec: rfc8888.NewRecorder(), m: newModel(c)}
}

func (d *direct) add(ns int64, ssrc uint32, idx int64, ecn uint8) {
	ts := time.Unix(0, ns)
	d.c.Logf("AddPacket(t=%d, ssrc=%#x, seq=%d [idx %d], ecn=%d)", ns, ssrc, uint16(idx), idx, ecn)
	d.rec.AddPacket(ts, ssrc, uint16(idx), ecn)
	d.m.add(ts, ssrc, idx, ecn)
	d.c.Add("packets_fed", 1)
}

func (d *direct) report(ns int64, maxSize int) {
	now := time.Unix(0, ns)
	rep := d.rec.BuildReport(now, maxSize)
	if d.c.Debug {
		var sb strings.Builder
		for _, b := range rep.ReportBlocks {
			fmt.Fprintf(&sb, " [ssrc=%#x begin=%d n=%d]", b.MediaSSRC, b.BeginSequence, len(b.MetricBlocks))
		}
		d.c.Logf("BuildReport(now=%d, maxSize=%d) ->%s", ns, maxSize, sb.String())
	}
	d.m.report(rep, now, maxSize, "recorder")
}

func baseTime(r *vf.Rand) int64 {
	// 2000-01-01 .. 2034: inside NTP era 0
	sec := int64(946684800) + int64(r.U64()%uint64(1_070_000_000))
	if r.Chance(0.1) {
		sec = (sec >> 16) << 16 // close to a 65536 s boundary of the 32-bit NTP form
		sec -= 2208988800 % 65536
	}
	return sec*unit + int64(r.Intn(int(unit)))
}

const ato1 = int64(1953125) // 2/1024 s in ns (1/1024 s is 976562.5 ns)

// targetDelta draws a (report time - arrival time) value from the interesting classes.
func targetDelta(r *vf.Rand) int64 {
	switch r.Intn(16) {
	case 0:
		return int64(r.Pick(0, 1, 2, -1))
	case 1:
		return int64(r.Range(1, 4100))*ato1 + int64(r.Pick(-1, 0, 0, 1))
	case 2: // odd multiples of 1/1024 s are at x.5 ns: straddle them
		return int64(r.Range(0, 4100))*ato1 + 976562 + int64(r.Pick(0, 1))
	case 3:
		return 7_990_000_000 + int64(r.Range(-3, 3))
	case 4:
		return 8_000_000_000 + int64(r.Pick(-1, 0, 1, 1000))
	case 5: // 8190/1024 s exactly = 7.998046875 s: the first value that is too large
		return 7_998_046_875 + int64(r.Pick(-2, -1, 0, 1, 2))
	case 6: // 8189/1024 s = 7.9970703125 s
		return 7_997_070_312 + int64(r.Pick(-1, 0, 1, 2))
	case 7:
		return 64_000_000_000 + int64(r.Pick(-2, -1, 0, 1, 2, 1_000_000))
	case 8:
		return int64(r.Range(1, 5))*64_000_000_000 + int64(r.U64()%8_100_000_000)
	case 9:
		return 63_990_000_000 + int64(r.Intn(20_000_000))
	case 10:
		return int64(r.Range(8, 600)) * unit
	case 11:
		return int64(r.Range(1, 120)) * 60 * unit
	case 12:
		return -int64(r.Pick(1, 1000, 1_000_000, 1_000_000_000, 10_000_000_000))
	default:
		return int64(r.U64() % 10_000_000_000)
	}
}

// gapFor draws the time between two arrivals for a tempo class.
func gapFor(r *vf.Rand, tempo int) int64 {
	switch tempo {
	case 0: // fast
		return int64(r.Intn(2_000_000))
	case 1: // on the 1/1024 s grid
		return int64(r.Intn(40))*ato1/2 + int64(r.Pick(0, 0, 1))
	case 2: // slow
		return int64(r.Range(50, 3000)) * 1_000_000
	case 3: // mostly fast, sometimes long silences
		if r.Chance(0.03) {
			return int64(r.Range(5, 90)) * unit
		}
		return int64(r.Intn(20_000_000))
	default: // equal instants
		if r.Chance(0.7) {
			return 0
		}
		return int64(r.Intn(5_000_000))
	}
}

func pickSSRCs(r *vf.Rand, n int) []uint32 {
	out := make([]uint32, 0, n)
	used := map[uint32]bool{}
	for len(out) < n {
		v := r.U32()
		if r.Chance(0.1) {
			v = uint32(r.Pick(0, 1, 0xffffffff, 0x80000000))
		}
		if !used[v] {
			used[v] = true
			out = append(out, v)
		}
	}
	return out
}

// sizePolicy returns a function drawing maxSize for a report with n known streams.
func sizePolicy(r *vf.Rand) func(n int) int {
	switch r.Intn(10) {
	case 0, 1:
		return func(int) int { return 1200 }
	case 2, 3, 4, 5: // small budgets, every residue (odd per-stream budgets included)
		k := r.Range(0, 14)
		extra := r.Range(0, 30)
		perReport := r.Bool()
		return func(n int) int {
			if perReport {
				k = r.Range(0, 14)
				extra = r.Range(0, 30)
			}
			return 12 + 8*n + 2*n*k + extra%(2*n+4)
		}
	case 6, 7:
		return func(n int) int {
			switch r.Intn(8) {
			case 0:
				return r.Pick(0, 1, 11, 12, 13, 19, 20, 21)
			case 1:
				return 12 + 8*n + r.Range(-9, 9)
			case 2:
				return 12 + 8*n + r.Range(0, 60)
			case 3:
				return r.Range(100, 2000)
			case 4:
				return 40000
			case 5:
				return 1200
			default:
				return r.Intn(40001)
			}
		}
	case 8:
		v := r.Range(20000, 40000)
		return func(int) int { return v }
	default:
		v := r.Range(30, 1500)
		return func(int) int { return v }
	}
}

// streamArrivals draws one stream's arrival order (true indices). Consecutive arrivals
// never differ by 2^15 or more, so the 16-bit projection is unambiguous.
func streamArrivals(r *vf.Rand, n int, forceDup bool) []int64 {
	start := gen.StartIndex(r) + 65536
	for tries := 0; ; tries++ {
		o := gen.RandomHistoryOpts(r, start, n)
		if forceDup {
			if o.Dup < 0.05 {
				o.Dup = 0.05 + r.Float()*0.2
			}
			if o.MaxDispl < 1 {
				o.MaxDispl = r.Range(1, 30)
			}
		}
		if tries > 3 {
			o.JumpProb = 0
		}
		a := gen.Arrivals(r, o)
		ok := true
		for i := 1; i < len(a); i++ {
			if d := a[i] - a[i-1]; d >= 30000 || d <= -30000 {
				ok = false
				break
			}
		}
		if ok {
			return a
		}
	}
}

func runHistory(c *vf.Case) {
	r := c.R
	d := newDirect(c)
	n := r.Pick(1, 1, 2, 2, 3, 4, 5, 6)
	ssrcs := pickSSRCs(r, n)
	perStream := r.Range(5, 300)
	if n <= 2 && r.Chance(0.15) {
		perStream = r.Range(300, 2500)
	}
	if c.Tier == "thorough" && r.Chance(0.3) {
		perStream *= 3
	}
	arr := make([][]int64, n)
	total := 0
	for k := range arr {
		arr[k] = streamArrivals(r, r.Range(max(2, perStream/3), perStream), r.Chance(0.6))
		total += len(arr[k])
	}
	// streams join at different points of the merged order
	joinAt := make([]int, n)
	for k := 1; k < n; k++ {
		if r.Chance(0.5) {
			joinAt[k] = r.Intn(total/2 + 1)
		}
	}
	size := sizePolicy(r)
	tempo := r.Intn(5)
	mixTempo := r.Chance(0.3)
	repEvery := r.Pick(3, 5, 10, 20, 50, 100, 200)
	cur := baseTime(r)
	pos := make([]int, n)
	var recent []int64 // first-copy arrival instants of recent packets
	known := 0
	doReport := func() {
		now := cur
		switch r.Intn(4) {
		case 0: // relative to the present
			now = cur + int64(r.Pick(0, 0, 1, 1000, 1_000_000, 50_000_000))
		case 1, 2: // targeted relative to a recent arrival
			if len(recent) > 0 {
				now = recent[r.Intn(len(recent))] + targetDelta(r)
			}
		default:
			now = cur + targetDelta(r)
		}
		d.report(now, size(known))
	}
	if r.Chance(0.1) {
		doReport() // before any packet
	}
	seenSSRC := map[uint32]bool{}
	for done := 0; done < total; {
		// choose a stream with packets left that has joined
		k := r.Intn(n)
		for tries := 0; tries < 2*n && (pos[k] >= len(arr[k]) || joinAt[k] > done); tries++ {
			k = (k + 1) % n
		}
		if pos[k] >= len(arr[k]) || joinAt[k] > done {
			// nothing eligible: release the joins
			for j := range joinAt {
				joinAt[j] = 0
			}
			continue
		}
		burst := 1
		if r.Chance(0.2) {
			burst = r.Range(2, 12)
		}
		for b := 0; b < burst && pos[k] < len(arr[k]); b++ {
			idx := arr[k][pos[k]]
			pos[k]++
			done++
			t := tempo
			if mixTempo {
				t = r.Intn(5)
			}
			cur += gapFor(r, t)
			ts := cur
			if r.Chance(0.05) { // decreasing / equal instants
				ts = cur - int64(r.Intn(5_000_000))
			}
			if !seenSSRC[ssrcs[k]] {
				seenSSRC[ssrcs[k]] = true
				known++
			}
			d.add(ts, ssrcs[k], idx, uint8(r.Intn(4)))
			if len(recent) < 8 {
				recent = append(recent, ts)
			} else {
				recent[r.Intn(8)] = ts
			}
			if r.Intn(repEvery) == 0 {
				doReport()
			}
		}
	}
	doReport()
	if r.Bool() {
		doReport()
	}
	d.m.finish("history", map[string]any{"packets": total, "tempo": tempo})
}

// runBigGap: long blocks. One or two streams with forward jumps of thousands of numbers
// and a large maximum size.
func runBigGap(c *vf.Case) {
	r := c.R
	d := newDirect(c)
	n := r.Pick(1, 1, 2)
	ssrcs := pickSSRCs(r, n)
	cur := baseTime(r)
	idx := make([]int64, n)
	for k := range idx {
		idx[k] = gen.StartIndex(r) + 65536
	}
	size := func() int {
		if r.Chance(0.6) {
			return r.Range(30000, 40000)
		}
		return r.Pick(1200, 5000, 16000, 32788, 32789, 32790, 32792, 33000)
	}
	steps := r.Range(3, 12)
	for s := 0; s < steps; s++ {
		k := r.Intn(n)
		cnt := r.Range(1, 20)
		for i := 0; i < cnt; i++ {
			cur += int64(r.Intn(3_000_000))
			d.add(cur, ssrcs[k], idx[k], uint8(r.Intn(4)))
			if r.Chance(0.1) {
				cur += int64(r.Intn(3_000_000))
				d.add(cur, ssrcs[k], idx[k], 0)
			}
			idx[k]++
		}
		if r.Chance(0.6) {
			idx[k] += int64(r.Pick(3000, 9000, 16382, 16383, 16384, 16385, 20000, 29000, r.Range(100, 29000)))
		}
		if r.Chance(0.5) {
			d.report(cur+int64(r.Intn(20_000_000)), size())
		}
	}
	d.report(cur+int64(r.Intn(20_000_000)), size())
	d.m.finish("big-gap", nil)
}

// runLongCleanRun: a loss-free, in-order run longer than half the sequence space (so that state
// derived from "the last irregular packet" is more than 2^15 numbers old), across the 16-bit
// wrap, with a report every 30..80 packets; then the stream turns irregular (loss, reordering,
// a duplicate) and goes on. Added after seeded change C08-r5a.
func runLongCleanRun(c *vf.Case) {
	r := c.R
	d := newDirect(c)
	ssrc := pickSSRCs(r, 1)[0]
	cur := baseTime(r)
	idx := int64(r.Pick(60000, 65000, 30000, 100)) + 65536
	run := r.Range(33000, 40000)
	every := r.Range(30, 80)
	for i := 0; i < run; i++ {
		cur += int64(r.Range(100_000, 1_500_000))
		d.add(cur, ssrc, idx, 0)
		idx++
		if i%every == every-1 {
			d.report(cur+int64(r.Intn(1_000_000)), 1200)
		}
	}
	for i := 0; i < 60; i++ {
		cur += int64(r.Range(100_000, 1_500_000))
		switch r.Intn(5) {
		case 0:
			idx++ // a loss
		case 1:
			d.add(cur, ssrc, idx-2, 0) // a late duplicate
		}
		d.add(cur, ssrc, idx, uint8(r.Intn(4)))
		idx++
		if i%7 == 6 {
			d.report(cur+int64(r.Intn(1_000_000)), 1200)
		}
	}
	d.report(cur+int64(r.Intn(1_000_000)), 1200)
	d.m.finish("long-clean-run", nil)
}

// runOlderThanFirst: packets sent before the first packet that arrived turn up later.
func runOlderThanFirst(c *vf.Case) {
	r := c.R
	d := newDirect(c)
	n := r.Pick(1, 2)
	ssrcs := pickSSRCs(r, n)
	cur := baseTime(r)
	for k := 0; k < n; k++ {
		// first-ever packet: sometimes so close to sequence number 0 that the older packets
		// have "negative" numbers in the first cycle
		start := int64(65536 + r.Range(40, 65000))
		if r.Chance(0.3) {
			start = int64(65536 + r.Range(0, 12))
		}
		next := start
		older := start - 1
		cnt := r.Range(4, 40)
		for i := 0; i < cnt; i++ {
			cur += int64(r.Intn(4_000_000))
			if i > 0 && r.Chance(0.25) {
				d.add(cur, ssrcs[k], older-int64(r.Intn(3)), uint8(r.Intn(4)))
				older -= int64(r.Range(1, 4))
			} else {
				if i > 0 && r.Chance(0.1) {
					next++ // a loss
				}
				d.add(cur, ssrcs[k], next, uint8(r.Intn(4)))
				next++
			}
			if r.Chance(0.15) {
				d.report(cur+int64(r.Intn(2_000_000)), r.Pick(1200, 1200, 200, 40000))
			}
		}
	}
	d.report(cur+int64(r.Intn(2_000_000)), 1200)
	d.m.finish("older-than-first", nil)
}

// runATOTargets: a persistent gap keeps packets in the window; duplicates with their own
// arrival instants; reports at chosen offsets from chosen packets.
func runATOTargets(c *vf.Case) {
	r := c.R
	d := newDirect(c)
	n := r.Pick(1, 1, 2)
	ssrcs := pickSSRCs(r, n)
	cur := baseTime(r)
	type ent struct {
		k   int
		idx int64
		ts  int64
	}
	var pend []ent
	next := make([]int64, n)
	hole := make([]int64, n)
	for k := 0; k < n; k++ {
		s := gen.StartIndex(r) + 65536
		cur += int64(r.Intn(3_000_000))
		d.add(cur, ssrcs[k], s, uint8(r.Intn(4)))
		hole[k] = s + 1 // never arrives (until maybe the end): everything after stays unacknowledged
		next[k] = s + 2
	}
	maxSize := r.Pick(1200, 1200, 40000, 400, 2000)
	tempo := r.Pick(0, 1, 2, 2)
	rounds := r.Range(4, 30)
	for round := 0; round < rounds; round++ {
		k := r.Intn(n)
		for i, cnt := 0, r.Range(0, 6); i < cnt; i++ {
			cur += gapFor(r, tempo)
			d.add(cur, ssrcs[k], next[k], uint8(r.Intn(4)))
			pend = append(pend, ent{k, next[k], cur})
			next[k]++
			if r.Chance(0.1) {
				next[k]++
			}
		}
		if len(pend) > 0 && r.Chance(0.5) {
			e := pend[r.Intn(len(pend))]
			ts := cur + int64(r.Pick(0, 1, 1_000_000, 30_000_000, 500_000_000, 2_000_000_000))
			if r.Chance(0.2) {
				ts = e.ts - int64(r.Pick(1, 1_000_000, 40_000_000)) // a duplicate stamped earlier than the first copy
			}
			d.add(ts, ssrcs[e.k], e.idx, uint8(r.Intn(4)))
			if ts > cur && r.Bool() {
				cur = ts
			}
		}
		if len(pend) > 0 {
			e := pend[r.Intn(len(pend))]
			d.report(e.ts+targetDelta(r), maxSize)
		} else {
			d.report(cur+targetDelta(r), maxSize)
		}
	}
	if r.Chance(0.4) {
		for k := 0; k < n; k++ {
			cur += int64(r.Intn(3_000_000))
			d.add(cur, ssrcs[k], hole[k], 0)
		}
		d.report(cur+int64(r.Intn(50_000_000)), maxSize)
		d.report(cur+int64(r.Intn(90_000_000)), maxSize)
	}
	d.m.finish("ato-targets", map[string]any{"rounds": rounds})
}

// =====================================================================================
// Driver on the SenderInterceptor (virtual time)
// =====================================================================================

type manualTicker struct {
	ch      chan time.Time
	stopped bool
}

func (t *manualTicker) Ch() <-chan time.Time { return t.ch }
func (t *manualTicker) Stop()                { t.stopped = true }

type icEvent struct {
	report *rtcp.CCFeedbackReport
	at     time.Time // virtual instant at which the writer was called / the packet was read
	ssrc   uint32
	idx    int64
	other  int // number of non-CCFB packets written
}

func runInterceptor(c *vf.Case) {
	r := c.R
	n := r.Pick(1, 2, 2, 3, 4, 6, 6)
	ssrcs := pickSSRCs(r, n)
	perStream := r.Range(10, 250)
	// plan: arrivals per stream with forced long gaps now and then so that blocks reach the budget
	type plan struct {
		k   int
		idx int64
		gap int64
	}
	var script []plan
	arr := make([][]int64, n)
	gapAll := r.Chance(0.4) // every stream gets a gap longer than the per-stream budget
	for k := range arr {
		a := streamArrivals(r, r.Range(max(3, perStream/2), perStream), r.Chance(0.6))
		if gapAll || r.Chance(0.2) {
			// insert a forward gap: shift everything after position p
			p := r.Range(1, max(1, len(a)-1))
			cut := a[p-1]
			shift := int64(r.Range(100, 700))
			b := make([]int64, len(a))
			for i, v := range a {
				if i >= p && v > cut {
					v += shift
				}
				b[i] = v
			}
			a = b
		}
		arr[k] = a
	}
	interval := time.Duration(r.Pick(5, 20, 50, 100, 100, 250, 1000)) * time.Millisecond
	if r.Chance(0.2) {
		interval = time.Duration(ato1 * int64(r.Pick(10, 51, 128)))
	}
	manual := r.Chance(0.35)
	skewed := r.Chance(0.35)
	tempo := r.Pick(0, 0, 1, 3, 4)
	pos := make([]int, n)
	total := 0
	for k := range arr {
		total += len(arr[k])
	}
	longSilences := 0
	var elapsed int64
	for done := 0; done < total; done++ {
		k := r.Intn(n)
		for pos[k] >= len(arr[k]) {
			k = (k + 1) % n
		}
		g := gapFor(r, tempo)
		if g > 4*unit {
			longSilences++
			if longSilences > 2 {
				g = int64(r.Intn(3_000_000))
			}
		}
		if done == 0 {
			g = int64(r.Intn(1_000_000))
		} else {
			// never tie with a default-ticker tick at T0 + j*interval
			for (elapsed+g)%int64(interval) == 0 {
				g++
			}
			elapsed += g
		}
		script = append(script, plan{k, arr[k][pos[k]], g})
		pos[k]++
	}
	// piecewise-constant clock skew, a pure function of the virtual instant
	skews := make([]time.Duration, 16)
	for i := range skews {
		skews[i] = time.Duration(r.Range(-40_000_000, 40_000_000))
	}
	skewPeriod := time.Duration(r.Pick(7, 33, 150, 1000)) * time.Millisecond
	var epoch time.Time
	stamp := func(t time.Time) time.Time {
		if !skewed {
			return t
		}
		i := int(t.Sub(epoch)/skewPeriod) % len(skews)
		if i < 0 {
			i = 0
		}
		return t.Add(skews[i])
	}
	tickPlan := make([]bool, len(script)) // manual mode: tick after this arrival?
	tickP := r.Pick(2, 5, 20, 60)
	for i := range tickPlan {
		tickPlan[i] = r.Intn(tickP) == 0
	}
	tailTicks := r.Range(1, 3)
	tailSilence := time.Duration(0)
	if r.Chance(0.3) {
		tailSilence = time.Duration(targetDelta(r))
		if tailSilence < 0 || tailSilence > 200*time.Second {
			tailSilence = 9 * time.Second
		}
	}

	var mu sync.Mutex
	var events []icEvent
	var setupErr error
	decide := func() {
		mu.Lock()
		defer mu.Unlock()
		decideInterceptor(c, setupErr, events, stamp,
			map[string]any{"interval": interval.String(), "manual_ticker": manual, "skewed_clock": skewed, "packets": total})
	}
	c.Bubble(func() {
		// decide inside the bubble function: should the framework's goroutine census end the
		// process after f returns, the verdict of this case is already on record.
		defer decide()
		epoch = time.Now()
		opts := []rfc8888.Option{rfc8888.SendInterval(interval)}
		if skewed {
			opts = append(opts, rfc8888.SenderNow(func() time.Time { return stamp(time.Now()) }))
		}
		mt := &manualTicker{ch: make(chan time.Time)}
		if manual {
			typ := reflect.TypeOf(rfc8888.TickerFactory(nil))
			fn := reflect.MakeFunc(typ, func([]reflect.Value) []reflect.Value {
				return []reflect.Value{reflect.ValueOf(mt).Convert(typ.Out(0))}
			})
			opts = append(opts, rfc8888.SenderTicker(fn.Interface().(rfc8888.TickerFactory)))
		}
		f, err := rfc8888.NewSenderInterceptor(opts...)
		if err != nil {
			setupErr = err
			return
		}
		ic, err := f.NewInterceptor("")
		if err != nil {
			setupErr = err
			return
		}
		ic.BindRTCPWriter(interceptor.RTCPWriterFunc(func(pkts []rtcp.Packet, _ interceptor.Attributes) (int, error) {
			at := time.Now()
			mu.Lock()
			defer mu.Unlock()
			for _, p := range pkts {
				if rep, ok := p.(*rtcp.CCFeedbackReport); ok {
					events = append(events, icEvent{report: rep, at: at})
				} else {
					events = append(events, icEvent{other: 1, at: at})
				}
			}
			return 0, nil
		}))
		var curPkt []byte
		mixedReaders := n > 1 && r.Chance(0.3)
		readers := make([]interceptor.RTPReader, n)
		for k := 0; k < n; k++ {
			readers[k] = ic.BindRemoteStream(&interceptor.StreamInfo{SSRC: ssrcs[k]},
				interceptor.RTPReaderFunc(func(b []byte, a interceptor.Attributes) (int, interceptor.Attributes, error) {
					return copy(b, curPkt), a, nil
				}))
		}
		buf := make([]byte, 1500)
		tick := func() {
			mt.ch <- time.Now()
			synctest.Wait()
		}
		for i, p := range script {
			time.Sleep(time.Duration(p.gap))
			h := rtp.Header{Version: 2, PayloadType: 96, SequenceNumber: uint16(p.idx), Timestamp: uint32(i) * 90, SSRC: ssrcs[p.k]}
			hb, err := h.Marshal()
			if err != nil {
				setupErr = err
				break
			}
			curPkt = append(hb, 1, 2, 3, 4)
			at := time.Now()
			// a reader also delivers packets of other SSRCs than the one it was bound for (RTX,
			// simulcast layers, an unsignalled SSRC): the report is about the packet's own SSRC
			rk := p.k
			if mixedReaders && r.Chance(0.3) {
				rk = r.Intn(n)
			}
			if _, _, err := readers[rk].Read(buf, nil); err != nil {
				setupErr = err
				break
			}
			mu.Lock()
			events = append(events, icEvent{at: at, ssrc: ssrcs[p.k], idx: p.idx})
			mu.Unlock()
			if manual && tickPlan[i] {
				synctest.Wait()
				tick()
			}
		}
		if setupErr == nil {
			if manual {
				for i := 0; i < tailTicks; i++ {
					time.Sleep(tailSilence + time.Duration(r.Intn(30_000_000)))
					tick()
				}
			} else {
				time.Sleep(tailSilence + time.Duration(tailTicks)*interval + time.Millisecond)
			}
		}
		synctest.Wait()
		_ = ic.Close()
		// a virtual sleep returns only after every other bubble goroutine has blocked or exited
		time.Sleep(time.Millisecond)
	}, func(dump string) {
		var lib []string
		for _, g := range strings.Split(dump, "\n\n") {
			if strings.Contains(g, "github.com/pion/interceptor/pkg/") {
				lib = append(lib, g)
			}
		}
		if len(lib) == 0 {
			// The census is runtime.NumGoroutine(), which also counts runtime goroutines while
			// they run user callbacks (finalizers/cleanups); the dump holds only the harness's own
			// bubble goroutines: nothing of the library is left.
			c.Add("bubble_goroutine_census_false_positive", 1)
			return
		}
		c.Inconclusive("library goroutines left in the bubble after Close (C11's concern, not decided here):\n%s", strings.Join(lib, "\n\n"))
	})
}

func decideInterceptor(c *vf.Case, setupErr error, events []icEvent, stamp func(time.Time) time.Time, extra map[string]any) {
	if setupErr != nil {
		c.Inconclusive("interceptor setup/drive failed: %v", setupErr)
		return
	}
	m := newModel(c)
	nrep := 0
	for _, e := range events {
		switch {
		case e.report != nil:
			nrep++
			if c.Debug {
				var sb strings.Builder
				for _, b := range e.report.ReportBlocks {
					fmt.Fprintf(&sb, " [ssrc=%#x begin=%d n=%d]", b.MediaSSRC, b.BeginSequence, len(b.MetricBlocks))
				}
				c.Logf("virtual %v: report written, report time %v:%s", e.at.UnixNano(), stamp(e.at).UnixNano(), sb.String())
			}
			m.report(e.report, stamp(e.at), 1200, "interceptor")
		case e.other > 0:
			m.violation(nil, "interceptor/non-ccfb-packet-written", "the interceptor wrote an RTCP packet that is not a CCFeedbackReport")
		default:
			c.Logf("virtual %v: RTP read ssrc=%#x seq=%d [idx %d], stamped %v", e.at.UnixNano(), e.ssrc, uint16(e.idx), e.idx, stamp(e.at).UnixNano())
			m.add(stamp(e.at), e.ssrc, e.idx, 0)
			c.Add("packets_fed", 1)
		}
	}
	if nrep == 0 {
		c.Inconclusive("interceptor produced no report (%v)", extra)
	}
	m.finish("interceptor", extra)
}
