package c08

// Minimal stand-alone witnesses for the signatures that fire on the unchanged tree.
// Not part of the check (the runner only runs TestCheck); run with
//
//	cd /verif/harness && go1.26.8 test ./c08 -run TestWitnesses -v
//
// The test never fails: it prints what the real Recorder answers next to what the
// statement demands.

import (
	"testing"
	"time"

	"github.com/pion/interceptor/pkg/rfc8888"
	"github.com/pion/rtcp"
)

func show(t *testing.T, rep *rtcp.CCFeedbackReport, maxSize int) {
	t.Helper()
	raw, err := rep.Marshal()
	for _, b := range rep.ReportBlocks {
		t.Logf("   block ssrc=%d begin_seq=%d num_reports=%d", b.MediaSSRC, b.BeginSequence, len(b.MetricBlocks))
		if len(b.MetricBlocks) <= 8 {
			for i, mb := range b.MetricBlocks {
				t.Logf("      seq %d received=%v offset=%#x (%d)", b.BeginSequence+uint16(i), mb.Received, mb.ArrivalTimeOffset, mb.ArrivalTimeOffset)
			}
		}
	}
	t.Logf("   len(Marshal())=%d err=%v maxSize=%d", len(raw), err, maxSize)
}

func TestWitnesses(t *testing.T) {
	T := time.Unix(1_700_000_000, 0)

	t.Log("W1 ato/computed-from-a-duplicate-not-the-first-copy: seq 7 arrives at T and again at T+500ms, report at T+1s; statement: offset 1024 (first copy)")
	r := rfc8888.NewRecorder()
	r.AddPacket(T, 1, 7, 0)
	r.AddPacket(T.Add(500*time.Millisecond), 1, 7, 0)
	show(t, r.BuildReport(T.Add(time.Second), 1200), 1200)

	t.Log("W2a size/exceeds-max/block-padding-not-budgeted: one stream, one packet, maxSize 22 (>= 12+8): statement: len <= 22")
	r = rfc8888.NewRecorder()
	r.AddPacket(T, 1, 7, 0)
	show(t, r.BuildReport(T, 22), 22)
	t.Log("W2b same with the interceptor's default 1200 and two streams of >= 293 pending numbers: statement: len <= 1200")
	r = rfc8888.NewRecorder()
	for i := 0; i < 293; i++ {
		r.AddPacket(T, 1, uint16(i), 0)
		r.AddPacket(T, 2, uint16(i), 0)
	}
	show(t, r.BuildReport(T, 1200), 1200)

	t.Log("W3 ato/offset-of-64s-or-more-wraps-instead-of-0x1FFE: seq 7 arrives at T, report at T+65s; statement: 0x1FFE")
	r = rfc8888.NewRecorder()
	r.AddPacket(T, 1, 7, 0)
	show(t, r.BuildReport(T.Add(65*time.Second), 1200), 1200)

	t.Log("W4 marshal/error/more-than-16384-metric-blocks-in-a-block: seq 0 then seq 16384, maxSize 40000")
	r = rfc8888.NewRecorder()
	r.AddPacket(T, 1, 0, 0)
	r.AddPacket(T, 1, 16384, 0)
	show(t, r.BuildReport(T, 40000), 40000)

	t.Log("W5 appear/older-than-first-packet-not-reported: seq 100 arrives first, then seq 99; statement: 99 appears in the next report")
	r = rfc8888.NewRecorder()
	r.AddPacket(T, 1, 100, 0)
	r.AddPacket(T, 1, 99, 0)
	show(t, r.BuildReport(T, 1200), 1200)
	r.AddPacket(T, 1, 101, 0)
	show(t, r.BuildReport(T, 1200), 1200)

	t.Log("W6 stream-window/corrupted-by-packet-older-than-first-across-seq-0: seq 2,3 arrive and are reported; then seq 65535 (older) and seq 4")
	r = rfc8888.NewRecorder()
	r.AddPacket(T, 1, 2, 0)
	r.AddPacket(T, 1, 3, 0)
	show(t, r.BuildReport(T, 1200), 1200)
	r.AddPacket(T, 1, 65535, 0)
	r.AddPacket(T, 1, 4, 0)
	rep := r.BuildReport(T, 1200)
	show(t, rep, 1200)
	b := rep.ReportBlocks[0]
	for i, mb := range b.MetricBlocks {
		if s := b.BeginSequence + uint16(i); s == 65535 || s <= 4 {
			t.Logf("      seq %d received=%v", s, mb.Received)
		}
	}
}
