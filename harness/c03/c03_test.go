// C03 – the NACK generator requests exactly the packets that are missing.
//
// Monitor: the real nack.GeneratorInterceptor runs inside a testing/synctest bubble
// (virtual time). BindRTCPWriter installs a recording writer and starts the ticker loop
// at a known virtual instant T0; BindRemoteStream is called for 1..4 SSRCs that negotiated
// "nack" plus (often) one that did not; arrivals are marshalled RTP packets handed out by
// the inner reader the harness owns. The driver places every arrival strictly between two
// tick instants T0+k*interval, sleeps across one or many ticks, waits for quiescence and
// decides every tick with a reference model written from the property statement:
//
//	expected(tick) = { s : first < s <= highest-skipLastN, s > highest-size, s not received }
//
// kept on "model indices": 16-bit numbers ordered by serial-number arithmetic relative to
// the highest number received so far (newer iff (s-highest) mod 2^16 in (0,2^15)); a step
// of exactly 2^15 forks the model (either reading is acceptable: "may").
//
//	unlimited mode : requested set == expected set (a silent tick needs an empty set)
//	limited mode   : requested subset of expected, per-number count <= limit, a number
//	                 that is in the expected set for the first time is requested
//	always         : <=1 NACK packet per SSRC per tick, no duplicate number in a tick,
//	                 nothing for a stream without nack feedback / an unbound SSRC.
//
// Stream bookkeeping inside a history (about 30% of the generated cases, five scripts):
// UnbindRemoteStream / BindRemoteStream of the same or another SSRC with or without a tick in
// between, unbind only, additional streams. A re-bound SSRC is a fresh stream for the model;
// an unbound SSRC must be silent from the second tick after the unbind.
//
// Case kinds: the first len(scripts) cases are fixed minimal scripts (regressions and
// minimal witnesses), the rest are generated histories.
package c03

import (
	"encoding/binary"
	"errors"
	"fmt"
	"sort"
	"strings"
	"sync"
	"testing"
	"testing/synctest"
	"time"

	"github.com/pion/interceptor"
	"github.com/pion/interceptor/pkg/nack"
	"github.com/pion/interceptor/verif/gen"
	"github.com/pion/interceptor/verif/vf"
	"github.com/pion/rtcp"
	"github.com/pion/rtp"
)

// ---------------------------------------------------------------------------------
// signatures

const (
	// explained input classes (each names exactly one mechanism)
	sigOlderThanWindow = "nack-set/missing-not-requested/after-arrival-older-than-window"
	sigSize32768       = "nack-set/missing-not-requested/size32768-skip0-silent-tick"
	sigCountWrap       = "limit/requested-more-than-limit/after-65536-ticks-missing"
	sigStaleCount      = "limit/first-time-missing-not-requested/same-16-bit-value-requested-a-cycle-earlier"
	sigOverAfterSilent = "limit/requested-more-than-limit/after-size32768-skip0-silent-tick"

	sigOmitted     = "nack-set/missing-not-requested/unexplained"
	sigReqAhead    = "nack-set/requested-ahead-of-highest"
	sigReqSkip     = "nack-set/requested-inside-skip-last-n"
	sigReqReceived = "nack-set/requested-received-number"
	sigReqFirst    = "nack-set/requested-not-after-first"
	sigReqWindow   = "nack-set/requested-outside-window"
	sigReqNoPacket = "nack-set/requested-before-any-packet"
	sigOverLimit   = "limit/requested-more-than-limit"
	sigFirstTime   = "limit/first-time-missing-not-requested"
	sigTwoPackets  = "packets/more-than-one-nack-per-ssrc-per-tick"
	sigDupNumber   = "packets/duplicate-number-in-tick"
	sigNoFeedback  = "stream/nack-for-stream-without-nack-feedback"
	sigUnboundSSRC = "stream/nack-for-unbound-ssrc"
	// stream bookkeeping inside a history (UnbindRemoteStream / BindRemoteStream)
	sigUnboundStream  = "stream/nack-for-unbound-stream"
	sigReboundNotSrv  = "stream/rebound-stream-not-served"
	sigLateBoundNoSrv = "stream/stream-bound-mid-history-not-served"
	sigStateSurvives  = "stream/state-survives-rebind"
	modelBase         = int64(1) << 32
	histKeep          = 40
	maxForks          = 4
	quickGenerated    = 1600
	thoroughGenCase   = 20000
)

var sizes = []int{64, 128, 256, 512, 1024, 2048, 4096, 8192, 16384, 32768}

func cases(tier string) int {
	if tier == "thorough" {
		return len(scripts) + thoroughGenCase
	}
	return len(scripts) + quickGenerated
}

func TestCheck(t *testing.T) {
	vf.Main(t, vf.Spec{Prop: "C03", Cases: cases, Run: run})
}

func run(c *vf.Case) {
	if c.Idx < len(scripts) {
		runScript(c, scripts[c.Idx])
		return
	}
	runGenerated(c)
}

// ---------------------------------------------------------------------------------
// configuration

type config struct {
	size, skip, limit int
	interval          time.Duration
	// the option is omitted and the library default applies (value above == default)
	defSize, defSkip, defLimit, defInterval bool
}

func (g config) String() string {
	d := func(b bool) string {
		if b {
			return "(default)"
		}
		return ""
	}
	return fmt.Sprintf("size=%d%s skipLastN=%d%s maxNacksPerPacket=%d%s interval=%v%s",
		g.size, d(g.defSize), g.skip, d(g.defSkip), g.limit, d(g.defLimit), g.interval, d(g.defInterval))
}

func (g config) options() []nack.GeneratorOption {
	var o []nack.GeneratorOption
	if !g.defSize {
		o = append(o, nack.GeneratorSize(uint16(g.size)))
	}
	if !g.defSkip {
		o = append(o, nack.GeneratorSkipLastN(uint16(g.skip)))
	}
	if !g.defLimit {
		o = append(o, nack.GeneratorMaxNacksPerPacket(uint16(g.limit)))
	}
	if !g.defInterval {
		o = append(o, nack.GeneratorInterval(g.interval))
	}
	// the order in which options are passed is the caller's: rotate it by the configuration
	if n := len(o); n > 1 {
		k := (g.size + g.skip + g.limit) % n
		o = append(o[k:], o[:k]...)
		if (g.size+g.limit)%2 == 1 {
			o[0], o[n-1] = o[n-1], o[0]
		}
	}
	return o
}

func drawConfig(r *vf.Rand) config {
	var g config
	if r.Chance(0.06) {
		g.size, g.defSize = 512, true
	} else {
		g.size = sizes[r.Intn(len(sizes))]
	}
	if r.Chance(0.06) {
		g.skip, g.defSkip = 0, true
	} else {
		g.skip = r.Pick(0, 0, 1, 3, g.size/2, g.size-1, g.size)
	}
	if r.Chance(0.06) {
		g.limit, g.defLimit = 0, true
	} else {
		g.limit = r.Pick(0, 0, 1, 2, 5)
	}
	if r.Chance(0.1) {
		g.interval, g.defInterval = 100*time.Millisecond, true
	} else {
		g.interval = []time.Duration{250 * time.Microsecond, time.Millisecond, 10 * time.Millisecond,
			33333 * time.Microsecond, 100 * time.Millisecond, time.Second, time.Minute}[r.Intn(7)]
	}
	return g
}

// ---------------------------------------------------------------------------------
// reference model (one per stream and per reading of an exact 2^15 step)

type evKind uint8

const (
	evFirst evKind = iota
	evDupHighest
	evNewer
	evFill
	evDupInWindow
	evBeforeFirst
	evOneWindowBehind
	evOlderThanWindow
	evIgnored // unreadable / failed read
	nEvKinds
)

var evNames = [...]string{"first", "dup-of-highest", "newer", "fills-gap", "dup-in-window", "not-after-first",
	"exactly-one-window-behind", "older-than-window", "read-failed"}

type model struct {
	size, skip     int64
	limit          int32
	started        bool
	first, highest int64
	missing        []int64 // ascending model indices in (max(first,highest-size), highest) not received
	// classification aid only (never relaxes a verdict): numbers that were missing when a
	// packet older than the window and congruent to them modulo size arrived.
	taint map[int64]int64
	cnt   map[int64]int32 // limited mode: times requested, per index
	seen  map[int64]int32 // limited mode: ticks the index has been in the expected set
	dirty bool
	eHash uint64
	gbuf  []int64
	// numbers of the expected set that were requested at the last evaluated tick
	matched int
	// limited mode, per 16-bit value (what an observer of ticks can see): last tick at which
	// the value was in the expected set and for how many consecutive ticks
	last16          []int32
	run16           []uint16
	lastSendOrEmpty int64 // last tick at which something was requested or the expected set was empty
	ambiguous       int64
	sawSilent32768  bool
}

func newModel(g config) *model {
	m := &model{size: int64(g.size), skip: int64(g.skip), limit: int32(g.limit),
		taint: map[int64]int64{}, cnt: map[int64]int32{}, seen: map[int64]int32{}, dirty: true}
	if g.limit > 0 {
		m.last16 = make([]int32, 65536)
		m.run16 = make([]uint16, 65536)
	}
	return m
}

func (m *model) clone() *model {
	c := *m
	c.missing = append([]int64(nil), m.missing...)
	c.gbuf = nil
	c.taint = make(map[int64]int64, len(m.taint))
	for k, v := range m.taint {
		c.taint[k] = v
	}
	c.cnt = make(map[int64]int32, len(m.cnt))
	for k, v := range m.cnt {
		c.cnt[k] = v
	}
	c.last16 = append([]int32(nil), m.last16...)
	c.run16 = append([]uint16(nil), m.run16...)
	c.seen = make(map[int64]int32, len(m.seen))
	for k, v := range m.seen {
		c.seen[k] = v
	}
	return &c
}

func (m *model) forget(idx int64) {
	if len(m.taint) > 0 {
		delete(m.taint, idx)
	}
	if m.limit > 0 {
		delete(m.cnt, idx)
		delete(m.seen, idx)
	}
}

func (m *model) findMissing(idx int64) (int, bool) {
	i := sort.Search(len(m.missing), func(i int) bool { return m.missing[i] >= idx })
	return i, i < len(m.missing) && m.missing[i] == idx
}

// halfStep tells whether seq is exactly 2^15 ahead of/behind the highest number.
func (m *model) halfStep(seq uint16) bool {
	return m.started && seq-uint16(m.highest) == 0x8000
}

// arrive records a successfully read packet. halfNewer selects the reading of a step of
// exactly 2^15. It returns the class of the arrival and, for newer packets, the step.
func (m *model) arrive(seq uint16, halfNewer bool) (evKind, int64) {
	if !m.started {
		m.started = true
		m.first = modelBase + int64(seq)
		m.highest = m.first
		m.dirty = true
		return evFirst, 0
	}
	d := seq - uint16(m.highest)
	switch {
	case d == 0:
		return evDupHighest, 0
	case d < 0x8000 || (d == 0x8000 && halfNewer):
		nh := m.highest + int64(d)
		lo := m.highest + 1
		if w := nh - m.size + 1; lo < w {
			lo = w
		}
		for i := lo; i < nh; i++ {
			m.missing = append(m.missing, i)
		}
		m.highest = nh
		// the window slides: drop everything <= highest-size
		k := 0
		for k < len(m.missing) && m.missing[k] <= nh-m.size {
			m.forget(m.missing[k])
			k++
		}
		if k > 0 { // compact in place: keeps the backing array (no reallocation per jump)
			n := copy(m.missing, m.missing[k:])
			m.missing = m.missing[:n]
		}
		m.dirty = true
		return evNewer, int64(d)
	}
	back := int64(0x10000 - int(d))
	idx := m.highest - back
	switch {
	case idx <= m.highest-m.size:
		if off := back % m.size; off != 0 {
			a := m.highest - off
			if _, miss := m.findMissing(a); miss {
				if _, already := m.taint[a]; !already {
					m.taint[a] = idx
				}
			}
		}
		if back == m.size {
			return evOneWindowBehind, 0
		}
		return evOlderThanWindow, 0
	case idx <= m.first:
		return evBeforeFirst, 0
	}
	if i, ok := m.findMissing(idx); ok {
		copy(m.missing[i:], m.missing[i+1:])
		m.missing = m.missing[:len(m.missing)-1]
		m.forget(idx)
		m.dirty = true
		return evFill, 0
	}
	return evDupInWindow, 0
}

// expected is the set the statement demands at a tick (ascending).
func (m *model) expected() []int64 {
	if !m.started {
		return nil
	}
	upper := m.highest - m.skip
	k := sort.Search(len(m.missing), func(i int) bool { return m.missing[i] > upper })
	return m.missing[:k]
}

// toIndex maps a requested 16-bit number to the model index closest to highest
// (behind it when within 2^15-1, otherwise ahead).
func (m *model) toIndex(x uint16) int64 {
	rel := uint16(m.highest) - x
	if rel < 0x8000 {
		return m.highest - int64(rel)
	}
	return m.highest + int64(0x10000-int(rel))
}

type finding struct {
	sig       string
	explained bool // matches one of the three named mechanisms exactly
	msg       string
	nums      []int64 // the offending numbers (model indices), where the finding is about numbers
}

func u16s(v []int64, max int) string {
	var b strings.Builder
	b.WriteByte('[')
	for i, x := range v {
		if i >= max {
			fmt.Fprintf(&b, " …(+%d)", len(v)-max)
			break
		}
		if i > 0 {
			b.WriteByte(' ')
		}
		fmt.Fprintf(&b, "%d", uint16(x))
	}
	b.WriteByte(']')
	return b.String()
}

// evalTick decides one tick for one stream. pkts holds the expanded number list of every
// TransportLayerNack written for the SSRC in that tick.
func (m *model) evalTick(t int64, pkts [][]uint16) (fs []finding, E, G []int64) {
	if len(pkts) > 1 {
		fs = append(fs, finding{sig: sigTwoPackets, msg: fmt.Sprintf("%d TransportLayerNack packets for the SSRC in one tick", len(pkts))})
	}
	n := 0
	for _, p := range pkts {
		n += len(p)
	}
	if !m.started {
		if n > 0 {
			fs = append(fs, finding{sig: sigReqNoPacket, msg: fmt.Sprintf("%d numbers requested before any packet of the stream was received: %v", n, pkts[0][:min(len(pkts[0]), 20)])})
		}
		return fs, nil, nil
	}
	if cap(m.gbuf) < n {
		m.gbuf = make([]int64, 0, n+n/4+16)
	}
	G = m.gbuf[:0]
	sorted := true
	for _, p := range pkts {
		for _, x := range p {
			v := m.toIndex(x)
			if len(G) > 0 && v < G[len(G)-1] {
				sorted = false
			}
			G = append(G, v)
		}
	}
	if !sorted {
		sort.Slice(G, func(i, j int) bool { return G[i] < G[j] })
	}
	E = m.expected()
	m.matched = 0
	// merge walk
	var omitted, extras, dups []int64
	i, j := 0, 0
	for i < len(E) || j < len(G) {
		switch {
		case j < len(G) && j > 0 && G[j] == G[j-1]:
			dups = append(dups, G[j])
			if m.limit > 0 {
				if _, in := m.findMissing(G[j]); in {
					m.cnt[G[j]]++
				}
			}
			j++
		case i < len(E) && (j >= len(G) || E[i] < G[j]):
			omitted = append(omitted, E[i])
			i++
		case j < len(G) && (i >= len(E) || G[j] < E[i]):
			extras = append(extras, G[j])
			j++
		default: // equal
			m.matched++
			if m.limit > 0 {
				m.cnt[G[j]]++
			}
			i++
			j++
		}
	}
	if len(dups) > 0 {
		fs = append(fs, finding{sig: sigDupNumber, msg: "numbers requested more than once within one tick: " + u16s(dups, 20)})
	}
	// requested although the statement excludes them
	if len(extras) > 0 {
		by := map[string][]int64{}
		for _, x := range extras {
			var s string
			switch {
			case x > m.highest:
				s = sigReqAhead
			case x > m.highest-m.skip:
				s = sigReqSkip
			case x <= m.first:
				s = sigReqFirst
			case x <= m.highest-m.size:
				s = sigReqWindow
			default:
				s = sigReqReceived
			}
			by[s] = append(by[s], x)
		}
		for _, s := range []string{sigReqAhead, sigReqSkip, sigReqFirst, sigReqWindow, sigReqReceived} {
			if v := by[s]; len(v) > 0 {
				fs = append(fs, finding{sig: s, msg: "requested although excluded by the statement: " + u16s(v, 20), nums: v})
			}
		}
	}
	silent32768 := m.size == 32768 && m.skip == 0 && len(G) == 0 && m.highest-m.first >= 32768
	if m.limit == 0 {
		if len(omitted) > 0 {
			fs = append(fs, m.classifyOmitted(omitted, silent32768, false, sigOmitted, "missing but not requested")...)
		}
		return fs, E, G
	}
	// limited mode
	var over, overWrap []int64
	for k, x := range G {
		if k > 0 && G[k-1] == x {
			continue
		}
		if c := m.cnt[x]; c > m.limit {
			if m.seen[x] >= 65536 {
				overWrap = append(overWrap, x)
			} else {
				over = append(over, x)
			}
		}
	}
	if len(over) > 0 {
		f := finding{sig: sigOverLimit, msg: fmt.Sprintf("requested more than maxNacksPerPacket=%d times while missing: %s (now requested %d times)",
			m.limit, u16s(over, 20), m.cnt[over[0]])}
		if m.sawSilent32768 {
			f.sig, f.explained = sigOverAfterSilent, true
			f.msg += " – after an earlier tick of this stream at which nothing was requested although the expected set was not empty (size=32768, skipLastN=0)"
		}
		fs = append(fs, f)
	}
	if len(overWrap) > 0 {
		x := overWrap[0]
		fs = append(fs, finding{sig: sigCountWrap, explained: true, msg: fmt.Sprintf(
			"requested more than maxNacksPerPacket=%d times: %s; number %d has now been requested %d times, it had been in the missing set for %d consecutive ticks when it was requested again",
			m.limit, u16s(overWrap, 20), uint16(x), m.cnt[x], m.seen[x])})
	}
	// A number whose 16-bit value was already in the expected set at the previous tick under
	// an index 65536 lower (the stream advanced a whole cycle between two ticks) cannot be
	// told from a number that simply stayed missing by anyone who looks at ticks only: "may".
	for _, x := range E {
		if m.seen[x] == 0 && t > 1 && m.last16[uint16(x)] == int32(t-1) {
			m.seen[x] = 1
			m.ambiguous++
		}
	}
	var newOmitted []int64
	for _, x := range omitted {
		if m.seen[x] == 0 {
			newOmitted = append(newOmitted, x)
		}
	}
	if len(newOmitted) > 0 {
		fs = append(fs, m.classifyOmitted(newOmitted, silent32768, true, sigFirstTime, "in the missing set for the first time but not requested")...)
	}
	for _, x := range E {
		m.seen[x]++
		k := uint16(x)
		if m.last16[k] == int32(t-1) && t > 1 {
			if m.run16[k] < 65535 {
				m.run16[k]++
			}
		} else {
			m.run16[k] = 1
		}
		m.last16[k] = int32(t)
	}
	if len(G) > 0 || len(E) == 0 {
		m.lastSendOrEmpty = t
	}
	if silent32768 && len(E) > 0 {
		m.sawSilent32768 = true
	}
	return fs, E, G
}

// classifyOmitted names the input class of numbers that had to be requested and were not.
// It never drops a number: what matches none of the named mechanisms gets the generic
// signature.
func (m *model) classifyOmitted(om []int64, silent32768, limited bool, generic, what string) []finding {
	if silent32768 {
		return []finding{{sig: sigSize32768, explained: true, msg: fmt.Sprintf(
			"%s: %s – nothing at all was requested; size=32768, skipLastN=0 and the highest number is >= 32768 ahead of the first packet (lowest number of the window %d missing: %v)",
			what, u16s(om, 20), uint16(m.highest-m.size+1), len(m.missing) > 0 && m.missing[0] == m.highest-m.size+1)}}
	}
	var tainted, stale, rest []int64
	for _, x := range om {
		k := uint16(x)
		switch {
		case m.hasTaint(x):
			tainted = append(tainted, x)
		case limited && m.last16[k] != 0 && int64(m.last16[k]) >= m.lastSendOrEmpty && int32(m.run16[k]) >= m.limit:
			stale = append(stale, x)
		default:
			rest = append(rest, x)
		}
	}
	var fs []finding
	if len(tainted) > 0 {
		x := tainted[0]
		p := m.taint[x]
		fs = append(fs, finding{sig: sigOlderThanWindow, explained: true, msg: fmt.Sprintf(
			"%s: %s – each of them was missing when a packet older than the window and congruent to it modulo size arrived (e.g. %d stopped being requested after %d arrived; %d = %d + %d*%d; at that moment the window no longer reached back to %d)",
			what, u16s(tainted, 20), uint16(x), uint16(p), uint16(x), uint16(p), (x-p)/m.size, m.size, uint16(p))})
	}
	if len(stale) > 0 {
		x := stale[0]
		fs = append(fs, finding{sig: sigStaleCount, explained: true, msg: fmt.Sprintf(
			"%s: %s – the same 16-bit values were requested 65536 numbers earlier (e.g. %d was last in the missing set at tick #%d, for %d tick(s)); since then the stream had ticks with a non-empty missing set at which nothing was sent, and no tick with an empty set",
			what, u16s(stale, 20), uint16(x), m.last16[uint16(x)], m.run16[uint16(x)])})
	}
	if len(rest) > 0 {
		fs = append(fs, finding{sig: generic, msg: fmt.Sprintf("%s: %s", what, u16s(rest, 20))})
	}
	return fs
}

func (m *model) hasTaint(x int64) bool {
	if len(m.taint) == 0 {
		return false
	}
	_, ok := m.taint[x]
	return ok
}

func (m *model) hashExpected(E []int64) uint64 {
	if m.dirty {
		h := vf.NewHash()
		for _, x := range E {
			h.U64(uint64(uint16(x)))
		}
		m.eHash = h.Int(len(E)).Sum()
		m.dirty = false
	}
	return m.eHash
}

// ---------------------------------------------------------------------------------
// boundary gates

var errInjected = errors.New("c03: injected read error")

type innerReader struct {
	cur      []byte
	err      error
	withAttr bool
}

func (in *innerReader) Read(b []byte, a interceptor.Attributes) (int, interceptor.Attributes, error) {
	if in.err != nil {
		err := in.err
		in.err = nil
		return 0, nil, err
	}
	n := copy(b, in.cur)
	if in.withAttr {
		// what an upstream interceptor of a real chain does: parse once, cache in attributes
		if a == nil {
			a = interceptor.Attributes{}
		}
		_, _ = a.GetRTPHeader(b[:n])
	}
	return n, a, nil
}

type nackRec struct {
	tick   int64
	offInt bool // written at an instant that is not T0+k*interval
	at     time.Duration
	ssrc   uint32
	seqs   []uint16
}

type recWriter struct {
	mu       sync.Mutex
	t0       time.Time
	interval time.Duration
	recs     []nackRec
	other    int64
	// failMod > 0: the write of every NACK whose media SSRC % failMod == 0 is recorded and then
	// FAILS (a transient error of the next writer); requests for other streams are independent
	failMod uint32
	failed  int64
}

var errRTCPWriter = errors.New("verif: next RTCP writer fails")

func (w *recWriter) Write(pkts []rtcp.Packet, _ interceptor.Attributes) (int, error) {
	at := time.Since(w.t0)
	w.mu.Lock()
	defer w.mu.Unlock()
	for _, p := range pkts {
		n, ok := p.(*rtcp.TransportLayerNack)
		if !ok {
			w.other++
			continue
		}
		r := nackRec{tick: int64(at / w.interval), offInt: at%w.interval != 0, at: at, ssrc: n.MediaSSRC}
		for i := range n.Nacks {
			n.Nacks[i].Range(func(s uint16) bool {
				r.seqs = append(r.seqs, s)
				return true
			})
		}
		w.recs = append(w.recs, r)
		if w.failMod > 0 && n.MediaSSRC%w.failMod == 0 {
			w.failed++
			return 0, errRTCPWriter
		}
	}
	return 0, nil
}

// ---------------------------------------------------------------------------------
// engine: drives one interceptor instance and decides its ticks

type arrivalRec struct {
	seq  uint16
	kind evKind
	tick int64
}

type arrival struct {
	st       *stream
	seq      uint16
	mode     uint8 // 0 ok, 1 inner reader fails, 2 unparseable (short) packet
	tpl      int
	shortLen int
	withAttr bool
	bigBuf   bool
}

type stream struct {
	idx       int
	ssrc      uint32
	nack      bool
	fbDesc    string
	info      *interceptor.StreamInfo
	bound     bool
	bindAt    int
	manual    bool // bound by a bookkeeping operation, not by bindAt
	reader    interceptor.RTPReader
	in        *innerReader
	snd       *sender
	models    []*model
	undecided bool // more exact-2^15 steps than forks are kept for: outcome "may"
	hist      []arrivalRec
	templates [][]byte
	pkt, buf  []byte
	reported  map[string]bool
	tickPkts  [][]uint16
	ev        [nEvKinds]int64
	halfSteps int64
	bigJumps  int64 // newer packets with step >= size
	unexpErr  int64
	// bookkeeping inside the history
	everBound        bool
	unboundAt        int64           // ticks decided when UnbindRemoteStream was called (only if !bound && everBound)
	boundMid         bool            // bound after the history had started
	afterUnbind      bool            // … and after some stream had been unbound in this case
	sameTick         bool            // … with no tick between that unbind and this bind
	servedOnce       bool            // a number of this stream's expected set has been requested since the bind
	prev16           map[uint16]bool // same SSRC, previous binding: what was missing there at unbind time
	prevFirst        uint16
	ticksSince       int64 // stream-ticks decided since the bind
	unservedTicks    int64 // ticks with a non-empty expected set before the binding was first served
	unservedMaxE     int
	notServed        bool
	heldSig, heldMsg string // a not-requested finding of such a tick, until it is decided how to name it
	maxStep          int64  // >0: arrivals that any receiver takes for a forward step larger than this are not fed
	suppressed       int64
	wraps            int64
	fed              int64
}

type engine struct {
	c       *vf.Case
	g       config
	icpt    interceptor.Interceptor
	w       *recWriter
	streams []*stream
	bySSRC  map[uint32]*stream
	tick    int64
	recPos  int
	work    int64
	h       *vf.Hash

	lastUnbindTick                                                                                   int64 // ticks decided at the most recent UnbindRemoteStream, -1: none yet
	unbinds, rebindsSameNoTick, rebindsSameTicks, bindsOtherNoTick, bindsOtherTicks, bindsAdditional int64
	toleratedAfterUnbind, ticksAfterRebind                                                           int64

	ticksChecked, ticksNonEmpty, ticksSilentOK, nackPkts, numsCompared, streamTicks int64
	offTick                                                                         int64
}

func newEngine(c *vf.Case, g config) (*engine, error) {
	f, err := nack.NewGeneratorInterceptor(g.options()...)
	if err != nil {
		return nil, err
	}
	i, err := f.NewInterceptor("c03")
	if err != nil {
		return nil, err
	}
	e := &engine{c: c, g: g, icpt: i, bySSRC: map[uint32]*stream{}, h: vf.NewHash(), lastUnbindTick: -1}
	e.w = &recWriter{t0: time.Now(), interval: g.interval}
	if c.R.Chance(0.2) {
		e.w.failMod = uint32(c.R.Pick(1, 2, 2, 3))
		c.Add("cases_whose_rtcp_writer_fails_for_some_streams", 1)
	}
	i.BindRTCPWriter(e.w)
	synctest.Wait() // the loop goroutine has created its ticker (at T0) and is parked
	return e, nil
}

func (e *engine) addStream(ssrc uint32, fb []interceptor.RTCPFeedback, nackNegotiated bool, desc string, templates [][]byte) *stream {
	st := &stream{idx: len(e.streams), ssrc: ssrc, nack: nackNegotiated, fbDesc: desc, in: &innerReader{},
		info:      &interceptor.StreamInfo{SSRC: ssrc, RTCPFeedback: fb, ClockRate: 90000, MimeType: "video/VP8"},
		templates: templates, buf: make([]byte, 1600), reported: map[string]bool{}}
	if nackNegotiated {
		st.models = []*model{newModel(e.g)}
	}
	e.streams = append(e.streams, st)
	e.bySSRC[ssrc] = st
	return st
}

func (e *engine) bind(st *stream) {
	st.reader = e.icpt.BindRemoteStream(st.info, st.in)
	st.bound, st.everBound = true, true
	var arrivals int64 // only the driver goroutine binds, and never while a batch is being fed
	for _, o := range e.streams {
		arrivals += o.fed
	}
	if e.tick > 0 || arrivals > 0 {
		st.boundMid = true
		if e.lastUnbindTick >= 0 {
			st.afterUnbind = true
			st.sameTick = e.lastUnbindTick == e.tick
		}
		if st.nack {
			switch {
			case st.prev16 != nil && st.sameTick:
				e.rebindsSameNoTick++
			case st.prev16 != nil:
				e.rebindsSameTicks++
			case st.afterUnbind && st.sameTick:
				e.bindsOtherNoTick++
			case st.afterUnbind:
				e.bindsOtherTicks++
			default:
				e.bindsAdditional++
			}
		}
	}
	if e.c.Debug {
		e.c.Logf("  BindRemoteStream stream=%d ssrc=%#x nack=%v (after tick %d)", st.idx, st.ssrc, st.nack, e.tick)
	}
}

// unbind removes the stream. From the second tick after this call on, nothing may be
// requested for its SSRC unless the SSRC is bound again.
func (e *engine) unbind(st *stream) {
	e.icpt.UnbindRemoteStream(st.info)
	st.bound = false
	st.unboundAt = e.tick
	e.lastUnbindTick = e.tick
	e.unbinds++
	if e.c.Debug {
		e.c.Logf("  UnbindRemoteStream stream=%d ssrc=%#x (after tick %d)", st.idx, st.ssrc, e.tick)
	}
}

// rebound creates the stream object for a new binding of the SSRC of old (which must be
// unbound): a fresh stream for the model – its first packet is the first one read after the
// bind, nothing from the earlier binding may be requested.
func (e *engine) rebound(old *stream) *stream {
	st := e.addStream(old.ssrc, old.info.RTCPFeedback, old.nack, old.fbDesc, old.templates)
	st.snd, st.maxStep = old.snd, old.maxStep
	if old.nack && len(old.models) > 0 {
		m := old.models[0]
		st.prev16 = make(map[uint16]bool, len(m.missing))
		for _, x := range m.missing {
			st.prev16[uint16(x)] = true
		}
		st.prevFirst = uint16(m.first)
	}
	return st
}

func plainTemplate(ssrc uint32) []byte {
	b, _ := (&rtp.Packet{Header: rtp.Header{Version: 2, PayloadType: 96, SSRC: ssrc, Timestamp: 1234}, Payload: []byte{1, 2, 3, 4}}).Marshal()
	return b
}

// feed hands one arrival to the stream's bound reader and to the model(s).
func (e *engine) feed(a arrival) {
	st := a.st
	if st.maxStep > 0 && a.mode == 0 && st.nack && st.models[0].started {
		// input selection only: this stream must not grow a missing set of tens of thousands
		if d := a.seq - uint16(st.models[0].highest); d < 0x8000 && int64(d) > st.maxStep {
			st.suppressed++
			return
		}
	}
	st.pkt = append(st.pkt[:0], st.templates[a.tpl]...)
	binary.BigEndian.PutUint16(st.pkt[2:], a.seq)
	switch a.mode {
	case 1:
		st.in.err = errInjected
	case 2:
		st.pkt = st.pkt[:a.shortLen]
	}
	st.in.cur = st.pkt
	st.in.withAttr = a.withAttr
	buf := st.buf
	if !a.bigBuf && a.mode != 2 {
		buf = st.buf[:len(st.pkt)]
	}
	_, _, err := st.reader.Read(buf, nil)
	st.fed++
	kind := evIgnored
	if a.mode == 0 {
		if err != nil {
			st.unexpErr++
		}
		for k, n := 0, len(st.models); k < n; k++ {
			m := st.models[k]
			prevHi := m.highest
			if m.halfStep(a.seq) {
				st.halfSteps++
				if len(st.models) < maxForks {
					f := m.clone()
					f.arrive(a.seq, true)
					st.models = append(st.models, f)
				} else {
					st.undecided = true
				}
			}
			ev, step := m.arrive(a.seq, false)
			if k == 0 {
				kind = ev
				if ev == evNewer {
					if step >= m.size {
						st.bigJumps++
					}
					if prevHi>>16 != m.highest>>16 {
						st.wraps++
					}
				}
			}
		}
	}
	st.ev[kind]++
	if e.c.Debug {
		e.c.Logf("  arrive stream=%d seq=%d %s (mode %d)", st.idx, a.seq, evNames[kind], a.mode)
	}
	st.hist = append(st.hist, arrivalRec{seq: a.seq, kind: kind, tick: e.tick})
	if len(st.hist) > 2*histKeep {
		st.hist = append(st.hist[:0], st.hist[len(st.hist)-histKeep:]...)
	}
}

func (e *engine) sleepTo(off time.Duration) {
	if d := off - time.Since(e.w.t0); d > 0 {
		time.Sleep(d)
	}
}

// advance moves virtual time across the next nt tick instants (to a point strictly
// between tick+nt and tick+nt+1) and decides every one of those ticks.
func (e *engine) advance(nt int64, after time.Duration) {
	if after <= 0 || after >= e.g.interval {
		after = 1
	}
	e.sleepTo(time.Duration(e.tick+nt)*e.g.interval + after)
	synctest.Wait()
	e.w.mu.Lock()
	recs := e.w.recs
	e.w.mu.Unlock()
	for t := e.tick + 1; t <= e.tick+nt; t++ {
		for _, st := range e.streams {
			st.tickPkts = st.tickPkts[:0]
		}
		for e.recPos < len(recs) && (recs[e.recPos].tick <= t) {
			r := recs[e.recPos]
			e.recPos++
			e.nackPkts++
			if r.offInt || r.tick < t {
				e.offTick++
				continue
			}
			st := e.bySSRC[r.ssrc]
			switch {
			case st == nil:
				e.c.Violation(sigUnboundSSRC, "%s\ntick #%d: TransportLayerNack for MediaSSRC %#x which was never bound; numbers %v", e.g, t, r.ssrc, r.seqs[:min(20, len(r.seqs))])
			case !st.bound && st.everBound && st.nack:
				if t <= st.unboundAt+1 {
					e.toleratedAfterUnbind++ // the tick right after the unbind: not demanded either way
				} else if !st.reported[sigUnboundStream] {
					st.reported[sigUnboundStream] = true
					e.c.Violation(sigUnboundStream, "%s\ntick #%d: TransportLayerNack for SSRC %#x, but UnbindRemoteStream was called for it after tick #%d and it has not been bound again; numbers %v\n%s\n%s",
						e.g, t, r.ssrc, st.unboundAt, r.seqs[:min(20, len(r.seqs))], e.bookkeeping(), st.history())
				}
			case !st.bound && st.nack:
				e.c.Violation(sigUnboundSSRC, "%s\ntick #%d: TransportLayerNack for MediaSSRC %#x which has not been bound yet; numbers %v", e.g, t, r.ssrc, r.seqs[:min(20, len(r.seqs))])
			case !st.nack:
				if !st.reported[sigNoFeedback] {
					st.reported[sigNoFeedback] = true
					e.c.Violation(sigNoFeedback, "%s\ntick #%d: TransportLayerNack for SSRC %#x whose StreamInfo.RTCPFeedback is %s (no plain \"nack\"); numbers %v\n%s",
						e.g, t, r.ssrc, st.fbDesc, r.seqs[:min(20, len(r.seqs))], st.history())
				}
			default:
				st.tickPkts = append(st.tickPkts, r.seqs)
			}
		}
		e.ticksChecked++
		for _, st := range e.streams {
			if !st.nack || !st.bound {
				continue
			}
			e.checkStream(st, t)
		}
	}
	e.tick += nt
}

// bookkeeping describes the bind/unbind operations of the case for a witness.
func (e *engine) bookkeeping() string {
	var b strings.Builder
	b.WriteString("stream bookkeeping:")
	for _, st := range e.streams {
		fmt.Fprintf(&b, " [stream %d SSRC %#x nack=%v", st.idx+1, st.ssrc, st.nack)
		switch {
		case st.bound && st.boundMid:
			fmt.Fprintf(&b, " bound mid-history")
			if st.prev16 != nil {
				b.WriteString(" (same SSRC bound again)")
			}
			if st.afterUnbind && st.sameTick {
				b.WriteString(" with no tick since the last unbind")
			}
		case st.bound:
			b.WriteString(" bound from the start")
		case st.everBound:
			fmt.Fprintf(&b, " unbound after tick #%d", st.unboundAt)
		default:
			b.WriteString(" not bound yet")
		}
		b.WriteString("]")
	}
	return b.String()
}

func (e *engine) checkStream(st *stream, t int64) {
	e.streamTicks++
	if st.undecided {
		return
	}
	type res struct {
		fs   []finding
		E, G []int64
	}
	results := make([]res, len(st.models))
	okAny := false
	for k, m := range st.models {
		fs, E, G := m.evalTick(t, st.tickPkts)
		results[k] = res{fs, E, G}
		e.work += int64(len(E) + len(G))
		if m.limit > 0 {
			// the library prunes its per-number counters with a linear search per counter:
			// quadratic in the size of the missing set; keep such cases short
			e.work += 3*int64(len(E)+len(G)) + int64(len(E))*int64(len(E))/32
		}
		consistent := true
		for _, f := range fs {
			if !f.explained {
				consistent = false
			}
		}
		if consistent {
			okAny = true
		}
	}
	if len(st.models) > 1 {
		// keep the readings of the exact-2^15 step that are still consistent with what was observed
		var keep []*model
		var keepRes []res
		for k, m := range st.models {
			consistent := true
			for _, f := range results[k].fs {
				if !f.explained {
					consistent = false
				}
			}
			if consistent || !okAny {
				keep = append(keep, m)
				keepRes = append(keepRes, results[k])
			}
		}
		st.models, results = keep, keepRes
	}
	m, r := st.models[0], results[0]
	if e.c.Debug {
		e.c.Logf("tick %d stream=%d first=%d highest=%d expected %d %s requested %d %s", t, st.idx, uint16(m.first), uint16(m.highest), len(r.E), u16s(r.E, 12), len(r.G), u16s(r.G, 12))
	}
	e.numsCompared += int64(len(r.G))
	if len(r.E) > 0 {
		e.ticksNonEmpty++
	} else if len(r.G) == 0 {
		e.ticksSilentOK++
	}
	e.h.U64(uint64(t)<<8 | uint64(st.idx)).U64(m.hashExpected(r.E))
	st.ticksSince++
	if st.boundMid {
		e.ticksAfterRebind++
	}
	if m.matched > 0 {
		st.servedOnce = true
	} else if st.boundMid && !st.servedOnce {
		// a request for a number this binding is missing but that is still inside skipLastN
		// is excluded by the statement, yet it shows that the binding's own log is scanned
		for _, x := range r.G {
			if _, own := m.findMissing(x); own {
				st.servedOnce = true
				break
			}
		}
	}
	// A stream bound after the history had started that has not had a single number of its
	// expected set requested since the bind: after the second such tick this is reported as a
	// binding that is not served (instead of tick-by-tick as numbers that were not requested).
	unserved := st.boundMid && !st.servedOnce && len(r.E) > 0
	if unserved {
		st.unservedTicks++
		st.unservedMaxE = max(st.unservedMaxE, len(r.E))
	}
	violate := func(sig, msg string) {
		if st.reported[sig] {
			return
		}
		st.reported[sig] = true
		e.c.Violation(sig, "%s", msg)
	}
	for _, f := range r.fs {
		if st.boundMid {
			f = e.bookkeepingClass(st, f)
		}
		if st.reported[f.sig] {
			continue
		}
		msg := fmt.Sprintf("%s\nstream %d of %d, SSRC %#x, tick #%d (virtual T0+%v): %s\nexpected (missing, after first, within window, <= highest-skipLastN): %d numbers %s\nrequested: %d numbers in %d packet(s) %s\nmodel: first=%d highest=%d window=(%d,%d] (16-bit values; %d packets fed to this stream)\n%s",
			e.g, st.idx+1, len(e.streams), st.ssrc, t, time.Duration(t)*e.g.interval, f.msg,
			len(r.E), u16s(r.E, 24), len(r.G), len(st.tickPkts), u16s(r.G, 24),
			uint16(m.first), uint16(m.highest), uint16(m.highest-m.size), uint16(m.highest), st.fed, st.history())
		if unserved && (f.sig == sigOmitted || f.sig == sigFirstTime) {
			// decided below: either the binding as a whole is not served, or these numbers are
			if st.heldSig == "" && !st.notServed {
				st.heldSig, st.heldMsg = f.sig, msg
			}
			continue
		}
		violate(f.sig, msg)
	}
	switch {
	case st.notServed:
	case unserved && st.unservedTicks >= 2 && st.unservedMaxE >= 2:
		// at least two ticks with a non-empty expected set, one of them with two or more
		// numbers, and never a single one of them requested
		sig := sigLateBoundNoSrv
		if st.afterUnbind {
			sig = sigReboundNotSrv
		}
		st.notServed, st.heldSig = true, ""
		violate(sig, fmt.Sprintf("%s\nstream %d of %d, SSRC %#x, tick #%d (virtual T0+%v): no number this stream is missing has been requested at any of the %d tick(s) since it was bound; at %d of them its expected set was not empty (up to %d numbers)\nexpected now: %d numbers %s\nrequested for the SSRC at this tick: %d numbers in %d packet(s) %s\nmodel: first=%d highest=%d (16-bit values; %d packets fed to this stream)\n%s\n%s",
			e.g, st.idx+1, len(e.streams), st.ssrc, t, time.Duration(t)*e.g.interval, st.ticksSince, st.unservedTicks, st.unservedMaxE,
			len(r.E), u16s(r.E, 24), len(r.G), len(st.tickPkts), u16s(r.G, 24), uint16(m.first), uint16(m.highest), st.fed, e.bookkeeping(), st.history()))
	case st.heldSig != "" && (st.servedOnce || st.unservedTicks >= 2):
		violate(st.heldSig, st.heldMsg)
		st.heldSig = ""
	}
}

// bookkeepingClass names a finding about numbers that were requested although excluded on a
// re-bound SSRC: if every one of them was missing on the previous binding of the SSRC when it
// was unbound, the state of that binding has survived. It only renames a finding.
func (e *engine) bookkeepingClass(st *stream, f finding) finding {
	switch f.sig {
	case sigReqNoPacket, sigReqFirst, sigReqWindow, sigReqAhead:
		// numbers that cannot belong to this binding at all
	default:
		return f
	}
	if st.prev16 == nil {
		return f
	}
	var nums []uint16
	if f.nums != nil {
		for _, x := range f.nums {
			nums = append(nums, uint16(x))
		}
	} else {
		for _, p := range st.tickPkts {
			nums = append(nums, p...)
		}
	}
	for _, x := range nums {
		if !st.prev16[x] {
			return f
		}
	}
	if len(nums) == 0 {
		return f
	}
	f.sig = sigStateSurvives
	f.msg += fmt.Sprintf(" – every one of these %d numbers was missing on the previous binding of this SSRC (first packet there %d) when it was unbound; after the re-bind the stream starts afresh\n%s", len(nums), st.prevFirst, e.bookkeeping())
	return f
}

func (st *stream) history() string {
	var b strings.Builder
	h := st.hist
	if len(h) > histKeep {
		h = h[len(h)-histKeep:]
	}
	fmt.Fprintf(&b, "last %d arrivals of the stream, oldest first (seq:class, '|' = tick boundary):", len(h))
	last := int64(-1)
	for _, a := range h {
		if last >= 0 && a.tick != last {
			b.WriteString(" |")
		}
		last = a.tick
		fmt.Fprintf(&b, " %d:%s", a.seq, evNames[a.kind])
	}
	return b.String()
}

// leaked is consulted when the goroutine count after a case is higher than before it.
// Only goroutines of the library inside the bubble matter here (the ticker loop must be
// gone after Close); an unrelated runtime goroutine (finalizers, cleanups) is not a verdict.
func leaked(c *vf.Case, dump string) {
	if strings.Contains(dump, "interceptor/pkg/") {
		c.Inconclusive("library goroutines left in the bubble after Close:\n%s", dump)
		return
	}
	c.Add("cases_after_which_the_child_was_restarted_for_an_unrelated_runtime_goroutine", 1)
}

// finish closes the interceptor and publishes evidence.
func (e *engine) finish(kind string) {
	_ = e.icpt.Close()
	c := e.c
	var fills, late, fed int64
	for _, st := range e.streams {
		fed += st.fed
		if !st.nack {
			c.Add("arrivals_on_stream_without_nack_feedback", st.fed)
			continue
		}
		if st.heldSig != "" && !st.reported[st.heldSig] {
			st.reported[st.heldSig] = true
			c.Violation(st.heldSig, "%s", st.heldMsg)
		}
		fills += st.ev[evFill]
		late += st.ev[evOlderThanWindow] + st.ev[evOneWindowBehind]
		c.Add("arrivals_first", st.ev[evFirst])
		c.Add("arrivals_newer", st.ev[evNewer])
		c.Add("arrivals_newer_step_ge_size", st.bigJumps)
		c.Add("arrivals_crossing_2^16", st.wraps)
		c.Add("arrivals_late_filling_a_gap", st.ev[evFill])
		c.Add("arrivals_duplicate", st.ev[evDupInWindow]+st.ev[evDupHighest])
		c.Add("arrivals_not_after_first", st.ev[evBeforeFirst])
		c.Add("arrivals_exactly_one_window_behind", st.ev[evOneWindowBehind])
		c.Add("arrivals_older_than_window", st.ev[evOlderThanWindow])
		c.Add("arrivals_read_failed_or_unparseable", st.ev[evIgnored])
		c.Add("arrivals_step_exactly_2^15_may", st.halfSteps)
		c.Add("arrivals_not_fed_to_keep_limited_mode_missing_set_small", st.suppressed)
		if len(st.models) > 0 {
			c.Add("limited_mode_numbers_recurring_at_adjacent_ticks_may", st.models[0].ambiguous)
		}
		if st.undecided {
			c.Add("streams_left_undecided_after_repeated_2^15_steps", 1)
		}
		if st.unexpErr > 0 {
			c.Inconclusive("stream %d: %d well-formed packets were answered with an error by the bound reader", st.idx, st.unexpErr)
		}
	}
	if e.offTick > 0 {
		c.Inconclusive("%d NACK packets were written at an instant that is not T0+k*interval; they cannot be attributed to a tick", e.offTick)
	}
	c.Add("arrivals_fed", fed)
	c.Add("bookkeeping_unbinds", e.unbinds)
	c.Add("bookkeeping_same_ssrc_rebound_no_tick_between", e.rebindsSameNoTick)
	c.Add("bookkeeping_same_ssrc_rebound_ticks_between", e.rebindsSameTicks)
	c.Add("bookkeeping_other_ssrc_bound_after_unbind_no_tick_between", e.bindsOtherNoTick)
	c.Add("bookkeeping_other_ssrc_bound_after_unbind_ticks_between", e.bindsOtherTicks)
	c.Add("bookkeeping_additional_stream_bound_mid_history", e.bindsAdditional)
	c.Add("bookkeeping_nacks_tolerated_at_first_tick_after_unbind", e.toleratedAfterUnbind)
	c.Add("stream_ticks_checked_on_streams_bound_mid_history", e.ticksAfterRebind)
	c.Add("ticks_checked", e.ticksChecked)
	c.Add("stream_ticks_checked", e.streamTicks)
	c.Add("stream_ticks_with_nonempty_expected_set", e.ticksNonEmpty)
	c.Add("stream_ticks_silent_and_expected_empty", e.ticksSilentOK)
	c.Add("nack_packets_decoded", e.nackPkts)
	c.Add("requested_numbers_compared", e.numsCompared)
	c.Add("streams", int64(len(e.streams)))
	c.Add("cases_"+kind, 1)
	if e.g.limit > 0 {
		c.Add("cases_limited_mode", 1)
	}
	c.Max("max_ticks_in_one_case", e.ticksChecked)
	c.Max("max_arrivals_in_one_case", fed)
	if e.ticksNonEmpty > 0 && fills > 0 {
		c.Nontrivial(e.h.Sum())
	}
	if c.WantSample() {
		c.Sample(map[string]any{"kind": kind, "config": e.g.String(), "streams": len(e.streams), "arrivals": fed,
			"ticks": e.ticksChecked, "stream_ticks_nonempty": e.ticksNonEmpty, "late_fills": fills,
			"older_than_or_one_window_behind": late, "nack_packets": e.nackPkts, "numbers_compared": e.numsCompared})
	}
}

// ---------------------------------------------------------------------------------
// scripted cases: fixed minimal histories

type step struct {
	stream int // arrival on this stream (index) …
	seq    int // … of this 16-bit number; -1: no arrival
	ticks  int // then cross this many tick instants
	op     int // opUnbind / opBind applied to `stream` (before anything else of the step)
}

const (
	opUnbind = 1 // UnbindRemoteStream(stream)
	opBind   = 2 // BindRemoteStream: the same SSRC again if the stream was unbound, else a new SSRC
)

func unbindStep(stream int) []step { return []step{{stream, -1, 0, opUnbind}} }
func bindStep(stream int) []step   { return []step{{stream, -1, 0, opBind}} }
func on(stream int, seqs ...int) []step {
	out := make([]step, len(seqs))
	for i, s := range seqs {
		out[i] = step{stream, s, 0, 0}
	}
	return out
}

type script struct {
	name    string
	g       config
	streams int
	steps   []step
}

func arr(seqs ...int) []step {
	out := make([]step, len(seqs))
	for i, s := range seqs {
		out[i] = step{0, s, 0, 0}
	}
	return out
}

func seqRange(from, to int) []int {
	var out []int
	for i := from; i <= to; i++ {
		out = append(out, i&0xffff)
	}
	return out
}

func join(parts ...[]step) []step {
	var out []step
	for _, p := range parts {
		out = append(out, p...)
	}
	return out
}

func tick(n int) []step { return []step{{0, -1, n, 0}} }

var ms100 = 100 * time.Millisecond

var scripts = []script{
	{ // the repository's own example
		name: "repo-example", g: config{size: 64, skip: 2, limit: 10, interval: 10 * time.Millisecond}, streams: 1,
		steps: join(arr(10, 11, 12, 14, 16, 18), tick(3)),
	},
	{ // a packet older than the window must not change what is requested
		name: "late-older-than-window", g: config{size: 64, interval: ms100}, streams: 1,
		steps: join(arr(100, 166), tick(1), arr(100), tick(2)),
	},
	{ // exactly one window behind: aliases the highest number itself
		name: "late-exactly-one-window-behind", g: config{size: 64, interval: ms100}, streams: 1,
		steps: join(arr(100, 101, 166), tick(1), arr(102), tick(1), arr(38), tick(1)),
	},
	{ // largest window, cursor exactly one window behind the highest number
		name: "size32768-full-window", g: config{size: 32768, interval: ms100}, streams: 1,
		steps: join(arr(1000, 1010, 33768), tick(2), arr(33769), tick(1)),
	},
	{ // largest window one short of full: 32766 numbers expected
		name: "size32768-window-minus-one", g: config{size: 32768, interval: ms100}, streams: 1,
		steps: join(arr(1000, 1010, 33767), tick(2)),
	},
	{ // a number stays missing for more than 2^16 ticks with a per-packet limit
		name: "limit-long-missing", g: config{size: 64, limit: 1, interval: time.Millisecond}, streams: 1,
		steps: join(arr(10, 12), tick(65540)),
	},
	{ // a counter of a number that is no longer missing must not survive into the next cycle
		name: "limit-stale-counter", g: config{size: 64, limit: 1, interval: ms100}, streams: 1,
		steps: join(arr(10, 13), tick(1), arr(11), tick(1), arr(32780, 10, 12), tick(1)),
	},
	{ // wrap-around with loss on both sides of 65535/0 and late repair
		name: "wrap-loss-repair", g: config{size: 128, skip: 1, interval: ms100}, streams: 1,
		steps: join(arr(seqRange(65500, 65530)...), arr(seqRange(65533, 65540)...), arr(3, 6, 7, 10), tick(1),
			arr(65532, 5, 1), tick(1), arr(seqRange(11, 40)...), tick(1), arr(65531), tick(1)),
	},
	{ // two streams, same numbers, different losses: independence; limit counted per stream
		name: "two-streams-independent", g: config{size: 64, limit: 2, interval: ms100}, streams: 2,
		steps: join(on(0, 10), on(1, 10), on(0, 12), on(1, 11, 13), tick(1), on(1, 12), on(0, 14), tick(1),
			on(0, 11), on(1, 16), tick(3), on(0, 13), tick(1)),
	},
	// ---- stream bookkeeping inside a history -------------------------------------
	{ // (a) the same SSRC unbound and bound again between two ticks: a fresh stream
		name: "rebind-same-ssrc-no-tick-between", g: config{size: 64, interval: ms100}, streams: 2,
		steps: join(on(0, 100, 102, 105), on(1, 7, 9), tick(2), unbindStep(0), bindStep(0), on(0, 500, 503), on(1, 11), tick(3),
			on(0, 502, 98, 104), tick(2)),
	},
	{ // (a) one stream unbound, another SSRC bound, no tick in between
		name: "unbind-then-bind-other-ssrc-no-tick-between", g: config{size: 64, limit: 2, interval: ms100}, streams: 2,
		steps: join(on(0, 100, 102), on(1, 7, 9), tick(1), unbindStep(0), bindStep(2), on(2, 500, 503), tick(4), on(2, 501), on(1, 12), tick(2)),
	},
	{ // (b) the same SSRC bound again with ticks in between; numbers continue
		name: "rebind-same-ssrc-ticks-between", g: config{size: 128, skip: 1, interval: ms100}, streams: 1,
		steps: join(on(0, 65530, 65533, 2), tick(1), unbindStep(0), tick(3), bindStep(0), on(0, 4, 7, 65534, 0, 9), tick(3)),
	},
	{ // (b) another SSRC bound a few ticks after an unbind, (c) unbind only: silence for the SSRC that is gone
		name: "unbind-only-then-bind-other-later", g: config{size: 64, interval: ms100}, streams: 2,
		steps: join(on(0, 100, 104), on(1, 7, 9), tick(1), unbindStep(1), tick(4), bindStep(2), on(2, 300, 302), on(0, 106), tick(3)),
	},
	{ // (d) an additional stream bound in the middle of the history (with and without a tick before its first loss)
		name: "bind-additional-mid-history", g: config{size: 64, limit: 1, interval: ms100}, streams: 1,
		steps: join(on(0, 100, 104), tick(2), bindStep(1), on(1, 100, 102), on(0, 106), tick(2), bindStep(2), tick(1), on(2, 9, 5, 12), tick(2)),
	},
	{ // skipLastN == size: nothing may ever be requested
		name: "skip-equals-size", g: config{size: 64, skip: 64, interval: ms100}, streams: 1,
		steps: join(arr(10, 20, 90, 200), tick(2)),
	},
	{ // forward steps of 2^15-1 (newer) and 2^15+1 (a late packet for any receiver)
		name: "steps-around-2^15", g: config{size: 1024, interval: ms100}, streams: 1,
		steps: join(arr(5, 32772), tick(1), arr(31749, (32772+32769)&0xffff), tick(1), arr(32770), tick(1)),
	},
}

func runScript(c *vf.Case, s script) {
	c.Bubble(func() {
		e, err := newEngine(c, s.g)
		if err != nil {
			c.Inconclusive("script %s: constructing the interceptor failed: %v", s.name, err)
			return
		}
		for i := 0; i < s.streams; i++ {
			ssrc := uint32(0x1000 + i)
			st := e.addStream(ssrc, []interceptor.RTCPFeedback{{Type: "nack"}}, true, "[nack]", [][]byte{plainTemplate(ssrc)})
			e.bind(st)
		}
		cur := append([]*stream(nil), e.streams...) // script stream index -> current binding
		off := time.Duration(1)
		for _, p := range s.steps {
			switch p.op {
			case opUnbind:
				e.unbind(cur[p.stream])
			case opBind:
				if p.stream < len(cur) {
					cur[p.stream] = e.rebound(cur[p.stream])
				} else {
					ssrc := uint32(0x1000 + p.stream)
					cur = append(cur, e.addStream(ssrc, []interceptor.RTCPFeedback{{Type: "nack"}}, true, "[nack]", [][]byte{plainTemplate(ssrc)}))
				}
				e.bind(cur[p.stream])
			}
			if p.seq >= 0 {
				off += 1000 // arrivals strictly inside the interval, 1 µs apart
				e.sleepTo(time.Duration(e.tick)*s.g.interval + off%(s.g.interval-1) + 1)
				e.feed(arrival{st: cur[p.stream], seq: uint16(p.seq), bigBuf: true})
			}
			if p.ticks > 0 {
				e.advance(int64(p.ticks), 1)
				off = 1
			}
		}
		e.finish("scripted")
	}, func(dump string) { leaked(c, dump) })
}

// ---------------------------------------------------------------------------------
// generated histories: a sender on true 64-bit indices + a network that loses, holds
// back, duplicates and re-delivers packets at chosen distances behind the newest one.

type profile struct {
	loss, burstP         float64
	burstMax             int
	late, edge, old, dup float64
	jump, beyond         float64
	keepHeld             float64 // a re-delivered packet stays available for another delivery
}

type sender struct {
	r         *vf.Rand
	size      int64
	base, cur int64
	hi        int64 // highest true index delivered
	n         int
	held      []int64
	p         profile
	burst     int
	maxBack   int64 // deliberately late packets are at most this far behind the newest one
	mayHalf   bool  // the stream belongs to the "may" family: one step of exactly 2^15
	halfUsed  bool
	beyondCnt int
}

func drawProfile(r *vf.Rand, fam int) profile {
	var p profile
	switch fam {
	case 0: // light loss, most of it repaired soon
		p = profile{loss: r.Float() * 0.05, late: 0.03, dup: 0.005}
	case 1: // retransmission-like: loss with late repair inside the window
		p = profile{loss: 0.02 + r.Float()*0.25, late: 0.05 + r.Float()*0.3, dup: 0.01, keepHeld: 0.05}
	case 2: // bursts
		p = profile{loss: r.Float() * 0.03, burstP: 0.005 + r.Float()*0.03, burstMax: r.Pick(3, 20, 70, 300, 3000), late: r.Float() * 0.1, dup: 0.01}
	case 3: // reordering and duplication
		p = profile{loss: 0.05 + r.Float()*0.2, late: 0.2 + r.Float()*0.3, dup: 0.05 + r.Float()*0.15, keepHeld: 0.2}
	case 4: // window edges and very old packets
		p = profile{loss: 0.05 + r.Float()*0.2, burstP: 0.01, burstMax: r.Pick(5, 50, 500), late: 0.05, edge: 0.02 + r.Float()*0.1, old: 0.01 + r.Float()*0.05, dup: 0.01, keepHeld: 0.1}
	default: // jumps
		p = profile{loss: r.Float() * 0.15, late: r.Float() * 0.1, jump: 0.003 + r.Float()*0.03, edge: r.Float() * 0.02, old: r.Float() * 0.01, dup: 0.01}
	}
	if r.Chance(0.3) && p.jump == 0 {
		p.jump = 0.002
	}
	if r.Chance(0.25) && p.edge == 0 {
		p.edge, p.old = 0.005, 0.002
	}
	return p
}

func (s *sender) jumpSize() int64 {
	r := s.r
	if s.p.beyond > 0 && s.beyondCnt < 2 && r.Chance(s.p.beyond) {
		s.beyondCnt++
		return int64(r.Pick(32769, 32770, 40000, 65535, 65536, 65537, 70000, 98304, r.Range(32769, 200000)))
	}
	if s.mayHalf && !s.halfUsed && s.n > 20 && r.Chance(0.3) {
		s.halfUsed = true
		return 32768
	}
	sz := int(s.size)
	switch r.Intn(8) {
	case 0:
		return int64(r.Range(1, 10))
	case 1:
		return int64(r.Range(1, max(1, sz/2)))
	case 2:
		return int64(r.Pick(sz-2, sz-1, sz, sz+1, sz+2))
	case 3:
		return int64(min(32767, r.Pick(2*sz-1, 2*sz, 2*sz+1, 3*sz, 5*sz+7)))
	case 4:
		return int64(r.Pick(32767, 32766, 32765, 32000))
	case 5:
		return int64(r.Range(1, 32767))
	default:
		return int64(r.Range(1, min(32767, 2*sz)))
	}
}

// notHalf keeps a deliberately late packet from landing exactly 2^15 (mod 2^16) behind the
// newest one: that step is generated only by the "may" family.
func (s *sender) notHalf(idx int64) int64 {
	if s.maxBack > 0 && s.hi-idx > s.maxBack {
		idx = s.hi - s.maxBack + int64(s.r.Intn(64))
	}
	if (s.hi-idx)&0xffff == 0x8000 {
		return idx - 1
	}
	return idx
}

// next returns the true index of the next packet that arrives.
func (s *sender) next() int64 {
	r := s.r
	if s.n == 0 {
		s.n++
		s.hi = s.cur
		s.cur++
		return s.hi
	}
	for {
		x := r.Float()
		p := &s.p
		switch {
		case x < p.late:
			if len(s.held) == 0 {
				break
			}
			var k int
			switch r.Intn(10) {
			case 0:
				k = 0 // the oldest
			case 1, 2, 3:
				k = r.Intn(len(s.held))
			default:
				k = len(s.held) - 1 - r.Intn(min(len(s.held), 4))
			}
			idx := s.held[k]
			if !r.Chance(p.keepHeld) {
				s.held = append(s.held[:k], s.held[k+1:]...)
			}
			s.n++
			return idx
		case x < p.late+p.edge:
			sz := s.size
			var off int64
			switch r.Intn(7) {
			case 0:
				off = sz
				if sz == 32768 {
					off = sz - 1 // exactly 2^15 behind is the "may" family's business
				}
			case 1:
				off = sz - 1
			case 2:
				off = sz + 1
			case 3:
				off = sz + 1 + int64(r.Intn(int(sz)))
			case 4:
				off = int64(r.Range(2, 6))*sz + int64(r.Pick(-1, 0, 1, r.Intn(int(sz))))
			case 5:
				off = sz - 1 - int64(r.Intn(min(int(sz)-1, 8)))
			default:
				off = int64(r.Range(1, int(sz)))
			}
			s.n++
			return s.notHalf(s.hi - off)
		case x < p.late+p.edge+p.old:
			s.n++
			if r.Chance(0.3) {
				return s.notHalf(s.base - int64(r.Range(1, 3000))) // before the first packet ever sent
			}
			return s.notHalf(s.hi - int64(r.Range(1, 200000)))
		case x < p.late+p.edge+p.old+p.dup:
			s.n++
			return s.hi - int64(r.Intn(int(min(int64(s.n), s.size))))
		case x < p.late+p.edge+p.old+p.dup+p.jump:
			s.cur += s.jumpSize()
		}
		// the sender emits cur; the network may lose it
		idx := s.cur
		s.cur++
		lost := false
		switch {
		case s.burst > 0:
			s.burst--
			lost = true
		case p.burstP > 0 && r.Chance(p.burstP):
			s.burst = r.Range(1, max(1, p.burstMax)) - 1
			lost = true
		case r.Chance(p.loss):
			lost = true
		}
		if lost {
			s.held = append(s.held, idx)
			if len(s.held) > 4096 {
				s.held = append(s.held[:0], s.held[len(s.held)-2048:]...)
			}
			continue
		}
		if idx > s.hi {
			s.hi = idx
		}
		s.n++
		return idx
	}
}

func drawTemplates(r *vf.Rand, ssrc uint32) [][]byte {
	n := r.Range(1, 3)
	out := make([][]byte, 0, n)
	for i := 0; i < n; i++ {
		if i == 0 && r.Bool() {
			out = append(out, plainTemplate(ssrc))
			continue
		}
		sh := gen.RandomShape(r)
		h := gen.Header(r, sh, ssrc, uint8(r.Range(96, 127)), 0, r.U32())
		pl := gen.Payload(r, r.Range(1, 200), uint64(ssrc)<<32|uint64(i))
		b, err := (&rtp.Packet{Header: h, Payload: pl}).Marshal()
		if err != nil || len(b) < 12 {
			b = plainTemplate(ssrc)
		}
		out = append(out, b)
	}
	return out
}

type pendingBind struct {
	due     int     // batch number before which the bind happens (at least one tick after the unbind)
	old     *stream // the same SSRC is bound again …
	fresh   *stream // … or this new stream is bound
	restart bool
}

// restartSender is the sender of a re-bound SSRC whose numbering starts somewhere else.
func restartSender(r *vf.Rand, old *sender) *sender {
	start := gen.StartIndex(r) + 1<<20
	return &sender{r: r.Fork(), size: old.size, base: start, cur: start, p: old.p, maxBack: old.maxBack}
}

func runGenerated(c *vf.Case) {
	r := c.R
	g := drawConfig(r)
	thorough := c.Tier == "thorough"

	// family knobs
	longIdle := false // > 2^16 consecutive ticks without arrivals (limited mode only)
	if g.limit > 0 && r.Chance(0.012) {
		longIdle = true
		g.size = r.Pick(64, 128)
		if g.skip > g.size {
			g.skip = g.size / 2
		}
		g.skip = min(g.skip, 3)
		g.defSize = false
	}
	nArr := r.Range(200, 5000)
	budget := int64(1500000)
	if thorough {
		switch {
		case r.Chance(0.01):
			nArr = r.Range(50000, 200000)
			budget = 40000000
		case r.Chance(0.1):
			nArr = r.Range(5000, 30000)
			budget = 8000000
		}
	}
	if longIdle {
		nArr = r.Range(50, 400)
	}
	nNack := r.Pick(1, 1, 2, 2, 3, 4)
	if longIdle {
		nNack = r.Pick(1, 2) // every idle tick costs a scan of the window per stream
	}
	withPlain := r.Chance(0.6)
	parallel := r.Chance(0.25)
	tickMode := r.Intn(4) // 0 dense, 1 medium, 2 sparse, 3 mixed
	pIdle := r.Pick(0, 1, 5, 15)
	pBadRead := float64(r.Pick(0, 0, 1, 3)) / 100
	// stream bookkeeping family: UnbindRemoteStream / BindRemoteStream inside the history
	churn := !longIdle && r.Chance(0.3)
	pChurn := float64(r.Pick(3, 10, 30, 60)) / 100
	if tickMode == 0 {
		pChurn /= 10 // hundreds of batches
	}

	c.Bubble(func() {
		e, err := newEngine(c, g)
		if err != nil {
			c.Inconclusive("constructing the interceptor failed for %s: %v", g, err)
			return
		}
		// streams: overlapping number ranges on purpose (cross-talk would show)
		commonStart := gen.StartIndex(r)
		baseSSRC := r.U32() | 1
		mkNack := func(i int) *stream {
			ssrc := baseSSRC + uint32(i)*uint32(r.Pick(1, 2, 0x10000, 0x01000000))
			for k := uint32(77); ; k++ {
				if _, dup := e.bySSRC[ssrc]; !dup {
					break
				}
				ssrc = baseSSRC + uint32(i) + k
			}
			fb := []interceptor.RTCPFeedback{{Type: "nack"}}
			desc := "[nack]"
			switch r.Intn(4) {
			case 0:
				fb = []interceptor.RTCPFeedback{{Type: "goog-remb"}, {Type: "nack", Parameter: "pli"}, {Type: "nack"}, {Type: "transport-cc"}}
				desc = "[goog-remb, nack pli, nack, transport-cc]"
			case 1:
				fb = []interceptor.RTCPFeedback{{Type: "nack"}, {Type: "nack", Parameter: "pli"}}
				desc = "[nack, nack pli]"
			}
			st := e.addStream(ssrc, fb, true, desc, drawTemplates(r, ssrc))
			start := commonStart
			if r.Chance(0.4) {
				start = gen.StartIndex(r)
			}
			start += 1 << 20
			fam := r.Intn(6)
			st.snd = &sender{r: r.Fork(), size: int64(g.size), base: start, cur: start, p: drawProfile(r, fam)}
			if longIdle {
				st.snd.p = profile{loss: 0.03, late: 0.02}
			} else {
				if r.Chance(0.04) {
					st.snd.mayHalf = true
					st.snd.p.jump = max(st.snd.p.jump, 0.02)
				}
				if r.Chance(0.06) {
					st.snd.p.beyond = 0.2
					st.snd.p.jump = max(st.snd.p.jump, 0.01)
				}
			}
			if g.limit > 0 && g.size > 4096 && !(thorough && r.Chance(0.01)) {
				// The library prunes its per-number counters with a linear search per counter
				// (quadratic in the missing set, seconds per tick for 30000 numbers): keep the
				// missing set of limited-mode cases with large windows in the low thousands.
				// (a packet more than 2^15 behind is a forward jump for every receiver)
				st.snd.p.jump, st.snd.p.beyond, st.snd.mayHalf, st.snd.maxBack = 0, 0, false, 32767
				st.maxStep = 3000
				st.snd.p.burstMax = min(st.snd.p.burstMax, 300)
			}
			return st
		}
		for i := 0; i < nNack; i++ {
			st := mkNack(i)
			if i > 0 && r.Chance(0.3) {
				st.bindAt = r.Range(1, 6)
			}
		}
		nextNack := nNack
		if withPlain {
			ssrc := baseSSRC ^ 0x5a5a0000
			if _, dup := e.bySSRC[ssrc]; dup {
				ssrc += 9
			}
			var fb []interceptor.RTCPFeedback
			desc := "[]"
			switch r.Intn(3) {
			case 0:
				fb, desc = []interceptor.RTCPFeedback{{Type: "nack", Parameter: "pli"}}, "[nack pli]"
			case 1:
				fb, desc = []interceptor.RTCPFeedback{{Type: "transport-cc"}, {Type: "goog-remb"}, {Type: "ccm", Parameter: "fir"}}, "[transport-cc, goog-remb, ccm fir]"
			}
			st := e.addStream(ssrc, fb, false, desc, drawTemplates(r, ssrc))
			start := commonStart + 1<<20
			st.snd = &sender{r: r.Fork(), size: int64(g.size), base: start, cur: start, p: drawProfile(r, r.Pick(1, 2, 5))}
		}
		for _, st := range e.streams {
			if st.bindAt == 0 {
				e.bind(st)
			}
		}

		fed := 0
		batchNo := 0
		didLong := false
		var pending []pendingBind
		churnOps := 0
		emptyBatches := 0
		var batch []arrival
		for fed < nArr && e.work < budget {
			batchNo++
			for _, st := range e.streams {
				if !st.everBound && !st.manual && st.bindAt <= batchNo {
					e.bind(st)
				}
			}
			// stream bookkeeping inside the history: everything here happens strictly between
			// two ticks; "mid"/"end" binds are still before the next tick
			var midOps, endOps []func()
			if churn {
				keep := pending[:0]
				for _, pb := range pending {
					if pb.due > batchNo {
						keep = append(keep, pb)
						continue
					}
					nv := pb.fresh
					if pb.old != nil {
						nv = e.rebound(pb.old)
						if pb.restart {
							nv.snd = restartSender(r, nv.snd)
						}
					}
					e.bind(nv)
				}
				pending = keep
				if churnOps < 14 && len(e.streams) < 14 && r.Chance(pChurn) {
					churnOps++
					var cand []*stream
					for _, st := range e.streams {
						if st.bound && (st.nack || r.Chance(0.2)) {
							cand = append(cand, st)
						}
					}
					kind := r.Pick(0, 0, 0, 1, 1, 1, 2, 2, 3, 3, 4, 5, 5)
					if len(cand) == 0 {
						kind = 5
					}
					place := func(nv *stream) { // when, before the next tick, the bind happens
						nv.manual = true
						switch r.Intn(3) {
						case 0:
							e.bind(nv)
						case 1:
							midOps = append(midOps, func() { e.bind(nv) })
						default:
							endOps = append(endOps, func() { e.bind(nv) })
						}
					}
					var v *stream
					if len(cand) > 0 {
						v = cand[r.Intn(len(cand))]
					}
					switch kind {
					case 0: // (a) same SSRC again, no tick in between
						e.unbind(v)
						nv := e.rebound(v)
						if r.Chance(0.3) {
							nv.snd = restartSender(r, nv.snd)
						}
						place(nv)
					case 1: // (a) another SSRC, no tick in between
						e.unbind(v)
						nv := mkNack(nextNack)
						nextNack++
						place(nv)
					case 2: // (b) same SSRC again after at least one tick
						e.unbind(v)
						pending = append(pending, pendingBind{due: batchNo + r.Range(1, 3), old: v, restart: r.Chance(0.3)})
					case 3: // (b) another SSRC after at least one tick
						e.unbind(v)
						nv := mkNack(nextNack)
						nextNack++
						nv.manual = true
						pending = append(pending, pendingBind{due: batchNo + r.Range(1, 3), fresh: nv})
					case 4: // (c) unbind only
						e.unbind(v)
					default: // (d) one more stream
						nv := mkNack(nextNack)
						nextNack++
						place(nv)
					}
				}
			}
			var bs int
			mode := tickMode
			if mode == 3 {
				mode = r.Intn(3)
			}
			switch mode {
			case 0:
				bs = r.Pick(1, 1, 2, 3, 5)
			case 1:
				bs = r.Range(5, 100)
			default:
				bs = r.Range(100, 5000)
			}
			if r.Chance(0.03) {
				bs = 0 // a tick with no arrival before it
			}
			bs = min(bs, nArr-fed)
			batch = batch[:0]
			var bound []*stream
			for _, st := range e.streams {
				if st.bound {
					bound = append(bound, st)
				}
			}
			if len(bound) == 0 {
				// every stream is unbound: ticks must stay silent; after a few of them either a
				// pending bind arrives, one more stream is bound, or the history ends
				bs = 0
				emptyBatches++
				if emptyBatches > 3 && len(pending) == 0 {
					if len(e.streams) >= 16 {
						break
					}
					nv := mkNack(nextNack)
					nextNack++
					nv.manual = true
					endOps = append(endOps, func() { e.bind(nv) })
					emptyBatches = 0
				}
			} else {
				emptyBatches = 0
			}
			for i := 0; i < bs; i++ {
				st := bound[r.Intn(len(bound))]
				a := arrival{st: st, seq: uint16(st.snd.next()), tpl: r.Intn(len(st.templates)), withAttr: r.Chance(0.3), bigBuf: r.Chance(0.7)}
				if pBadRead > 0 && r.Chance(pBadRead) {
					a.mode = uint8(r.Pick(1, 2))
					a.shortLen = r.Intn(12)
				}
				batch = append(batch, a)
			}
			fed += len(batch)
			// arrival instants: strictly inside (tick, tick+1)
			lo := time.Since(e.w.t0)
			hi := time.Duration(e.tick+1) * g.interval
			cut := len(batch)
			if len(batch) > 1 && r.Chance(0.3) {
				cut = r.Range(1, len(batch)-1)
			}
			feedPart := func(part []arrival) {
				if len(part) == 0 {
					return
				}
				if span := hi - lo - 2; span > 0 {
					lo += 1 + time.Duration(r.U64()%uint64(span))
					e.sleepTo(lo)
				}
				if parallel && len(part) > 3 {
					var wg sync.WaitGroup
					for _, st := range bound {
						var mine []arrival
						for _, a := range part {
							if a.st == st {
								mine = append(mine, a)
							}
						}
						if len(mine) == 0 {
							continue
						}
						wg.Add(1)
						go func() {
							defer wg.Done()
							for _, a := range mine {
								e.feed(a)
							}
						}()
					}
					wg.Wait()
					return
				}
				for _, a := range part {
					e.feed(a)
				}
			}
			feedPart(batch[:cut])
			for _, f := range midOps {
				f()
			}
			feedPart(batch[cut:])
			for _, f := range endOps {
				f()
			}

			nt := int64(1)
			if r.Intn(100) < pIdle {
				nt = int64(r.Pick(2, 3, 5, 10, 50, 300))
			}
			var totalE int64
			for _, st := range e.streams {
				if st.nack && len(st.models) > 0 {
					totalE += int64(len(st.models[0].expected()))
				}
			}
			if longIdle && !didLong && fed >= nArr/2 && totalE > 0 && totalE <= 12 {
				didLong = true
				nt = 65537 + int64(r.Intn(80))
				c.Add("idle_stretches_longer_than_2^16_ticks", 1)
			} else if nt > 1 {
				if room := (budget - e.work) / (4 * (totalE + 1)); nt > room {
					nt = max(1, room)
				}
			}
			if nt > 1 {
				c.Add("idle_ticks", nt-1)
			}
			e.advance(nt, 1+time.Duration(r.U64()%uint64(g.interval/2)))
		}
		e.advance(int64(r.Range(1, 2)), 1)
		if parallel {
			c.Add("cases_streams_fed_from_concurrent_goroutines", 1)
		}
		e.finish("generated")
	}, func(dump string) { leaked(c, dump) })
}
