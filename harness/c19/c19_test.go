// C19 – stream statistics equal a recount of the observed traffic.
//
// Monitor: one real stats Interceptor (built through its factory) is driven inside a
// synctest bubble. Streams are bound with BindLocalStream / BindRemoteStream, RTCP with
// BindRTCPReader / BindRTCPWriter; all traffic is pushed through the readers/writers the
// interceptor returns, the inner readers/writers belong to the harness. After every
// operation every bound SSRC is queried through the Getter handed to OnNewPeerConnection
// and each reported figure is compared with an independent recount kept by the harness.
//
// The recount is written from the property statement, not from the recorder:
//
//   - RTP, per SSRC and direction: packets, bytes, header bytes of the packets with that
//     SSRC that passed through that stream's reader/writer since activation.
//     WebRTC-stats and the library do not pin down whether "bytes" includes the RTP header
//     and the padding (RFC 3550 octet count excludes both, webrtc-stats puts padding into
//     the header bytes). The oracle is permissive about the definition but demands ONE
//     definition, consistently, over the whole history (see rtpDir).
//     A packet with SSRC B pushed through stream A's reader/writer must never be counted
//     for A; whether B's own statistics count it is not demanded (either, consistently).
//   - packets lost = (highest - first + 1) - received on true 64-bit indices (domain: no
//     packet older than the first; consecutive arrivals closer than 2^15).
//   - NACK / PLI / FIR counts each way for packets addressed to the SSRC. NACK and PLI are
//     addressed by their media-source field. A FIR is addressed by its FCI entries
//     (RFC 5104 4.3.1: "SSRC of media source is not used and SHALL be set to 0. The SSRCs
//     of the media senders to which the FIR command applies are in the FCI entries"), so a
//     FIR with an FCI entry for S MUST be counted for S whatever its media-source field;
//     a FIR that names S only in the (unused) media-source field MAY be counted.
//   - remote-inbound loss / fraction lost / jitter / packets received from the latest
//     reception report block (inside an RR or SR) whose SSRC is S.
//   - round-trip time = arrival - DLSR - NTP time of the SR whose middle 32 bits equal LSR;
//     the measurement MUST be made when LSR names the most recent SR sent by S itself,
//     MAY be made when it names any other SR that went out (finite memory and the exact
//     attribution are the implementation's business), and must NOT change otherwise.
//     Same for DLRR / receiver-reference-time. Tolerance 1/65536 s; values that differ by a
//     multiple of 65536 s are accepted (RFC 3550 computes on the middle 32 bits only).
//   - remote-outbound sender figures (packets/bytes sent, remote timestamp, reports sent)
//     come from the SRs *sent by* S only.
//
// Violations found are labelled by re-running the recount of the responsible compound
// under a handful of "what if the recorder did X" hypotheses; the hypotheses never
// change the verdict, only which signature the witness is filed under.
package c19

import (
	"errors"
	"fmt"
	"math"
	"sort"
	"strings"
	"sync"
	"testing"
	"testing/synctest"
	"time"

	"github.com/pion/interceptor"
	"github.com/pion/interceptor/pkg/stats"
	"github.com/pion/rtcp"
	"github.com/pion/rtp"

	"github.com/pion/interceptor/verif/gen"
	"github.com/pion/interceptor/verif/vf"
)

const nDirected = 8

// checkRemoteOutboundSR switches the sub-oracle for RemoteOutbound.{PacketsSent,BytesSent,
// RemoteTimeStamp,ReportsSent}. The statement's list names the remote-outbound round-trip
// time only; these four are covered by its general clause ("the reported counters equal
// a recount ... for that SSRC only"). Set to false to restrict the check to the list.
const checkRemoteOutboundSR = true

func cases(tier string) int {
	if tier == "thorough" {
		return nDirected + 160000
	}
	return nDirected + 8000
}

func TestCheck(t *testing.T) {
	vf.Main(t, vf.Spec{Prop: "C19", Cases: cases, Run: run})
}

func run(c *vf.Case) {
	c.Bubble(func() { scenario(c) }, func(dump string) {
		// Only a goroutine of the library left behind after Close is worth reporting; the
		// goroutine count vf.Bubble compares is process-wide and occasionally moves for
		// reasons outside the bubble.
		if strings.Contains(dump, "pion/interceptor/pkg/") {
			c.Inconclusive("library goroutines left in bubble after Close:\n%s", dump)
		}
	})
}

// ---------------------------------------------------------------------------------
// time helpers (independent of internal/ntp)

const ntpEpochOffset = 2208988800 // seconds between 1900-01-01 and 1970-01-01

// tNs: nanoseconds since 1900-01-01 of a wall-clock instant.
func tNs(t time.Time) int64 { return (t.Unix()+ntpEpochOffset)*1e9 + int64(t.Nanosecond()) }

// ntpNs: nanoseconds since 1900-01-01 of a 64-bit NTP timestamp (era 0).
func ntpNs(n uint64) int64 {
	sec := int64(n >> 32)
	frac := n & 0xffffffff

	return sec*1e9 + int64((frac*1e9)>>32)
}

func toNTP(t time.Time) uint64 {
	sec := uint64(t.Unix() + ntpEpochOffset)
	frac := (uint64(t.Nanosecond()) << 32) / 1e9

	return sec<<32 | frac
}

func mid32(n uint64) uint32 { return uint32(n >> 16) }

// delay (1/65536 s units) in nanoseconds.
func delayNs(d uint32) int64 { return int64(uint64(d) * 1e9 / 65536) }

const (
	rttTolNs = 15259 + 2 // 1/65536 s (+ rounding of the conversions)
	modNs    = 65536e9   // 2^16 s: what the middle 32 bits of an NTP timestamp cannot tell apart
)

// ---------------------------------------------------------------------------------
// must / may value sets

type rng struct{ lo, hi int64 }

func (r *rng) add(lo, hi int64) { r.lo += lo; r.hi += hi }
func (r rng) has(v int64) bool  { return v >= r.lo && v <= r.hi }
func (r rng) String() string {
	if r.lo == r.hi {
		return fmt.Sprint(r.lo)
	}

	return fmt.Sprintf("%d..%d", r.lo, r.hi)
}

// allow is the set of values a "latest report" figure may currently have.
type allow struct {
	any bool
	v   []float64
}

func exactly(vs ...float64) allow { return allow{v: append([]float64(nil), vs...)} }

func (a allow) clone() allow { return allow{any: a.any, v: append([]float64(nil), a.v...)} }

func (a *allow) union(vs []float64) {
	for _, x := range vs {
		dup := false
		for _, y := range a.v {
			if x == y {
				dup = true

				break
			}
		}
		if !dup {
			a.v = append(a.v, x)
		}
	}
}

func (a allow) ok(got, tol, mod float64) bool {
	if a.any {
		return true
	}
	for _, v := range a.v {
		d := got - v
		if math.Abs(d) <= tol {
			return true
		}
		if mod > 0 && (math.Abs(d-mod) <= tol || math.Abs(d+mod) <= tol) {
			return true
		}
	}

	return false
}

func (a allow) String() string {
	if a.any {
		return "any"
	}
	s := make([]string, 0, len(a.v))
	for i, v := range a.v {
		if i == 6 {
			s = append(s, "…")

			break
		}
		s = append(s, fmt.Sprintf("%.12g", v))
	}

	return "{" + strings.Join(s, ",") + "}"
}

// ---------------------------------------------------------------------------------
// RTP recount

// rtpVar is one way of recounting a direction of a stream.
type rtpVar struct{ pk, total, hdr, pad int64 }

func (v *rtpVar) add(total, hdr, pad int) {
	v.pk++
	v.total += int64(total)
	v.hdr += int64(hdr)
	v.pad += int64(pad)
}

// The statement says "bytes" and "header bytes" without saying where header and padding
// go. Accepted definitions of bytes: 0 everything on the wire; 1 everything but the RTP
// header; 2 payload without header and padding (RFC 3550 octet count); 3 header+payload
// without padding. Accepted definitions of header bytes: 0 RTP header (fixed+CSRC+
// extension); 1 header + padding (webrtc-stats headerBytes*). One definition must explain
// every query of the history.
func (v rtpVar) bytesDef(d int) int64 {
	switch d {
	case 0:
		return v.total
	case 1:
		return v.total - v.hdr
	case 2:
		return v.total - v.hdr - v.pad
	default:
		return v.total - v.pad
	}
}

func (v rtpVar) hdrDef(d int) int64 {
	if d == 0 {
		return v.hdr
	}

	return v.hdr + v.pad
}

// rtpDir: v[0] counts the packets with this SSRC that went through this stream's own
// reader/writer; v[1] additionally counts packets with this SSRC that went through
// another bound stream's reader/writer (not demanded, not forbidden).
type rtpDir struct {
	v      [2]rtpVar
	aliveF [2]bool
	aliveD [2][4]bool
	aliveH [2][2]bool
	dead   bool
}

func newRTPDir() rtpDir {
	var d rtpDir
	for f := 0; f < 2; f++ {
		d.aliveF[f] = true
		for i := range d.aliveD[f] {
			d.aliveD[f][i] = true
		}
		for i := range d.aliveH[f] {
			d.aliveH[f][i] = true
		}
	}

	return d
}

// check returns "" or the name of the first figure that no surviving definition explains.
func (d *rtpDir) check(pk, bytes, hdr int64) string {
	if d.dead {
		return ""
	}
	okAny := false
	for f := 0; f < 2; f++ {
		if !d.aliveF[f] {
			continue
		}
		if d.v[f].pk != pk {
			d.aliveF[f] = false

			continue
		}
		dOK, hOK := false, false
		for i := 0; i < 4; i++ {
			if d.aliveD[f][i] {
				if d.v[f].bytesDef(i) == bytes {
					dOK = true
				} else {
					d.aliveD[f][i] = false
				}
			}
		}
		for i := 0; i < 2; i++ {
			if d.aliveH[f][i] {
				if d.v[f].hdrDef(i) == hdr {
					hOK = true
				} else {
					d.aliveH[f][i] = false
				}
			}
		}
		if !dOK || !hOK {
			d.aliveF[f] = false

			continue
		}
		okAny = true
	}
	if okAny {
		return ""
	}
	d.dead = true
	// name the failing figure by the primary recount
	p := d.v[0]
	if p.pk != pk && d.v[1].pk != pk {
		return "packets"
	}
	for i := 0; i < 4; i++ {
		if p.bytesDef(i) == bytes || d.v[1].bytesDef(i) == bytes {
			return "header-bytes"
		}
	}

	return "bytes"
}

// ---------------------------------------------------------------------------------
// per-SSRC model (everything since activation)

type srRec struct {
	ntp      uint64
	sender   uint32
	mentions bool // a reception report block of that SR names this SSRC
}

type rrtrRec struct {
	ntp    uint64
	sender uint32
}

type model struct {
	ssrc      uint32
	clockRate float64

	in, out rtpDir
	// inbound loss
	inHave     bool
	inFirst    int64
	inHighest  int64
	inCount    int64
	lostDomain bool
	f1In       int64 // packets with this SSRC that went through another stream's reader

	firstOwnHave, firstAnyHave bool
	firstOwn, firstAny         uint16

	// Inbound.* counts are fed by outgoing RTCP, Outbound.* counts by incoming RTCP.
	inbNACK, inbPLI, inbFIR rng
	outNACK, outPLI, outFIR rng

	srs    []srRec
	rrtrs  []rrtrRec
	libWin []uint64 // labelling only: last 5 SRs whose DestinationSSRC() contains the SSRC

	riLost, riFrac, riJit, riRecv, riRTT allow
	roPk, roBytes, roTS, roRTT           allow
	roReports                            rng
}

func newModel(ssrc uint32, clockRate uint32) *model {
	z := exactly(0)

	return &model{
		ssrc: ssrc, clockRate: float64(clockRate), in: newRTPDir(), out: newRTPDir(), lostDomain: true,
		riLost: z.clone(), riFrac: z.clone(), riJit: z.clone(), riRecv: z.clone(), riRTT: z.clone(),
		roPk: z.clone(), roBytes: z.clone(), roTS: exactly(zeroTime), roRTT: z.clone(),
	}
}

const zeroTime = -1 // stands for time.Time{} in roTS

func (m *model) clone() *model {
	c := *m
	c.srs = append([]srRec(nil), m.srs...)
	c.rrtrs = append([]rrtrRec(nil), m.rrtrs...)
	c.libWin = append([]uint64(nil), m.libWin...)
	for _, p := range []*allow{&c.riLost, &c.riFrac, &c.riJit, &c.riRecv, &c.riRTT, &c.roPk, &c.roBytes, &c.roTS, &c.roRTT} {
		*p = p.clone()
	}

	return &c
}

// hypotheses used only to label a witness
const (
	hXR    = 1 << iota // nothing after an XR that mentions the SSRC is processed
	hFIR               // an incoming FIR counts only if its media-source field is the SSRC
	hSR                // an incoming SR from any sender feeds remote-outbound if a block names the SSRC
	hEvict             // the SR memory is 5 entries shared with SRs of other senders that name the SSRC
	nHyp   = 4
)

var hypSig = map[int]string{
	hXR:    "rtcp-in/after-xr-in-compound",
	hFIR:   "rtcp-in/fir-fci-entry-without-media-ssrc",
	hSR:    "remote-out/sr-of-other-sender-attributed",
	hEvict: "remote-in/rtt-own-sr-evicted-by-other-senders-sr",
}

var hypText = map[int]string{
	hXR:    "observed value equals the recount in which everything after the first XR naming this SSRC in the compound is ignored",
	hFIR:   "observed value equals the recount in which an incoming FIR is counted only when its media-source field (unused per RFC 5104) equals the SSRC",
	hSR:    "observed value equals the recount in which an SR sent by ANOTHER SSRC feeds this SSRC's remote-outbound figures because one of its report blocks names it",
	hEvict: "observed value equals the recount in which this SSRC's own SR was pushed out of a 5-entry memory by SRs of other senders that merely carry a report block about it",
}

func fciCount(p *rtcp.FullIntraRequest, ssrc uint32) int64 {
	var n int64
	for _, e := range p.FIR {
		if e.SSRC == ssrc {
			n++
		}
	}

	return n
}

func (m *model) applyOutRTCP(pkts []rtcp.Packet) {
	for _, pkt := range pkts {
		switch p := pkt.(type) {
		case *rtcp.TransportLayerNack:
			if p.MediaSSRC == m.ssrc {
				m.inbNACK.add(1, 1)
			}
		case *rtcp.PictureLossIndication:
			if p.MediaSSRC == m.ssrc {
				m.inbPLI.add(1, 1)
			}
		case *rtcp.FullIntraRequest:
			if n := fciCount(p, m.ssrc); n > 0 {
				m.inbFIR.add(1, n) // one packet; an implementation counting entries is tolerated
			} else if p.MediaSSRC == m.ssrc {
				m.inbFIR.add(0, 1)
			}
		case *rtcp.SenderReport:
			rec := srRec{ntp: p.NTPTime, sender: p.SSRC}
			for _, b := range p.Reports {
				if b.SSRC == m.ssrc {
					rec.mentions = true
				}
			}
			m.srs = append(m.srs, rec)
			if rec.sender == m.ssrc || rec.mentions {
				m.libWin = append(m.libWin, rec.ntp)
				if len(m.libWin) > 5 {
					m.libWin = m.libWin[len(m.libWin)-5:]
				}
			}
		case *rtcp.ExtendedReport:
			for _, b := range p.Reports {
				if rr, ok := b.(*rtcp.ReceiverReferenceTimeReportBlock); ok {
					m.rrtrs = append(m.rrtrs, rrtrRec{ntp: rr.NTPTimestamp, sender: p.SenderSSRC})
				}
			}
		}
	}
}

func signed24(v uint32) int64 {
	v &= 0xffffff
	if v&0x800000 != 0 {
		return int64(v) - 1<<24
	}

	return int64(v)
}

func (m *model) applyBlocks(blocks []rtcp.ReceptionReport, ts []int64, hyp int, ev *evid) {
	for _, b := range blocks {
		if b.SSRC != m.ssrc {
			continue
		}
		ev.blocksMatched++
		// cumulative lost is a signed 24-bit field in RFC 3550; pion/rtcp exposes it
		// unsigned. Either reading is accepted.
		losts := []float64{float64(b.TotalLost)}
		if s := signed24(b.TotalLost); s != int64(b.TotalLost) {
			losts = append(losts, float64(s))
		}
		m.riLost = exactly(losts...)
		m.riFrac = exactly(float64(b.FractionLost) / 256)
		if m.clockRate == 0 {
			m.riJit = allow{any: true} // seconds of jitter are undefined without a clock rate
		} else {
			m.riJit = exactly(float64(b.Jitter) / m.clockRate)
		}
		// packets received by the remote = expected - lost, expected = extended highest
		// - first sequence number sent + 1, floored at 0 (the field is unsigned).
		if !m.firstOwnHave {
			m.riRecv = allow{any: true} // nothing sent yet: no base to subtract
		} else {
			firsts := []uint16{m.firstOwn}
			if m.firstAnyHave && m.firstAny != m.firstOwn {
				firsts = append(firsts, m.firstAny)
			}
			var vs []float64
			for _, f := range firsts {
				for _, l := range losts {
					exp := int64(b.LastSequenceNumber) - int64(f) + 1
					vs = append(vs, math.Max(0, float64(exp)-l))
				}
			}
			m.riRecv = exactly(vs...)
		}
		if b.LastSenderReport == 0 {
			continue
		}
		var cands []float64
		for _, sr := range m.srs {
			if mid32(sr.ntp) == b.LastSenderReport {
				for _, t := range ts {
					cands = append(cands, float64(t-delayNs(b.Delay)-ntpNs(sr.ntp)))
				}
			}
		}
		if len(cands) == 0 {
			continue
		}
		must := false
		if b.Delay != 0 {
			for i := len(m.srs) - 1; i >= 0; i-- {
				if m.srs[i].sender == m.ssrc {
					must = mid32(m.srs[i].ntp) == b.LastSenderReport
					if must && hyp&hEvict != 0 {
						inWin := false
						for _, n := range m.libWin {
							if mid32(n) == b.LastSenderReport {
								inWin = true
							}
						}
						if !inWin {
							must = false
							cands = nil
						}
					}

					break
				}
			}
		}
		if must {
			m.riRTT = exactly(cands...)
			ev.rttMust++
		} else {
			m.riRTT.union(cands)
			ev.rttMay++
		}
	}
}

func xrMentions(p *rtcp.ExtendedReport, ssrc uint32) bool {
	for _, s := range p.DestinationSSRC() {
		if s == ssrc {
			return true
		}
	}

	return false
}

func (m *model) applyInRTCP(pkts []rtcp.Packet, ts []int64, hyp int, ev *evid) {
	for _, pkt := range pkts {
		switch p := pkt.(type) {
		case *rtcp.TransportLayerNack:
			if p.MediaSSRC == m.ssrc {
				m.outNACK.add(1, 1)
			}
		case *rtcp.PictureLossIndication:
			if p.MediaSSRC == m.ssrc {
				m.outPLI.add(1, 1)
			}
		case *rtcp.FullIntraRequest:
			n := fciCount(p, m.ssrc)
			switch {
			case hyp&hFIR != 0:
				if n > 0 && p.MediaSSRC == m.ssrc {
					m.outFIR.add(1, 1)
				}
			case n > 0:
				m.outFIR.add(1, n)
				if p.MediaSSRC == m.ssrc {
					ev.firBoth++
				} else {
					ev.firFCIOnly++
				}
			case p.MediaSSRC == m.ssrc:
				m.outFIR.add(0, 1)
				ev.firMediaOnly++
			}
		case *rtcp.ReceiverReport:
			m.applyBlocks(p.Reports, ts, hyp, ev)
		case *rtcp.SenderReport:
			mention := false
			for _, b := range p.Reports {
				mention = mention || b.SSRC == m.ssrc
			}
			if p.SSRC == m.ssrc || (hyp&hSR != 0 && mention) {
				m.roPk = exactly(float64(p.PacketCount))
				m.roBytes = exactly(float64(p.OctetCount))
				m.roTS = exactly(float64(ntpNs(p.NTPTime)))
				m.roReports.add(1, 1)
				ev.srOwn++
			} else if mention {
				ev.srOtherMention++
			}
			m.applyBlocks(p.Reports, ts, hyp, ev)
		case *rtcp.ExtendedReport:
			for _, blk := range p.Reports {
				d, ok := blk.(*rtcp.DLRRReportBlock)
				if !ok {
					continue
				}
				for _, sub := range d.Reports {
					if sub.SSRC != m.ssrc || sub.LastRR == 0 {
						continue
					}
					var cands []float64
					for _, rr := range m.rrtrs {
						if mid32(rr.ntp) == sub.LastRR {
							for _, t := range ts {
								cands = append(cands, float64(t-delayNs(sub.DLRR)-ntpNs(rr.ntp)))
							}
						}
					}
					if len(cands) == 0 {
						continue
					}
					// A receiver-reference-time block carries no destination. The measurement
					// is demanded only when the sub-block names the most recent one that went
					// out and that one was sent under this SSRC (RFC 3611 4.5).
					last := m.rrtrs[len(m.rrtrs)-1]
					if sub.DLRR != 0 && mid32(last.ntp) == sub.LastRR && last.sender == m.ssrc {
						m.roRTT = exactly(cands...)
						ev.dlrrMust++
					} else {
						m.roRTT.union(cands)
						ev.dlrrMay++
					}
				}
			}
			if hyp&hXR != 0 && xrMentions(p, m.ssrc) {
				return
			}
		}
	}
}

// ---------------------------------------------------------------------------------
// fields fed by RTCP

type field int

const (
	fInbNACK field = iota
	fInbPLI
	fInbFIR
	fOutNACK
	fOutPLI
	fOutFIR
	fRiLost
	fRiFrac
	fRiJit
	fRiRecv
	fRiRTT
	fRoPk
	fRoBytes
	fRoTS
	fRoReports
	fRoRTT
	nFields
)

var fieldSig = [nFields]string{
	"rtcp-out/nack-count", "rtcp-out/pli-count", "rtcp-out/fir-count",
	"rtcp-in/nack-count", "rtcp-in/pli-count", "rtcp-in/fir-count",
	"remote-in/packets-lost", "remote-in/fraction-lost", "remote-in/jitter", "remote-in/packets-received",
	"remote-in/rtt",
	"remote-out/packets-sent", "remote-out/bytes-sent", "remote-out/remote-timestamp", "remote-out/reports-sent",
	"remote-out/rtt-dlrr",
}

var fieldName = [nFields]string{
	"Inbound.NACKCount", "Inbound.PLICount", "Inbound.FIRCount",
	"Outbound.NACKCount", "Outbound.PLICount", "Outbound.FIRCount",
	"RemoteInbound.PacketsLost", "RemoteInbound.FractionLost", "RemoteInbound.Jitter", "RemoteInbound.PacketsReceived",
	"RemoteInbound.RoundTripTime(ns)",
	"RemoteOutbound.PacketsSent", "RemoteOutbound.BytesSent", "RemoteOutbound.RemoteTimeStamp(ns since 1900)",
	"RemoteOutbound.ReportsSent", "RemoteOutbound.RoundTripTime(ns)",
}

func gotValue(s *stats.Stats, f field) float64 {
	switch f {
	case fInbNACK:
		return float64(s.InboundRTPStreamStats.NACKCount)
	case fInbPLI:
		return float64(s.InboundRTPStreamStats.PLICount)
	case fInbFIR:
		return float64(s.InboundRTPStreamStats.FIRCount)
	case fOutNACK:
		return float64(s.OutboundRTPStreamStats.NACKCount)
	case fOutPLI:
		return float64(s.OutboundRTPStreamStats.PLICount)
	case fOutFIR:
		return float64(s.OutboundRTPStreamStats.FIRCount)
	case fRiLost:
		return float64(s.RemoteInboundRTPStreamStats.PacketsLost)
	case fRiFrac:
		return s.RemoteInboundRTPStreamStats.FractionLost
	case fRiJit:
		return s.RemoteInboundRTPStreamStats.Jitter
	case fRiRecv:
		return float64(s.RemoteInboundRTPStreamStats.PacketsReceived)
	case fRiRTT:
		return float64(s.RemoteInboundRTPStreamStats.RoundTripTime)
	case fRoPk:
		return float64(s.RemoteOutboundRTPStreamStats.PacketsSent)
	case fRoBytes:
		return float64(s.RemoteOutboundRTPStreamStats.BytesSent)
	case fRoTS:
		if s.RemoteTimeStamp.IsZero() {
			return zeroTime
		}

		return float64(tNs(s.RemoteTimeStamp))
	case fRoReports:
		return float64(s.RemoteOutboundRTPStreamStats.ReportsSent)
	default:
		return float64(s.RemoteOutboundRTPStreamStats.RoundTripTime)
	}
}

func (m *model) rngOf(f field) *rng {
	switch f {
	case fInbNACK:
		return &m.inbNACK
	case fInbPLI:
		return &m.inbPLI
	case fInbFIR:
		return &m.inbFIR
	case fOutNACK:
		return &m.outNACK
	case fOutPLI:
		return &m.outPLI
	case fOutFIR:
		return &m.outFIR
	case fRoReports:
		return &m.roReports
	}

	return nil
}

func (m *model) allowOf(f field) *allow {
	switch f {
	case fRiLost:
		return &m.riLost
	case fRiFrac:
		return &m.riFrac
	case fRiJit:
		return &m.riJit
	case fRiRecv:
		return &m.riRecv
	case fRiRTT:
		return &m.riRTT
	case fRoPk:
		return &m.roPk
	case fRoBytes:
		return &m.roBytes
	case fRoTS:
		return &m.roTS
	case fRoRTT:
		return &m.roRTT
	}

	return nil
}

func (m *model) fieldOK(f field, got float64) bool {
	if r := m.rngOf(f); r != nil {
		return r.has(int64(got))
	}
	a := m.allowOf(f)
	switch f {
	case fRiRTT, fRoRTT:
		return a.ok(got, rttTolNs, modNs)
	case fRoTS:
		return a.ok(got, rttTolNs, 0)
	case fRiJit, fRiFrac:
		if a.any {
			return true
		}
		for _, v := range a.v {
			if got == v || math.Abs(got-v) <= 1e-9*math.Abs(v) {
				return true
			}
		}

		return false
	default:
		return a.ok(got, 0, 0)
	}
}

func (m *model) want(f field) string {
	if r := m.rngOf(f); r != nil {
		return r.String()
	}

	return m.allowOf(f).String()
}

// resync makes the recount continue from what the recorder reports, so that one defect
// occurrence yields one witness and later operations are still checked.
func (m *model) resync(f field, got float64) {
	if r := m.rngOf(f); r != nil {
		r.lo, r.hi = int64(got), int64(got)

		return
	}
	*m.allowOf(f) = exactly(got)
}

// ---------------------------------------------------------------------------------
// the world: interceptor + harness-owned inner readers/writers + clock

type evid struct {
	blocksMatched, rttMust, rttMay, dlrrMust, dlrrMay        int64
	firBoth, firFCIOnly, firMediaOnly, srOwn, srOtherMention int64
}

type clock struct {
	mode  int // 0 bubble clock (library default time.Now), 1 stepping SetNowFunc, 2 ticking SetNowFunc
	cur   time.Time
	tick  time.Duration
	calls []time.Time
}

func (k *clock) now() time.Time {
	t := k.cur
	k.calls = append(k.calls, t)
	if k.mode == 2 {
		k.cur = k.cur.Add(k.tick)
	}

	return t
}

func (k *clock) peek() time.Time {
	if k.mode == 0 {
		return time.Now()
	}

	return k.cur
}

func (k *clock) advance(d time.Duration) {
	if k.mode == 0 {
		if d > 0 {
			time.Sleep(d)
		}

		return
	}
	k.cur = k.cur.Add(d)
}

type stream struct {
	ssrc          uint32
	clockRate     uint32
	local, remote bool
	bound         bool
	w             interceptor.RTPWriter
	r             interceptor.RTPReader
	m             *model

	arr    []int64
	arrPos int
	outIdx int64
	inTS   uint32
	outTS  uint32
	pt     uint8
}

type world struct {
	blockFor     time.Duration // how long the next RTCP read blocks inside the wrapped reader
	readReturned time.Time     // clock when the wrapped RTCP reader last returned
	c      *vf.Case
	r      *vf.Rand
	icpt   interceptor.Interceptor
	getter stats.Getter
	clk    *clock

	streams []*stream
	foreign []uint32
	rtcpR   interceptor.RTCPReader
	rtcpW   interceptor.RTCPWriter

	nextRaw  []byte
	nextErr  bool
	nextAttr interceptor.Attributes
	wroteRTP int64
	wroteRTC int64

	sentSRs   []srRec   // every SR that went out (generator picks LSRs from it)
	sentRRTRs []rrtrRec // every RRTR that went out

	hist   []func() string
	opNo   int
	ev     evid
	h      *vf.Hash
	nViol  int
	sigs   map[string]bool
	richCp bool // saw a compound that meets the non-triviality rule
	cnt    map[string]int64
}

var errInjected = errors.New("injected read error")

func (w *world) add(name string, n int64) { w.cnt[name] += n }

func newWorld(c *vf.Case, clockMode int, base time.Time, tick time.Duration) *world {
	w := &world{c: c, r: c.R, clk: &clock{mode: clockMode, cur: base, tick: tick}, h: vf.NewHash(),
		sigs: map[string]bool{}, cnt: map[string]int64{}}
	var opts []stats.Option
	if clockMode != 0 {
		opts = append(opts, stats.SetNowFunc(w.clk.now))
	}
	f, err := stats.NewInterceptor(opts...)
	if err != nil {
		c.Inconclusive("factory: %v", err)

		return nil
	}
	f.OnNewPeerConnection(func(_ string, g stats.Getter) { w.getter = g })
	icpt, err := f.NewInterceptor("c19")
	if err != nil || w.getter == nil {
		c.Inconclusive("NewInterceptor: %v getter=%v", err, w.getter)

		return nil
	}
	w.icpt = icpt

	return w
}

func (w *world) bindRTCP() {
	w.rtcpR = w.icpt.BindRTCPReader(interceptor.RTCPReaderFunc(
		func(b []byte, a interceptor.Attributes) (int, interceptor.Attributes, error) {
			// a read loop blocks in the wrapped reader until a packet arrives: time passes inside
			// the call, and the arrival instant is when it returns
			if w.blockFor > 0 {
				w.clk.advance(w.blockFor)
			}
			w.readReturned = w.clk.peek()
			if w.nextErr {
				return 0, a, errInjected
			}

			return copy(b, w.nextRaw), a, nil
		}))
	w.rtcpW = w.icpt.BindRTCPWriter(interceptor.RTCPWriterFunc(
		func(p []rtcp.Packet, _ interceptor.Attributes) (int, error) {
			w.wroteRTC++

			return len(p), nil
		}))
}

func (w *world) bind(s *stream) {
	info := &interceptor.StreamInfo{SSRC: s.ssrc, ClockRate: s.clockRate, PayloadType: s.pt, MimeType: "video/VP8"}
	if s.local {
		s.w = w.icpt.BindLocalStream(info, interceptor.RTPWriterFunc(
			func(_ *rtp.Header, p []byte, _ interceptor.Attributes) (int, error) {
				w.wroteRTP++

				return len(p), nil
			}))
	}
	if s.remote {
		s.r = w.icpt.BindRemoteStream(info, interceptor.RTPReaderFunc(
			func(b []byte, a interceptor.Attributes) (int, interceptor.Attributes, error) {
				if w.nextErr {
					return 0, nil, errInjected
				}

				return copy(b, w.nextRaw), w.nextAttr, nil
			}))
	}
	// activation is asynchronous (Start runs on its own goroutine): count from quiescence.
	synctest.Wait()
	s.bound = true
	s.m = newModel(s.ssrc, s.clockRate)
	w.add("streams_bound", 1)
}

func (w *world) boundStreams() []*stream {
	var out []*stream
	for _, s := range w.streams {
		if s.bound {
			out = append(out, s)
		}
	}

	return out
}

// opTimes returns the instants the recorder may have stamped the current operation with.
func (w *world) opTimes(before time.Time) []int64 {
	if w.clk.mode == 0 {
		return []int64{tNs(before)}
	}
	seen := map[int64]bool{}
	var out []int64
	for _, t := range w.clk.calls {
		n := tNs(t)
		if !seen[n] {
			seen[n] = true
			out = append(out, n)
		}
	}
	if len(out) == 0 {
		out = append(out, tNs(before))
	}

	return out
}

func parseRTP(raw []byte) (hdr, pad int) {
	hdr = 12 + 4*int(raw[0]&0x0f)
	if raw[0]&0x10 != 0 {
		hdr += 4 + 4*int(uint16(raw[hdr+2])<<8|uint16(raw[hdr+3]))
	}
	if raw[0]&0x20 != 0 {
		pad = int(raw[len(raw)-1])
	}

	return hdr, pad
}

func (w *world) violation(s *stream, sig, format string, args ...any) {
	w.nViol++
	if w.sigs[sig] || w.nViol > 12 {
		return
	}
	w.sigs[sig] = true
	var b strings.Builder
	fmt.Fprintf(&b, "ssrc=%#x (clockRate %d, local=%v remote=%v) ", s.ssrc, s.clockRate, s.local, s.remote)
	fmt.Fprintf(&b, format, args...)
	fmt.Fprintf(&b, "\nclock mode %d; bound SSRCs:", w.clk.mode)
	for _, t := range w.boundStreams() {
		fmt.Fprintf(&b, " %#x", t.ssrc)
	}
	b.WriteString("\nhistory (most recent last):\n")
	from := len(w.hist) - 16
	if from < 0 {
		from = 0
	}
	for i := from; i < len(w.hist); i++ {
		fmt.Fprintf(&b, "  #%d %s\n", i, w.hist[i]())
	}
	w.c.Violation(sig, "%s", b.String())
}

// query compares every bound SSRC with its recount. pre/pkts/ts describe the incoming
// compound just applied (nil otherwise) and are used only to label a mismatch.
func (w *world) query(pre map[*stream]*model, pkts []rtcp.Packet, ts []int64) {
	synctest.Wait()
	for _, s := range w.boundStreams() {
		st := w.getter.Get(s.ssrc)
		w.add("queries", 1)
		if st == nil {
			w.violation(s, "query/nil-for-bound-stream", "Get returned nil for a bound SSRC")

			continue
		}
		m := s.m
		// RTP in
		if f := m.in.check(int64(st.InboundRTPStreamStats.PacketsReceived), int64(st.BytesReceived),
			int64(st.HeaderBytesReceived)); f != "" {
			w.violation(s, "rtp-in/"+f+"-received",
				"Inbound %s: got packets=%d bytes=%d headerBytes=%d; recount through own reader: packets=%d wire=%d header=%d padding=%d (incl. same SSRC through other readers: packets=%d wire=%d)",
				f, st.InboundRTPStreamStats.PacketsReceived, st.BytesReceived, st.HeaderBytesReceived,
				m.in.v[0].pk, m.in.v[0].total, m.in.v[0].hdr, m.in.v[0].pad, m.in.v[1].pk, m.in.v[1].total)
		}
		if f := m.out.check(int64(st.OutboundRTPStreamStats.PacketsSent), int64(st.OutboundRTPStreamStats.BytesSent),
			int64(st.HeaderBytesSent)); f != "" {
			w.violation(s, "rtp-out/"+f+"-sent",
				"Outbound %s: got packets=%d bytes=%d headerBytes=%d; recount through own writer: packets=%d wire=%d header=%d padding=%d (incl. same SSRC through other writers: packets=%d wire=%d)",
				f, st.OutboundRTPStreamStats.PacketsSent, st.OutboundRTPStreamStats.BytesSent, st.HeaderBytesSent,
				m.out.v[0].pk, m.out.v[0].total, m.out.v[0].hdr, m.out.v[0].pad, m.out.v[1].pk, m.out.v[1].total)
		}
		w.add("rtp_figures_compared", 6)
		if !m.in.dead && m.lostDomain && m.f1In == 0 {
			want := int64(0)
			if m.inHave {
				want = m.inHighest - m.inFirst + 1 - m.inCount
			}
			w.add("lost_compared", 1)
			if got := st.InboundRTPStreamStats.PacketsLost; got != want {
				m.lostDomain = false
				w.violation(s, "rtp-in/packets-lost",
					"Inbound.PacketsLost=%d, recount (highest %d - first %d + 1) - received %d = %d (true indices)",
					got, m.inHighest, m.inFirst, m.inCount, want)
			}
		}
		if j := st.InboundRTPStreamStats.Jitter; s.clockRate != 0 && (math.IsNaN(j) || math.IsInf(j, 0) || j < 0) {
			w.violation(s, "rtp-in/jitter-not-finite", "Inbound.Jitter=%v", j)
		}
		// RTCP-fed figures
		for f := field(0); f < nFields; f++ {
			if !checkRemoteOutboundSR && f >= fRoPk && f <= fRoReports {
				continue
			}
			got := gotValue(st, f)
			w.add("rtcp_figures_compared", 1)
			if m.fieldOK(f, got) {
				continue
			}
			labels := 0
			if pre != nil && pre[s] != nil {
				// smallest set of live hypotheses that explains this figure; among equally
				// small ones, one that explains every figure of the SSRC is preferred.
				size := 0
				for _, hyp := range hypOrder {
					if hyp&^liveHyps(w.c) != 0 || (labels != 0 && popcount(hyp) > size) {
						continue
					}
					alt := pre[s].clone()
					var ev evid
					alt.applyInRTCP(pkts, ts, hyp, &ev)
					if !alt.fieldOK(f, got) {
						continue
					}
					all := true
					for g := field(0); g < nFields; g++ {
						all = all && alt.fieldOK(g, gotValue(st, g))
					}
					if labels == 0 {
						labels, size = hyp, popcount(hyp)
					}
					if all {
						labels = hyp

						break
					}
				}
			}
			if labels == 0 {
				w.violation(s, fieldSig[f], "%s = %.15g, recount demands %s", fieldName[f], got, m.want(f))
			} else {
				for h := 1; h < 1<<nHyp; h <<= 1 {
					if labels&h != 0 {
						w.violation(s, hypSig[h], "%s = %.15g, recount demands %s\ndiagnosis: %s",
							fieldName[f], got, m.want(f), hypText[h])
					}
				}
			}
			m.resync(f, got)
		}
	}
}

func popcount(x int) int {
	n := 0
	for ; x != 0; x &= x - 1 {
		n++
	}

	return n
}

// hypothesis subsets ordered by size, so that the smallest explanation labels a witness.
var hypOrder = func() []int {
	var out []int
	for h := 1; h < 1<<nHyp; h++ {
		out = append(out, h)
	}
	sort.SliceStable(out, func(i, j int) bool { return popcount(out[i]) < popcount(out[j]) })

	return out
}()

// liveHyps probes, once per process, which of the labelling hypotheses the tree under
// test actually exhibits (by playing the four minimal witnesses against a private
// interceptor). Only those are used to label, so that a witness is never filed under the
// name of a defect the tree does not have. Must be called inside the bubble.
var (
	liveOnce sync.Once
	liveSet  int
)

func liveHyps(c *vf.Case) int {
	liveOnce.Do(func() {
		const S, O, X = 0x1111, 0x2222, 0x9999
		base := time.Date(2024, 6, 1, 12, 0, 0, 0, time.UTC)
		probe := func(out [][]rtcp.Packet, in []rtcp.Packet) *stats.Stats {
			now := base
			f, err := stats.NewInterceptor(stats.SetNowFunc(func() time.Time { return now }))
			if err != nil {
				return nil
			}
			var g stats.Getter
			f.OnNewPeerConnection(func(_ string, gg stats.Getter) { g = gg })
			icpt, err := f.NewInterceptor("probe")
			if err != nil || g == nil {
				return nil
			}
			defer icpt.Close() //nolint:errcheck
			raw, err := rtcp.Marshal(in)
			if err != nil {
				return nil
			}
			rd := icpt.BindRTCPReader(interceptor.RTCPReaderFunc(
				func(b []byte, a interceptor.Attributes) (int, interceptor.Attributes, error) {
					return copy(b, raw), a, nil
				}))
			wr := icpt.BindRTCPWriter(interceptor.RTCPWriterFunc(
				func(p []rtcp.Packet, _ interceptor.Attributes) (int, error) { return len(p), nil }))
			for _, ssrc := range []uint32{S, O} {
				icpt.BindLocalStream(&interceptor.StreamInfo{SSRC: ssrc, ClockRate: 90000}, interceptor.RTPWriterFunc(
					func(_ *rtp.Header, p []byte, _ interceptor.Attributes) (int, error) { return len(p), nil }))
			}
			synctest.Wait()
			for _, o := range out {
				_, _ = wr.Write(o, nil)
				now = now.Add(10 * time.Millisecond)
			}
			now = now.Add(time.Second)
			_, _, _ = rd.Read(make([]byte, 1500), nil)
			synctest.Wait()

			return g.Get(S)
		}
		xr := &rtcp.ExtendedReport{SenderSSRC: X, Reports: []rtcp.ReportBlock{
			&rtcp.DLRRReportBlock{Reports: []rtcp.DLRRReport{{SSRC: S}}}}}
		if st := probe(nil, []rtcp.Packet{xr, &rtcp.PictureLossIndication{SenderSSRC: X, MediaSSRC: S}}); st != nil &&
			st.OutboundRTPStreamStats.PLICount == 0 {
			liveSet |= hXR
		}
		if st := probe(nil, []rtcp.Packet{&rtcp.FullIntraRequest{SenderSSRC: X, FIR: []rtcp.FIREntry{{SSRC: S}}}}); st != nil &&
			st.OutboundRTPStreamStats.FIRCount == 0 {
			liveSet |= hFIR
		}
		if st := probe(nil, []rtcp.Packet{&rtcp.SenderReport{SSRC: O, NTPTime: toNTP(base), PacketCount: 7,
			Reports: []rtcp.ReceptionReport{{SSRC: S}}}}); st != nil && st.RemoteOutboundRTPStreamStats.ReportsSent != 0 {
			liveSet |= hSR
		}
		outs := [][]rtcp.Packet{{&rtcp.SenderReport{SSRC: S, NTPTime: toNTP(base)}}}
		for i := 1; i <= 5; i++ {
			outs = append(outs, []rtcp.Packet{&rtcp.SenderReport{SSRC: X,
				NTPTime: toNTP(base.Add(time.Duration(i) * 10 * time.Millisecond)), Reports: []rtcp.ReceptionReport{{SSRC: S}}}})
		}
		if st := probe(outs, []rtcp.Packet{&rtcp.ReceiverReport{SSRC: X, Reports: []rtcp.ReceptionReport{
			{SSRC: S, LastSenderReport: mid32(toNTP(base)), Delay: 32768}}}}); st != nil &&
			st.RemoteInboundRTPStreamStats.RoundTripTimeMeasurements == 0 {
			liveSet |= hEvict
		}
		for h := 1; h < 1<<nHyp; h <<= 1 {
			if liveSet&h != 0 {
				c.Add("processes_where_probe_found_defect/"+hypSig[h], 1)
			}
		}
	})

	return liveSet
}

// ---------------------------------------------------------------------------------
// operations

func (w *world) log(f func() string) {
	w.hist = append(w.hist, f)
	w.opNo++
}

func (w *world) attrs() interceptor.Attributes {
	if w.r.Bool() {
		return nil
	}

	return interceptor.Attributes{}
}

// inRTP pushes one packet through s's remote reader.
func (w *world) inRTP(s *stream, h rtp.Header, payload []byte, trueIdx int64, readErr bool) {
	raw, err := (&rtp.Packet{Header: h, Payload: payload}).Marshal()
	if err != nil {
		return
	}
	w.nextRaw, w.nextErr, w.nextAttr = raw, readErr, w.attrs()
	w.clk.calls = w.clk.calls[:0]
	buf := make([]byte, len(raw)+w.r.Pick(0, 1, 64, 1500))
	n, _, rerr := s.r.Read(buf, w.attrs())
	w.log(func() string {
		return fmt.Sprintf("inRTP via reader of %#x: ssrc=%#x seq=%d (true idx %d) len=%d csrc=%d ext=%v pad=%d readErr=%v",
			s.ssrc, h.SSRC, h.SequenceNumber, trueIdx, len(raw), len(h.CSRC), h.Extension, h.PaddingSize, readErr)
	})
	w.h.Int(1).U64(uint64(h.SSRC)).Int(len(raw)).Int(int(h.SequenceNumber))
	if readErr {
		if rerr == nil {
			w.violation(s, "harness/read-error-swallowed", "inner reader error not returned")
		}
		w.add("rtp_in_read_errors", 1)
	} else {
		if rerr != nil || n != len(raw) {
			w.c.Inconclusive("RTP read through interceptor: n=%d err=%v", n, rerr)

			return
		}
		hdr, pad := parseRTP(raw)
		w.add("rtp_in", 1)
		if h.SSRC == s.ssrc {
			m := s.m
			m.in.v[0].add(len(raw), hdr, pad)
			m.in.v[1].add(len(raw), hdr, pad)
			if !m.inHave {
				m.inHave, m.inFirst, m.inHighest = true, trueIdx, trueIdx
			}
			if trueIdx < m.inFirst {
				m.lostDomain = false
			}
			if trueIdx > m.inHighest {
				m.inHighest = trueIdx
			}
			m.inCount++
		} else {
			w.add("rtp_in_foreign_ssrc", 1)
			for _, t := range w.boundStreams() {
				if t.ssrc == h.SSRC {
					t.m.in.v[1].add(len(raw), hdr, pad)
					t.m.f1In++
				}
			}
		}
	}
	w.query(nil, nil, nil)
}

func (w *world) outRTP(s *stream, h rtp.Header, payload []byte) {
	w.clk.calls = w.clk.calls[:0]
	hc := h.Clone()
	_, err := s.w.Write(&hc, payload, w.attrs())
	w.log(func() string {
		return fmt.Sprintf("outRTP via writer of %#x: ssrc=%#x seq=%d hdr=%d payload=%d pad=%d",
			s.ssrc, h.SSRC, h.SequenceNumber, h.MarshalSize(), len(payload), h.PaddingSize)
	})
	w.h.Int(2).U64(uint64(h.SSRC)).Int(len(payload)).Int(int(h.SequenceNumber))
	if err != nil {
		w.c.Inconclusive("RTP write: %v", err)

		return
	}
	hdr := h.MarshalSize()
	pad := 0
	if h.Padding {
		pad = int(h.PaddingSize)
	}
	total := hdr + len(payload) + pad
	w.add("rtp_out", 1)
	if h.SSRC == s.ssrc {
		m := s.m
		m.out.v[0].add(total, hdr, pad)
		m.out.v[1].add(total, hdr, pad)
		if !m.firstOwnHave {
			m.firstOwnHave, m.firstOwn = true, h.SequenceNumber
		}
		if !m.firstAnyHave {
			m.firstAnyHave, m.firstAny = true, h.SequenceNumber
		}
	} else {
		w.add("rtp_out_foreign_ssrc", 1)
		for _, t := range w.boundStreams() {
			if t.ssrc == h.SSRC {
				t.m.out.v[1].add(total, hdr, pad)
				if !t.m.firstAnyHave {
					t.m.firstAnyHave, t.m.firstAny = true, h.SequenceNumber
				}
			}
		}
	}
	w.query(nil, nil, nil)
}

func (w *world) noteCompound(pkts []rtcp.Packet, in bool) {
	types := map[string]bool{}
	matching, nonMatching := false, false
	xrSeen, xrBefore := false, false
	for _, p := range pkts {
		name := fmt.Sprintf("%T", p)
		types[name] = true
		w.add("rtcp_"+strings.ToLower(strings.TrimPrefix(name, "*rtcp.")), 1)
		hit := false
		for _, d := range p.DestinationSSRC() {
			for _, s := range w.boundStreams() {
				hit = hit || s.ssrc == d
			}
		}
		if hit {
			matching = true
		} else {
			nonMatching = true
		}
		if xrSeen {
			xrBefore = true
		}
		if _, ok := p.(*rtcp.ExtendedReport); ok && hit {
			xrSeen = true
		}
		w.h.Str(name)
		for _, d := range p.DestinationSSRC() {
			w.h.U64(uint64(d))
		}
	}
	if len(types) >= 3 && matching && nonMatching {
		w.richCp = true
		w.add("compounds_3types_mixed_addressing", 1)
	}
	if in && xrBefore {
		w.add("rtcp_in_compounds_with_packets_after_matching_xr", 1)
	}
}

func (w *world) inRTCP(pkts []rtcp.Packet, readErr bool) {
	raw, err := rtcp.Marshal(pkts)
	if err != nil {
		return
	}
	// the recount reads what is on the wire (decoded with pion/rtcp, an external library)
	parsed, err := rtcp.Unmarshal(raw)
	if err != nil {
		return
	}
	w.nextRaw, w.nextErr = raw, readErr
	w.blockFor = 0
	if w.r.Chance(0.3) {
		w.blockFor = time.Duration(w.r.Pick(1, 20, 1000, 2500)) * time.Millisecond
		w.add("rtcp_in_reads_that_blocked_before_the_packet_arrived", 1)
	}
	w.clk.calls = w.clk.calls[:0]
	before := w.clk.peek()
	buf := make([]byte, len(raw)+w.r.Pick(0, 4, 1500))
	n, _, rerr := w.rtcpR.Read(buf, w.attrs())
	w.log(func() string {
		return fmt.Sprintf("inRTCP t=%s readErr=%v %s", fmtT(before), readErr, descCompound(parsed))
	})
	w.h.Int(3)
	if readErr {
		w.add("rtcp_in_read_errors", 1)
		w.query(nil, nil, nil)

		return
	}
	if rerr != nil || n != len(raw) {
		w.c.Inconclusive("RTCP read through interceptor: n=%d err=%v", n, rerr)

		return
	}
	w.add("rtcp_in_compounds", 1)
	w.noteCompound(parsed, true)
	// the batch arrived when the wrapped reader returned: clock readings taken before that are
	// not arrival times
	kept := w.clk.calls[:0]
	for _, t := range w.clk.calls {
		if !t.Before(w.readReturned) {
			kept = append(kept, t)
		}
	}
	w.clk.calls = kept
	ts := w.opTimes(w.readReturned)
	pre := map[*stream]*model{}
	for _, s := range w.boundStreams() {
		pre[s] = s.m.clone()
		s.m.applyInRTCP(parsed, ts, 0, &w.ev)
	}
	w.query(pre, parsed, ts)
}

func (w *world) outRTCP(pkts []rtcp.Packet) {
	w.clk.calls = w.clk.calls[:0]
	before := w.clk.peek()
	_, err := w.rtcpW.Write(pkts, w.attrs())
	w.log(func() string { return fmt.Sprintf("outRTCP t=%s %s", fmtT(before), descCompound(pkts)) })
	w.h.Int(4)
	if err != nil {
		w.c.Inconclusive("RTCP write: %v", err)

		return
	}
	w.add("rtcp_out_compounds", 1)
	w.noteCompound(pkts, false)
	for _, p := range pkts {
		switch v := p.(type) {
		case *rtcp.SenderReport:
			w.sentSRs = append(w.sentSRs, srRec{ntp: v.NTPTime, sender: v.SSRC})
		case *rtcp.ExtendedReport:
			for _, b := range v.Reports {
				if rr, ok := b.(*rtcp.ReceiverReferenceTimeReportBlock); ok {
					w.sentRRTRs = append(w.sentRRTRs, rrtrRec{ntp: rr.NTPTimestamp, sender: v.SenderSSRC})
				}
			}
		}
	}
	for _, s := range w.boundStreams() {
		s.m.applyOutRTCP(pkts)
	}
	w.query(nil, nil, nil)
}

func (w *world) tick(d time.Duration) {
	w.clk.advance(d)
	w.log(func() string { return fmt.Sprintf("clock %+v", d) })
}

func fmtT(t time.Time) string { return t.UTC().Format("2006-01-02T15:04:05.000000000") }

func descBlocks(bs []rtcp.ReceptionReport) string {
	var s []string
	for _, b := range bs {
		s = append(s, fmt.Sprintf("{ssrc=%#x frac=%d lost=%d ext=%d jit=%d lsr=%#x dlsr=%d}",
			b.SSRC, b.FractionLost, b.TotalLost, b.LastSequenceNumber, b.Jitter, b.LastSenderReport, b.Delay))
	}

	return "[" + strings.Join(s, " ") + "]"
}

func descCompound(pkts []rtcp.Packet) string {
	var out []string
	for _, pkt := range pkts {
		switch p := pkt.(type) {
		case *rtcp.SenderReport:
			out = append(out, fmt.Sprintf("SR{from=%#x ntp=%#x(mid %#x) pc=%d oc=%d rb=%s}",
				p.SSRC, p.NTPTime, mid32(p.NTPTime), p.PacketCount, p.OctetCount, descBlocks(p.Reports)))
		case *rtcp.ReceiverReport:
			out = append(out, fmt.Sprintf("RR{from=%#x rb=%s}", p.SSRC, descBlocks(p.Reports)))
		case *rtcp.ExtendedReport:
			var bs []string
			for _, b := range p.Reports {
				switch v := b.(type) {
				case *rtcp.ReceiverReferenceTimeReportBlock:
					bs = append(bs, fmt.Sprintf("RRTR{ntp=%#x(mid %#x)}", v.NTPTimestamp, mid32(v.NTPTimestamp)))
				case *rtcp.DLRRReportBlock:
					var ss []string
					for _, r := range v.Reports {
						ss = append(ss, fmt.Sprintf("{ssrc=%#x lrr=%#x dlrr=%d}", r.SSRC, r.LastRR, r.DLRR))
					}
					bs = append(bs, "DLRR["+strings.Join(ss, " ")+"]")
				default:
					bs = append(bs, fmt.Sprintf("%T", b))
				}
			}
			out = append(out, fmt.Sprintf("XR{from=%#x %s}", p.SenderSSRC, strings.Join(bs, " ")))
		case *rtcp.TransportLayerNack:
			out = append(out, fmt.Sprintf("NACK{from=%#x media=%#x n=%d}", p.SenderSSRC, p.MediaSSRC, len(p.Nacks)))
		case *rtcp.PictureLossIndication:
			out = append(out, fmt.Sprintf("PLI{from=%#x media=%#x}", p.SenderSSRC, p.MediaSSRC))
		case *rtcp.FullIntraRequest:
			var es []string
			for _, e := range p.FIR {
				es = append(es, fmt.Sprintf("%#x", e.SSRC))
			}
			out = append(out, fmt.Sprintf("FIR{from=%#x media=%#x fci=[%s]}", p.SenderSSRC, p.MediaSSRC, strings.Join(es, " ")))
		case *rtcp.SourceDescription:
			out = append(out, "SDES")
		default:
			out = append(out, fmt.Sprintf("%T", pkt))
		}
	}

	return strings.Join(out, " | ")
}

// ---------------------------------------------------------------------------------
// random generation

func (w *world) anySSRC(focus uint32) uint32 {
	p := w.r.Float()
	switch {
	case p < 0.5:
		return focus
	case p < 0.8:
		return w.streams[w.r.Intn(len(w.streams))].ssrc
	default:
		return w.foreign[w.r.Intn(len(w.foreign))]
	}
}

func (w *world) genNTP(in bool) uint64 {
	now := w.clk.peek()
	var off time.Duration
	switch w.r.Intn(10) {
	case 0:
		off = time.Duration(w.r.Range(-5000, 5000)) * time.Millisecond
	case 1:
		off = time.Duration(w.r.Range(-9*3600, 9*3600)) * time.Second
	case 2:
		off = time.Duration(w.r.Range(-1000, 1000)) * time.Microsecond
	case 3:
		if in {
			off = time.Duration(w.r.Range(-20*365*24, 20*365*24)) * time.Hour
		}
	}

	return toNTP(now.Add(off))
}

func (w *world) genBlock(focus uint32) rtcp.ReceptionReport {
	r := w.r
	b := rtcp.ReceptionReport{SSRC: w.anySSRC(focus), FractionLost: uint8(r.Pick(0, 1, 128, 255, r.Intn(256)))}
	switch r.Intn(6) {
	case 0:
		b.TotalLost = 0
	case 1:
		b.TotalLost = 0x800000 + uint32(r.Intn(0x800000)) // negative in RFC 3550's signed reading
	case 2:
		b.TotalLost = uint32(r.Intn(1 << 24))
	default:
		b.TotalLost = uint32(r.Intn(200))
	}
	// extended highest around what the stream has sent
	base := uint32(r.U16())
	for _, s := range w.streams {
		if s.ssrc == b.SSRC && s.bound && s.m.firstOwnHave {
			base = uint32(s.m.firstOwn) + uint32(s.m.out.v[0].pk)
		}
	}
	switch r.Intn(5) {
	case 0:
		b.LastSequenceNumber = uint32(r.U16())
	case 1:
		b.LastSequenceNumber = base + uint32(r.Range(0, 3))<<16
	case 2:
		b.LastSequenceNumber = r.U32()
	default:
		b.LastSequenceNumber = uint32(int64(base) + int64(r.Range(-40, 10)))
	}
	b.Jitter = uint32(r.Pick(0, 1, 90, 90000, int(r.U32()>>r.Intn(32))))
	// LSR
	switch p := r.Float(); {
	case p < 0.5:
		for i := len(w.sentSRs) - 1; i >= 0; i-- {
			if w.sentSRs[i].sender == b.SSRC {
				b.LastSenderReport = mid32(w.sentSRs[i].ntp)

				break
			}
		}
	case p < 0.75:
		if n := len(w.sentSRs); n > 0 {
			b.LastSenderReport = mid32(w.sentSRs[n-1-r.Intn(min(n, 8))].ntp)
		}
	case p < 0.87:
		b.LastSenderReport = r.U32()
	}
	switch r.Intn(10) {
	case 0:
		b.Delay = 0
	case 1:
		b.Delay = r.U32()
	default:
		b.Delay = uint32(r.Intn(5 * 65536))
	}

	return b
}

func (w *world) genBlocks(focus uint32, max int) []rtcp.ReceptionReport {
	var out []rtcp.ReceptionReport
	for i, n := 0, w.r.Range(0, max); i < n; i++ {
		out = append(out, w.genBlock(focus))
	}

	return out
}

func (w *world) genXR(focus uint32, in bool) *rtcp.ExtendedReport {
	r := w.r
	x := &rtcp.ExtendedReport{SenderSSRC: w.anySSRC(focus)}
	for i, n := 0, r.Pick(1, 1, 2, 3); i < n; i++ {
		if r.Chance(0.7) == in {
			d := &rtcp.DLRRReportBlock{}
			for j, k := 0, r.Pick(1, 1, 2, 3); j < k; j++ {
				sub := rtcp.DLRRReport{SSRC: w.anySSRC(focus)}
				nr := len(w.sentRRTRs)
				switch p := r.Float(); {
				case p < 0.55 && nr > 0:
					sub.LastRR = mid32(w.sentRRTRs[nr-1].ntp)
				case p < 0.7 && nr > 0:
					sub.LastRR = mid32(w.sentRRTRs[nr-1-r.Intn(min(nr, 8))].ntp)
				case p < 0.85:
					sub.LastRR = r.U32()
				}
				switch r.Intn(10) {
				case 0:
				case 1:
					sub.DLRR = r.U32()
				default:
					sub.DLRR = uint32(r.Intn(5 * 65536))
				}
				d.Reports = append(d.Reports, sub)
			}
			x.Reports = append(x.Reports, d)
		} else {
			x.Reports = append(x.Reports, &rtcp.ReceiverReferenceTimeReportBlock{NTPTimestamp: w.genNTP(in)})
		}
	}

	return x
}

func (w *world) genFIR(focus uint32) *rtcp.FullIntraRequest {
	r := w.r
	s := w.anySSRC(focus)
	f := &rtcp.FullIntraRequest{SenderSSRC: w.anySSRC(focus)}
	other := func() uint32 {
		for i := 0; i < 8; i++ {
			if o := w.anySSRC(focus); o != s {
				return o
			}
		}

		return s ^ 0x5a5a5a5a
	}
	switch r.Intn(6) {
	case 0, 1: // RFC 5104 form: media source 0, target in the FCI
		f.MediaSSRC = 0
		f.FIR = []rtcp.FIREntry{{SSRC: s, SequenceNumber: uint8(r.Intn(256))}}
	case 2: // both
		f.MediaSSRC = s
		f.FIR = []rtcp.FIREntry{{SSRC: s, SequenceNumber: uint8(r.Intn(256))}}
	case 3: // media-source form only
		f.MediaSSRC = s
		f.FIR = []rtcp.FIREntry{{SSRC: other(), SequenceNumber: uint8(r.Intn(256))}}
	case 4: // FCI for s, media source names somebody else
		f.MediaSSRC = other()
		f.FIR = []rtcp.FIREntry{{SSRC: s, SequenceNumber: uint8(r.Intn(256))}}
	default: // several distinct targets
		f.MediaSSRC = uint32(r.Pick(0, int(s)))
		seen := map[uint32]bool{}
		for i, n := 0, r.Range(2, 4); i < n; i++ {
			t := w.anySSRC(focus)
			if !seen[t] {
				seen[t] = true
				f.FIR = append(f.FIR, rtcp.FIREntry{SSRC: t, SequenceNumber: uint8(r.Intn(256))})
			}
		}
	}

	return f
}

func (w *world) genCompound(in bool) []rtcp.Packet {
	r := w.r
	focus := w.streams[r.Intn(len(w.streams))].ssrc
	if bs := w.boundStreams(); len(bs) > 0 && r.Chance(0.85) {
		focus = bs[r.Intn(len(bs))].ssrc
	}
	var out []rtcp.Packet
	for i, n := 0, r.Pick(1, 1, 2, 3, 3, 4, 5, 6); i < n; i++ {
		switch r.Pick(0, 0, 1, 1, 2, 2, 2, 3, 3, 4, 4, 5, 5, 5, 6) {
		case 0:
			out = append(out, &rtcp.SenderReport{SSRC: w.anySSRC(focus), NTPTime: w.genNTP(in), RTPTime: r.U32(),
				PacketCount: r.U32() >> r.Intn(32), OctetCount: r.U32() >> r.Intn(32), Reports: w.genBlocks(focus, 2)})
		case 1:
			out = append(out, &rtcp.ReceiverReport{SSRC: w.anySSRC(focus), Reports: w.genBlocks(focus, 3)})
		case 2:
			out = append(out, w.genXR(focus, in))
		case 3:
			nk := &rtcp.TransportLayerNack{SenderSSRC: w.anySSRC(focus), MediaSSRC: w.anySSRC(focus)}
			for j, k := 0, r.Range(1, 3); j < k; j++ {
				nk.Nacks = append(nk.Nacks, rtcp.NackPair{PacketID: r.U16(), LostPackets: rtcp.PacketBitmap(r.U16())})
			}
			out = append(out, nk)
		case 4:
			out = append(out, &rtcp.PictureLossIndication{SenderSSRC: w.anySSRC(focus), MediaSSRC: w.anySSRC(focus)})
		case 5:
			out = append(out, w.genFIR(focus))
		default:
			out = append(out, &rtcp.SourceDescription{Chunks: []rtcp.SourceDescriptionChunk{{
				Source: w.anySSRC(focus), Items: []rtcp.SourceDescriptionItem{{Type: rtcp.SDESCNAME, Text: "c19"}},
			}}})
		}
	}

	return out
}

func (w *world) genHeader(ssrc uint32, pt uint8, seq uint16, ts uint32) rtp.Header {
	var sh gen.Shape
	if w.r.Chance(0.5) {
		sh = gen.RandomShape(w.r)
	}

	return gen.Header(w.r, sh, ssrc, pt, seq, ts)
}

func (w *world) randomInRTP() {
	var cand []*stream
	for _, s := range w.boundStreams() {
		if s.remote {
			cand = append(cand, s)
		}
	}
	if len(cand) == 0 {
		return
	}
	r := w.r
	s := cand[r.Intn(len(cand))]
	readErr := r.Chance(0.03)
	payload := r.Bytes(gen.PayloadLen(r, 1200))
	switch p := r.Float(); {
	case p < 0.84:
		if s.arrPos >= len(s.arr) {
			return
		}
		idx := s.arr[s.arrPos]
		s.arrPos++
		s.inTS += uint32(r.Pick(0, 1, 160, 3000, 90000, r.Intn(1<<20)))
		w.inRTP(s, w.genHeader(s.ssrc, s.pt, uint16(idx), s.inTS), payload, idx, readErr)
	case p < 0.92:
		w.inRTP(s, w.genHeader(w.foreign[r.Intn(len(w.foreign))], s.pt, r.U16(), r.U32()), payload, -1, readErr)
	default:
		o := w.streams[r.Intn(len(w.streams))]
		if o == s {
			return
		}
		w.inRTP(s, w.genHeader(o.ssrc, s.pt, r.U16(), r.U32()), payload, -1, readErr)
	}
}

func (w *world) randomOutRTP() {
	var cand []*stream
	for _, s := range w.boundStreams() {
		if s.local {
			cand = append(cand, s)
		}
	}
	if len(cand) == 0 {
		return
	}
	r := w.r
	s := cand[r.Intn(len(cand))]
	payload := r.Bytes(gen.PayloadLen(r, 1200))
	switch p := r.Float(); {
	case p < 0.84:
		idx := s.outIdx
		if r.Chance(0.06) && s.m.out.v[0].pk > 0 {
			idx -= int64(r.Range(1, 20)) // retransmission
		} else {
			s.outIdx++
			s.outTS += uint32(r.Pick(0, 160, 3000))
		}
		w.outRTP(s, w.genHeader(s.ssrc, s.pt, uint16(idx), s.outTS), payload)
	case p < 0.92:
		w.outRTP(s, w.genHeader(w.foreign[r.Intn(len(w.foreign))], s.pt, r.U16(), r.U32()), payload)
	default:
		o := w.streams[r.Intn(len(w.streams))]
		if o == s {
			return
		}
		w.outRTP(s, w.genHeader(o.ssrc, s.pt, r.U16(), r.U32()), payload)
	}
}

// srThenReport plays the pattern the round-trip oracle needs: an SR of s goes out, k SRs
// of other senders follow (some carrying a report block about s), then a report block
// about s echoes the SR of s.
func (w *world) srThenReport() {
	bs := w.boundStreams()
	if len(bs) == 0 {
		return
	}
	r := w.r
	s := bs[r.Intn(len(bs))]
	own := &rtcp.SenderReport{SSRC: s.ssrc, NTPTime: w.genNTP(false), PacketCount: r.U32() >> 8, OctetCount: r.U32() >> 4}
	w.outRTCP([]rtcp.Packet{own})
	for i, k := 0, r.Pick(0, 0, 1, 3, 5, 6, 8); i < k; i++ {
		w.tick(time.Duration(r.Range(1, 50)) * time.Millisecond)
		o := &rtcp.SenderReport{SSRC: w.anySSRC(s.ssrc), NTPTime: toNTP(w.clk.peek())}
		if o.SSRC == s.ssrc {
			o.SSRC ^= 0x01010101
		}
		if r.Chance(0.8) {
			o.Reports = []rtcp.ReceptionReport{{SSRC: s.ssrc, LastSequenceNumber: uint32(r.U16())}}
		}
		w.outRTCP([]rtcp.Packet{o})
	}
	w.tick(time.Duration(r.Range(1, 3000)) * time.Millisecond)
	blk := rtcp.ReceptionReport{SSRC: s.ssrc, FractionLost: uint8(r.Intn(256)), TotalLost: uint32(r.Intn(100)),
		LastSequenceNumber: uint32(r.U16()), Jitter: uint32(r.Intn(100000)),
		LastSenderReport: mid32(own.NTPTime), Delay: uint32(r.Range(1, 3*65536))}
	w.inRTCP([]rtcp.Packet{&rtcp.ReceiverReport{SSRC: w.anySSRC(s.ssrc), Reports: []rtcp.ReceptionReport{blk}}}, false)
}

// rrtrThenDLRR: a receiver reference time goes out under s, a DLRR about it comes back.
func (w *world) rrtrThenDLRR() {
	bs := w.boundStreams()
	if len(bs) == 0 {
		return
	}
	r := w.r
	s := bs[r.Intn(len(bs))]
	ntp := w.genNTP(false)
	w.outRTCP([]rtcp.Packet{&rtcp.ExtendedReport{SenderSSRC: s.ssrc, Reports: []rtcp.ReportBlock{
		&rtcp.ReceiverReferenceTimeReportBlock{NTPTimestamp: ntp}}}})
	w.tick(time.Duration(r.Range(1, 3000)) * time.Millisecond)
	w.inRTCP([]rtcp.Packet{&rtcp.ExtendedReport{SenderSSRC: w.anySSRC(s.ssrc), Reports: []rtcp.ReportBlock{
		&rtcp.DLRRReportBlock{Reports: []rtcp.DLRRReport{{SSRC: s.ssrc, LastRR: mid32(ntp), DLRR: uint32(r.Range(1, 3*65536))}}}}}}, false)
}

func (w *world) randomClock() {
	r := w.r
	ds := []time.Duration{0, time.Microsecond, time.Millisecond, 20 * time.Millisecond, 333 * time.Millisecond,
		time.Second, time.Minute, time.Hour, 9 * time.Hour}
	d := ds[r.Intn(len(ds))]
	if w.clk.mode == 1 && r.Chance(0.15) {
		d = -d // arbitrary clocks: the injected clock may step backwards
	}
	w.tick(d)
}

// ---------------------------------------------------------------------------------
// scenarios

func (w *world) finish() {
	c := w.c
	_ = w.icpt.Close()
	for k, v := range w.cnt {
		c.Add(k, v)
	}
	c.Add("ops", int64(w.opNo))
	c.Add("report_blocks_matched", w.ev.blocksMatched)
	c.Add("rtt_must_measure", w.ev.rttMust)
	c.Add("rtt_may_measure", w.ev.rttMay)
	c.Add("dlrr_must_measure", w.ev.dlrrMust)
	c.Add("dlrr_may_measure", w.ev.dlrrMay)
	c.Add("fir_in_fci_and_media", w.ev.firBoth)
	c.Add("fir_in_fci_only", w.ev.firFCIOnly)
	c.Add("fir_in_media_only", w.ev.firMediaOnly)
	c.Add("sr_in_from_stream", w.ev.srOwn)
	c.Add("sr_in_other_sender_naming_stream", w.ev.srOtherMention)
	c.Add("downstream_rtp_writes", w.wroteRTP)
	c.Add("downstream_rtcp_writes", w.wroteRTC)
	wraps := int64(0)
	for _, s := range w.boundStreams() {
		if s.m.inHave && s.m.inHighest/65536 > s.m.inFirst/65536 {
			wraps++
		}
	}
	c.Add("inbound_streams_crossing_seq_wrap", wraps)
	c.Max("max_ops_per_case", int64(w.opNo))
	if len(w.boundStreams()) >= 2 && w.richCp && w.cnt["queries"] > 0 {
		c.Nontrivial(w.h.Sum())
	}
	if c.WantSample() {
		from := 0
		if len(w.hist) > 6 {
			from = len(w.hist) - 6
		}
		var tail []string
		for _, f := range w.hist[from:] {
			tail = append(tail, f())
		}
		ss := []string{}
		for _, s := range w.boundStreams() {
			ss = append(ss, fmt.Sprintf("%#x", s.ssrc))
		}
		c.Sample(map[string]any{"case": c.Idx, "clock_mode": w.clk.mode, "bound_ssrcs": ss, "ops": w.opNo,
			"queries": w.cnt["queries"], "last_ops": tail})
	}
}

func scenario(c *vf.Case) {
	if c.Idx < nDirected {
		directed(c)

		return
	}
	r := c.R
	bases := []time.Time{
		time.Date(2000, 1, 1, 0, 0, 0, 0, time.UTC), time.Date(2024, 6, 1, 12, 0, 0, 123456789, time.UTC),
		time.Date(1985, 3, 9, 23, 59, 59, 999999999, time.UTC), time.Date(2034, 12, 31, 0, 0, 0, 1, time.UTC),
	}
	mode := r.Pick(0, 1, 1, 2)
	ticks := []time.Duration{time.Nanosecond, time.Microsecond, time.Millisecond, time.Second}
	w := newWorld(c, mode, bases[r.Intn(len(bases))], ticks[r.Intn(len(ticks))])
	if w == nil {
		return
	}
	ns := r.Range(1, 4)
	used := map[uint32]bool{0: true}
	newSSRC := func() uint32 {
		for {
			v := r.U32()
			if r.Chance(0.2) {
				v = uint32(r.Range(1, 9))
			}
			if !used[v] {
				used[v] = true

				return v
			}
		}
	}
	nOps := r.Range(60, 150)
	for i := 0; i < ns; i++ {
		s := &stream{ssrc: newSSRC(), clockRate: uint32(r.Pick(8000, 48000, 90000, 90000, 1, 16000, 90000, 0)), pt: uint8(r.Intn(128))}
		switch r.Intn(4) {
		case 0:
			s.local = true
		case 1:
			s.remote = true
		default:
			s.local, s.remote = true, true
		}
		start := gen.StartIndex(r)
		if r.Chance(0.3) { // a wrap within the first few packets
			start = int64(r.Pick(1, 1, 2, 3))*65536 - int64(r.Range(1, 25))
		}
		s.arr = gen.Arrivals(r, gen.RandomHistoryOpts(r, start, nOps))
		s.outIdx = gen.StartIndex(r)
		if r.Chance(0.3) {
			s.outIdx = 65536 - int64(r.Range(1, 25))
		}
		s.inTS, s.outTS = r.U32(), r.U32()
		w.streams = append(w.streams, s)
	}
	w.foreign = []uint32{0, newSSRC(), newSSRC()}
	w.h.Int(ns).Int(mode)
	rtcpBound := false
	if r.Chance(0.5) {
		w.bindRTCP()
		rtcpBound = true
	}
	for i, s := range w.streams {
		if i == 0 || r.Chance(0.6) {
			w.bind(s)
		}
	}
	if !rtcpBound {
		w.bindRTCP()
	}
	synctest.Wait()
	for w.opNo < nOps {
		switch p := r.Float(); {
		case p < 0.28:
			w.randomInRTP()
		case p < 0.50:
			w.randomOutRTP()
		case p < 0.68:
			w.inRTCP(w.genCompound(true), r.Chance(0.03))
		case p < 0.82:
			w.outRTCP(w.genCompound(false))
		case p < 0.86:
			w.srThenReport()
		case p < 0.89:
			w.rrtrThenDLRR()
		case p < 0.97:
			w.randomClock()
		default:
			for _, s := range w.streams {
				if !s.bound {
					w.bind(s)
					w.log(func() string { return fmt.Sprintf("bind %#x local=%v remote=%v", s.ssrc, s.local, s.remote) })
					w.query(nil, nil, nil)

					break
				}
			}
			w.opNo++ // guarantees progress when everything is bound already
		}
	}
	w.finish()
}

// directed plays the minimal witnesses of the defect classes the design aims at (and
// their well-behaved twins) through the same monitor. S is a local+remote stream, O a
// second bound stream.
func directed(c *vf.Case) {
	base := time.Date(2024, 6, 1, 12, 0, 0, 0, time.UTC)
	w := newWorld(c, 1, base, 0)
	if w == nil {
		return
	}
	const S, O, X = 0x1111, 0x2222, 0x9999
	s := &stream{ssrc: S, clockRate: 90000, local: true, remote: true, pt: 96}
	o := &stream{ssrc: O, clockRate: 48000, local: true, remote: true, pt: 111}
	w.streams = []*stream{s, o}
	w.foreign = []uint32{0, X}
	w.bindRTCP()
	w.bind(s)
	w.bind(o)
	w.h.Int(-1).Int(c.Idx)
	hdr := rtp.Header{Version: 2, SSRC: S, SequenceNumber: 100, PayloadType: 96}
	w.outRTP(s, hdr, []byte{1, 2, 3})
	xrS := &rtcp.ExtendedReport{SenderSSRC: X, Reports: []rtcp.ReportBlock{
		&rtcp.DLRRReportBlock{Reports: []rtcp.DLRRReport{{SSRC: S}}}}}
	switch c.Idx {
	case 0: // a NACK for S behind an XR that names S
		w.inRTCP([]rtcp.Packet{xrS, &rtcp.TransportLayerNack{SenderSSRC: X, MediaSSRC: S,
			Nacks: []rtcp.NackPair{{PacketID: 100}}}}, false)
	case 1: // same packets, XR last
		w.inRTCP([]rtcp.Packet{&rtcp.TransportLayerNack{SenderSSRC: X, MediaSSRC: S,
			Nacks: []rtcp.NackPair{{PacketID: 100}}}, xrS}, false)
	case 2: // a reception report about S behind an XR that names S
		w.inRTCP([]rtcp.Packet{xrS, &rtcp.ReceiverReport{SSRC: X, Reports: []rtcp.ReceptionReport{
			{SSRC: S, FractionLost: 64, TotalLost: 7, LastSequenceNumber: 110, Jitter: 900}}}}, false)
	case 3: // RFC 5104 FIR: media source 0, S in the FCI
		w.inRTCP([]rtcp.Packet{&rtcp.FullIntraRequest{SenderSSRC: X, MediaSSRC: 0,
			FIR: []rtcp.FIREntry{{SSRC: S, SequenceNumber: 1}}}}, false)
	case 4: // the same FIR going out (we request a key frame of remote stream S)
		w.outRTCP([]rtcp.Packet{&rtcp.FullIntraRequest{SenderSSRC: X, MediaSSRC: 0,
			FIR: []rtcp.FIREntry{{SSRC: S, SequenceNumber: 1}}}})
	case 5: // an SR sent by O that carries a report block about S
		w.inRTCP([]rtcp.Packet{&rtcp.SenderReport{SSRC: O, NTPTime: toNTP(base), PacketCount: 100, OctetCount: 5000,
			Reports: []rtcp.ReceptionReport{{SSRC: S, LastSequenceNumber: 100}}}}, false)
	case 6, 7: // S's SR, then k SRs of X that carry a report block about S, then the echo of S's SR
		k := 4
		if c.Idx == 7 {
			k = 5
		}
		own := toNTP(base)
		w.outRTCP([]rtcp.Packet{&rtcp.SenderReport{SSRC: S, NTPTime: own}})
		for i := 0; i < k; i++ {
			w.tick(10 * time.Millisecond)
			w.outRTCP([]rtcp.Packet{&rtcp.SenderReport{SSRC: X, NTPTime: toNTP(w.clk.peek()),
				Reports: []rtcp.ReceptionReport{{SSRC: S}}}})
		}
		w.tick(time.Second)
		w.inRTCP([]rtcp.Packet{&rtcp.ReceiverReport{SSRC: X, Reports: []rtcp.ReceptionReport{
			{SSRC: S, LastSequenceNumber: 100, LastSenderReport: mid32(own), Delay: 65536 / 2}}}}, false)
	}
	w.finish()
}
