// C01 – media transparency of any chain of pass-through interceptors.
//
// Monitor: a random chain (length 0..7) of the library's non-buffering interceptors plus
// 0..3 probe members, built through Registry.Build or NewChain, is bound to recording
// gates inside a virtual-time bubble and driven by ONE driver goroutine (total order):
// application RTP writes with every header shape, RTP / RTCP reads scripted to return
// packets or errors at chosen positions, application RTCP writes, NACKs / feedback that
// make members inject packets, virtual-time advances so tickers inject RTCP between
// application packets, Unbind and Close. Every application packet carries a unique id.
package c01

import (
	"bytes"
	"errors"
	"fmt"
	"testing"
	"testing/synctest"
	"time"

	"github.com/pion/interceptor"
	"github.com/pion/rtcp"
	"github.com/pion/rtp"

	"github.com/pion/interceptor/verif/gen"
	"github.com/pion/interceptor/verif/obs"
	"github.com/pion/interceptor/verif/vf"
	"github.com/pion/interceptor/verif/zoo"
)

func cases(tier string) int {
	if tier == "thorough" {
		return 100000
	}
	return 12000
}

func TestCheck(t *testing.T) {
	vf.Main(t, vf.Spec{Prop: "C01", Cases: cases, Run: run})
}

// ---- probe member ---------------------------------------------------------------------

type probe struct {
	interceptor.NoOp
	id          int
	closeErr    error
	unbindLocal map[uint32]int
	unbindRem   map[uint32]int
	closes      int
	bindsLocal  int
	bindsRemote int
	bindW, bindR int
	owned     *interceptor.Chain // closed by this probe's Close, errors wrapped
	ownedErrs []error            // the Close errors of the owned chain's members
}

func (p *probe) BindLocalStream(_ *interceptor.StreamInfo, w interceptor.RTPWriter) interceptor.RTPWriter {
	p.bindsLocal++
	return w
}

func (p *probe) BindRemoteStream(_ *interceptor.StreamInfo, r interceptor.RTPReader) interceptor.RTPReader {
	p.bindsRemote++
	return r
}

func (p *probe) BindRTCPWriter(w interceptor.RTCPWriter) interceptor.RTCPWriter { p.bindW++; return w }
func (p *probe) BindRTCPReader(r interceptor.RTCPReader) interceptor.RTCPReader { p.bindR++; return r }
func (p *probe) UnbindLocalStream(i *interceptor.StreamInfo)                    { p.unbindLocal[i.SSRC]++ }
func (p *probe) UnbindRemoteStream(i *interceptor.StreamInfo)                   { p.unbindRem[i.SSRC]++ }
func (p *probe) Close() error {
	p.closes++
	if p.owned != nil {
		// a member that owns a chain of its own and reports that chain's Close errors together with
		// its own, wrapped the way errors.Join / fmt.Errorf("%w") do
		if p.closeErr == nil {
			return fmt.Errorf("probe%d: closing owned chain: %w", p.id, p.owned.Close())
		}
		return errors.Join(p.closeErr, p.owned.Close())
	}
	return p.closeErr
}

type probeFactory struct{ p *probe }

func (f probeFactory) NewInterceptor(string) (interceptor.Interceptor, error) { return f.p, nil }

type fixedFactory struct{ i interceptor.Interceptor }

func (f fixedFactory) NewInterceptor(string) (interceptor.Interceptor, error) { return f.i, nil }

// ---- scenario -------------------------------------------------------------------------

const appRTCPMarker = 0xA9900000

type lstream struct {
	opts   zoo.StreamOpts
	info   *interceptor.StreamInfo
	gate   *obs.RTPGate
	w      interceptor.RTPWriter
	seq    uint16
	ts     uint32
	bound  bool
	sent   []appPacket
	appSetsTWCC bool
}

type rstream struct {
	opts  zoo.StreamOpts
	info  *interceptor.StreamInfo
	feed  *obs.Feed
	r     interceptor.RTPReader
	seq   uint16
	ts    uint32
	bound bool
	poisonSeq map[uint16]bool
}

type appPacket struct {
	id      uint64
	hdr     rtp.Header // clone before the call
	payload []byte
	failed  bool
	rejected bool // a member returned an error before the packet reached the next writer
}

type sc struct {
	c       *vf.Case
	r       *vf.Rand
	kinds   []zoo.Kind
	built   []*zoo.Built
	probes  []*probe
	chain   interceptor.Interceptor
	desc    string
	clk     *obs.Clock
	rtcpOut *obs.RTCPGate
	rtcpIn  *obs.Feed
	rtcpW   interceptor.RTCPWriter
	rtcpR   interceptor.RTCPReader
	ls      []*lstream
	rs      []*rstream
	nextID  uint64
	failIDs map[uint64]*obs.InjErr
	appRTCP []uint32 // markers written, in order
	failRTCP map[uint32]*obs.InjErr
	twccNext  uint16          // transport-wide numbers are shared by all remote streams
	poisonTW  map[uint16]bool // transport-wide numbers of packets whose read failed
	hasKind map[zoo.Kind]bool
	injected int
	faults   int
	stop     bool
}

// note records a violation without ending the scenario (the rest of the history is still decided).
func (s *sc) note(sig, format string, args ...any) {
	s.c.Violation(sig, "chain [%s]\n%s", s.desc, fmt.Sprintf(format, args...))
}

func (s *sc) viol(sig, format string, args ...any) {
	s.c.Violation(sig, "chain [%s]\n%s", s.desc, fmt.Sprintf(format, args...))
	s.stop = true
}

func run(c *vf.Case) {
	c.Bubble(func() { scenario(c) }, nil)
}

func scenario(c *vf.Case) {
	r := c.R
	s := &sc{c: c, r: r, clk: &obs.Clock{}, nextID: 1, failIDs: map[uint64]*obs.InjErr{}, failRTCP: map[uint32]*obs.InjErr{}, hasKind: map[zoo.Kind]bool{},
		poisonTW: map[uint16]bool{}, twccNext: uint16(r.Intn(30000))}
	// ---- chain ----
	nLib := r.Pick(0, 1, 2, 2, 3, 3, 4, 5, 6, 7)
	if c.Idx < 16 {
		nLib = c.Idx % 8
	}
	nProbe := r.Pick(0, 0, 1, 2, 3)
	type slot struct {
		kind  zoo.Kind
		probe bool
	}
	var slots []slot
	for i := 0; i < nLib; i++ {
		slots = append(slots, slot{kind: zoo.PassThrough[r.Intn(len(zoo.PassThrough))]})
	}
	for i := 0; i < nProbe; i++ {
		slots = append(slots, slot{probe: true})
	}
	for i := len(slots) - 1; i > 0; i-- { // shuffle
		j := r.Intn(i + 1)
		slots[i], slots[j] = slots[j], slots[i]
	}
	var members []interceptor.Interceptor
	var factories []interceptor.Factory
	for _, sl := range slots {
		if sl.probe {
			p := &probe{id: len(s.probes), unbindLocal: map[uint32]int{}, unbindRem: map[uint32]int{}}
			if r.Chance(0.6) {
				p.closeErr = &obs.InjErr{ID: 9000 + p.id}
			}
			if r.Chance(0.15) {
				var inner []interceptor.Interceptor
				for k := r.Range(1, 2); k > 0; k-- {
					e := &obs.InjErr{ID: 9500 + 10*p.id + k}
					inner = append(inner, &probe{id: 100 + p.id, closeErr: e, unbindLocal: map[uint32]int{}, unbindRem: map[uint32]int{}})
					p.ownedErrs = append(p.ownedErrs, e)
				}
				p.owned = interceptor.NewChain(inner)
				c.Add("probes_owning_a_chain_whose_close_errors_they_wrap", 1)
			}
			s.probes = append(s.probes, p)
			members = append(members, p)
			factories = append(factories, probeFactory{p})
			s.desc += fmt.Sprintf("probe%d ", p.id)
			continue
		}
		b, err := zoo.Build(r, sl.kind, zoo.Opts{Interval: time.Duration(r.Pick(20, 50, 100)) * time.Millisecond})
		if err != nil {
			c.Violation("build/"+sl.kind.String(), "%v", err)
			return
		}
		s.built = append(s.built, b)
		s.kinds = append(s.kinds, sl.kind)
		s.hasKind[sl.kind] = true
		members = append(members, b.I)
		factories = append(factories, fixedFactory{b.I})
		s.desc += b.Desc + " "
	}
	// a contiguous run of members wrapped into a chain of its own (a Registry.Build result used as
	// a member of an outer chain): binding order, and so every expectation below, is unchanged
	if len(members) >= 2 && r.Chance(0.3) {
		i := r.Intn(len(members) - 1)
		j := i + 1 + r.Intn(len(members)-i)
		inner := interceptor.NewChain(append([]interceptor.Interceptor(nil), members[i:j]...))
		members = append(append(append([]interceptor.Interceptor(nil), members[:i]...), inner), members[j:]...)
		factories = append(append(append([]interceptor.Factory(nil), factories[:i]...), fixedFactory{inner}), factories[j:]...)
		s.desc += fmt.Sprintf("(members %d..%d nested in an inner chain) ", i, j-1)
		c.Add("chains_with_nested_chain", 1)
	}
	viaRegistry := r.Bool()
	if viaRegistry {
		reg := &interceptor.Registry{}
		for _, f := range factories {
			reg.Add(f)
		}
		ch, err := reg.Build("pc")
		if err != nil {
			c.Violation("registry/build-error", "%v", err)
			return
		}
		s.chain = ch
		s.desc = "Registry.Build: " + s.desc
	} else {
		s.chain = interceptor.NewChain(members)
		s.desc = "NewChain: " + s.desc
	}
	if len(members) == 0 {
		s.desc += "(empty)"
	}

	// ---- bind ----
	s.rtcpOut = obs.NewRTCPGate(s.clk)
	s.rtcpOut.FailIf = func(pkts []rtcp.Packet) error {
		for _, p := range pkts {
			if pli, ok := p.(*rtcp.PictureLossIndication); ok && pli.SenderSSRC&0xFFF00000 == appRTCPMarker {
				if e := s.failRTCP[pli.SenderSSRC]; e != nil {
					return e
				}
			}
		}
		return nil
	}
	s.rtcpIn = obs.NewFeed(s.clk)
	s.rtcpW = s.chain.BindRTCPWriter(s.rtcpOut)
	s.rtcpR = s.chain.BindRTCPReader(s.rtcpIn)
	nl, nr := r.Range(1, 3), r.Range(1, 3)
	for i := 0; i < nl; i++ {
		o := zoo.RandomStream(r, uint32(1000*(i+1)))
		l := &lstream{opts: o, info: zoo.Info(o), gate: obs.NewRTPGate(s.clk, o.SSRC), seq: r.U16(), ts: r.U32(), bound: true}
		l.appSetsTWCC = o.TWCCID != 0 && (!s.hasKind[zoo.TWCCHeaderExt] || r.Chance(0.7))
		l.gate.FailIf = func(_ *rtp.Header, payload []byte) error {
			if id, ok := gen.PayloadID(payload); ok {
				if e := s.failIDs[id]; e != nil {
					return e
				}
			}
			return nil
		}
		l.w = s.chain.BindLocalStream(l.info, l.gate)
		s.ls = append(s.ls, l)
	}
	for i := 0; i < nr; i++ {
		o := zoo.RandomStream(r, uint32(3000+1000*i))
		m := &rstream{opts: o, info: zoo.Info(o), feed: obs.NewFeed(s.clk), seq: r.U16(), ts: r.U32(), bound: true, poisonSeq: map[uint16]bool{}}
		m.r = s.chain.BindRemoteStream(m.info, m.feed)
		s.rs = append(s.rs, m)
	}
	synctest.Wait()

	// ---- operations ----
	nOps := r.Range(20, 200)
	for i := 0; i < nOps && !s.stop; i++ {
		switch x := r.Intn(20); {
		case x < 8:
			s.appWrite(s.ls[r.Intn(len(s.ls))])
		case x < 13:
			s.rtpRead(s.rs[r.Intn(len(s.rs))])
		case x < 15:
			s.appRTCPWrite()
		case x < 18:
			s.rtcpRead()
		default:
			time.Sleep(time.Duration(r.Range(1, 150)) * time.Millisecond)
		}
		synctest.Wait()
	}
	if !s.stop {
		time.Sleep(300 * time.Millisecond)
		synctest.Wait()
		s.checkGates()
		s.checkPoison()
		s.lifecycle()
	} else {
		_ = s.chain.Close()
	}
	synctest.Wait()

	c.Add("chains", 1)
	c.Add("chain_members", int64(len(members)))
	c.Add("app_rtp_writes", int64(s.nextID-1))
	c.Add("injected_packets_seen_at_next_writer", int64(s.injected))
	c.Add("injected_faults", int64(s.faults))
	if viaRegistry {
		c.Add("chains_via_registry", 1)
	}
	rewriting := s.hasKind[zoo.TWCCHeaderExt] || s.hasKind[zoo.NackResponder] || s.hasKind[zoo.FlexFEC] || s.hasKind[zoo.CCNoOpPacer]
	if len(s.kinds) >= 2 && rewriting && s.injected > 0 && !s.stop {
		h := vf.NewHash().Str(s.desc)
		c.Nontrivial(h.Sum())
	}
	if c.WantSample() {
		c.Sample(map[string]any{"chain": s.desc, "ops": nOps, "app_packets": s.nextID - 1, "injected_seen": s.injected, "faults": s.faults})
	}
}

func (s *sc) appWrite(l *lstream) {
	if !l.bound {
		return
	}
	r := s.r
	l.seq++
	l.ts += uint32(r.Pick(0, 0, 3000))
	sh := gen.RandomShape(r)
	if l.opts.TWCCID != 0 && sh.ExtKind == 3 {
		sh.ExtKind = r.Pick(0, 1, 2) // a negotiated TWCC stream needs an RFC 8285 profile
	}
	if sh.Padding > 0 && sh.Padding > 200 {
		sh.Padding = 4
	}
	ssrc, pt := l.opts.SSRC, l.opts.PT
	foreign := r.Chance(0.04) && !s.hasKind[zoo.CCNoOpPacer] // the cc pacer routes by header SSRC (documented ErrUnknownStream)
	if foreign {
		ssrc, pt = 0xF0000000|r.U32()&0xffff, uint8(r.Intn(128))
		if len(s.ls) > 1 && r.Bool() {
			// ... or the SSRC of ANOTHER bound local stream: still this writer's packet, it
			// leaves through this stream's next writer
			if o := s.ls[r.Intn(len(s.ls))]; o != l && o.bound {
				ssrc = o.opts.SSRC
				s.c.Add("app_packets_carrying_another_bound_streams_ssrc", 1)
			}
		}
	}
	h := gen.Header(r, sh, ssrc, pt, l.seq, l.ts, uint8(l.opts.TWCCID))
	if l.opts.TWCCID != 0 && l.appSetsTWCC {
		ext, _ := (&rtp.TransportCCExtension{TransportSequence: uint16(s.nextID)}).Marshal()
		if !h.Extension {
			h.Extension, h.ExtensionProfile = true, rtp.ExtensionProfileOneByte
		}
		if h.ExtensionProfile == rtp.ExtensionProfileOneByte || h.ExtensionProfile == rtp.ExtensionProfileTwoByte {
			_ = h.SetExtension(uint8(l.opts.TWCCID), ext)
		}
	}
	id := s.nextID
	s.nextID++
	n := gen.PayloadLen(r, 1460-int(h.PaddingSize))
	if n < 8 {
		n = 8
	}
	if h.Padding && n+int(h.PaddingSize) > 1460 {
		n = 1460 - int(h.PaddingSize)
	}
	payload := gen.Payload(r, n, id)
	ap := appPacket{id: id, hdr: h.Clone(), payload: append([]byte(nil), payload...)}
	if r.Chance(0.06) {
		e := &obs.InjErr{ID: int(id)}
		s.failIDs[id] = e
		ap.failed = true
		s.faults++
	}
	gotN, err := l.w.Write(&h, payload, interceptor.Attributes{})
	l.sent = append(l.sent, ap)
	if !bytes.Equal(payload, ap.payload) {
		s.viol("rtp-write/payload-modified", "application payload of packet id %d was modified by Write", id)
		return
	}
	if ap.failed && err != nil && !errors.Is(err, obs.ErrInjected) && !s.reachedGate(l, id, ssrc) {
		// a member rejected the packet before it reached the failing writer
		s.note("rtp-write/uninjected-error/"+errClass(err), "app packet id %d (stream ssrc %d, header ssrc %d pt %d seq %d, %d payload bytes, hdr %+v) rejected before it reached the next writer: %v",
			id, l.opts.SSRC, ssrc, pt, l.seq, len(payload), ap.hdr, err)
		l.sent[len(l.sent)-1].rejected = true
		return
	}
	if ap.failed {
		if err == nil || !errors.Is(err, s.failIDs[id]) && !errors.Is(err, obs.ErrInjected) {
			s.viol("rtp-write/injected-error-lost", "next writer failed for app packet id %d (ssrc %d seq %d) with %v; outermost Write returned err=%v",
				id, ssrc, l.seq, s.failIDs[id], err)
		}
		return
	}
	if err != nil {
		s.note("rtp-write/uninjected-error/"+errClass(err), "app packet id %d (stream ssrc %d, header ssrc %d pt %d seq %d, %d payload bytes, hdr %+v): Write returned an error although no gate failed: %v",
			id, l.opts.SSRC, ssrc, pt, l.seq, len(payload), ap.hdr, err)
		l.sent[len(l.sent)-1].rejected = !s.reachedGate(l, id, ssrc)
		return
	}
	// n must be what the next writer returned for this packet
	for _, ev := range l.gate.Events() {
		if pid, ok := gen.PayloadID(ev.Payload); ok && pid == id && ev.Header.SSRC == ssrc {
			if ev.N != gotN {
				s.viol("rtp-write/n-differs", "app packet id %d: next writer returned n=%d, outermost Write returned n=%d", id, ev.N, gotN)
			}
			return
		}
	}
	s.viol("rtp-write/not-forwarded", "app packet id %d (ssrc %d seq %d) returned n=%d err=nil but never reached the next writer", id, ssrc, l.seq, gotN)
}

func errClass(err error) string {
	t := err.Error()
	for i := 0; i < len(t); i++ {
		if t[i] == '\n' { // errors.Join: classify by the first cause
			t = t[:i]
			break
		}
	}
	out := make([]byte, 0, len(t))
	for i := 0; i < len(t) && len(out) < 48; i++ {
		c := t[i]
		switch {
		case c >= 'A' && c <= 'Z':
			out = append(out, c+32)
		case c >= 'a' && c <= 'z':
			out = append(out, c)
		default:
			if len(out) > 0 && out[len(out)-1] != '-' {
				out = append(out, '-')
			}
		}
	}
	for len(out) > 0 && out[len(out)-1] == '-' {
		out = out[:len(out)-1]
	}
	// joined errors repeat the same text: keep the first occurrence only
	s := string(out)
	if i := indexRepeat(s); i > 0 {
		s = s[:i]
	}
	return s
}

func indexRepeat(s string) int {
	for n := 8; n <= len(s)/2; n++ {
		if s[:n] == s[n+1:min(len(s), 2*n+1)] && n+1 < len(s) && s[n] == '-' {
			return n
		}
	}
	return -1
}

// headersEqualModuloTWCC compares two headers field by field, ignoring exactly the
// negotiated TWCC extension element (and the Extension flag / profile it implies).
func headersEqualModuloTWCC(a, b rtp.Header, twccID int) string {
	if a.Version != b.Version || a.Padding != b.Padding || a.Marker != b.Marker || a.PayloadType != b.PayloadType ||
		a.SequenceNumber != b.SequenceNumber || a.Timestamp != b.Timestamp || a.SSRC != b.SSRC || a.PaddingSize != b.PaddingSize {
		return "fixed fields differ"
	}
	if len(a.CSRC) != len(b.CSRC) {
		return "CSRC count differs"
	}
	for i := range a.CSRC {
		if a.CSRC[i] != b.CSRC[i] {
			return "CSRC differs"
		}
	}
	exts := func(h rtp.Header) map[uint8][]byte {
		m := map[uint8][]byte{}
		for _, id := range h.GetExtensionIDs() {
			if int(id) == twccID && twccID != 0 {
				continue
			}
			m[id] = h.GetExtension(id)
		}
		return m
	}
	ea, eb := exts(a), exts(b)
	if len(ea) != len(eb) {
		return fmt.Sprintf("extension elements differ: %v vs %v", a.GetExtensionIDs(), b.GetExtensionIDs())
	}
	for id, v := range ea {
		if !bytes.Equal(v, eb[id]) {
			return fmt.Sprintf("extension %d differs", id)
		}
	}
	if twccID == 0 || len(ea) > 0 {
		// without the TWCC element the extension flag / profile must be unchanged, unless the
		// only thing that changed is that the TWCC element was added to a header without extensions
		if twccID == 0 && (a.Extension != b.Extension || a.ExtensionProfile != b.ExtensionProfile) {
			return "extension flag/profile differs"
		}
		if len(ea) > 0 && a.ExtensionProfile != b.ExtensionProfile {
			return "extension profile differs"
		}
	}
	return ""
}

func (s *sc) checkGates() {
	for _, l := range s.ls {
		evs := l.gate.Events()
		// packets a member rejected with an error (recorded above) are not expected downstream
		kept := l.sent[:0:0]
		for _, ap := range l.sent {
			if !ap.rejected {
				kept = append(kept, ap)
			}
		}
		l.sent = kept
		want := 0
		for _, ev := range evs {
			id, hasID := gen.PayloadID(ev.Payload)
			// is it the next expected application packet?
			isApp := false
			if hasID && want < len(l.sent) {
				// find the app packet with this id (must be the next one not yet seen)
				for k := want; k < len(l.sent); k++ {
					if l.sent[k].id == id && ev.Header.SSRC == l.sent[k].hdr.SSRC && ev.Header.PayloadType == l.sent[k].hdr.PayloadType &&
						ev.Header.SequenceNumber == l.sent[k].hdr.SequenceNumber && !seenBefore(evs, ev, id) {
						if k != want {
							s.viol("rtp-order/app-packet-out-of-order-or-lost",
								"stream ssrc %d: app packet id %d reached the next writer before id %d (written earlier) did", l.opts.SSRC, id, l.sent[want].id)
							return
						}
						isApp = true
						break
					}
				}
			}
			if isApp {
				ap := l.sent[want]
				want++
				if d := headersEqualModuloTWCC(ap.hdr, ev.Header, l.opts.TWCCID); d != "" {
					s.viol("rtp-content/header-changed", "stream ssrc %d app packet id %d: %s\n written: %+v\n at next writer: %+v", l.opts.SSRC, ap.id, d, ap.hdr, ev.Header)
					return
				}
				if !bytes.Equal(ap.payload, ev.Payload) {
					s.viol("rtp-content/payload-changed", "stream ssrc %d app packet id %d: payload differs at the next writer", l.opts.SSRC, ap.id)
					return
				}
				continue
			}
			// must be an injected kind
			s.injected++
			switch {
			case l.opts.RTX && ev.Header.SSRC == l.info.SSRCRetransmission:
			case l.opts.FEC && ev.Header.SSRC == l.info.SSRCForwardErrorCorrection:
			case hasID && isRetransmissionOf(l, ev, id):
			default:
				s.viol("rtp-injected/unexplained-packet", "stream ssrc %d: packet ssrc %d pt %d seq %d (%d payload bytes) at the next writer is neither an application packet in order nor RTX / FEC / a byte-identical retransmission",
					l.opts.SSRC, ev.Header.SSRC, ev.Header.PayloadType, ev.Header.SequenceNumber, len(ev.Payload))
				return
			}
		}
		if want != len(l.sent) {
			s.viol("rtp-order/app-packet-out-of-order-or-lost", "stream ssrc %d: %d application packets written, only %d reached the next writer in order (first missing id %d)",
				l.opts.SSRC, len(l.sent), want, l.sent[want].id)
			return
		}
	}
	// application RTCP: exactly once, in order, unmodified
	var seen []uint32
	for _, ev := range s.rtcpOut.Events() {
		for _, p := range ev.Pkts {
			if pli, ok := p.(*rtcp.PictureLossIndication); ok && pli.SenderSSRC&0xFFF00000 == appRTCPMarker {
				seen = append(seen, pli.SenderSSRC)
			}
		}
	}
	if len(seen) != len(s.appRTCP) {
		s.viol("rtcp-write/app-packet-lost-or-duplicated", "application wrote %d RTCP packets, %d reached the next RTCP writer", len(s.appRTCP), len(seen))
		return
	}
	for i := range seen {
		if seen[i] != s.appRTCP[i] {
			s.viol("rtcp-write/app-packet-reordered", "application RTCP #%d is marker %x at the next writer, written %x", i, seen[i], s.appRTCP[i])
			return
		}
	}
}

func (s *sc) reachedGate(l *lstream, id uint64, ssrc uint32) bool {
	for _, ev := range l.gate.Events() {
		if pid, ok := gen.PayloadID(ev.Payload); ok && pid == id && ev.Header.SSRC == ssrc {
			return true
		}
	}
	return false
}

func seenBefore(evs []obs.RTPEvent, cur obs.RTPEvent, id uint64) bool {
	for _, e := range evs {
		if e.Stamp >= cur.Stamp {
			return false
		}
		if pid, ok := gen.PayloadID(e.Payload); ok && pid == id && e.Header.SSRC == cur.Header.SSRC {
			return true
		}
	}
	return false
}

func isRetransmissionOf(l *lstream, ev obs.RTPEvent, id uint64) bool {
	for _, ap := range l.sent {
		if ap.id == id {
			return ev.Header.SSRC == ap.hdr.SSRC && ev.Header.SequenceNumber == ap.hdr.SequenceNumber && bytes.Equal(ev.Payload, ap.payload)
		}
	}
	return false
}

// ---- reads ----------------------------------------------------------------------------

const poisonAhead = 20000

func (s *sc) rtpRead(m *rstream) {
	if !m.bound {
		return
	}
	r := s.r
	fail := r.Chance(0.08)
	seq, ts, tw := m.seq+1, m.ts+3000, s.twccNext+1
	if r.Chance(0.1) {
		seq++ // a lost packet
	}
	if fail {
		// the poison packet left in the buffer by a failing read: far ahead, never reused
		seq, tw = m.seq+poisonAhead+uint16(len(m.poisonSeq)), s.twccNext+poisonAhead+uint16(len(s.poisonTW))
		if seq == 0 {
			// 0 is also what a receiver report says before any packet arrived: not usable as a marker
			seq = 1 // still about 20 000 ahead of anything read successfully in this history
		}
		m.poisonSeq[seq] = true
		s.poisonTW[tw] = true
	}
	sh := gen.RandomShape(r)
	if sh.ExtKind == 3 && m.opts.TWCCID != 0 {
		sh.ExtKind = 1
	}
	if sh.Padding > 64 || fail {
		sh.Padding = 0 // RFC 3550 padding travels with well-formed incoming packets too
	}
	h := gen.Header(r, sh, m.opts.SSRC, m.opts.PT, seq, ts, uint8(m.opts.TWCCID))
	if m.opts.TWCCID != 0 {
		ext, _ := (&rtp.TransportCCExtension{TransportSequence: tw}).Marshal()
		if !h.Extension {
			h.Extension, h.ExtensionProfile = true, rtp.ExtensionProfileOneByte
		}
		_ = h.SetExtension(uint8(m.opts.TWCCID), ext)
	}
	data, err := (&rtp.Packet{Header: h, Payload: r.Bytes(gen.PayloadLen(r, 1200) + 1)}).Marshal()
	if err != nil {
		return
	}
	item := obs.FeedItem{Data: data}
	var inj *obs.InjErr
	if fail {
		inj = &obs.InjErr{ID: int(s.clk.Now())}
		item.Err = inj
		item.NWithErr = r.Bool() // the failing reader may report n > 0 together with its error
		s.faults++
	} else {
		m.seq, m.ts, s.twccNext = seq, ts, tw
	}
	m.feed.Push(item)
	bufSize := len(data)
	if r.Bool() {
		bufSize += r.Range(1, 300)
	}
	buf := bytes.Repeat([]byte{0x5A}, bufSize)
	n, attr, rerr := m.r.Read(buf, interceptor.Attributes{})
	if fail {
		if rerr == nil || !errors.Is(rerr, obs.ErrInjected) {
			s.viol("rtp-read/injected-error-lost", "wrapped reader of ssrc %d failed with %v, outermost Read returned n=%d err=%v", m.opts.SSRC, inj, n, rerr)
		}
		return
	}
	if rerr != nil {
		s.viol("rtp-read/uninjected-error/"+errClass(rerr), "well-formed packet (ssrc %d seq %d, %d bytes) not handed to the application: %v", m.opts.SSRC, seq, len(data), rerr)
		return
	}
	if n != len(data) || !bytes.Equal(buf[:n], data) {
		s.viol("rtp-read/bytes-or-length-differ", "wrapped reader returned %d bytes, outermost Read returned n=%d; bytes equal=%v", len(data), n, n <= len(buf) && bytes.Equal(buf[:min(n, len(buf))], data))
		return
	}
	if attr != nil {
		cached, err := attr.GetRTPHeader(buf[:n])
		var fresh rtp.Header
		_, ferr := fresh.Unmarshal(data)
		if err != nil || ferr != nil {
			s.viol("rtp-read/attributes-header-error", "GetRTPHeader on returned attributes: %v (fresh parse: %v)", err, ferr)
			return
		}
		cb, _ := cached.Marshal()
		fb, _ := fresh.Marshal()
		if !bytes.Equal(cb, fb) {
			s.viol("rtp-read/attributes-header-differs", "header cached in the returned attributes differs from a fresh parse of the returned bytes:\n cached %+v\n fresh  %+v", *cached, fresh)
			return
		}
	}
}

func (s *sc) appRTCPWrite() {
	marker := uint32(appRTCPMarker | len(s.appRTCP)&0xFFFFF)
	pk := &rtcp.PictureLossIndication{SenderSSRC: marker, MediaSSRC: s.rs[0].opts.SSRC}
	var inj *obs.InjErr
	if s.r.Chance(0.08) {
		inj = &obs.InjErr{ID: int(marker)}
		s.failRTCP[marker] = inj
		s.faults++
	}
	s.appRTCP = append(s.appRTCP, marker)
	_, err := s.rtcpW.Write([]rtcp.Packet{pk}, interceptor.Attributes{})
	if inj != nil {
		if err == nil || !errors.Is(err, obs.ErrInjected) {
			s.viol("rtcp-write/injected-error-lost", "next RTCP writer failed with %v, outermost Write returned %v", inj, err)
		}
		return
	}
	if err != nil {
		s.viol("rtcp-write/uninjected-error/"+errClass(err), "application RTCP rejected: %v", err)
	}
}

func (s *sc) rtcpRead() {
	r := s.r
	var pkts []rtcp.Packet
	l := s.ls[r.Intn(len(s.ls))]
	switch r.Intn(4) {
	case 0, 1: // NACK for recently sent packets -> retransmissions
		if len(l.sent) > 0 {
			ap := l.sent[max(0, len(l.sent)-1-r.Intn(5))]
			pkts = append(pkts, &rtcp.TransportLayerNack{SenderSSRC: 7, MediaSSRC: l.opts.SSRC,
				Nacks: []rtcp.NackPair{{PacketID: ap.hdr.SequenceNumber, LostPackets: rtcp.PacketBitmap(r.Pick(0, 1, 3))}}})
		}
	case 2:
		pkts = append(pkts, &rtcp.SenderReport{SSRC: s.rs[0].opts.SSRC, NTPTime: r.U64(), RTPTime: r.U32()},
			&rtcp.ReceiverReport{SSRC: 7, Reports: []rtcp.ReceptionReport{{SSRC: l.opts.SSRC, LastSequenceNumber: uint32(l.seq)}}})
	default:
		recv := make([]bool, r.Range(1, 14))
		for i := range recv {
			recv[i] = true
		}
		// one status vector chunk exactly filled (no padding symbols) would need 7 entries; use a run-length chunk
		n := len(recv)
		tw := &rtcp.TransportLayerCC{Header: rtcp.Header{Count: rtcp.FormatTCC, Type: rtcp.TypeTransportSpecificFeedback},
			SenderSSRC: 7, MediaSSRC: l.opts.SSRC, BaseSequenceNumber: uint16(s.nextID) - uint16(n), PacketStatusCount: uint16(n),
			ReferenceTime: 1, PacketChunks: []rtcp.PacketStatusChunk{&rtcp.RunLengthChunk{Type: rtcp.TypeTCCRunLengthChunk, PacketStatusSymbol: rtcp.TypeTCCPacketReceivedSmallDelta, RunLength: uint16(n)}}}
		for i := 0; i < n; i++ {
			tw.RecvDeltas = append(tw.RecvDeltas, &rtcp.RecvDelta{Type: rtcp.TypeTCCPacketReceivedSmallDelta, Delta: 1000})
		}
		ln := 20 + 2 + n
		if ln%4 != 0 {
			tw.Header.Padding = true
			ln += 4 - ln%4
		}
		tw.Header.Length = uint16(ln/4 - 1)
		pkts = append(pkts, tw)
	}
	if len(pkts) == 0 {
		pkts = append(pkts, &rtcp.PictureLossIndication{SenderSSRC: 7, MediaSSRC: l.opts.SSRC})
	}
	data, err := rtcp.Marshal(pkts)
	if err != nil {
		return
	}
	item := obs.FeedItem{Data: data}
	fail := r.Chance(0.08)
	if fail {
		item.Err = &obs.InjErr{ID: int(s.clk.Now())}
		s.faults++
	}
	s.rtcpIn.Push(item)
	buf := bytes.Repeat([]byte{0x5A}, len(data)+r.Pick(0, 0, 8, 100))
	n, attr, rerr := s.rtcpR.Read(buf, interceptor.Attributes{})
	if fail {
		if rerr == nil || !errors.Is(rerr, obs.ErrInjected) {
			s.viol("rtcp-read/injected-error-lost", "wrapped RTCP reader failed, outermost Read returned n=%d err=%v", n, rerr)
		}
		return
	}
	if rerr != nil {
		s.viol("rtcp-read/uninjected-error/"+errClass(rerr), "well-formed RTCP (%T…) not handed to the application: %v", pkts[0], rerr)
		return
	}
	if n != len(data) || !bytes.Equal(buf[:n], data) {
		s.viol("rtcp-read/bytes-or-length-differ", "wrapped RTCP reader returned %d bytes, outermost Read returned n=%d", len(data), n)
		return
	}
	if attr != nil {
		if cached, err := attr.GetRTCPPackets(buf[:n]); err == nil {
			cb, e1 := rtcp.Marshal(cached)
			if e1 == nil && !bytes.Equal(cb, data) {
				s.viol("rtcp-read/attributes-packets-differ", "packets cached in the returned attributes do not marshal to the bytes returned")
			}
		}
	}
}

// checkPoison: a packet whose read failed is not accounted in any generated feedback.
// The poison packets carry sequence numbers / transport-wide numbers that no successfully
// read packet ever carries, so membership is exact.
func (s *sc) checkPoison() {
	streams := map[uint32]*rstream{}
	for _, m := range s.rs {
		streams[m.opts.SSRC] = m
	}
	for _, ev := range s.rtcpOut.Events() {
		for _, p := range ev.Pkts {
			bad := ""
			switch v := p.(type) {
			case *rtcp.ReceiverReport:
				for _, rep := range v.Reports {
					if m := streams[rep.SSRC]; m != nil && m.poisonSeq[uint16(rep.LastSequenceNumber)] {
						bad = fmt.Sprintf("receiver report for ssrc %d: extended highest seq %d is the packet whose read failed", rep.SSRC, uint16(rep.LastSequenceNumber))
					}
				}
			case *rtcp.TransportLayerNack:
				if m := streams[v.MediaSSRC]; m != nil {
					for _, np := range v.Nacks {
						for _, q := range np.PacketList() {
							if int16(q-m.seq) > 0 {
								bad = fmt.Sprintf("NACK for ssrc %d seq %d, which lies ahead of the highest successfully read seq %d (gap opened by a packet whose read failed)", v.MediaSSRC, q, m.seq)
							}
						}
					}
				}
			case *rtcp.CCFeedbackReport:
				for _, b := range v.ReportBlocks {
					if m := streams[b.MediaSSRC]; m != nil {
						for i, mb := range b.MetricBlocks {
							if mb.Received && m.poisonSeq[b.BeginSequence+uint16(i)] {
								bad = fmt.Sprintf("RFC 8888 block for ssrc %d marks seq %d received, the packet whose read failed", b.MediaSSRC, b.BeginSequence+uint16(i))
							}
						}
					}
				}
			case *rtcp.TransportLayerCC:
				num := v.BaseSequenceNumber
				left := int(v.PacketStatusCount)
				for _, ch := range v.PacketChunks {
					var syms []uint16
					switch c := ch.(type) {
					case *rtcp.RunLengthChunk:
						for i := 0; i < int(c.RunLength); i++ {
							syms = append(syms, c.PacketStatusSymbol)
						}
					case *rtcp.StatusVectorChunk:
						syms = c.SymbolList
					}
					for _, sym := range syms {
						if left <= 0 {
							break
						}
						if sym != rtcp.TypeTCCPacketNotReceived && s.poisonTW[num] {
							bad = fmt.Sprintf("TWCC feedback marks transport-wide number %d received, the packet whose read failed", num)
						}
						num++
						left--
					}
				}
			}
			if bad != "" {
				s.viol(fmt.Sprintf("feedback/accounts-packet-whose-read-failed/%T", p), "%s", bad)
				return
			}
		}
	}
}

// lifecycle: Unbind every stream once, Close once; probes must see exactly that.
func (s *sc) lifecycle() {
	for _, l := range s.ls {
		s.chain.UnbindLocalStream(l.info)
		l.bound = false
	}
	for _, m := range s.rs {
		s.chain.UnbindRemoteStream(m.info)
		m.bound = false
	}
	err := s.chain.Close()
	synctest.Wait()
	if ch := s.rtcpOut.ChangedAfterWrite(); ch != "" {
		s.viol("rtcp-write/packet-changed-after-it-was-written", "an RTCP packet object handed to the next writer reads differently at the end of the history: %s", ch)
		return
	}
	anyErr := false
	for _, p := range s.probes {
		if p.bindW != 1 || p.bindR != 1 || p.bindsLocal != len(s.ls) || p.bindsRemote != len(s.rs) {
			s.viol("lifecycle/bind-count", "probe%d saw BindRTCPWriter x%d BindRTCPReader x%d BindLocalStream x%d (want %d) BindRemoteStream x%d (want %d)",
				p.id, p.bindW, p.bindR, p.bindsLocal, len(s.ls), p.bindsRemote, len(s.rs))
			return
		}
		for _, l := range s.ls {
			if p.unbindLocal[l.opts.SSRC] != 1 {
				s.viol("lifecycle/unbind-count", "probe%d saw UnbindLocalStream(%d) x%d, want exactly once", p.id, l.opts.SSRC, p.unbindLocal[l.opts.SSRC])
				return
			}
		}
		for _, m := range s.rs {
			if p.unbindRem[m.opts.SSRC] != 1 {
				s.viol("lifecycle/unbind-count", "probe%d saw UnbindRemoteStream(%d) x%d, want exactly once", p.id, m.opts.SSRC, p.unbindRem[m.opts.SSRC])
				return
			}
		}
		if p.closes != 1 {
			s.viol("lifecycle/close-count", "probe%d saw Close x%d, want exactly once", p.id, p.closes)
			return
		}
		if p.closeErr != nil {
			anyErr = true
			if err == nil || !errors.Is(err, p.closeErr) {
				s.viol("lifecycle/close-error-lost", "probe%d returned %v from Close; chain.Close() returned %v", p.id, p.closeErr, err)
				return
			}
		}
		for _, oe := range p.ownedErrs {
			anyErr = true
			if err == nil || !errors.Is(err, oe) {
				s.viol("lifecycle/close-error-lost", "probe%d wrapped %v (from a chain it owns) into its Close error; chain.Close() returned %v", p.id, oe, err)
				return
			}
		}
	}
	if !anyErr && err != nil {
		s.viol("lifecycle/close-error-invented", "no member returned an error from Close, chain.Close() returned %v", err)
	}
}
