// C07 – sender reports count what was sent and map RTP time to wall time.
//
// Monitor: the real report.SenderInterceptor runs inside a synctest bubble (virtual time).
// A recording RTCPWriter is bound (this starts the ticker loop at a known virtual instant
// T0), 1..3 local streams are bound (before the writer, right after it, or in the middle of
// the run) and a generated send history is written through the RTPWriters returned by
// BindLocalStream (downstream = a recording gate). Send instants are odd multiples of
// 0.5 us after the origin of the run, tick instants are multiples of 1 us, so a send is
// never placed at a tick instant and "before the tick" is never a tie. The origin is the
// start of the bubble plus a per-case shift of 0..1 s in ns steps, and injected clocks get a
// matching epoch, such that report instants regularly read x.999999000..x.999999999,
// x.000000xxx, and the neighbourhoods of .5, .25, k/65536 and k*2^-21 s on the interceptor's
// clock (where a float conversion of the instant rounds across a boundary); injected epochs
// include 1970..1972, 2035 and the last minutes of NTP era 0.
//
// The oracle (model_test.go) is an integer model written from the statement. It is fed by
// the driver with every packet handed to a stream's writer; the recording RTCP writer
// snapshots the model's state of the reported stream at the instant the report is written
// (no goroutine of the bubble runs at any other virtual instant than the one it was woken
// at, and sends and ticks never share an instant), and every field of every sender report
// is decided against that snapshot afterwards.
//
// Clock / ticker variants: the library's defaults (time.Now / time.NewTicker = virtual
// time), SenderNow-injected clocks (other epoch, speed num/den, coarse resolution) and
// SenderTicker-injected tickers fired by the driver at arbitrary instants (directly after an
// out-of-order send, between two packets of a frame, two ticks 1 us apart, hours apart).
//
// Case kinds:
//
//	general  1..3 streams, reordering / retransmissions / never-sent numbers / jumps up to
//	         32767, sequence wrap, frames of 1..20 packets, timestamp plans (0, 2^32 wrap,
//	         backwards steps, noise, constant), payload 0..1460, foreign SSRCs
//	silence  a few packets, then hours without one: elapsed*rate exceeds 2^32
//	dense    ~3.1 million packets of (mostly) 1460 bytes: the octet count passes 2^32
package c07

import (
	"fmt"
	"runtime"
	"sort"
	"sync"
	"testing"
	"testing/synctest"
	"time"

	"github.com/pion/interceptor"
	"github.com/pion/interceptor/pkg/report"
	"github.com/pion/rtcp"
	"github.com/pion/rtp"

	"github.com/pion/interceptor/verif/gen"
	"github.com/pion/interceptor/verif/vf"
)

func cases(tier string) int {
	if tier == "thorough" {
		return 60000
	}
	return 1500
}

func TestCheck(t *testing.T) {
	vf.Main(t, vf.Spec{Prop: "C07", Cases: cases, Run: run})
}

const (
	kGeneral = iota
	kSilence
	kDense
)

var kindNames = []string{"general", "silence", "dense"}

// last instant of NTP era 0 (2036-02-07 06:28:16 UTC) as Unix seconds: the oracle for the
// NTP field is only defined inside era 0 (same domain as C20).
const era0EndUnix = int64(1)<<32 - 2208988800

// ---------------------------------------------------------------------------------
// scenario

type send struct {
	idx     int64  // true index; sequence number = uint16(idx)
	frame   int32  // frame number inside the stream (packets of a frame share ts)
	ts      uint32 // RTP timestamp
	plen    int32  // payload length
	at      int64  // virtual ns after the start of the bubble (odd multiple of 500 ns)
	foreign bool   // header carries an SSRC that is not the stream's (and not bound at all)
	ssrc    uint32 // SSRC in the header
}

type streamScn struct {
	ssrc   uint32
	rate   uint32
	pt     uint8
	shaped bool
	shape  gen.Shape
	bindAt int64 // virtual ns after bubble start at which BindLocalStream is called
	sends  []send
}

type denseScn struct {
	n       int
	start   int64
	base    uint32
	step    uint32
	gapUs   int
	t0      int64 // first send instant
	seed    *vf.Rand
	dupProb float64
}

type scenario struct {
	kind      int
	useLatest bool
	interval  time.Duration // 0 = library default (1 s)
	ivNs      int64
	manual    bool    // SenderTicker injected; ticks fired by the driver
	ticks     []int64 // manual tick instants (ns after bubble start, multiples of 1000)
	injected  bool    // SenderNow injected
	num, den  int64   // injected clock speed
	quantum   int64   // injected clock resolution (ns)
	epoch     time.Time
	pre       int64 // virtual ns (after the origin) before BindRTCPWriter (= T0)
	shift     int64 // virtual ns slept before the origin: moves the ns field of every instant of the run
	anchorF   int64 // the ns-of-second the anchored report instant is aimed at (-1: none)
	anchorV   int64 // the tick instant (ns after the origin) that is aimed
	streams   []*streamScn
	dense     *denseScn
	end       int64 // virtual ns after bubble start at which the run stops
}

// injNs maps virtual ns since bubble start to injected-clock ns since the epoch.
func (s *scenario) injNs(v int64) int64 {
	x := v / s.den * s.num
	x += v % s.den * s.num / s.den
	return x - x%s.quantum
}

// clockNs is the reading (Unix ns) of the interceptor's configured clock at virtual
// instant v after the start of the bubble.
func (s *scenario) clockNs(bubbleStartUnixNs, v int64) int64 {
	if !s.injected {
		return bubbleStartUnixNs + v
	}
	return s.epoch.UnixNano() + s.injNs(v)
}

func stepFor(r *vf.Rand, rate uint32) uint32 {
	switch rate {
	case 8000:
		return uint32(r.Pick(160, 80, 240))
	case 48000:
		return uint32(r.Pick(960, 480, 2880))
	case 90000:
		return uint32(r.Pick(3000, 3600, 1500, 9000))
	}
	if rate/50 < 4 {
		return 4
	}
	return rate / 50
}

type pk struct {
	idx   int64
	frame int32
	ts    uint32
	plen  int32
}

// buildPackets lays out the packets a sender has prepared: consecutive true indices (with
// optional jumps), grouped in frames of 1..20 packets that share a timestamp. Distinct
// frames get distinct timestamps (the total advance stays far below 2^32), except in the
// `constant` plan where the whole stream is one frame.
func buildPackets(r *vf.Rand, rate uint32, n int) []pk {
	start := gen.StartIndex(r)
	if r.Chance(0.3) {
		start = 65536 - int64(r.Range(1, max(1, n))) // the 16-bit wrap falls inside the history
	}
	multiP := []float64{0, 0.2, 0.5, 0.9}[r.Intn(4)]
	jumpP, jumpKind := 0.0, 0
	switch q := r.Intn(10); {
	case q < 6:
	case q < 9:
		jumpP, jumpKind = 0.01, r.Pick(10, 100, 1000)
	default:
		jumpP, jumpKind = 0.02, -1 // steps at and just below the half range
	}
	var pks []pk
	cur := start
	f := int32(0)
	for len(pks) < n {
		size := 1
		if r.Chance(multiP) {
			size = r.Range(2, 20)
		}
		for j := 0; j < size; j++ {
			if len(pks) > 0 && jumpP > 0 && r.Chance(jumpP) {
				d := 2
				if jumpKind > 0 {
					d = r.Range(2, jumpKind)
				} else {
					d = r.Pick(32767, 32767, 32766, 32760, 16384, 16385, r.Range(30000, 32767))
				}
				cur += int64(d - 1)
			}
			pks = append(pks, pk{idx: cur, frame: f, plen: int32(gen.PayloadLen(r, 1460))})
			cur++
		}
		f++
	}
	nFrames := int(f)
	step := stepFor(r, rate)
	mode := 0
	switch q := r.Intn(20); {
	case q < 12:
	case q < 15:
		mode = 1 // groups of four frames sent in order 0,3,1,2: timestamps step backwards
	case q < 19:
		mode = 2 // per-frame noise of less than half a step
	default:
		mode = 3 // constant: one frame
	}
	adv := uint64(nFrames+4) * uint64(step)
	var base uint32
	switch q := r.Intn(100); {
	case q < 12:
		base = 0
	case q < 40: // the 2^32 wrap falls inside the history
		base = uint32(-int64(1 + r.U64()%adv))
	case q < 47:
		base = uint32(r.Pick(-1, -2, 1))
	case q < 55 && nFrames > 1: // a later frame carries timestamp 0
		base = uint32(-int64(r.Range(1, nFrames-1)) * int64(step))
	default:
		base = r.U32()
	}
	noiseSeed := r.U64()
	tsOf := func(fr int32) uint32 {
		switch mode {
		case 1:
			perm := [4]int32{0, 3, 1, 2}
			return base + uint32(fr-fr%4+perm[fr%4])*step
		case 2:
			if fr == 0 || step < 4 {
				return base + uint32(fr)*step
			}
			half := int64(step/2) - 1
			nz := int64(mix64(noiseSeed^uint64(fr))%uint64(2*half+1)) - half
			return base + uint32(fr)*step + uint32(nz)
		case 3:
			return base
		}
		return base + uint32(fr)*step
	}
	for i := range pks {
		if mode == 3 {
			pks[i].frame = 0
		}
		pks[i].ts = tsOf(pks[i].frame)
	}
	return pks
}

func mix64(z uint64) uint64 {
	z += 0x9e3779b97f4a7c15
	z = (z ^ (z >> 30)) * 0xbf58476d1ce4e5b9
	z = (z ^ (z >> 27)) * 0x94d049bb133111eb
	return z ^ (z >> 31)
}

// sendOrder returns the order (positions into pks, possibly repeated, possibly skipping
// some) in which the packets are handed to the writer.
func sendOrder(r *vf.Rand, n int) []int64 {
	o := gen.RandomHistoryOpts(r, 0, n)
	o.JumpProb = 0
	order := gen.Arrivals(r, o)
	if len(order) >= 2 && r.Chance(0.15) {
		order[0], order[1] = order[1], order[0] // the very first send is not the oldest packet
	}
	if len(order) >= 3 && r.Chance(0.3) {
		// retransmissions of packets sent (much) earlier
		for k := r.Range(1, 5); k > 0; k-- {
			j := r.Range(1, len(order)-1)
			old := order[r.Intn(j)]
			order = append(order, 0)
			copy(order[j+1:], order[j:])
			order[j] = old
		}
	}
	return order
}

// nextTickUs is the first periodic tick instant (us after bubble start) strictly after curUs.
func (s *scenario) nextTickUs(curUs int64) int64 {
	preUs, ivUs := s.pre/1000, s.ivNs/1000
	if curUs < preUs {
		return preUs + ivUs
	}
	return preUs + ((curUs-preUs)/ivUs+1)*ivUs
}

// placeTimes assigns send instants and drops sends 2^15 or more away from the newest
// number sent so far (undecidable in 16 bits, outside "out-of-order").
func placeTimes(r *vf.Rand, s *scenario, st *streamScn, pks []pk, order []int64, meanGapUs, t0us int64, foreignP float64, foreignSSRC []uint32) {
	curUs := t0us
	ivUs := s.ivNs / 1000
	pSpecial := 0.03
	if n := float64(len(order)); n > 300 {
		pSpecial = 9 / n
	}
	var newest int64
	for i, pos := range order {
		p := pks[pos]
		if i > 0 {
			switch q := r.Float(); {
			case q < 0.14: // same instant as the previous send
			case q < 0.14+pSpecial: // long silence: one or more ticks with nothing between
				curUs += ivUs*int64(r.Range(1, 3)) + int64(r.Intn(int(ivUs)))
			case q < 0.14+2*pSpecial && !s.manual: // 0.5 us before the next tick
				curUs = s.nextTickUs(curUs) - 1
			case q < 0.14+3*pSpecial && !s.manual: // 0.5 us after the next tick
				curUs = s.nextTickUs(curUs)
			default:
				curUs += int64(r.Intn(int(2*meanGapUs) + 1))
			}
			if d := p.idx - newest; d >= 1<<15 || d <= -(1<<15) {
				continue
			}
		}
		if i == 0 || p.idx > newest {
			newest = p.idx
		}
		sd := send{idx: p.idx, frame: p.frame, ts: p.ts, plen: p.plen, at: curUs*1000 + 500, ssrc: st.ssrc}
		if foreignP > 0 && r.Chance(foreignP) {
			sd.foreign = true
			sd.ssrc = foreignSSRC[r.Intn(len(foreignSSRC))]
		}
		st.sends = append(st.sends, sd)
	}
}

func buildScenario(r *vf.Rand, idx int) *scenario {
	s := &scenario{kind: kGeneral, num: 1, den: 1, quantum: 1}
	switch {
	case idx%2000 == 7:
		s.kind = kDense
	case r.Intn(100) < 12:
		s.kind = kSilence
	}
	s.useLatest = r.Chance(0.4)
	switch r.Intn(5) {
	case 0:
		s.interval = 0 // library default: 1 s
		s.ivNs = int64(time.Second)
	case 1:
		s.interval = 50 * time.Millisecond
	case 2:
		s.interval = 200 * time.Millisecond
	case 3:
		s.interval = 5 * time.Second
	default:
		s.interval = time.Duration(r.Range(1, 3000)) * time.Millisecond
	}
	if s.interval != 0 {
		s.ivNs = int64(s.interval)
	}
	if s.kind != kDense && r.Chance(0.3) {
		s.manual = true
	}
	s.pre = int64(r.Intn(3000)) * int64(time.Millisecond)

	nStreams := r.Range(1, 3)
	if s.kind == kDense {
		nStreams = 1
	}
	ssrcs := map[uint32]bool{}
	for len(s.streams) < nStreams {
		ssrc := r.U32()
		if r.Chance(0.2) {
			ssrc = uint32(r.Pick(0, 1, 0xffffffff))
		}
		if ssrcs[ssrc] {
			continue
		}
		ssrcs[ssrc] = true
		rate := uint32(r.Pick(8000, 48000, 90000))
		if r.Chance(0.15) {
			rate = uint32(r.Pick(1000, 16000, 44100, 96000))
		}
		st := &streamScn{ssrc: ssrc, rate: rate, pt: uint8(r.Intn(128))}
		if r.Chance(0.3) && s.kind != kDense {
			st.shaped = true
			st.shape = gen.RandomShape(r)
			// padding flag and count are header fields: the payload handed to Write never contains
			// the padding, so the octet count is still the sum of the payload lengths
		}
		s.streams = append(s.streams, st)
	}
	var foreignSSRC []uint32
	for len(foreignSSRC) < 3 {
		v := s.streams[r.Intn(len(s.streams))].ssrc ^ uint32(1)<<uint(r.Intn(32))
		if r.Bool() {
			v = r.U32()
		}
		if !ssrcs[v] {
			foreignSSRC = append(foreignSSRC, v)
		}
	}

	if s.kind == kSilence {
		// the silence must let elapsed*rate pass 2^32 for the slowest clock of the case
		minRate := s.streams[0].rate
		for _, st := range s.streams {
			minRate = min(minRate, st.rate)
		}
		durS := int64(float64(uint64(1)<<32/uint64(minRate)) * (1.05 + 2*r.Float()))
		ivMs := durS * 1000 / int64(r.Range(3, 30))
		s.interval = time.Duration(ivMs) * time.Millisecond
		s.ivNs = int64(s.interval)
	}

	var last int64
	for _, st := range s.streams {
		switch s.kind {
		case kDense:
			st.bindAt = 0
			d := &denseScn{n: r.Range(3050000, 3150000), start: 65536 - int64(r.Range(1, 5000)), step: stepFor(r, st.rate),
				gapUs: r.Range(2, 6), seed: r.Fork(), dupProb: 0.0005}
			d.base = r.U32()
			if r.Bool() {
				d.base = uint32(-int64(r.Intn(d.n/12) * int(d.step)))
			}
			d.t0 = s.pre + int64(r.Intn(2000000))*1000 + 500
			s.dense = d
			last = d.t0 + int64(d.n)*int64(d.gapUs)*1000 // upper bound; the driver reports the real end
			continue
		}
		n := r.Range(20, 1200)
		if r.Chance(0.25) || s.kind == kSilence {
			n = r.Range(1, 40)
		}
		pks := buildPackets(r, st.rate, n)
		order := sendOrder(r, len(pks))
		meanTicks := int64(r.Range(3, 40))
		if s.kind == kSilence {
			meanTicks = 1
		}
		meanGapUs := max(1, meanTicks*s.ivNs/1000/int64(len(order)))
		if s.kind == kSilence {
			meanGapUs = int64(r.Pick(20, 2000, 200000)) // everything is sent in the first moments
		}
		var t0us int64
		ivUs := s.ivNs / 1000
		if s.kind == kSilence {
			ivUs = 1000000
		}
		switch r.Intn(10) {
		case 0, 1, 2, 3: // bound before BindRTCPWriter; may send before the loop runs
			t0us = int64(r.Intn(int(2*ivUs) + 1))
			st.bindAt = 0
		case 4, 5, 6: // bound right after BindRTCPWriter
			t0us = s.pre/1000 + int64(r.Intn(int(2*ivUs)+1))
			st.bindAt = s.pre + 500
		default: // bound in the middle of the run, immediately before its first send
			t0us = s.pre/1000 + int64(r.Intn(int(meanTicks*ivUs)+1))
			st.bindAt = -1
		}
		foreignP := 0.0
		if r.Chance(0.15) {
			foreignP = []float64{0.02, 0.1, 0.5}[r.Intn(3)]
		}
		placeTimes(r, s, st, pks, order, meanGapUs, t0us, foreignP, foreignSSRC)
		if st.bindAt < 0 {
			st.bindAt = st.sends[0].at
			if r.Bool() {
				st.bindAt -= int64(r.Range(1, 5000)) * 1000
				if st.bindAt < 500 {
					st.bindAt = 500
				}
			}
		}
		if st.bindAt > st.sends[0].at {
			st.bindAt = st.sends[0].at
		}
		last = max(last, st.sends[len(st.sends)-1].at)
	}

	// stop 1..3 intervals after the last send (two ticks with nothing between), off a tick
	k := int64(0)
	if last > s.pre {
		k = (last - s.pre) / s.ivNs
	}
	s.end = s.pre + (k+int64(r.Range(1, 3)))*s.ivNs + 500
	if s.kind == kSilence {
		s.end = s.pre + int64(r.Range(3, 30)+1)*s.ivNs + 500
		for s.end <= last {
			s.end += s.ivNs
		}
	}

	if s.manual {
		s.buildManualTicks(r, last)
	}

	if r.Chance(0.4) {
		s.injected = true
		switch r.Intn(5) {
		case 0:
			s.num, s.den = 3, 2
		case 1:
			s.num, s.den = 1, 2
		case 2:
			s.num, s.den = 1000, 1001
		case 3:
			s.num, s.den = 2, 1
		}
		s.quantum = int64(r.Pick(1, 1, 1000, 1000000, 10000000))
		// keep every reading inside NTP era 0
		span := s.end/s.den*s.num/int64(time.Second) + 10
		var sec int64
		switch r.Intn(8) {
		case 0:
			sec = 0
		case 1: // 1970..1972
			sec = int64(r.Intn(63072000))
		case 2:
			sec = 1000000000
		case 3:
			sec = 2000000000
		case 4, 5: // 2035, late in NTP era 0
			sec = 2051222400 + int64(r.Intn(31536000))
		case 6: // the last minutes of era 0
			sec = era0EndUnix - int64(r.Range(1, 1000))
		default:
			sec = int64(r.Intn(int(era0EndUnix)))
		}
		if sec+span >= era0EndUnix {
			sec = era0EndUnix - span - int64(r.Range(1, 1000))
		}
		s.epoch = time.Unix(sec, int64(r.Intn(1000000000)))
	}
	s.anchor(r)
	return s
}

// sensitiveFraction draws a ns-of-second at which a float conversion of the instant is
// prone to rounding across a boundary: the last microsecond of a second (whole range
// 999999000..999999999), the first microsecond after it, and the neighbourhoods of .5, .25,
// multiples of 1/65536 s, of 2^-21 s (the float64 resolution of NTP-era seconds) and of 1 ms.
func sensitiveFraction(r *vf.Rand) int64 {
	near := func(c int64, w int) int64 {
		return ((c+int64(r.Range(-w, w)))%1000000000 + 1000000000) % 1000000000
	}
	switch q := r.Intn(100); {
	case q < 25:
		return 999999000 + int64(r.Intn(1000))
	case q < 40:
		return 999999600 + int64(r.Intn(400))
	case q < 55:
		return int64(r.Pick(0, 0, 1, r.Intn(1000)))
	case q < 65:
		return near(500000000, r.Pick(0, 1, 300, 1000))
	case q < 73:
		return near(int64(r.Pick(250000000, 750000000, 125000000, 875000000, 62500000)), r.Pick(0, 1, 300, 1000))
	case q < 86:
		k := int64(r.Range(1, 65535))
		return near((k*1000000000+32768)/65536, r.Pick(0, 1, 2, 300))
	case q < 94:
		k := int64(r.Range(1, 1<<21-1))
		return near(k*1000000000>>21, r.Pick(0, 1, 250))
	default:
		return near(int64(r.Range(1, 999))*1000000, r.Pick(0, 1, 500))
	}
}

// anchor aims one report instant of the run (every one when the interval is a whole number
// of seconds and the clock runs at speed 1) at a rounding-sensitive ns-of-second of the
// interceptor's clock: for the virtual clock by sleeping `shift` ns before the run starts
// (the bubble's clock starts at a whole second; all instants of the run are relative to the
// origin after that sleep, so sends stay off the ticks), for a SenderNow clock through the
// ns field of its epoch. With an injected ticker further ticks are added 1 us before and
// after the aimed one and whole seconds away from it.
func (s *scenario) anchor(r *vf.Rand) {
	s.anchorF = -1
	if !r.Chance(0.8) {
		return
	}
	if s.manual {
		if len(s.ticks) == 0 {
			return
		}
		s.anchorV = s.ticks[r.Intn(len(s.ticks))]
	} else {
		n := (s.end - s.pre) / s.ivNs
		if s.kind == kDense {
			n = 4
		}
		if n < 1 {
			return
		}
		s.anchorV = s.pre + int64(r.Range(1, int(n)))*s.ivNs
	}
	F := sensitiveFraction(r)
	s.anchorF = F
	mod := func(x int64) int64 { return (x%1000000000 + 1000000000) % 1000000000 }
	if s.injected {
		sec := s.epoch.Unix()
		s.epoch = time.Unix(sec, mod(F-s.injNs(s.anchorV)))
	} else {
		s.shift = mod(F - s.anchorV)
	}
	if s.manual && s.num == s.den && s.quantum == 1 {
		set := map[int64]bool{}
		for _, t := range s.ticks {
			set[t] = true
		}
		for k := r.Range(2, 6); k > 0; k-- {
			t := s.anchorV + int64(r.Pick(-1000, 1000, 1000, 2000, 0, 0))
			t += int64(r.Range(-3, 3)) * 1000000000 * int64(r.Pick(0, 1, 1))
			if t > s.pre && !set[t] {
				set[t] = true
				s.ticks = append(s.ticks, t)
			}
		}
		sort.Slice(s.ticks, func(i, j int) bool { return s.ticks[i] < s.ticks[j] })
		if n := len(s.ticks); s.ticks[n-1]+500 > s.end {
			s.end = s.ticks[n-1] + 500
		}
	}
}

// buildManualTicks chooses the instants (multiples of 1 us, > T0) at which the driver
// fires the injected ticker.
func (s *scenario) buildManualTicks(r *vf.Rand, last int64) {
	var all, ooo []int64
	for _, st := range s.streams {
		var newest int64
		for i, sd := range st.sends {
			all = append(all, sd.at)
			if i > 0 && sd.idx < newest {
				ooo = append(ooo, sd.at)
			}
			if i == 0 || sd.idx > newest {
				newest = sd.idx
			}
		}
	}
	set := map[int64]bool{}
	add := func(t int64) {
		if t > s.pre && t%1000 == 0 {
			set[t] = true
		}
	}
	n := r.Range(3, 40)
	var prev int64
	for i := 0; i < n; i++ {
		var t int64
		switch q := r.Intn(100); {
		case q < 35 && len(all) > 0:
			t = all[r.Intn(len(all))] + 500 // right after a send
		case q < 50 && len(ooo) > 0:
			t = ooo[r.Intn(len(ooo))] + 500 // right after an out-of-order send
		case q < 65 && prev > 0:
			t = prev + 1000 // two ticks with nothing between
		case q < 75 && len(all) > 0:
			t = all[r.Intn(len(all))] - 500 // right before a send
		default:
			t = int64(r.U64()%uint64(s.end/1000+1)) * 1000
		}
		add(t)
		prev = t
	}
	// ticks after the last send
	t := max(last, s.pre) + 500
	for k := r.Range(1, 3); k > 0; k-- {
		t += int64(r.Range(1, 3)) * s.ivNs / int64(r.Pick(1, 1, 7, 1000))
		t -= t % 1000
		add(t)
	}
	if s.kind == kSilence {
		for k := r.Range(2, 8); k > 0; k-- {
			add(int64(r.U64()%uint64(s.end/1000+1)) * 1000)
		}
		add(s.end - 500 - 1000*int64(r.Intn(1000)))
	}
	for t := range set {
		s.ticks = append(s.ticks, t)
	}
	sort.Slice(s.ticks, func(i, j int) bool { return s.ticks[i] < s.ticks[j] })
	if n := len(s.ticks); n > 0 && s.ticks[n-1]+500 > s.end {
		s.end = s.ticks[n-1] + 500
	}
}

// ---------------------------------------------------------------------------------
// gates

// rtpGate is the recording downstream RTP writer of one stream.
type rtpGate struct {
	mu      sync.Mutex
	calls   int64
	bytes   int64
	lastSeq uint16
	lastHdr *rtp.Header
}

func (g *rtpGate) Write(h *rtp.Header, payload []byte, _ interceptor.Attributes) (int, error) {
	g.mu.Lock()
	g.calls++
	g.bytes += int64(len(payload))
	g.lastHdr = h
	if h != nil {
		g.lastSeq = h.SequenceNumber
	}
	g.mu.Unlock()
	if h == nil {
		return len(payload), nil
	}
	return h.MarshalSize() + len(payload), nil
}

// obsSR is one sender report as written, with the model's state of that stream at the
// instant of writing.
type obsSR struct {
	v       int64 // virtual ns after bubble start
	sr      rtcp.SenderReport
	nPkts   int
	known   bool
	snap    streamState
	nBlocks int
	ptr     *rtcp.SenderReport // the object the interceptor handed over (a writer may queue it)
}

type recWriter struct {
	mon         *monitor
	bubbleStart time.Time
	obs         []obsSR // guarded by mon.mu
	other       map[string]int
}

func (w *recWriter) Write(pkts []rtcp.Packet, _ interceptor.Attributes) (int, error) {
	v := int64(time.Since(w.bubbleStart))
	w.mon.mu.Lock()
	defer w.mon.mu.Unlock()
	for _, p := range pkts {
		sr, ok := p.(*rtcp.SenderReport)
		if !ok || sr == nil {
			w.other[fmt.Sprintf("%T", p)]++
			continue
		}
		o := obsSR{v: v, nPkts: len(pkts), nBlocks: len(sr.Reports), ptr: sr}
		o.sr = rtcp.SenderReport{SSRC: sr.SSRC, NTPTime: sr.NTPTime, RTPTime: sr.RTPTime, PacketCount: sr.PacketCount, OctetCount: sr.OctetCount}
		if m := w.mon.bySSRC[sr.SSRC]; m != nil {
			o.known = true
			o.snap = m.streamState
		}
		w.obs = append(w.obs, o)
	}
	return 0, nil
}

type manualTicker struct {
	ch      chan time.Time
	created int
	stopped int
	d       time.Duration
}

func (t *manualTicker) Ch() <-chan time.Time { return t.ch }
func (t *manualTicker) Stop()                { t.stopped++ }

// ---------------------------------------------------------------------------------
// driver

const (
	evBindStream = iota
	evBindWriter
	evSend
	evTick
)

type event struct {
	at     int64
	kind   int
	stream int
	i      int
}

func run(c *vf.Case) {
	s := buildScenario(c.R, c.Idx)
	c.Add("cases_"+kindNames[s.kind], 1)

	if c.Debug {
		c.Logf("scenario: kind=%s useLatest=%v interval=%dns manualTicker=%v (%d ticks) injectedClock=%v (speed %d/%d resolution %dns epoch %v) T0=%dns end=%dns",
			kindNames[s.kind], s.useLatest, s.ivNs, s.manual, len(s.ticks), s.injected, s.num, s.den, s.quantum, s.epoch.UTC(), s.pre, s.end)
		c.Logf("  origin = bubble start + %dns; tick at %dns aimed at ns-of-second %d of the interceptor's clock", s.shift, s.anchorV, s.anchorF)
		for si, st := range s.streams {
			c.Logf(" stream %d: ssrc=%d rate=%d shaped=%v bound at %dns, %d sends", si, st.ssrc, st.rate, st.shaped, st.bindAt, len(st.sends))
			for i, sd := range st.sends {
				if i >= 60 {
					c.Logf("   …")
					break
				}
				c.Logf("   send %d: at=%dns seq=%d (idx %d) ts=%d len=%d frame=%d foreign=%v", i, sd.at, uint16(sd.idx), sd.idx, sd.ts, sd.plen, sd.frame, sd.foreign)
			}
		}
		if s.manual {
			c.Logf(" manual ticks at %v", s.ticks)
		}
	}
	var tl []event
	tl = append(tl, event{at: s.pre, kind: evBindWriter})
	for si, st := range s.streams {
		tl = append(tl, event{at: st.bindAt, kind: evBindStream, stream: si})
		for i := range st.sends {
			tl = append(tl, event{at: st.sends[i].at, kind: evSend, stream: si, i: i})
		}
	}
	for i, t := range s.ticks {
		tl = append(tl, event{at: t, kind: evTick, i: i})
	}
	sort.SliceStable(tl, func(i, j int) bool {
		if tl[i].at != tl[j].at {
			return tl[i].at < tl[j].at
		}
		return tl[i].kind < tl[j].kind
	})

	mon := newMonitor(s)
	w := &recWriter{mon: mon, other: map[string]int{}}
	gates := make([]*rtpGate, len(s.streams))
	for i := range gates {
		gates[i] = &rtpGate{}
	}
	tk := &manualTicker{}
	var harnessErr string
	var written int64

	c.Bubble(func() {
		if s.shift > 0 {
			time.Sleep(time.Duration(s.shift))
		}
		bubbleStart := time.Now() // the origin of every planned instant of the run
		w.bubbleStart = bubbleStart
		mon.bubbleStartUnixNs = bubbleStart.UnixNano()
		g0 := runtime.NumGoroutine()
		tk.ch = make(chan time.Time) // must belong to the bubble, or waiting on it is not a durable block
		var opts []report.SenderOption
		if s.interval != 0 {
			opts = append(opts, report.SenderInterval(s.interval))
		}
		if s.injected {
			opts = append(opts, report.SenderNow(func() time.Time {
				return s.epoch.Add(time.Duration(s.injNs(int64(time.Since(bubbleStart)))))
			}))
		}
		if s.manual {
			opts = append(opts, report.SenderTicker(func(d time.Duration) report.Ticker {
				tk.created++
				tk.d = d
				return tk
			}))
		}
		if s.useLatest {
			opts = append(opts, report.SenderUseLatestPacket())
		}
		f, err := report.NewSenderInterceptor(opts...)
		if err != nil {
			harnessErr = err.Error()
			return
		}
		ic, err := f.NewInterceptor("")
		if err != nil {
			harnessErr = err.Error()
			return
		}
		writers := make([]interceptor.RTPWriter, len(s.streams))
		zeros := make([]byte, 1500)
		hr := c.R.Fork()
		sleepTo := func(at int64) bool {
			if d := at - int64(time.Since(bubbleStart)); d > 0 {
				time.Sleep(time.Duration(d))
			}
			if int64(time.Since(bubbleStart)) != at {
				harnessErr = fmt.Sprintf("virtual clock at %d, planned instant %d", int64(time.Since(bubbleStart)), at)
				return false
			}
			return true
		}
		doSend := func(si int, sd *send) bool {
			st := s.streams[si]
			var h *rtp.Header
			if st.shaped {
				hh := gen.Header(hr, st.shape, sd.ssrc, st.pt, uint16(sd.idx), sd.ts)
				h = &hh
			} else {
				h = &rtp.Header{Version: 2, PayloadType: st.pt, SequenceNumber: uint16(sd.idx), Timestamp: sd.ts, SSRC: sd.ssrc, Marker: sd.idx&7 == 0}
			}
			var attr interceptor.Attributes
			if sd.idx&1 == 0 {
				attr = interceptor.Attributes{}
			}
			mon.onSend(si, sd, sd.at, h.MarshalSize()) // sleepTo has verified that the virtual clock reads sd.at
			before := gates[si].calls
			if _, err := writers[si].Write(h, zeros[:sd.plen], attr); err != nil {
				harnessErr = "rtp write: " + err.Error()
				return false
			}
			if gates[si].calls != before+1 || gates[si].lastHdr != h {
				mon.notForwarded++
			}
			written++
			return true
		}
	loop:
		for _, e := range tl {
			if !sleepTo(e.at) {
				break
			}
			switch e.kind {
			case evBindWriter:
				mon.t0 = e.at
				ic.BindRTCPWriter(w)
				synctest.Wait() // the loop goroutine has created its ticker (at virtual T0) and parked
			case evBindStream:
				st := s.streams[e.stream]
				mon.onBind(e.stream, e.at)
				writers[e.stream] = ic.BindLocalStream(&interceptor.StreamInfo{SSRC: st.ssrc, ClockRate: st.rate, PayloadType: st.pt}, gates[e.stream])
			case evSend:
				if !doSend(e.stream, &s.streams[e.stream].sends[e.i]) {
					break loop
				}
			case evTick:
				mon.manualTicks = append(mon.manualTicks, e.at)
				tk.ch <- time.Now()
				synctest.Wait()
			}
		}
		if harnessErr == "" && s.dense != nil {
			// procedural history: nearly in order, occasional retransmission of a recent packet
			d := s.dense
			r := d.seed
			at := d.t0
			frame, left := int32(0), r.Range(10, 20)
			var recent [64]send
			burst := 0
			for i := 0; i < d.n; i++ {
				if burst == 0 {
					// packets leave in bursts sharing an instant (every sleep in a bubble costs
					// a scheduler round trip; the history is what matters here, not its pacing)
					burst = r.Range(300, 3000)
					if i > 0 {
						at += int64(r.Intn(2*d.gapUs*burst+1)) * 1000
					}
					if !sleepTo(at) {
						break
					}
				}
				burst--
				if left == 0 {
					frame++
					left = r.Range(10, 20)
				}
				left--
				sd := send{idx: d.start + int64(i), frame: frame, ts: d.base + uint32(frame)*d.step, plen: 1460, at: at, ssrc: s.streams[0].ssrc}
				if r.Chance(0.03) {
					sd.plen = int32(gen.PayloadLen(r, 1460))
				}
				if !doSend(0, &sd) {
					break
				}
				recent[i%len(recent)] = sd
				if i > len(recent) && r.Chance(d.dupProb) {
					// a retransmission of a recent packet (same number, same timestamp)
					rs := recent[(i-r.Range(1, len(recent)-1))%len(recent)]
					rs.at = at
					if !doSend(0, &rs) {
						break
					}
				}
			}
			end := int64(time.Since(bubbleStart))
			s.end = s.pre + ((end-s.pre)/s.ivNs+2)*s.ivNs + 500
		}
		if harnessErr == "" {
			sleepTo(s.end)
			synctest.Wait()
		}
		mon.mu.Lock()
		mon.closedAt = int64(time.Since(bubbleStart))
		mon.mu.Unlock()
		_ = ic.Close()
		synctest.Wait()
		// Close has waited for the loop goroutine (wg); give the runtime the few scheduler
		// steps it needs to retire it before the bubble's leak check looks.
		for i := 0; i < 1000000 && runtime.NumGoroutine() > g0; i++ {
			runtime.Gosched()
		}
	}, func(dump string) {
		c.Inconclusive("goroutines left in bubble:\n%s", trunc(dump, 3000))
	})

	if harnessErr != "" {
		c.Inconclusive("harness: %s", harnessErr)
		return
	}
	c.Add("rtp_packets_written", written)
	var fw int64
	for _, g := range gates {
		fw += g.calls
	}
	c.Add("rtp_packets_seen_downstream", fw)
	decide(c, s, mon, w)
}

func trunc(s string, n int) string {
	if len(s) > n {
		return s[:n] + "…"
	}
	return s
}
