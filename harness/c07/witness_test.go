package c07

// Minimal stand-alone witnesses for findings of the C07 monitor, against the real code,
// without the generator or the model. Not part of the check (TestCheck); run with
//
//	VERIF_WITNESS=1 go1.26.8 test -run TestWitness -v ./c07

import (
	"os"
	"testing"
	"testing/synctest"
	"time"

	"github.com/pion/interceptor"
	"github.com/pion/interceptor/pkg/report"
	"github.com/pion/rtcp"
	"github.com/pion/rtp"
)

// A stream whose first frame carries RTP timestamp 0 (RFC 3550 allows any initial value):
// one packet (seq 1, ts 0, 100 bytes) is sent at t = 0.5 s, reports are written at 1 s, 2 s
// and 3 s. Statement: RTP time = 0 + floor(elapsed * 90000) = 45000, 135000, 225000.
func TestWitnessFirstFrameTimestampZero(t *testing.T) {
	if os.Getenv("VERIF_WITNESS") == "" {
		t.Skip("set VERIF_WITNESS=1")
	}
	for _, firstTS := range []uint32{1, 0} {
		synctest.Test(t, func(t *testing.T) {
			start := time.Now()
			f, _ := report.NewSenderInterceptor(report.SenderInterval(time.Second))
			ic, _ := f.NewInterceptor("")
			var got []rtcp.SenderReport
			ic.BindRTCPWriter(interceptor.RTCPWriterFunc(func(pkts []rtcp.Packet, _ interceptor.Attributes) (int, error) {
				for _, p := range pkts {
					if sr, ok := p.(*rtcp.SenderReport); ok {
						got = append(got, *sr)
						t.Logf("first ts %d: report at %v: packets=%d octets=%d RTPTime=%d (want %d)", firstTS, time.Since(start),
							sr.PacketCount, sr.OctetCount, sr.RTPTime, uint64(firstTS)+uint64(time.Since(start)-500*time.Millisecond)*90000/1e9)
					}
				}
				return 0, nil
			}))
			synctest.Wait()
			w := ic.BindLocalStream(&interceptor.StreamInfo{SSRC: 1, ClockRate: 90000},
				interceptor.RTPWriterFunc(func(*rtp.Header, []byte, interceptor.Attributes) (int, error) { return 0, nil }))
			time.Sleep(500 * time.Millisecond)
			_, _ = w.Write(&rtp.Header{Version: 2, SSRC: 1, SequenceNumber: 1, Timestamp: firstTS}, make([]byte, 100), nil)
			time.Sleep(2600 * time.Millisecond)
			synctest.Wait()
			_ = ic.Close()
			if len(got) != 3 {
				t.Fatalf("reports: %d", len(got))
			}
			for i, sr := range got {
				want := firstTS + uint32(45000+90000*i)
				if d := int32(sr.RTPTime - want); d < -1 || d > 1 {
					t.Errorf("first ts %d: report %d: RTPTime=%d want %d", firstTS, i+1, sr.RTPTime, want)
				}
			}
		})
	}
}
