package c07

// Independent integer model of the sender-report arithmetic, written from the statement of
// C07 (not from the library):
//
//	packet count = number of RTP packets written on the stream            (mod 2^32)
//	octet count  = sum of their payload lengths                           (mod 2^32)
//	NTP time     = the report instant read from the interceptor's clock, converted exactly
//	               (seconds since 1900 << 32 | floor(frac * 2^32)); tolerance 1 us
//	RTP time     = ts(R) + floor((report instant - t(R)) * clock rate)    (mod 2^32, +-1)
//	               R = the newest packet sent: highest sequence number in 16-bit serial
//	               order (true indices here; steps >= 2^15 are not generated), or the most
//	               recently sent packet when use-latest-packet is set;
//	               ts(R) its timestamp, t(R) the instant the first packet of its frame
//	               (= first packet sent with that timestamp) was sent
//	               not checked before the first packet (undefined by the statement)
//
// Where the statement is silent the model is permissive:
//   - a packet whose header SSRC is not the stream's, written through the stream's writer,
//     may or may not count and may or may not become the reference: every field is accepted
//     if it agrees with the model fed with all packets or with the model fed with the
//     stream's own packets only;
//   - with use-latest-packet, when packets of two frames are interleaved, "first packet of
//     its frame" may be the first packet ever sent with that timestamp or the first of the
//     current uninterrupted run of that timestamp;
//   - RTCP packets other than sender reports, and reception report blocks inside a sender
//     report, are ignored.

import (
	"fmt"
	"math/bits"
	"sort"
	"sync"

	"github.com/pion/interceptor/verif/vf"
)

type sendRec struct {
	idx     int64
	ts      uint32
	plen    int32
	v, clk  int64
	foreign bool
	ssrc    uint32
}

// variant is the model state under one reading of "packets written on that stream".
type variant struct {
	n, oct, hdr uint64
	has         bool
	newest      int64
	// reference when use-latest-packet is off: the packet with the highest number
	sTs            uint32
	sFirst, sLast  int64 // clock (ns) at the first-sent packet of that frame / at the last packet that was newest when sent
	sChanges       int
	sFirstFrameTS0 bool // the reference is still the first frame ever and its timestamp is 0
	// reference when use-latest-packet is on: the packet sent last
	lTs            uint32
	lFirst, lRun   int64 // clock at the first packet ever sent with lTs / at the first of the current run
	lLast          int64
	lChanges       int
	lFirstFrameTS0 bool
	// last lookup of the first-send table
	cacheTS    uint32
	cacheFirst int64
}

func (x *variant) feed(idx int64, ts uint32, plen int32, hdr int, clk int64, first map[uint32]int64) (ooo, multi bool) {
	x.n++
	x.oct += uint64(plen)
	x.hdr += uint64(hdr)
	var f int64
	seen := false
	if x.has && ts == x.cacheTS {
		f, seen = x.cacheFirst, true
	} else {
		if f, seen = first[ts]; !seen {
			first[ts] = clk
			f = clk
		}
		x.cacheTS, x.cacheFirst = ts, f
	}
	multi = seen
	if !x.has || idx > x.newest {
		if !x.has || ts != x.sTs {
			x.sChanges++
			x.sTs, x.sFirst = ts, f
			x.sFirstFrameTS0 = x.sChanges == 1 && ts == 0
		}
		x.newest = idx
		x.sLast = clk
	} else if idx < x.newest {
		ooo = true
	}
	if !x.has || ts != x.lTs {
		x.lChanges++
		x.lTs, x.lFirst, x.lRun = ts, f, clk
		x.lFirstFrameTS0 = x.lChanges == 1 && ts == 0
	}
	x.lLast = clk
	x.has = true
	return ooo, multi
}

type streamState struct {
	bound    bool
	boundAt  int64
	all, own variant
	lastAt   int64
	ring     [6]sendRec
	ringN    int
	ooo      int64
	multi    int64
	foreign  int64
	seqWrap  bool
	tsWrap   bool
	firstIdx int64
	lastTS   uint32
}

type streamModel struct {
	streamState
	scn      *streamScn
	firstAll map[uint32]int64
	firstOwn map[uint32]int64
}

type monitor struct {
	mu                sync.Mutex
	s                 *scenario
	bubbleStartUnixNs int64
	t0                int64
	closedAt          int64
	manualTicks       []int64
	streams           []*streamModel
	bySSRC            map[uint32]*streamModel
	notForwarded      int64
}

func newMonitor(s *scenario) *monitor {
	m := &monitor{s: s, bySSRC: map[uint32]*streamModel{}}
	for _, st := range s.streams {
		sm := &streamModel{scn: st, firstAll: map[uint32]int64{}, firstOwn: map[uint32]int64{}}
		m.streams = append(m.streams, sm)
		m.bySSRC[st.ssrc] = sm
	}
	return m
}

func (m *monitor) onBind(si int, v int64) {
	m.mu.Lock()
	m.streams[si].bound = true
	m.streams[si].boundAt = v
	m.mu.Unlock()
}

func (m *monitor) onSend(si int, sd *send, v int64, hdr int) {
	m.mu.Lock()
	defer m.mu.Unlock()
	sm := m.streams[si]
	clk := m.s.clockNs(m.bubbleStartUnixNs, v)
	if !sm.all.has {
		sm.firstIdx = sd.idx
	} else {
		if sd.idx>>16 != sm.firstIdx>>16 {
			sm.seqWrap = true
		}
		if sd.ts < sm.lastTS && sm.lastTS-sd.ts > 1<<31 {
			sm.tsWrap = true
		}
	}
	sm.lastTS = sd.ts
	// the own-packets model is identical to `all` until the first foreign packet: it is
	// forked at that moment (state before this packet) and fed separately from then on
	if sd.foreign && sm.foreign == 0 {
		sm.own = sm.all
		sm.firstOwn = make(map[uint32]int64, len(sm.firstAll))
		for k, v := range sm.firstAll {
			sm.firstOwn[k] = v
		}
	}
	ooo, multi := sm.all.feed(sd.idx, sd.ts, sd.plen, hdr, clk, sm.firstAll)
	if sd.foreign {
		sm.foreign++
	} else if sm.foreign > 0 {
		sm.own.feed(sd.idx, sd.ts, sd.plen, hdr, clk, sm.firstOwn)
	}
	if ooo {
		sm.ooo++
	}
	if multi {
		sm.multi++
	}
	sm.lastAt = v
	sm.ring[sm.ringN%len(sm.ring)] = sendRec{sd.idx, sd.ts, sd.plen, v, clk, sd.foreign, sd.ssrc}
	sm.ringN++
}

func (st *streamState) window() string {
	out := ""
	n := len(st.ring)
	from := st.ringN - n
	if from < 0 {
		from = 0
	}
	if from > 0 {
		out = fmt.Sprintf("…(%d earlier) ", from)
	}
	for i := from; i < st.ringN; i++ {
		r := st.ring[i%n]
		f := ""
		if r.foreign {
			f = fmt.Sprintf(" FOREIGN-ssrc=%d", r.ssrc)
		}
		out += fmt.Sprintf("[seq=%d(idx %d) ts=%d len=%d at=%dns clk=%dns%s] ", uint16(r.idx), r.idx, r.ts, r.plen, r.v, r.clk, f)
	}
	return out
}

// advance returns ts + floor(elapsedNs * rate / 1e9) mod 2^32 and the unreduced number of
// elapsed ticks.
func advance(ts uint32, elapsedNs int64, rate uint32) (uint32, uint64) {
	if elapsedNs < 0 {
		elapsedNs = 0
	}
	hi, lo := bits.Mul64(uint64(elapsedNs), uint64(rate))
	if hi >= 1000000000 {
		return ts, 0 // cannot happen for elapsed < 2^63 ns and rate < 2^20
	}
	q, _ := bits.Div64(hi, lo, 1000000000)
	return ts + uint32(q), q
}

// ntpExact converts Unix ns to the 64-bit NTP format (era 0).
func ntpExact(unixNs int64) uint64 {
	sec := unixNs / 1000000000
	ns := unixNs % 1000000000
	if ns < 0 {
		ns += 1000000000
		sec--
	}
	frac := (uint64(ns) << 32) / 1000000000
	return uint64(uint32(sec+2208988800))<<32 | frac
}

func near32(a, b uint32, tol int32) bool {
	d := int32(a - b)
	return d >= -tol && d <= tol
}

const ntpTol = 4296 // 1 us in units of 2^-32 s, rounded up

func decide(c *vf.Case, s *scenario, mon *monitor, w *recWriter) {
	mon.mu.Lock()
	obs := append([]obsSR(nil), w.obs...)
	other := w.other
	mon.mu.Unlock()

	for _, n := range other {
		c.Add("rtcp_packets_other_than_sr_ignored", int64(n))
	}
	if mon.notForwarded > 0 {
		// not part of C07 (C01 decides transparency); the counts below are still judged
		// against what was handed to the stream's writer
		c.Add("writes_not_seen_downstream_exactly_once", mon.notForwarded)
	}
	clockMode := "virtual time.Now"
	if s.injected {
		clockMode = fmt.Sprintf("SenderNow injected (epoch %d.%09d, speed %d/%d, resolution %dns)", s.epoch.Unix(), s.epoch.Nanosecond(), s.num, s.den, s.quantum)
	}
	tick := "time.NewTicker"
	if s.manual {
		tick = "SenderTicker injected"
	}
	ctx := fmt.Sprintf("kind=%s interval=%dns %s, %s, useLatestPacket=%v, T0=%dns", kindNames[s.kind], s.ivNs, tick, clockMode, s.useLatest, s.pre)
	c.Add("cases_clock_"+map[bool]string{false: "virtual", true: "injected"}[s.injected], 1)
	c.Add("cases_ticker_"+map[bool]string{false: "default", true: "injected"}[s.manual], 1)
	c.Add("cases_use_latest_"+map[bool]string{false: "off", true: "on"}[s.useLatest], 1)

	h := vf.NewHash()
	type perStream struct {
		reports, checked int
		ooo, multi       int64
	}
	ps := map[uint32]*perStream{}
	byTick := map[int64]map[uint32]int{}
	var nObs, nPre, nRTP, nForeignOnly, nBig int64
	var samples []string

	// a report, once written, stays that report: a writer may queue what it was given (the
	// library's own test writer does); the object must still carry the values it was written with
	for i, o := range obs {
		if p := o.ptr; p != nil && (p.SSRC != o.sr.SSRC || p.NTPTime != o.sr.NTPTime || p.RTPTime != o.sr.RTPTime ||
			p.PacketCount != o.sr.PacketCount || p.OctetCount != o.sr.OctetCount) {
			c.Violation("report/changed-after-it-was-written", "%s: sender report #%d (SSRC %d, written at %dns with packets=%d octets=%d ntp=%#x rtp=%d) reads packets=%d octets=%d ntp=%#x rtp=%d at the end of the history: the interceptor kept writing into an object it had handed to the RTCP writer",
				ctx, i, o.sr.SSRC, o.v, o.sr.PacketCount, o.sr.OctetCount, o.sr.NTPTime, o.sr.RTPTime, p.PacketCount, p.OctetCount, p.NTPTime, p.RTPTime)
			break
		}
	}
	c.Add("reports_checked_unchanged_after_write", int64(len(obs)))
	for _, o := range obs {
		nObs++
		if !o.known {
			c.Violation("report/ssrc-not-a-bound-stream", "%s: sender report for SSRC %d at %dns, bound streams are %s",
				ctx, o.sr.SSRC, o.v, boundList(s))
			continue
		}
		st := &o.snap
		if st.foreign == 0 {
			st.own = st.all // no foreign packet so far: the two readings coincide
		}
		sm := mon.bySSRC[o.sr.SSRC]
		if !st.bound {
			c.Violation("report/ssrc-not-a-bound-stream", "%s: sender report for SSRC %d at %dns, but that stream is bound only later", ctx, o.sr.SSRC, o.v)
			continue
		}
		if st.all.has && st.lastAt >= o.v {
			c.Inconclusive("report at %dns is not after the last send (%dns) of its stream", o.v, st.lastAt)
			return
		}
		if byTick[o.v] == nil {
			byTick[o.v] = map[uint32]int{}
		}
		byTick[o.v][o.sr.SSRC]++
		p := ps[o.sr.SSRC]
		if p == nil {
			p = &perStream{}
			ps[o.sr.SSRC] = p
		}
		p.reports++
		p.ooo, p.multi = st.ooo, st.multi
		where := fmt.Sprintf("%s; ssrc=%d rate=%d report#%d at %dns", ctx, o.sr.SSRC, sm.scn.rate, p.reports, o.v)

		c.Logf("report ssrc=%d at=%dns: packets=%d octets=%d ntp=%#x rtp=%d | model: packets=%d octets=%d newest idx=%d refTS(seq order)=%d first sent at clk %dns, refTS(send order)=%d run since clk %dns",
			o.sr.SSRC, o.v, o.sr.PacketCount, o.sr.OctetCount, o.sr.NTPTime, o.sr.RTPTime, st.all.n, st.all.oct, st.all.newest, st.all.sTs, st.all.sFirst, st.all.lTs, st.all.lRun)

		// --- counts
		if pc := o.sr.PacketCount; pc != uint32(st.all.n) && pc != uint32(st.own.n) {
			c.Violation("count/packets", "%s: packet count=%d, packets written on the stream so far=%d%s; last sends: %s",
				where, pc, st.all.n, foreignNote(st, "packets", st.own.n), st.window())
		}
		if oc := o.sr.OctetCount; oc != uint32(st.all.oct) && oc != uint32(st.own.oct) {
			sig, why := "count/octets", ""
			if oc == uint32(st.all.oct+st.all.hdr) || oc == uint32(st.own.oct+st.own.hdr) {
				sig, why = "count/octets-include-header-bytes", " (equals payload + header bytes)"
			} else if st.all.oct >= 1<<32 {
				sig = "count/octets-beyond-2^32"
			}
			c.Violation(sig, "%s: octet count=%d%s, sum of payload lengths written so far=%d (mod 2^32 = %d)%s; last sends: %s",
				where, oc, why, st.all.oct, uint32(st.all.oct), foreignNote(st, "octets", st.own.oct), st.window())
		}
		if st.all.oct >= 1<<32 {
			c.Add("reports_after_octet_count_passed_2^32", 1)
		}

		// --- NTP
		nowClk := s.clockNs(mon.bubbleStartUnixNs, o.v)
		wantNTP := ntpExact(nowClk)
		switch f := nowClk % 1000000000; {
		case f >= 999999000:
			c.Add("reports_in_last_microsecond_of_a_second", 1)
			if f >= 999999600 {
				c.Add("reports_in_last_400ns_of_a_second", 1)
			}
		case f < 1000:
			c.Add("reports_in_first_microsecond_of_a_second", 1)
		case f%125000000 < 1000 || f%125000000 > 125000000-1000:
			c.Add("reports_within_1us_of_an_eighth_of_a_second", 1)
		default:
			k := (f*65536 + 500000000) / 1000000000
			if d := f - (k*1000000000+32768)/65536; d >= -300 && d <= 300 {
				c.Add("reports_within_300ns_of_a_multiple_of_1/65536s", 1)
			}
		}
		switch sec := nowClk / 1000000000; {
		case sec < 94608000:
			c.Add("reports_at_clock_years_1970_to_1972", 1)
		case sec >= 2051222400:
			c.Add("reports_at_clock_years_2035_2036", 1)
		}
		if d := int64(o.sr.NTPTime - wantNTP); d < -ntpTol || d > ntpTol {
			sig, why := "ntp/not-the-report-instant", ""
			if s.injected {
				if d2 := int64(o.sr.NTPTime - ntpExact(mon.bubbleStartUnixNs+o.v)); d2 >= -ntpTol && d2 <= ntpTol {
					sig, why = "ntp/not-from-the-configured-clock", " (it is the reading of time.Now, not of the clock given with SenderNow)"
				}
			}
			c.Violation(sig, "%s: NTP time=%#016x (%d s + %d/2^32), the configured clock reads %d.%09d Unix at the report instant = NTP %#016x; difference %d units of 2^-32 s%s",
				where, o.sr.NTPTime, o.sr.NTPTime>>32, uint32(o.sr.NTPTime), nowClk/1000000000, nowClk%1000000000, wantNTP, d, why)
		}

		// --- RTP time
		if !st.all.has {
			nPre++
			continue
		}
		if !st.own.has {
			nForeignOnly++
			continue // only foreign-SSRC packets so far: undefined under the own-packets reading
		}
		rate := sm.scn.rate
		type cand struct {
			val   uint32
			ts    uint32
			ref   int64
			ticks uint64
			what  string
		}
		var cands []cand
		mk := func(ts uint32, ref int64, what string) cand {
			v, q := advance(ts, nowClk-ref, rate)
			return cand{v, ts, ref, q, what}
		}
		vars := []*variant{&st.all}
		if st.foreign > 0 {
			vars = append(vars, &st.own)
		}
		for vi, x := range vars {
			tag := ""
			if vi == 1 {
				tag = " (own-SSRC packets only)"
			}
			if s.useLatest {
				cands = append(cands, mk(x.lTs, x.lFirst, "last packet sent, first packet ever sent with its timestamp"+tag))
				if x.lRun != x.lFirst {
					cands = append(cands, mk(x.lTs, x.lRun, "last packet sent, first packet of the current run of its timestamp"+tag))
				}
			} else {
				cands = append(cands, mk(x.sTs, x.sFirst, "highest-numbered packet sent, first packet sent of its frame"+tag))
			}
		}
		ok := false
		for _, cd := range cands {
			if near32(o.sr.RTPTime, cd.val, 1) {
				ok = true
				break
			}
		}
		nRTP++
		p.checked++
		prim := cands[0]
		if prim.ticks >= 1<<32 {
			nBig++
		}
		h.U64(uint64(o.sr.SSRC)).U64(st.all.n).U64(st.all.oct).U64(uint64(prim.val)).U64(uint64(prim.ts))
		if len(samples) < 5 {
			samples = append(samples, fmt.Sprintf("ssrc=%d at=%dns packets=%d octets=%d refTS=%d elapsed=%dns rtp=%d", o.sr.SSRC, o.v, st.all.n, st.all.oct, prim.ts, nowClk-prim.ref, prim.val))
		}
		if ok {
			continue
		}
		x := &st.all
		sig, why := "rtptime/mismatch", ""
		matches := func(ts uint32, ref int64) bool {
			v, _ := advance(ts, nowClk-ref, rate)
			return near32(o.sr.RTPTime, v, 1)
		}
		switch {
		case (!s.useLatest && x.sFirstFrameTS0) || (s.useLatest && x.lFirstFrameTS0):
			sig = "rtptime/first-frame-has-timestamp-0"
			why = " [input class: the reference is the first frame the stream ever sent and its RTP timestamp is 0]"
		case !s.useLatest && x.lTs != x.sTs && (matches(x.lTs, x.lRun) || matches(x.lTs, x.lFirst)):
			sig = "rtptime/out-of-order-send-moved-reference"
			why = fmt.Sprintf(" [equals the extrapolation from the packet sent LAST (ts=%d), which was out of order, although use-latest-packet is off]", x.lTs)
		case s.useLatest && x.lTs != x.sTs && matches(x.sTs, x.sFirst):
			sig = "rtptime/use-latest-packet-not-honoured"
			why = fmt.Sprintf(" [equals the extrapolation from the highest-numbered packet (ts=%d) although use-latest-packet is set]", x.sTs)
		case (!s.useLatest && matches(x.sTs, x.sLast)) || (s.useLatest && matches(x.lTs, x.lLast)):
			sig = "rtptime/reference-instant-not-first-packet-of-frame"
			why = " [equals the extrapolation from the send instant of the LAST packet of the reference frame, not the first]"
		case prim.ticks >= 1<<32:
			sig = "rtptime/elapsed-ticks-beyond-2^32"
			why = " [input class: elapsed time * clock rate >= 2^32]"
		case nowClk == prim.ref:
			sig = "rtptime/mismatch-at-zero-elapsed"
		}
		exp := ""
		for i, cd := range cands {
			if i > 0 {
				exp += "; or "
			}
			exp += fmt.Sprintf("%d = %d + floor(%dns * %d Hz) [%d ticks] mod 2^32 (reference: %s, sent when the clock read %dns)",
				cd.val, cd.ts, nowClk-cd.ref, rate, cd.ticks, cd.what, cd.ref)
		}
		c.Violation(sig, "%s: RTP time=%d (reference timestamp + %d), want %s, +-1%s; clock at report %dns; out-of-order sends so far %d; last sends: %s",
			where, o.sr.RTPTime, o.sr.RTPTime-prim.ts, exp, why, nowClk, st.ooo, st.window())
	}

	c.Add("reports_observed", nObs)
	c.Add("reports_before_first_packet", nPre)
	c.Add("reports_rtp_time_checked", nRTP)
	c.Add("reports_rtp_time_undecided_only_foreign_packets", nForeignOnly)
	c.Add("reports_with_elapsed_ticks_ge_2^32", nBig)

	// --- one report per bound stream per tick
	var want []int64
	if s.manual {
		want = mon.manualTicks
	} else {
		for t := mon.t0 + s.ivNs; t <= mon.closedAt; t += s.ivNs {
			want = append(want, t)
		}
	}
	wantSet := map[int64]bool{}
	for _, t := range want {
		wantSet[t] = true
	}
	var stray []int64
	for t := range byTick {
		if !wantSet[t] {
			stray = append(stray, t)
		}
	}
	c.Add("ticks", int64(len(want)))
	if len(stray) > 0 {
		sort.Slice(stray, func(i, j int) bool { return stray[i] < stray[j] })
		c.Inconclusive("%s: reports written at instants that are not ticks of the run (first: %dns; %d such instants)", ctx, stray[0], len(stray))
	} else {
		for _, t := range want {
			for _, sm := range mon.streams {
				if !sm.bound || sm.boundAt >= t {
					continue
				}
				switch n := byTick[t][sm.scn.ssrc]; {
				case n == 0:
					c.Violation("tick/no-report-for-a-bound-stream", "%s: tick at %dns: no sender report for SSRC %d (bound at %dns); reports at that tick: %v", ctx, t, sm.scn.ssrc, sm.boundAt, byTick[t])
				case n > 1:
					c.Violation("tick/several-reports-for-one-stream", "%s: tick at %dns: %d sender reports for SSRC %d", ctx, t, n, sm.scn.ssrc)
				}
			}
		}
	}

	nontrivial := false
	for _, sm := range mon.streams {
		if p := ps[sm.scn.ssrc]; p != nil && p.checked >= 2 && p.ooo >= 1 && p.multi >= 1 {
			nontrivial = true
		}
		if sm.seqWrap {
			c.Add("streams_crossing_seq_wrap", 1)
		}
		if sm.tsWrap {
			c.Add("streams_crossing_rtp_timestamp_wrap", 1)
		}
		if sm.foreign > 0 {
			c.Add("streams_with_foreign_ssrc_packets", 1)
		}
		if sm.all.has && sm.firstAll != nil {
			if _, z := sm.firstAll[0]; z {
				c.Add("streams_with_a_frame_at_timestamp_0", 1)
			}
		}
		c.Add("out_of_order_sends", sm.ooo)
		c.Add("packets_in_multi_packet_frames_after_the_first", sm.multi)
		c.Add("foreign_ssrc_packets", sm.foreign)
		c.Add("streams", 1)
	}
	if nontrivial {
		c.Nontrivial(h.Sum())
	}
	if c.WantSample() && len(samples) > 0 {
		c.Sample(map[string]any{
			"case": c.Idx, "kind": kindNames[s.kind], "streams": len(s.streams), "interval_ns": s.ivNs,
			"injected_clock": s.injected, "injected_ticker": s.manual, "use_latest_packet": s.useLatest,
			"rtp_packets_stream0": mon.streams[0].all.n, "reports": nObs, "first_expected_reports": samples,
		})
	}
}

func foreignNote(st *streamState, what string, own uint64) string {
	if st.foreign == 0 {
		return ""
	}
	return fmt.Sprintf(" (or %d %s counting only the %d packets that carry the stream's own SSRC)", own, what, st.own.n)
}

func boundList(s *scenario) string {
	out := ""
	for _, st := range s.streams {
		out += fmt.Sprintf("%d ", st.ssrc)
	}
	return out
}
