// C13 – caller-owned buffers are not retained or modified after a call returns.
//
// Monitor: differential replay. One operation history (RTP writes with all header shapes,
// RTP/RTCP reads, virtual-time advances) is played twice through a fresh instance of the
// same interceptor, each time in its own virtual-time bubble so both runs are deterministic:
//
//	run A: a fresh header / payload / read buffer per call, never touched again;
//	run B: ONE rtp.Header (its CSRC slice and extension payload storage too), ONE payload
//	       buffer and ONE read buffer are reused for every call and overwritten with a
//	       poison pattern the instant the call returns - before the driver yields - and
//	       only then is the bubble allowed to quiesce, so asynchronous consumers run
//	       against poisoned memory.
//
// Everything the interceptor emits or records (packets at the next writers incl.
// retransmissions / FEC / paced packets, RTCP written, dump stream bytes, bytes handed to
// the application by Read, feedback reports attached to attributes, statistics) must be
// equal in A and B. In run A the payload after each Write must equal the payload before.
// The race detector watches the scribbling caller against the interceptor's goroutines.
package c13

import (
	"bytes"
	"fmt"
	"sort"
	"testing"
	"testing/synctest"
	"time"

	"github.com/pion/interceptor"
	"github.com/pion/interceptor/pkg/rtpfb"
	"github.com/pion/rtcp"
	"github.com/pion/rtp"

	"github.com/pion/interceptor/verif/gen"
	"github.com/pion/interceptor/verif/obs"
	"github.com/pion/interceptor/verif/vf"
	"github.com/pion/interceptor/verif/zoo"
)

var kinds = []zoo.Kind{zoo.NackResponder, zoo.FlexFEC, zoo.Pacing, zoo.CCLeakyBucket, zoo.CCNoOpPacer, zoo.DumpSender,
	zoo.DumpReceiver, zoo.Stats, zoo.JitterBuffer, zoo.TWCCSender, zoo.RFC8888, zoo.RTPFB, zoo.ReportSender,
	zoo.ReportReceiver, zoo.NackGenerator, zoo.TWCCHeaderExt}

func cases(tier string) int {
	if tier == "thorough" {
		return len(kinds) * 4000
	}
	return len(kinds) * 150
}

func TestCheck(t *testing.T) {
	vf.Main(t, vf.Spec{Prop: "C13", Cases: cases, Run: run})
}

type extSpec struct {
	id      uint8
	payload []byte
}

type op struct {
	kind    int // 0 writeRTP, 1 readRTP, 2 readRTCP, 3 advance
	stream  int
	hdr     rtp.Header // template (never handed to the interceptor)
	exts    []extSpec
	payload []byte
	data    []byte
	bufSize int
	d       time.Duration
}

const twccID = 5

func genOps(r *vf.Rand, kind zoo.Kind, n int) []op {
	var ops []op
	lseq := [2]uint16{r.U16(), r.U16()}
	rseq := [2]uint16{r.U16(), r.U16()}
	var twccSeq uint16 = r.U16()
	lts, rts := uint32(1000), uint32(5000)
	var sent []uint16
	for i := 0; i < n; i++ {
		x := r.Intn(10)
		if kind == zoo.JitterBuffer && x < 6 {
			x = 5 // the buffer emits nothing before it holds 50 packets: mostly incoming RTP
		}
		switch {
		case x < 4: // outgoing RTP
			st := r.Intn(2)
			lseq[st]++
			lts += uint32(r.Pick(0, 0, 3000))
			sh := gen.RandomShape(r)
			if sh.ExtKind == 3 {
				sh.ExtKind = 1
			}
			ssrc := uint32(1000 * (st + 1))
			if r.Chance(0.06) {
				// a packet of another SSRC through this stream's writer (an RTX or FEC packet of a
				// member above): the caller's buffers are the caller's all the same
				ssrc = uint32(r.Pick(0xF0000000|int(r.U16()), 1000*(2-st)))
			}
			h := gen.Header(r, sh, ssrc, 96, lseq[st], lts, twccID)
			if st == 0 { // TWCC negotiated stream: carries the extension like a header-extension interceptor upstream would
				twccSeq++
				ext, _ := (&rtp.TransportCCExtension{TransportSequence: twccSeq}).Marshal()
				if !h.Extension {
					h.Extension, h.ExtensionProfile = true, rtp.ExtensionProfileOneByte
				}
				_ = h.SetExtension(twccID, ext)
			}
			plen := max(8, gen.PayloadLen(r, 1200))
			if r.Chance(0.06) {
				plen = r.Pick(1460, 1461, 1500, 2000, 3000) // larger than the pooled buffers of some members
			}
			o := op{kind: 0, stream: st, hdr: h, payload: gen.Payload(r, plen, uint64(i+1))}
			for _, id := range h.GetExtensionIDs() {
				o.exts = append(o.exts, extSpec{id, append([]byte(nil), h.GetExtension(id)...)})
			}
			if st == 0 {
				sent = append(sent, lseq[0])
			}
			ops = append(ops, o)
		case x < 7: // incoming RTP
			st := r.Intn(2)
			step := uint16(r.Pick(1, 1, 1, 2))
			if kind == zoo.JitterBuffer {
				// one buffer for the interceptor; it stops emitting at the first missing number
				st, step = 0, 1
				if i > n*3/4 && r.Chance(0.05) {
					step = 2
				}
			}
			rseq[st] += step
			rts += 3000
			sh := gen.RandomShape(r)
			if sh.ExtKind == 3 {
				sh.ExtKind = 1
			}
			sh.Padding = 0
			h := gen.Header(r, sh, uint32(3000+1000*st), 96, rseq[st], rts, twccID)
			if st == 0 {
				twccSeq++
				ext, _ := (&rtp.TransportCCExtension{TransportSequence: twccSeq}).Marshal()
				if !h.Extension {
					h.Extension, h.ExtensionProfile = true, rtp.ExtensionProfileOneByte
				}
				_ = h.SetExtension(twccID, ext)
			}
			b, err := (&rtp.Packet{Header: h, Payload: r.Bytes(r.Range(1, 1000))}).Marshal()
			if err != nil {
				continue
			}
			if r.Chance(0.04) && len(b) > 14 {
				// a datagram cut inside its CSRC list / extension block: what the read buffer still
				// holds beyond it (an earlier packet) is not part of it
				b = b[:r.Range(12, min(len(b)-1, 12+4*int(h.MarshalSize()/8)))]
			}
			ops = append(ops, op{kind: 1, stream: st, data: b, bufSize: 1500})
		case x < 8: // incoming RTCP: NACK for something sent, feedback, reports
			var data []byte
			if len(sent) > 0 && r.Chance(0.6) {
				p := &rtcp.TransportLayerNack{SenderSSRC: 7, MediaSSRC: 1000,
					Nacks: []rtcp.NackPair{{PacketID: sent[max(0, len(sent)-1-r.Intn(6))], LostPackets: rtcp.PacketBitmap(r.Pick(0, 1, 3, 0x8001))}}}
				data, _ = p.Marshal()
			} else if r.Bool() {
				recv := make([]bool, r.Range(1, 20))
				for j := range recv {
					recv[j] = r.Chance(0.8)
				}
				data, _ = gen.ValidTWCC(r, 1000, twccSeq-uint16(r.Intn(20)), recv, uint8(i)).Marshal()
			} else {
				data, _ = gen.Compound(r, []uint32{1000, 2000, 3000, 4000}, r.Range(1, 3))
			}
			ops = append(ops, op{kind: 2, data: data, bufSize: 1500})
		default:
			ops = append(ops, op{kind: 3, d: time.Duration(r.Range(1, 120)) * time.Millisecond})
		}
	}
	return ops
}

type emission struct {
	where string
	t     time.Time
	data  []byte
}

type trace struct {
	ev        []emission
	payloadModified string
}

func (t *trace) add(where string, at time.Time, data []byte) {
	t.ev = append(t.ev, emission{where, at, append([]byte(nil), data...)})
}

// normRTCP zeroes the randomly chosen sender SSRC of RR and feedback packets.
func normRTCP(b []byte) []byte {
	out := append([]byte(nil), b...)
	if len(out) >= 8 && out[1] == 205 && out[0]&0x1f == 11 {
		// RFC 8888: report blocks come out in map order; sort them by SSRC
		var rep rtcp.CCFeedbackReport
		if rep.Unmarshal(out) == nil {
			sort.Slice(rep.ReportBlocks, func(i, j int) bool { return rep.ReportBlocks[i].MediaSSRC < rep.ReportBlocks[j].MediaSSRC })
			if m, err := rep.Marshal(); err == nil {
				out = m
			}
		}
	}
	if len(out) >= 8 && (out[1] == 201 || out[1] == 205 || out[1] == 206) {
		copy(out[4:8], []byte{0, 0, 0, 0})
	}
	return out
}

const poison = 0xEE

// play runs the history through a fresh interceptor; scribble selects run B.
func play(c *vf.Case, kind zoo.Kind, optSeed *vf.Rand, ops []op, scribble bool) *trace {
	tr := &trace{}
	c.Bubble(func() {
		b, err := zoo.Build(optSeed, kind, zoo.Opts{CaptureDumps: true, Interval: 50 * time.Millisecond})
		if err != nil {
			c.Violation("build/"+kind.String(), "%v", err)
			return
		}
		clk := &obs.Clock{}
		rtcpOut := obs.NewRTCPGate(clk)
		rtcpIn := obs.NewFeed(clk)
		_ = b.I.BindRTCPWriter(rtcpOut)
		rtcpR := b.I.BindRTCPReader(rtcpIn)
		var lw [2]interceptor.RTPWriter
		var lg [2]*obs.RTPGate
		var rr [2]interceptor.RTPReader
		var rf [2]*obs.Feed
		for i := 0; i < 2; i++ {
			lo := zoo.StreamOpts{SSRC: uint32(1000 * (i + 1)), PT: 96, ClockRate: 90000, Nack: true, TWCCID: twccID * (1 - i), RTX: i == 0, FEC: true}
			lg[i] = obs.NewRTPGate(clk, lo.SSRC)
			lw[i] = b.I.BindLocalStream(zoo.Info(lo), lg[i])
			ro := zoo.StreamOpts{SSRC: uint32(3000 + 1000*i), PT: 96, ClockRate: 90000, Nack: true, PLI: true, TWCCID: twccID * (1 - i)}
			rf[i] = obs.NewFeed(clk)
			rr[i] = b.I.BindRemoteStream(zoo.Info(ro), rf[i])
		}
		synctest.Wait()
		// all tickers of the interceptor fire at whole milliseconds after construction; the
		// driver acts at x.5 ms so that "call before the tick" / "after the tick" is never a
		// tie that the scheduler decides differently in run A and run B
		time.Sleep(500 * time.Microsecond)

		// run B storage, reused for every call
		var shared rtp.Header
		csrcBuf := make([]uint32, 15)
		extBuf := make([]byte, 4096)
		payBuf := make([]byte, 4000)
		readBuf := make([]byte, 1500)
		rtcpBuf := make([]byte, 1500)

		for _, o := range ops {
			switch o.kind {
			case 0:
				var h *rtp.Header
				var p []byte
				if scribble {
					shared = rtp.Header{Version: 2, Padding: o.hdr.Padding, PaddingSize: o.hdr.PaddingSize, Marker: o.hdr.Marker,
						PayloadType: o.hdr.PayloadType, SequenceNumber: o.hdr.SequenceNumber, Timestamp: o.hdr.Timestamp, SSRC: o.hdr.SSRC,
						Extensions: shared.Extensions[:0]}
					shared.CSRC = csrcBuf[:copy(csrcBuf, o.hdr.CSRC)]
					if len(o.hdr.CSRC) == 0 {
						shared.CSRC = nil
					}
					if o.hdr.Extension {
						shared.Extension, shared.ExtensionProfile = true, o.hdr.ExtensionProfile
						off := 0
						for _, e := range o.exts {
							n := copy(extBuf[off:], e.payload)
							_ = shared.SetExtension(e.id, extBuf[off:off+n:off+n])
							off += n
						}
					}
					h = &shared
					p = payBuf[:copy(payBuf, o.payload)]
				} else {
					hc := o.hdr.Clone()
					h = &hc
					p = append([]byte(nil), o.payload...)
				}
				_, _ = lw[o.stream].Write(h, p, interceptor.Attributes{})
				if scribble {
					for i := range payBuf {
						payBuf[i] = poison
					}
					for i := range csrcBuf {
						csrcBuf[i] = 0xEEEEEEEE
					}
					for i := range extBuf {
						extBuf[i] = poison
					}
					shared.SSRC, shared.SequenceNumber, shared.Timestamp, shared.PayloadType = 0xEEEEEEEE, 0xEEEE, 0xEEEEEEEE, 0x6E
					shared.Marker = !shared.Marker
				} else if !bytes.Equal(p, o.payload) && tr.payloadModified == "" {
					tr.payloadModified = fmt.Sprintf("payload of outgoing packet seq %d changed by Write", o.hdr.SequenceNumber)
				}
				synctest.Wait()
			case 1:
				rf[o.stream].Push(obs.FeedItem{Data: o.data})
				buf := readBuf
				if !scribble {
					buf = make([]byte, o.bufSize)
				}
				var attrIn interceptor.Attributes // nil in half of the reads, as a read loop without attributes passes
				if len(o.data)&1 == 0 {
					attrIn = interceptor.Attributes{}
				}
				n, attr, err := rr[o.stream].Read(buf, attrIn)
				if n < 0 || n > len(buf) {
					n = 0
				}
				if err != nil {
					n = 0 // the buffer content is meaningless when the read failed
				}
				tr.add(fmt.Sprintf("read-rtp/%d err=%v", o.stream, err != nil), time.Now(), buf[:n])
				_ = attr
				if scribble {
					for i := range readBuf {
						readBuf[i] = poison
					}
				}
				synctest.Wait()
			case 2:
				rtcpIn.Push(obs.FeedItem{Data: o.data})
				buf := rtcpBuf
				if !scribble {
					buf = make([]byte, o.bufSize)
				}
				n, attr, err := rtcpR.Read(buf, interceptor.Attributes{})
				if n < 0 || n > len(buf) {
					n = 0
				}
				if err != nil {
					n = 0
				}
				tr.add(fmt.Sprintf("read-rtcp err=%v", err != nil), time.Now(), buf[:n])
				if rep, ok := attr.Get(rtpfb.CCFBAttributesKey).(rtpfb.Report); ok {
					tr.add("rtpfb-report", time.Now(), []byte(fmt.Sprintf("%+v", rep.PacketReports)))
				}
				if scribble {
					for i := range rtcpBuf {
						rtcpBuf[i] = poison
					}
				}
				synctest.Wait()
			case 3:
				time.Sleep(o.d)
				synctest.Wait()
			}
		}
		// let pacers / tickers / loggers finish
		time.Sleep(5 * time.Second)
		synctest.Wait()
		if b.StatsGetter != nil {
			for _, ssrc := range []uint32{1000, 2000, 3000, 4000} {
				if st := b.StatsGetter.Get(ssrc); st != nil {
					tr.add(fmt.Sprintf("stats/%d", ssrc), time.Time{}, []byte(fmt.Sprintf("%+v", *st)))
				}
			}
		}
		_ = b.I.Close()
		synctest.Wait()
		for i := 0; i < 2; i++ {
			for _, ev := range lg[i].Events() {
				h := ev.Header
				if h.SSRC == uint32(1000*(i+1))+0x10000 {
					h.SequenceNumber = 0 // the RTX stream's own numbering starts at a random value
				}
				hb, err := h.Marshal()
				if err != nil {
					hb = []byte(fmt.Sprintf("unmarshalable header %+v: %v", h, err))
				}
				at := ev.VTime
				if kind == zoo.CCLeakyBucket || kind == zoo.Pacing {
					// a pacer's queue is FIFO: the ORDER at the next writer is defined, the release
					// instants are not (the GCC estimator's parallel pipeline stages may apply a
					// rate update before or after a tick) - keep the order, drop the instants
					at = time.Time{}
				}
				tr.add(fmt.Sprintf("next-writer/%d", i), at, append(hb, ev.Payload...))
			}
		}
		for _, ev := range rtcpOut.Events() {
			for _, raw := range ev.Raw {
				tr.add("rtcp-writer", ev.VTime, normRTCP(raw))
			}
		}
		if b.RTPSink != nil {
			for _, ch := range b.RTPSink.Snapshot() {
				tr.add("dump-rtp", time.Time{}, ch)
			}
			for _, ch := range b.RTCPSink.Snapshot() {
				tr.add("dump-rtcp", time.Time{}, normRTCP(ch))
			}
		}
	}, nil)
	// events at the same virtual instant on the same channel have no defined order
	sort.SliceStable(tr.ev, func(i, j int) bool {
		a, b := tr.ev[i], tr.ev[j]
		if a.where != b.where {
			return a.where < b.where
		}
		if !a.t.Equal(b.t) {
			return a.t.Before(b.t)
		}
		if a.where == "dump-rtp" || a.where == "dump-rtcp" || a.t.IsZero() {
			return false // sequential streams keep their order
		}
		return bytes.Compare(a.data, b.data) < 0
	})
	return tr
}

func run(c *vf.Case) {
	kind := kinds[c.Idx%len(kinds)]
	n := c.R.Range(20, 120)
	if kind == zoo.JitterBuffer {
		n = c.R.Range(100, 300)
	}
	ops := genOps(c.R, kind, n)
	optSeed := c.R.U64()
	a := play(c, kind, vf.NewRand(optSeed, "opts", 0), ops, false)
	b := play(c, kind, vf.NewRand(optSeed, "opts", 0), ops, true)
	if c.Violated() {
		return
	}
	if a.payloadModified != "" {
		c.Violation(fmt.Sprintf("payload-written/%s", kind), "%s", a.payloadModified)
	}
	deferred := 0
	for _, e := range a.ev {
		if e.where != "read-rtp/0 err=false" && e.where != "read-rtp/1 err=false" && e.where != "read-rtcp err=false" {
			deferred++
		}
	}
	c.Add("emissions_compared", int64(len(a.ev)))
	c.Add("emissions_other_than_read_results", int64(deferred))
	c.Add("histories_"+kind.String(), 1)
	if len(a.ev) != len(b.ev) {
		c.Violation(fmt.Sprintf("differs/%s/emission-count", kind),
			"interceptor %s: run A (fresh buffers) produced %d emissions, run B (reused + scribbled buffers) %d\n%s",
			kind, len(a.ev), len(b.ev), firstDiff(a, b))
	} else {
		for i := range a.ev {
			if a.ev[i].where != b.ev[i].where || !bytes.Equal(a.ev[i].data, b.ev[i].data) {
				c.Violation(fmt.Sprintf("differs/%s/%s", kind, cleanWhere(a.ev[i].where)),
					"interceptor %s: emission #%d differs between run A (fresh buffers) and run B (buffers reused and scribbled after each call):\n%s", kind, i, firstDiff(a, b))
				break
			}
		}
	}
	if deferred > 0 {
		h := vf.NewHash().Str(kind.String())
		for _, o := range ops {
			h.Int(o.kind).Bytes(o.payload).Bytes(o.data)
		}
		c.Nontrivial(h.Sum())
	}
	if c.WantSample() {
		c.Sample(map[string]any{"interceptor": kind.String(), "ops": len(ops), "emissions": len(a.ev), "deferred_or_generated_emissions": deferred})
	}
}

func cleanWhere(w string) string {
	for i := 0; i < len(w); i++ {
		if w[i] == ' ' {
			return w[:i]
		}
	}
	return w
}

func firstDiff(a, b *trace) string {
	n := min(len(a.ev), len(b.ev))
	for i := 0; i < n; i++ {
		if a.ev[i].where != b.ev[i].where || !bytes.Equal(a.ev[i].data, b.ev[i].data) {
			return fmt.Sprintf("first difference at emission #%d:\n A: %s @%v %s\n B: %s @%v %s", i,
				a.ev[i].where, a.ev[i].t.Format("05.000000"), hexs(a.ev[i].data), b.ev[i].where, b.ev[i].t.Format("05.000000"), hexs(b.ev[i].data))
		}
	}
	if len(a.ev) > n {
		return fmt.Sprintf("A has extra emission #%d: %s %s", n, a.ev[n].where, hexs(a.ev[n].data))
	}
	if len(b.ev) > n {
		return fmt.Sprintf("B has extra emission #%d: %s %s", n, b.ev[n].where, hexs(b.ev[n].data))
	}
	return ""
}

func hexs(b []byte) string {
	if len(b) > 160 {
		return fmt.Sprintf("%d bytes %x…", len(b), b[:160])
	}
	return fmt.Sprintf("%d bytes %x", len(b), b)
}
