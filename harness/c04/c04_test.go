// C04 – the NACK responder retransmits exactly what was sent.
//
// Monitor: the real nack.ResponderInterceptor runs inside a synctest bubble under the race
// detector. Local streams are bound to recording gates (downstream RTPWriters owned by the
// harness), packets are written through the writers returned by BindLocalStream, NACKs are
// read through readers returned by BindRTCPReader (every NACK is served by a library
// goroutine; synctest.Wait() is the quiescence point at which counts are compared).
//
// The oracle (oracle_test.go) is a naive model written from the statement: per bound stream
// instance a map true-index -> (header clone, payload copy) as sent, and the highest true
// index sent (sends are generated on true 64-bit indices whose distance to the highest is
// < 2^15, so the half-range rule and "max" agree). Every event is stamped from one logical
// clock; a request made in [r0,r1] for number n is
//
//	must      if the packet was completely sent before r0 and lies in the `size` most recent
//	          numbers for every possible state up to r1, on a stream bound throughout
//	must-not  if no packet with that number was sent before r1, or it is outside the window
//	          for every state from r0 on, or the stream was not bound at any time in [r0,r1]
//	may       otherwise (only possible when sends / Unbind / Close overlap the request)
//
// In sequential cases nothing overlaps, so every request is must or must-not and the
// comparison is exact multiset equality per request. Every retransmission seen at a gate is
// compared byte for byte with the original as sent (or its RFC 4588 form) at entry AND at
// exit of the downstream Write.
//
// Case kinds: idx%6==5 -> concurrent (writers + RTCP readers + holds inside the gate +
// Unbind/Close), otherwise sequential.
package c04

import (
	"fmt"
	"io"
	"runtime"
	"sync"
	"sync/atomic"
	"testing"
	"testing/synctest"

	"github.com/pion/interceptor"
	"github.com/pion/interceptor/pkg/nack"
	"github.com/pion/logging"
	"github.com/pion/rtcp"
	"github.com/pion/rtp"

	"github.com/pion/interceptor/verif/gen"
	"github.com/pion/interceptor/verif/vf"
)

func cases(tier string) int {
	if tier == "thorough" {
		return 120000
	}
	return 960
}

func TestCheck(t *testing.T) {
	vf.Main(t, vf.Spec{Prop: "C04", Cases: cases, Run: run})
}

// ---------------------------------------------------------------------------------
// scenario state

type origMark struct{}

var origKey = origMark{}

type holdKey struct {
	in *inst
	n  uint16
}

type scn struct {
	c          *vf.Case
	noCopy     bool // nack.DisableCopy()
	failEvery  int // > 0: the next writer returns an error for every failEvery-th retransmission of a stream
	r          *vf.Rand
	clk        clock
	size       int64
	concurrent bool
	icpt       interceptor.Interceptor
	insts      []*inst
	bySSRC     map[uint32][]*inst
	usedSSRC   map[uint32]bool
	readers    []*rtcpReader
	closed     bool
	budget     int // sends left
	small      bool

	// hold configuration (gate goroutines read it)
	hmu       sync.Mutex
	holdSet   map[holdKey]bool
	holdCh    chan struct{}
	released  bool
	heldTotal int64
	yseed     uint64

	// requests of the current round
	rmu        sync.Mutex
	reqs       []*request
	nackSeq    int
	curStep    atomic.Int64
	stepBounds []int64

	// concurrent step progress
	progress atomic.Int64
	ctlThr   int64
	relThr   int64
	trigCh   chan struct{}
	trigOnce *sync.Once

	trace []string
	fp    *vf.Hash
	ev    evidence
	drv   *worker
}

type evidence struct {
	sends, dupSends, lateInWin, lateOutWin, foreign             int64
	nackPkts, compounds                                         int64
	reqMust, reqMay, reqMustNot                                 int64
	retx, retxRTX, exitCompared, held, heldEvicted              int64
	unbinds, closes, rebinds                                    int64
	writeErrs, readErrs                                         int64
	switches                                                    int64
	maxInFlight                                                 int64
	overlapSend, maxDuring, widened                             int64
	mustNotNever, mustNotOutside, mustNotUnbound, mustNotNoSSRC int64
}

func (sc *scn) tracef(format string, a ...any) {
	if len(sc.trace) > 400 {
		sc.trace = append(sc.trace[:0], sc.trace[200:]...)
	}
	sc.trace = append(sc.trace, fmt.Sprintf(format, a...))
}

func (sc *scn) tail(n int) string {
	t := sc.trace
	if len(t) > n {
		t = t[len(t)-n:]
	}
	s := ""
	for _, l := range t {
		s += "  " + l + "\n"
	}
	return s
}

func quietLogger() logging.LeveledLogger {
	f := logging.NewDefaultLoggerFactory()
	f.Writer = io.Discard
	f.DefaultLogLevel = logging.LogLevelDisabled
	f.ScopeLevels = map[string]logging.LogLevel{}
	return f.NewLogger("c04")
}

// worker = caller-owned buffers of one writing goroutine, reused and scribbled after every
// Write (the way a real sender recycles its packet buffer).
type worker struct {
	hdr rtp.Header
	buf []byte
	r   *vf.Rand
}

func newWorker(r *vf.Rand) *worker { return &worker{buf: make([]byte, 1500), r: r} }

// send writes one packet on the instance's writer and stamps the model.
func (sc *scn) send(in *inst, o *orig, wk *worker) {
	wk.hdr = o.hdr.Clone()
	var payload []byte
	if o.pl != nil {
		payload = wk.buf[:len(o.pl)]
		copy(payload, o.pl)
	}
	if sc.noCopy {
		// DisableCopy: the responder keeps the caller's header and payload (documented); the
		// caller hands over fresh objects and never touches them again
		h := o.hdr.Clone()
		in.beginSend(&sc.clk, o)
		_, err := in.w.Write(&h, append([]byte(nil), o.pl...), interceptor.Attributes{origKey: o})
		in.endSend(&sc.clk, o, err == nil)
		if err != nil {
			atomic.AddInt64(&sc.ev.writeErrs, 1)
		}
		return
	}
	in.beginSend(&sc.clk, o)
	_, err := in.w.Write(&wk.hdr, payload, interceptor.Attributes{origKey: o})
	in.endSend(&sc.clk, o, err == nil)
	if err != nil {
		atomic.AddInt64(&sc.ev.writeErrs, 1)
	}
	// the caller reuses its buffers: scribble everything the library could still alias
	h := &wk.hdr
	h.SequenceNumber ^= 0x5a5a
	h.Timestamp = ^h.Timestamp
	h.Marker = !h.Marker
	h.PayloadType ^= 0x55
	for i := range h.CSRC {
		h.CSRC[i] = ^h.CSRC[i]
	}
	for _, id := range h.GetExtensionIDs() {
		p := h.GetExtension(id)
		for i := range p {
			p[i] ^= 0xff
		}
	}
	h.Padding = !h.Padding
	h.PaddingSize ^= 0x3c
	for i := range payload {
		payload[i] ^= 0xa5
	}
}

// ---------------------------------------------------------------------------------
// RTCP side

type nackSpec struct {
	ssrc  uint32
	pairs []rtcp.NackPair
	wide  bool
}

type compound struct {
	nacks []nackSpec
	raw   []byte
	slack int
	nilAt bool
}

func expand(p rtcp.NackPair) []uint16 {
	out := []uint16{p.PacketID}
	for i := uint16(0); i < 16; i++ {
		if uint16(p.LostPackets)&(1<<i) != 0 {
			out = append(out, p.PacketID+i+1)
		}
	}
	return out
}

type rtcpReader struct {
	rd   interceptor.RTCPReader
	next []byte
}

func (sc *scn) newReader() *rtcpReader {
	rr := &rtcpReader{}
	rr.rd = sc.icpt.BindRTCPReader(interceptor.RTCPReaderFunc(
		func(b []byte, a interceptor.Attributes) (int, interceptor.Attributes, error) {
			return copy(b, rr.next), a, nil
		}))
	return rr
}

func (sc *scn) buildCompound(specs []nackSpec) *compound {
	r := sc.r
	var pkts []rtcp.Packet
	if r.Chance(0.4) {
		pkts = append(pkts, &rtcp.ReceiverReport{SSRC: r.U32()})
	}
	for i := range specs {
		pkts = append(pkts, &rtcp.TransportLayerNack{SenderSSRC: r.U32(), MediaSSRC: specs[i].ssrc, Nacks: specs[i].pairs})
		if r.Chance(0.15) {
			pkts = append(pkts, &rtcp.PictureLossIndication{SenderSSRC: r.U32(), MediaSSRC: specs[i].ssrc})
		}
	}
	raw, err := rtcp.Marshal(pkts)
	if err != nil {
		sc.c.Inconclusive("harness: cannot marshal NACK compound: %v", err)
		return nil
	}
	return &compound{nacks: specs, raw: raw, slack: r.Pick(0, 0, 1, 4, 100), nilAt: r.Chance(0.3)}
}

// read delivers one compound through a bound RTCP reader and records its requests.
func (sc *scn) read(rr *rtcpReader, cp *compound) {
	rr.next = cp.raw
	buf := make([]byte, len(cp.raw)+cp.slack)
	var a interceptor.Attributes
	if !cp.nilAt {
		a = interceptor.Attributes{}
	}
	step := int(sc.curStep.Load())
	r0 := sc.clk.tick()
	n, _, err := rr.rd.Read(buf, a)
	if err != nil || n != len(cp.raw) {
		atomic.AddInt64(&sc.ev.readErrs, 1)
		return
	}
	sc.rmu.Lock()
	for _, ns := range cp.nacks {
		sc.nackSeq++ // every NACK packet is served by its own library goroutine
		for _, p := range ns.pairs {
			for _, num := range expand(p) {
				sc.reqs = append(sc.reqs, &request{ssrc: ns.ssrc, n: num, r0: r0, step: step, wide: ns.wide, nack: sc.nackSeq})
			}
		}
	}
	sc.rmu.Unlock()
	atomic.AddInt64(&sc.ev.compounds, 1)
	atomic.AddInt64(&sc.ev.nackPkts, int64(len(cp.nacks)))
}

// ---------------------------------------------------------------------------------
// binding

func (sc *scn) freshSSRC() uint32 {
	for {
		s := sc.r.U32()
		if sc.r.Chance(0.1) {
			s = uint32(sc.r.Pick(1, 2, 0xffffffff, 0x80000000))
		}
		if s == 0 || sc.usedSSRC[s] {
			continue
		}
		sc.usedSSRC[s] = true
		return s
	}
}

func (sc *scn) bind(ssrc uint32, rtx bool) *inst {
	r := sc.r
	in := &inst{
		id: len(sc.insts), ssrc: ssrc, rtx: rtx, pt: uint8(r.Intn(128)), seed: r.U64(), size: sc.size,
		byT: map[int64]*orig{}, byNum: map[uint16][]*orig{}, u0: never, u1: never, small: sc.small,
	}
	if r.Chance(0.5) {
		in.shape = gen.RandomShape(r)
	}
	in.varyShape = r.Chance(0.3)
	in.legacyP = float64(r.Pick(0, 0, 10, 30, 100)) / 100
	fb := []interceptor.RTCPFeedback{{Type: "nack"}}
	switch r.Intn(4) {
	case 0:
		fb = []interceptor.RTCPFeedback{{Type: "nack", Parameter: "pli"}, {Type: "nack"}}
	case 1:
		fb = []interceptor.RTCPFeedback{{Type: "goog-remb"}, {Type: "nack"}, {Type: "transport-cc"}}
	}
	in.info = &interceptor.StreamInfo{ID: fmt.Sprintf("s%d", in.id), SSRC: ssrc, PayloadType: in.pt, RTCPFeedback: fb,
		ClockRate: 90000, MimeType: "video/VP8"}
	if rtx {
		in.rtxSSRC = sc.freshSSRC()
		in.rtxPT = uint8(r.Range(1, 127))
		in.info.SSRCRetransmission = in.rtxSSRC
		in.info.PayloadTypeRetransmission = in.rtxPT
		if sc.noCopy {
			in.rtx = false // negotiated, but with DisableCopy the stored packet is the original
		}
	} else if r.Chance(0.3) {
		// half-negotiated RTX (an RTX SSRC without an RTX payload type, or the reverse) is no
		// RTX: retransmissions keep the original form
		if r.Bool() {
			in.info.SSRCRetransmission = sc.freshSSRC()
		} else {
			in.info.PayloadTypeRetransmission = uint8(r.Range(1, 127))
		}
		sc.c.Add("streams_with_half_negotiated_rtx", 1)
	}
	in.g = &gate{sc: sc, in: in}
	// the first true index: a multiple of 65536 plus a start near interesting 16-bit values
	in.startT = 1<<20 + gen.StartIndex(r)
	in.b0 = sc.clk.tick()
	in.w = sc.icpt.BindLocalStream(in.info, in.g)
	in.b1 = sc.clk.tick()
	sc.insts = append(sc.insts, in)
	sc.bySSRC[ssrc] = append(sc.bySSRC[ssrc], in)
	sc.tracef("bind inst#%d ssrc=%#x rtx=%v(rtxssrc=%#x rtxpt=%d) start seq=%d", in.id, ssrc, rtx, in.rtxSSRC, in.rtxPT, uint16(in.startT))
	return in
}

func (sc *scn) unbind(in *inst) {
	in.mu.Lock()
	in.u0 = sc.clk.tick()
	in.mu.Unlock()
	sc.icpt.UnbindLocalStream(in.info)
	in.mu.Lock()
	in.u1 = sc.clk.tick()
	in.mu.Unlock()
	atomic.AddInt64(&sc.ev.unbinds, 1)
}

func (sc *scn) closeAll() {
	c0 := sc.clk.tick()
	for _, in := range sc.insts {
		in.mu.Lock()
		if in.u0 == never {
			in.u0 = c0
		}
		in.mu.Unlock()
	}
	_ = sc.icpt.Close()
	c1 := sc.clk.tick()
	for _, in := range sc.insts {
		in.mu.Lock()
		if in.u1 == never {
			in.u1 = c1
		}
		in.mu.Unlock()
	}
	atomic.AddInt64(&sc.ev.closes, 1)
}

func (sc *scn) live() []*inst {
	var out []*inst
	for _, in := range sc.insts {
		if !in.gone {
			out = append(out, in)
		}
	}
	return out
}

// ---------------------------------------------------------------------------------
// holds

func (sc *scn) release() {
	sc.hmu.Lock()
	if !sc.released && sc.holdCh != nil {
		close(sc.holdCh)
		sc.released = true
	}
	sc.hmu.Unlock()
}

// atGate runs inside the downstream Write of a retransmission, after the entry snapshot.
func (sc *scn) atGate(in *inst, ev *retx) bool {
	if !sc.concurrent {
		return false
	}
	sc.hmu.Lock()
	hold := ev.nOK && sc.holdSet[holdKey{in, ev.n}] && sc.holdCh != nil && !sc.released
	ch := sc.holdCh
	if hold {
		sc.heldTotal++
	}
	sc.hmu.Unlock()
	if hold {
		<-ch
		return true
	}
	for k := int(mix64(uint64(ev.e0)^sc.yseed) % 4); k > 0; k-- {
		runtime.Gosched()
	}
	return false
}

// ---------------------------------------------------------------------------------
// case

func run(c *vf.Case) {
	sc := &scn{c: c, r: c.R, bySSRC: map[uint32][]*inst{}, usedSSRC: map[uint32]bool{}, fp: vf.NewHash(),
		holdSet: map[holdKey]bool{}}
	sc.concurrent = c.Idx%6 == 5
	r := sc.r
	sc.yseed = r.U64()
	if sc.concurrent {
		sc.size = int64(r.Pick(1, 2, 2, 8, 8, 8, 64, 64, 64, 1024, 1024, 16))
		if r.Chance(0.06) {
			sc.size = 32768
		}
		sc.budget = 6000
	} else {
		sc.size = int64(r.Pick(1, 2, 2, 8, 8, 8, 64, 64, 1024, 1024, 32768, 32768))
		if r.Chance(0.1) {
			sc.size = 1 << r.Intn(16)
		}
		sc.budget = 2500
		if sc.size >= 8192 && r.Chance(0.3) {
			// dense eviction of a large ring: tens of thousands of small packets
			sc.budget = 3*int(sc.size) + 2000
			sc.small = true
		}
	}
	if r.Chance(0.08) {
		// the documented opt-out of copying: retransmissions keep the original form even when
		// RTX is negotiated (the no-copy factory never builds the RFC 4588 form)
		sc.noCopy = true
		c.Add("cases_with_disable_copy", 1)
	}
	if r.Chance(0.25) {
		sc.failEvery = r.Pick(1, 2, 3, 5)
		c.Add("cases_whose_next_writer_fails_some_retransmissions", 1)
	}
	c.Bubble(func() {
		defer sc.release()
		ropts := []nack.ResponderOption{nack.ResponderSize(uint16(sc.size)), nack.ResponderLog(quietLogger())}
		if sc.noCopy {
			ropts = append(ropts, nack.DisableCopy())
		}
		f, err := nack.NewResponderInterceptor(ropts...)
		if err != nil {
			c.Inconclusive("harness: NewResponderInterceptor: %v", err)
			return
		}
		sc.icpt, err = f.NewInterceptor("c04")
		if err != nil {
			c.Inconclusive("harness: NewInterceptor(size=%d): %v", sc.size, err)
			return
		}
		sc.drv = newWorker(r.Fork())
		if sc.concurrent {
			sc.runConcurrent()
		} else {
			sc.runSequential()
		}
		sc.release()
		synctest.Wait()
		// anything emitted outside a round (after quiescence) is caught by an empty round
		sc.beginRound()
		sc.endStep()
		sc.endRound()
		if !sc.closed {
			sc.closeAll() // cleanup only
			sc.ev.closes--
		}
	}, nil)
	sc.finish()
}

func (sc *scn) finish() {
	c := sc.c
	e := &sc.ev
	var evicted int64
	for _, in := range sc.insts {
		evicted += in.countEvicted()
		in.g.mu.Lock()
		e.switches += in.g.switches
		in.g.mu.Unlock()
	}
	c.Add("packets_sent", e.sends)
	c.Add("duplicate_sends", e.dupSends)
	c.Add("late_sends_inside_window", e.lateInWin)
	c.Add("late_sends_older_than_window", e.lateOutWin)
	c.Add("foreign_ssrc_packets_through_bound_writer", e.foreign)
	c.Add("packets_evicted_from_window(model)", evicted)
	c.Add("rtcp_compounds_read", e.compounds)
	c.Add("nack_packets_read", e.nackPkts)
	c.Add("requests_must", e.reqMust)
	c.Add("requests_may", e.reqMay)
	c.Add("requests_must_not", e.reqMustNot)
	c.Add("requests_must_not/never_sent", e.mustNotNever)
	c.Add("requests_must_not/outside_window", e.mustNotOutside)
	c.Add("requests_must_not/unbound_stream", e.mustNotUnbound)
	c.Add("requests_must_not/unknown_ssrc", e.mustNotNoSSRC)
	c.Add("retransmissions_compared", e.retx)
	c.Add("retransmissions_compared_rtx_form", e.retxRTX)
	c.Add("exit_snapshots_compared", e.exitCompared)
	c.Add("retransmissions_held_in_downstream_write", e.held)
	c.Add("held_retransmissions_whose_packet_was_evicted_meanwhile", e.heldEvicted)
	c.Add("unbinds", e.unbinds)
	c.Add("rebinds", e.rebinds)
	c.Add("closes", e.closes)
	c.Add("gate_original/retransmission_alternations", e.switches)
	if e.writeErrs > 0 {
		c.Add("write_errors", e.writeErrs)
	}
	if e.readErrs > 0 {
		c.Add("rtcp_read_errors", e.readErrs)
		c.Inconclusive("harness: %d RTCP reads failed", e.readErrs)
	}
	if sc.concurrent {
		c.Add("cases_concurrent", 1)
	} else {
		c.Add("cases_sequential", 1)
	}
	c.Max("max_sends_in_one_case", e.sends)
	c.Max("max_held_at_once", e.maxInFlight)
	c.Add("retransmissions_whose_downstream_write_overlapped_a_send", e.overlapSend)
	c.Max("max_sends_completed_during_one_downstream_write", e.maxDuring)
	c.Add("requests_kept_open_because_their_nack_goroutine_was_blocked_in_a_hold", e.widened)
	if evicted >= 1 && e.retx >= 1 && e.reqMustNot >= 1 {
		sc.fp.Int(int(sc.size))
		c.Nontrivial(sc.fp.Sum())
	}
	if c.WantSample() {
		var streams []map[string]any
		for _, in := range sc.insts {
			streams = append(streams, map[string]any{"ssrc": in.ssrc, "rtx": in.rtx, "first_seq": uint16(in.startT),
				"highest_true_index_minus_first": in.H - in.startT, "distinct_packets": len(in.byT)})
		}
		kind := "sequential"
		if sc.concurrent {
			kind = "concurrent"
		}
		tr := sc.trace
		if len(tr) > 12 {
			tr = tr[:12]
		}
		c.Sample(map[string]any{"case": c.Idx, "kind": kind, "size": sc.size, "streams": streams, "sends": e.sends,
			"requests_must/may/must_not": []int64{e.reqMust, e.reqMay, e.reqMustNot}, "retransmissions": e.retx,
			"evicted": evicted, "first_ops": tr})
	}
}

// ---------------------------------------------------------------------------------
// sequential phase

func (sc *scn) pickInst(liveOnly bool) *inst {
	var pool []*inst
	for _, in := range sc.insts {
		if liveOnly && in.gone {
			continue
		}
		pool = append(pool, in)
	}
	if len(pool) == 0 {
		return nil
	}
	return pool[sc.r.Intn(len(pool))]
}

func (sc *scn) runSequential() {
	r := sc.r
	sc.newReaderSet(r.Range(1, 2))
	n := r.Range(1, 3)
	for i := 0; i < n; i++ {
		sc.bind(sc.freshSSRC(), r.Chance(0.5))
	}
	nOps := r.Range(8, 30)
	for op := 0; op < nOps; op++ {
		switch p := r.Intn(100); {
		case p < 46:
			if in := sc.pickInst(r.Chance(0.9)); in != nil {
				sc.seqSendBatch(in)
			}
		case p < 90:
			sc.seqNack()
		case p < 93:
			// unbinding the only live stream early would leave nothing to observe
			if in := sc.pickInst(true); in != nil && (len(sc.live()) >= 2 || op > 2*nOps/3) {
				sc.unbind(in)
				in.gone = true
				sc.tracef("unbind inst#%d", in.id)
			}
		case p < 96:
			// rebind the SSRC of an unbound instance (fresh state, maybe other RTX setting)
			for _, in := range sc.insts {
				if in.gone && !in.rebound {
					in.rebound = true
					sc.bind(in.ssrc, r.Bool())
					sc.ev.rebinds++
					break
				}
			}
		default:
			if in := sc.pickInst(true); in != nil {
				sc.foreign(in)
			}
		}
	}
	sc.seqNack()
	if r.Chance(0.5) {
		sc.closeAll()
		sc.closed = true
		for _, in := range sc.insts {
			in.gone = true
		}
		sc.tracef("close")
		for i := r.Range(1, 3); i > 0; i-- {
			if in := sc.pickInst(false); in != nil && r.Bool() {
				sc.seqSendBatch(in)
			}
			sc.seqNack()
		}
	}
}

func (sc *scn) newReaderSet(n int) {
	for i := 0; i < n; i++ {
		sc.readers = append(sc.readers, sc.newReader())
	}
}

// foreign writes a packet of another SSRC through the instance's writer: forwarded, but not
// a packet of the bound stream.
func (sc *scn) foreign(in *inst) {
	r := sc.r
	t := in.H - int64(r.Intn(int(min64(sc.size, 50))+1))
	h := gen.Header(r, gen.Shape{}, sc.freshSSRC(), in.pt, uint16(t), r.U32())
	o := &orig{t: t, seq: uint16(t), hdr: h, pl: r.Bytes(r.Intn(40)), s0: never, s1: never, foreign: true}
	wk := sc.drv
	wk.hdr = o.hdr.Clone()
	payload := wk.buf[:len(o.pl)]
	copy(payload, o.pl)
	_, _ = in.w.Write(&wk.hdr, payload, interceptor.Attributes{origKey: o})
	sc.ev.foreign++
	sc.tracef("inst#%d: packet of foreign ssrc %#x seq=%d through the bound writer", in.id, h.SSRC, h.SequenceNumber)
}

// planner appends sends to a list while keeping every index within 2^15-1 of the highest.
type planner struct {
	sc  *scn
	in  *inst
	h   int64
	st  bool
	out []int64
}

func (p *planner) add(t int64) bool {
	if p.sc.budget <= 0 {
		return false
	}
	if p.st {
		if t-p.h > 32767 || p.h-t > 32767 {
			return false
		}
	}
	if t < 70000 {
		return false
	}
	p.sc.budget--
	p.out = append(p.out, t)
	if !p.st || t > p.h {
		p.h, p.st = t, true
	} else if p.h-t >= p.sc.size {
		// a late send older than the window: remember which window member shares its slot
		// (only used to aim NACKs; the verdict never depends on it)
		v := p.h - (p.h-t)%p.sc.size
		p.in.victims = append(p.in.victims, v)
		if len(p.in.victims) > 8 {
			p.in.victims = p.in.victims[1:]
		}
	}
	return true
}

func (sc *scn) runLen() int {
	r := sc.r
	s := int(sc.size)
	k := r.Pick(1, 2, 3, s-1, s, s+1, 2*s+1, r.Range(1, 40), r.Range(1, 12))
	lim := 300
	if sc.small {
		lim = 3*s + 100
	}
	if k > lim {
		k = r.Range(1, lim)
	}
	if k < 1 {
		k = 1
	}
	return k
}

func (sc *scn) seqSendBatch(in *inst) {
	r := sc.r
	p := &planner{sc: sc, in: in, h: in.H, st: in.started}
	size := sc.size
	what := ""
	if !in.started {
		p.add(in.startT)
	}
	switch q := r.Intn(100); {
	case q < 28: // in-order run
		k := sc.runLen()
		what = fmt.Sprintf("run of %d", k)
		for i := 0; i < k; i++ {
			p.add(p.h + 1)
		}
	case q < 42: // gap then run
		g := int64(r.Pick(1, 2, int(size)-1, int(size), int(size)+1, r.Range(1, 500)))
		if r.Chance(0.1) {
			g = int64(r.Range(1000, 32000))
		}
		if g < 1 {
			g = 1
		}
		k := r.Range(1, 10)
		what = fmt.Sprintf("gap of %d then run of %d", g, k)
		p.add(p.h + 1 + g)
		for i := 1; i < k; i++ {
			p.add(p.h + 1)
		}
	case q < 54: // a run delivered out of order
		k := r.Range(2, 24)
		what = fmt.Sprintf("run of %d in shuffled order", k)
		idx := make([]int64, k)
		for i := range idx {
			idx[i] = p.h + 1 + int64(i)
		}
		for i := k - 1; i > 0; i-- {
			j := r.Intn(i + 1)
			if r.Chance(0.5) {
				j = max(0, i-r.Intn(4))
			}
			idx[i], idx[j] = idx[j], idx[i]
		}
		for _, t := range idx {
			p.add(t)
		}
	case q < 64: // late send inside the window (fills a gap, or repeats a packet with identical content)
		k := r.Range(1, 4)
		what = "late inside the window"
		for i := 0; i < k; i++ {
			if size > 1 {
				p.add(p.h - int64(r.Range(1, int(min64(size-1, 2000)))))
			} else {
				p.add(p.h)
			}
		}
	case q < 80: // late send older than the window
		k := r.Range(1, 3)
		what = "late, older than the window"
		for i := 0; i < k; i++ {
			var d int64
			switch r.Intn(6) {
			case 0:
				d = size
			case 1:
				d = size + int64(r.Range(1, 3))
			case 2:
				d = size * int64(r.Range(1, 4))
			case 3:
				d = size*int64(r.Range(1, 4)) + int64(r.Intn(int(min64(size, 1000))))
			case 4:
				d = size + int64(r.Intn(2000))
			default:
				d = size + int64(r.Intn(32000))
			}
			if d > 32767 {
				d = 32767
			}
			if d >= size {
				p.add(p.h - d)
			}
		}
	case q < 88: // duplicates (identical content): of the highest, of recent ones, of old ones
		k := r.Range(1, 4)
		what = "duplicates"
		for i := 0; i < k; i++ {
			switch r.Intn(3) {
			case 0:
				p.add(p.h)
			case 1:
				p.add(p.h - int64(r.Intn(int(min64(size, 30)))))
			default:
				if len(in.sentList) > 0 {
					p.add(in.sentList[r.Intn(len(in.sentList))])
				}
			}
		}
	case q < 92: // big jump (< 2^15)
		j := int64(r.Range(10000, 32767))
		what = fmt.Sprintf("jump of %d", j)
		p.add(p.h + j)
	default: // enough in-order packets to recycle the whole ring
		k := int(size) + r.Range(1, 20)
		lim := 600
		if sc.small {
			lim = 40000
		}
		if k > lim {
			k = lim
		}
		what = fmt.Sprintf("dense run of %d", k)
		for i := 0; i < k; i++ {
			p.add(p.h + 1)
		}
	}
	if len(p.out) == 0 {
		return
	}
	h0 := in.H
	sc.sendList(in, p.out)
	lo, hi := p.out[0], p.out[0]
	for _, t := range p.out {
		lo, hi = min64(lo, t), max64(hi, t)
	}
	if len(p.out) <= 12 {
		sc.tracef("inst#%d send %s: seq %v (highest before: %d)", in.id, what, seqs(p.out), uint16(h0))
	} else {
		sc.tracef("inst#%d send %s: %d packets, seq %d..%d (highest before: %d, after: %d)", in.id, what, len(p.out),
			uint16(lo), uint16(hi), uint16(h0), uint16(in.H))
	}
	sc.fp.Int(len(p.out)).U64(uint64(in.H - h0))
}

func seqs(ts []int64) []uint16 {
	out := make([]uint16, len(ts))
	for i, t := range ts {
		out[i] = uint16(t)
	}
	return out
}

// sendList sends the true indices in order on the driver goroutine.
func (sc *scn) sendList(in *inst, ts []int64) {
	for _, t := range ts {
		o := sc.origFor(in, t)
		sc.send(in, o, sc.drv)
	}
}

// origFor returns (creating on first use) the packet of true index t and updates the
// generator-side view (highest, counters). Driver goroutine only.
func (sc *scn) origFor(in *inst, t int64) *orig {
	in.mu.Lock()
	o := in.byT[t]
	if o == nil {
		o = in.newOrig(t)
		in.byT[t] = o
		in.byNum[o.seq] = append(in.byNum[o.seq], o)
		in.sentList = append(in.sentList, t)
	} else {
		sc.ev.dupSends++
	}
	in.mu.Unlock()
	sc.ev.sends++
	if !in.started || t > in.H {
		in.H, in.started = t, true
	} else if t < in.H {
		if in.H-t >= sc.size {
			sc.ev.lateOutWin++
		} else {
			sc.ev.lateInWin++
		}
	}
	return o
}

func (sc *scn) pickTarget(in *inst) int64 {
	r := sc.r
	H, size := in.H, sc.size
	if !in.started {
		return in.startT + int64(r.Intn(20))
	}
	switch r.Intn(13) {
	case 0, 1, 2:
		return H - int64(r.Intn(int(min64(size, 4000))))
	case 3, 4:
		if len(in.victims) > 0 {
			return in.victims[r.Intn(len(in.victims))]
		}
		return H - int64(r.Intn(int(size)))
	case 5:
		return H - size + 1
	case 6:
		return H - size
	case 7:
		return H
	case 8:
		return H + int64(r.Range(1, 20))
	case 9:
		return H - size - int64(r.Range(0, int(min64(3*size, 30000))))
	case 10:
		return H - int64(r.Range(0, 40000))
	case 11:
		if len(in.sentList) > 0 {
			return in.sentList[r.Intn(len(in.sentList))]
		}
		return H
	default:
		return H - size + int64(r.Range(-2, 2))
	}
}

func (sc *scn) pickMask() rtcp.PacketBitmap {
	r := sc.r
	switch r.Intn(8) {
	case 0, 1, 2:
		return 0
	case 3:
		return 0xffff
	case 4:
		return rtcp.PacketBitmap(r.U16())
	case 5:
		return rtcp.PacketBitmap(1 << r.Intn(16))
	case 6:
		return rtcp.PacketBitmap(r.U16() & r.U16())
	default:
		return rtcp.PacketBitmap(1<<r.Intn(16) - 1)
	}
}

// randomNack builds one NACK packet aimed at (mostly) a known instance.
func (sc *scn) randomNack() *nackSpec {
	r := sc.r
	if len(sc.insts) == 0 {
		return nil
	}
	in := sc.pickInst(r.Chance(0.85))
	if in == nil {
		in = sc.pickInst(false)
	}
	ns := &nackSpec{ssrc: in.ssrc}
	switch p := r.Intn(100); {
	case p < 6:
		ns.ssrc = sc.freshSSRC() // never bound
	case p < 11 && in.rtx:
		ns.ssrc = in.rtxSSRC // the RTX SSRC is not a bound stream
	}
	for k := r.Pick(1, 1, 1, 2, 3, 5); k > 0; k-- {
		t := sc.pickTarget(in)
		ns.pairs = append(ns.pairs, rtcp.NackPair{PacketID: uint16(t), LostPackets: sc.pickMask()})
		if r.Chance(0.1) { // the same number requested twice in one NACK
			ns.pairs = append(ns.pairs, rtcp.NackPair{PacketID: uint16(t)})
		}
	}
	return ns
}

func (sc *scn) describeNack(ns nackSpec) string {
	s := fmt.Sprintf("NACK media ssrc=%#x:", ns.ssrc)
	for _, p := range ns.pairs {
		s += fmt.Sprintf(" {id=%d mask=%#04x}", p.PacketID, uint16(p.LostPackets))
	}
	return s
}

func (sc *scn) seqNack() {
	r := sc.r
	var specs []nackSpec
	for k := r.Pick(1, 1, 2, 3); k > 0; k-- {
		if ns := sc.randomNack(); ns != nil {
			specs = append(specs, *ns)
		}
	}
	if len(specs) == 0 {
		return
	}
	cp := sc.buildCompound(specs)
	if cp == nil {
		return
	}
	for _, ns := range specs {
		sc.tracef("%s", sc.describeNack(ns))
	}
	sc.beginRound()
	sc.read(sc.readers[r.Intn(len(sc.readers))], cp)
	synctest.Wait()
	sc.endStep()
	sc.endRound()
}

// ---------------------------------------------------------------------------------
// rounds / steps

func (sc *scn) beginRound() {
	sc.rmu.Lock()
	sc.reqs = nil
	sc.rmu.Unlock()
	sc.stepBounds = nil
	sc.curStep.Store(0)
}

// endStep is called after synctest.Wait() returned: every library goroutine serving a NACK
// has either finished or is blocked inside a held downstream Write. A NACK of the second
// kind stays open (its remaining numbers are looked up only after the release), so all its
// requests are judged over the whole round. This is decided from what the gates actually
// hold, not from what the generator intended.
func (sc *scn) endStep() {
	type sn struct {
		ssrc uint32
		n    uint16
	}
	held := map[sn]bool{}
	for _, in := range sc.insts {
		in.g.mu.Lock()
		for _, ev := range in.g.evs[in.g.checked:] {
			if !ev.exit && ev.nOK {
				held[sn{in.ssrc, ev.n}] = true
			}
		}
		in.g.mu.Unlock()
	}
	if len(held) > 0 {
		sc.rmu.Lock()
		open := map[int]bool{}
		for _, q := range sc.reqs {
			if held[sn{q.ssrc, q.n}] {
				open[q.nack] = true
			}
		}
		for _, q := range sc.reqs {
			if open[q.nack] && !q.wide {
				q.wide = true
				sc.ev.widened++
			}
		}
		sc.rmu.Unlock()
	}
	sc.stepBounds = append(sc.stepBounds, sc.clk.tick())
	sc.curStep.Add(1)
}

// ---------------------------------------------------------------------------------
// concurrent phase

type sendItem struct {
	in *inst
	o  *orig
}

type control struct {
	closeAll bool
	in       *inst
}

type stepPlan struct {
	writers [][]sendItem
	readers [][]*compound
	ctl     *control
	ctlThr  int64
	relThr  int64
}

func (sc *scn) runStep(p *stepPlan) {
	sc.progress.Store(0)
	sc.ctlThr, sc.relThr = p.ctlThr, p.relThr
	trig := make(chan struct{})
	var once sync.Once
	fire := func() { once.Do(func() { close(trig) }) }
	var total int64
	for _, w := range p.writers {
		total += int64(len(w))
	}
	if p.ctlThr <= 0 || p.ctlThr > total {
		if p.ctlThr > total {
			sc.ctlThr = total
		}
		if total == 0 || p.ctlThr <= 0 {
			fire()
		}
	}
	if sc.relThr > total {
		sc.relThr = total
	}
	done := make(chan struct{}, len(p.writers)+len(p.readers)+1)
	n := 0
	for wi, list := range p.writers {
		if len(list) == 0 {
			continue
		}
		n++
		wk := newWorker(vf.NewRand(sc.yseed, "C04-writer", uint64(wi)))
		go func(list []sendItem, wk *worker) {
			defer func() { done <- struct{}{} }()
			for _, it := range list {
				sc.send(it.in, it.o, wk)
				pr := sc.progress.Add(1)
				if pr == sc.ctlThr {
					fire()
				}
				if sc.relThr > 0 && pr == sc.relThr {
					sc.release()
				}
				if wk.r.Chance(0.15) {
					runtime.Gosched()
				}
			}
		}(list, wk)
	}
	for ri, list := range p.readers {
		if len(list) == 0 {
			continue
		}
		n++
		rr := sc.readers[ri%len(sc.readers)]
		yr := vf.NewRand(sc.yseed, "C04-reader", uint64(ri))
		go func(list []*compound, rr *rtcpReader) {
			defer func() { done <- struct{}{} }()
			for _, cp := range list {
				sc.read(rr, cp)
				if yr.Chance(0.5) {
					runtime.Gosched()
				}
			}
		}(list, rr)
	}
	if p.ctl != nil {
		n++
		go func() {
			defer func() { done <- struct{}{} }()
			<-trig
			if p.ctl.closeAll {
				sc.closeAll()
			} else {
				sc.unbind(p.ctl.in)
			}
		}()
	}
	for ; n > 0; n-- {
		<-done
	}
	fire()
	synctest.Wait()
	sc.hmu.Lock()
	if h := sc.heldTotal; h > sc.ev.maxInFlight && !sc.released {
		sc.ev.maxInFlight = h
	}
	sc.hmu.Unlock()
	sc.endStep()
}

// traffic plans `adv` numbers of advance on the instance with at most `maxSends` packets,
// the rest being jumps; returns the true indices in sending order.
func (sc *scn) traffic(in *inst, adv int64, maxSends int) []int64 {
	r := sc.r
	p := &planner{sc: sc, in: in, h: in.H, st: in.started}
	if !in.started {
		p.add(in.startT)
	}
	if adv <= 0 {
		return p.out
	}
	nSends := int(min64(adv, int64(maxSends)))
	skip := adv - int64(nSends)
	jumps := 0
	if skip > 0 {
		jumps = int(skip/25000) + r.Range(1, 3)
	}
	jumpAt := map[int]int64{}
	for j := 0; j < jumps; j++ {
		at := r.Intn(nSends)
		jumpAt[at] += skip / int64(jumps)
	}
	for i := 0; i < nSends; i++ {
		step := int64(1) + jumpAt[i]
		for step > 30000 { // keep every single step below 2^15
			p.add(p.h + 30000)
			step -= 30000
		}
		if !p.add(p.h + step) {
			break
		}
		if r.Chance(0.03) && sc.size > 1 { // identical duplicate of a recent packet
			p.add(p.h - int64(r.Intn(int(min64(sc.size, 6)))))
		}
	}
	return p.out
}

// deal distributes per-instance send lists over W writers.
func (sc *scn) deal(W int, shared bool, lists map[*inst][]int64) [][]sendItem {
	r := sc.r
	out := make([][]sendItem, W)
	for _, in := range sc.insts {
		ts := lists[in]
		if len(ts) == 0 {
			continue
		}
		span := ts[len(ts)-1] - ts[0]
		dedicated := !shared || span > 28000
		w := in.id % W
		for _, t := range ts {
			o := sc.origFor(in, t)
			if !dedicated {
				w = r.Intn(W)
			}
			out[w] = append(out[w], sendItem{in, o})
		}
	}
	return out
}

// cleanNack builds a NACK for a live or dead instance; it is marked wide when one of its
// numbers is in the hold set (its goroutine may then stay blocked in the gate).
func (sc *scn) concNack(in *inst, first []int64) nackSpec {
	r := sc.r
	ns := nackSpec{ssrc: in.ssrc}
	if r.Chance(0.05) {
		ns.ssrc = sc.freshSSRC()
	}
	for _, t := range first {
		ns.pairs = append(ns.pairs, rtcp.NackPair{PacketID: uint16(t), LostPackets: sc.pickMask() & rtcp.PacketBitmap(r.Pick(0, 0, 0xffff))})
	}
	for k := r.Pick(0, 1, 1, 2, 3); k > 0 || len(ns.pairs) == 0; k-- {
		ns.pairs = append(ns.pairs, rtcp.NackPair{PacketID: uint16(sc.pickTarget(in)), LostPackets: sc.pickMask()})
	}
	for _, p := range ns.pairs {
		for _, n := range expand(p) {
			for _, other := range sc.bySSRC[ns.ssrc] { // incl. a re-bound instance of the same SSRC
				if sc.holdSet[holdKey{other, n}] {
					ns.wide = true
				}
			}
		}
	}
	return ns
}

func (sc *scn) readerPlans(Rn int, perReader int, holdFirst map[*inst][]int64) [][]*compound {
	r := sc.r
	out := make([][]*compound, Rn)
	// NACKs that start with a held number
	for _, in := range sc.insts {
		for _, t := range holdFirst[in] {
			ns := sc.concNack(in, []int64{t})
			if cp := sc.buildCompound([]nackSpec{ns}); cp != nil {
				k := r.Intn(Rn)
				out[k] = append(out[k], cp)
			}
		}
	}
	for k := 0; k < Rn; k++ {
		for i := r.Range(0, perReader); i > 0; i-- {
			var specs []nackSpec
			for j := r.Pick(1, 1, 2); j > 0; j-- {
				in := sc.pickInst(r.Chance(0.8))
				if in == nil {
					in = sc.pickInst(false)
				}
				specs = append(specs, sc.concNack(in, nil))
			}
			if cp := sc.buildCompound(specs); cp != nil {
				out[k] = append(out[k], cp)
			}
		}
		// shuffle so that hold NACKs are not always first
		for i := len(out[k]) - 1; i > 0; i-- {
			j := r.Intn(i + 1)
			out[k][i], out[k][j] = out[k][j], out[k][i]
		}
	}
	return out
}

func (sc *scn) runConcurrent() {
	r := sc.r
	size := sc.size
	W := r.Range(2, 4)
	Rn := r.Range(1, 3)
	shared := r.Chance(0.6)
	sc.newReaderSet(Rn) // one bound RTCP reader per reader goroutine
	nInst := r.Range(1, 2)
	for i := 0; i < nInst; i++ {
		in := sc.bind(sc.freshSSRC(), r.Chance(0.5))
		// prefill, sequentially
		k := int(min64(size+int64(r.Range(0, 10)), 300))
		p := &planner{sc: sc, in: in}
		p.add(in.startT)
		for j := 1; j < k; j++ {
			if r.Chance(0.05) {
				p.add(p.h + int64(r.Range(2, 4)))
			} else {
				p.add(p.h + 1)
			}
		}
		sc.sendList(in, p.out)
		sc.tracef("inst#%d prefill %d packets seq %d..%d", in.id, len(p.out), uint16(p.out[0]), uint16(in.H))
	}
	sc.tracef("concurrent: size=%d writers=%d readers=%d shared-streams=%v", size, W, Rn, shared)
	rounds := r.Range(2, 3)
	for round := 0; round < rounds && !sc.closed; round++ {
		sc.beginRound()
		// light-traffic advance of step 1, planned first so that held numbers stay inside the window
		adv1 := map[*inst]int64{}
		for _, in := range sc.live() {
			if size <= 8 {
				adv1[in] = int64(r.Pick(0, 0, 1, 2))
			} else {
				adv1[in] = int64(r.Range(0, int(min64(size/4, 60))))
			}
		}
		// hold set
		sc.hmu.Lock()
		sc.holdSet = map[holdKey]bool{}
		sc.holdCh = make(chan struct{})
		sc.released = false
		sc.heldTotal = 0
		holdFirst := map[*inst][]int64{}
		for _, in := range sc.live() {
			room := size - adv1[in]
			for k := r.Pick(0, 1, 1, 2, 3); k > 0 && room > 0; k-- {
				t := in.H - int64(r.Intn(int(min64(room, 50))))
				in.mu.Lock()
				o := in.byT[t]
				in.mu.Unlock()
				if o == nil {
					continue
				}
				sc.holdSet[holdKey{in, uint16(t)}] = true
				holdFirst[in] = append(holdFirst[in], t)
			}
		}
		sc.hmu.Unlock()
		// step 1: requests under light traffic
		lists := map[*inst][]int64{}
		for _, in := range sc.live() {
			lists[in] = sc.traffic(in, adv1[in], 60)
		}
		sp := &stepPlan{writers: sc.deal(W, shared, lists), readers: sc.readerPlans(Rn, 4, holdFirst)}
		sc.tracef("round %d step 1: light traffic %v numbers, %d held numbers", round, advs(adv1), len(sc.holdSet))
		sc.runStep(sp)
		// step 2: heavy traffic (>= 2*size further numbers) while the retransmissions are held
		if r.Chance(0.85) {
			lists = map[*inst][]int64{}
			adv2 := map[*inst]int64{}
			var total int64
			for _, in := range sc.insts {
				if in.gone && !r.Chance(0.3) {
					continue // an unbound stream's old writer is still written to now and then
				}
				adv := 2*size + int64(r.Range(0, int(min64(size, 100))))
				if size == 32768 {
					adv = size + int64(r.Range(100, 5000))
				}
				adv2[in] = adv
				lists[in] = sc.traffic(in, adv, 400)
				total += int64(len(lists[in]))
			}
			sp = &stepPlan{writers: sc.deal(W, shared, lists), readers: sc.readerPlans(Rn, 3, nil)}
			if live := sc.live(); len(live) > 0 {
				switch p := r.Intn(100); {
				case p < 30:
					sp.ctl = &control{in: live[r.Intn(len(live))]}
				case p < 45:
					sp.ctl = &control{closeAll: true}
				}
			}
			if sp.ctl != nil {
				sp.ctlThr = int64(r.Intn(int(total) + 1))
			}
			if r.Chance(0.4) && total > 0 {
				sp.relThr = int64(r.Range(int(total/2), int(total)))
			}
			sc.tracef("round %d step 2: heavy traffic %v numbers in %d packets; control=%s at send %d; release at send %d (0 = after the step)",
				round, advs(adv2), total, ctlName(sp.ctl), sp.ctlThr, sp.relThr)
			sc.runStep(sp)
			if sp.ctl != nil {
				if sp.ctl.closeAll {
					sc.closed = true
					for _, in := range sc.insts {
						in.gone = true
					}
				} else {
					sp.ctl.in.gone = true
				}
			}
		}
		// step 3: release what is still held
		sc.release()
		synctest.Wait()
		sc.endStep()
		sc.endRound()
		if !sc.closed && r.Chance(0.3) {
			for _, in := range sc.insts {
				if in.gone && !in.rebound {
					in.rebound = true
					nin := sc.bind(in.ssrc, r.Bool())
					sc.ev.rebinds++
					sc.sendList(nin, sc.traffic(nin, int64(r.Range(1, 20)), 20))
					break
				}
			}
		}
	}
	// after Close (or at the end): a last probe round – nothing may come out of dead streams
	sc.hmu.Lock()
	sc.holdSet = map[holdKey]bool{}
	sc.hmu.Unlock()
	sc.beginRound()
	lists := map[*inst][]int64{}
	for _, in := range sc.insts {
		lists[in] = sc.traffic(in, int64(r.Range(0, 5)), 5)
	}
	sc.tracef("final probe round (closed=%v)", sc.closed)
	sc.runStep(&stepPlan{writers: sc.deal(W, shared, lists), readers: sc.readerPlans(Rn, 3, nil)})
	sc.endRound()
}

func ctlName(c *control) string {
	switch {
	case c == nil:
		return "none"
	case c.closeAll:
		return "Close"
	default:
		return fmt.Sprintf("Unbind(inst#%d)", c.in.id)
	}
}

func advs(m map[*inst]int64) []string {
	var out []string
	for in, a := range m {
		out = append(out, fmt.Sprintf("inst#%d:%d", in.id, a))
	}
	sortStrings(out)
	return out
}
