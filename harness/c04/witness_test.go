// Minimal stand-alone witnesses for the two defects the C04 monitor finds on the unchanged
// tree. They are not part of the check (the runner executes only TestCheck); run them with
//
//	cd /verif/harness && go1.26.8 test -run Witness -v ./c04/
//
// Each fails (t.Errorf) exactly when the library violates the statement on that input.
package c04

import (
	"bytes"
	"encoding/binary"
	"testing"
	"testing/synctest"

	"github.com/pion/interceptor"
	"github.com/pion/interceptor/pkg/nack"
	"github.com/pion/rtcp"
	"github.com/pion/rtp"
)

type witnessGate struct {
	hdrs []rtp.Header
	pls  [][]byte
}

func (g *witnessGate) Write(h *rtp.Header, p []byte, a interceptor.Attributes) (int, error) {
	if _, ok := a["original"]; !ok {
		g.hdrs = append(g.hdrs, h.Clone())
		g.pls = append(g.pls, append([]byte{}, p...))
	}
	return len(p), nil
}

func witnessRig(t *testing.T, size uint16, info *interceptor.StreamInfo) (*witnessGate, interceptor.RTPWriter, func(nacks ...rtcp.NackPair)) {
	f, err := nack.NewResponderInterceptor(nack.ResponderSize(size), nack.ResponderLog(quietLogger()))
	if err != nil {
		t.Fatal(err)
	}
	i, err := f.NewInterceptor("")
	if err != nil {
		t.Fatal(err)
	}
	g := &witnessGate{}
	w := i.BindLocalStream(info, g)
	var raw []byte
	rd := i.BindRTCPReader(interceptor.RTCPReaderFunc(func(b []byte, a interceptor.Attributes) (int, interceptor.Attributes, error) {
		return copy(b, raw), a, nil
	}))
	nackFn := func(pairs ...rtcp.NackPair) {
		raw, _ = rtcp.Marshal([]rtcp.Packet{&rtcp.TransportLayerNack{SenderSSRC: 9, MediaSSRC: info.SSRC, Nacks: pairs}})
		if _, _, err := rd.Read(make([]byte, 1500), interceptor.Attributes{}); err != nil {
			t.Fatal(err)
		}
		synctest.Wait() // the NACK is served by `go resendPackets`
	}
	return g, w, nackFn
}

// size 8: 10..20 are sent, then the very late 4 (16 numbers behind the highest, i.e. far
// outside the window 13..20). 4 and 20 share ring slot 4. NACK(20) must yield exactly one
// retransmission: 20 was sent and is the highest number sent.
func TestWitnessLateSendOlderThanWindowEvictsNewerPacket(t *testing.T) {
	synctest.Test(t, func(t *testing.T) {
		info := &interceptor.StreamInfo{SSRC: 1, RTCPFeedback: []interceptor.RTCPFeedback{{Type: "nack"}}}
		g, w, nackFn := witnessRig(t, 8, info)
		send := func(seq uint16) {
			_, _ = w.Write(&rtp.Header{Version: 2, SSRC: 1, SequenceNumber: seq}, []byte{byte(seq)}, interceptor.Attributes{"original": true})
		}
		for s := uint16(10); s <= 20; s++ {
			send(s)
		}
		nackFn(rtcp.NackPair{PacketID: 20})
		if len(g.hdrs) != 1 {
			t.Fatalf("before the late send: NACK(20) gave %d retransmissions, want 1", len(g.hdrs))
		}
		send(4)
		nackFn(rtcp.NackPair{PacketID: 20})
		if len(g.hdrs) != 2 {
			t.Errorf("after sending 10..20 and then the late 4 (size 8): NACK(20) gave %d retransmission(s), want 1", len(g.hdrs)-1)
		}
	})
}

// RTX negotiated, payload of 1459 (or 1460) bytes: the retransmission must carry the 2-byte
// OSN followed by all 1459 payload bytes.
func TestWitnessRTXPayloadLongerThan1458Truncated(t *testing.T) {
	for _, n := range []int{1458, 1459, 1460} {
		synctest.Test(t, func(t *testing.T) {
			info := &interceptor.StreamInfo{SSRC: 1, SSRCRetransmission: 2, PayloadTypeRetransmission: 97,
				RTCPFeedback: []interceptor.RTCPFeedback{{Type: "nack"}}}
			g, w, nackFn := witnessRig(t, 8, info)
			payload := make([]byte, n)
			for i := range payload {
				payload[i] = byte(i*7 + 1)
			}
			if _, err := w.Write(&rtp.Header{Version: 2, SSRC: 1, PayloadType: 96, SequenceNumber: 1000}, payload, interceptor.Attributes{"original": true}); err != nil {
				t.Fatalf("write of %d bytes: %v", n, err)
			}
			nackFn(rtcp.NackPair{PacketID: 1000})
			if len(g.pls) != 1 {
				t.Fatalf("payload %d: %d retransmissions, want 1", n, len(g.pls))
			}
			want := append(binary.BigEndian.AppendUint16(nil, 1000), payload...)
			if !bytes.Equal(g.pls[0], want) {
				t.Errorf("payload %d bytes: RTX retransmission payload has %d bytes, want %d (OSN + payload); last original byte %#x, last retransmitted byte %#x",
					n, len(g.pls[0]), len(want), want[len(want)-1], g.pls[0][len(g.pls[0])-1])
			}
		})
	}
}
