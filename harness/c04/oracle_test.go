// Oracle and recording objects for C04: the naive model of "what was sent" per bound
// stream instance, the recording downstream gate, request classification (must / may /
// must-not) and the end-of-round comparison. Written from the statement; nothing here
// mirrors the ring buffer of the library.
package c04

import (
	"errors"
	"bytes"
	"encoding/binary"
	"fmt"
	"math"
	"sort"
	"strings"
	"sync"
	"sync/atomic"

	"github.com/pion/interceptor"
	"github.com/pion/rtp"

	"github.com/pion/interceptor/verif/gen"
	"github.com/pion/interceptor/verif/vf"
)

const never = int64(math.MaxInt64)

type clock struct{ n atomic.Int64 }

func (c *clock) tick() int64 { return c.n.Add(1) }

func mix64(z uint64) uint64 {
	z += 0x9e3779b97f4a7c15
	z = (z ^ (z >> 30)) * 0xbf58476d1ce4e5b9
	z = (z ^ (z >> 27)) * 0x94d049bb133111eb
	return z ^ (z >> 31)
}

func min64(a, b int64) int64 {
	if a < b {
		return a
	}
	return b
}

func max64(a, b int64) int64 {
	if a > b {
		return a
	}
	return b
}

func sortStrings(s []string) { sort.Strings(s) }

// ---------------------------------------------------------------------------------
// model

// orig is one application packet (identified by its true index) as it was sent.
type orig struct {
	t       int64
	seq     uint16
	hdr     rtp.Header
	pl      []byte
	s0, s1  int64 // start of the first send / end of the first completed send (never = not yet)
	lastS0  int64
	foreign bool
}

type logEnt struct{ stamp, max int64 }

type sendRec struct{ t, a0, a1 int64 }

// inst is one binding of a local stream (an SSRC may be bound again after Unbind: that is
// a new instance with an empty history).
type inst struct {
	id        int
	ssrc      uint32
	rtx       bool
	rtxSSRC   uint32
	rtxPT     uint8
	pt        uint8
	seed      uint64
	size      int64
	shape     gen.Shape
	varyShape bool
	legacyP   float64
	small     bool
	info      *interceptor.StreamInfo
	g         *gate
	w         interceptor.RTPWriter

	mu             sync.Mutex
	b0, b1, u0, u1 int64
	byT            map[int64]*orig
	byNum          map[uint16][]*orig
	startLog       []logEnt // (stamp of a send start, highest true index started so far)
	endLog         []logEnt // (stamp of a send end, highest true index completed so far)
	sends          []sendRec

	// generator side (driver goroutine only)
	H        int64
	started  bool
	startT   int64
	victims  []int64
	sentList []int64
	gone     bool // unbound or closed
	rebound  bool
}

func (in *inst) newOrig(t int64) *orig {
	r := vf.NewRand(in.seed, "C04-pkt", uint64(t))
	sh := in.shape
	if in.varyShape && r.Chance(0.3) {
		sh = gen.RandomShape(r)
	}
	var n int
	switch q := r.Intn(10); {
	case in.small:
		n = r.Intn(25)
	case q < 5:
		n = r.Intn(65)
	case q < 7:
		n = gen.PayloadLen(r, 1460)
	case q < 8:
		n = r.Pick(1457, 1458, 1459, 1460)
	default:
		n = r.Intn(1461)
	}
	h := gen.Header(r, sh, in.ssrc, in.pt, uint16(t), r.U32())
	if r.Chance(0.05) {
		h.Timestamp = uint32(r.Pick(0, 0xffffffff))
	}
	var pl []byte
	if n == 0 {
		if r.Bool() {
			pl = []byte{}
		}
	} else {
		pl = gen.Payload(r, n, uint64(in.id)<<48|uint64(t)&0xffffffffffff)
	}
	if sh.Padding == 0 && n >= 1 && r.Chance(in.legacyP) {
		// legacy padding form: P bit set, PaddingSize 0, the padding is part of the payload and
		// its last byte is the count (1..len)
		h.Padding, h.PaddingSize = true, 0
		c := r.Range(1, min(255, n))
		if r.Chance(0.15) {
			c = min(255, n)
		}
		if r.Chance(0.8) {
			for i := n - c; i < n-1; i++ {
				pl[i] = 0
			}
		}
		pl[n-1] = byte(c)
	}
	return &orig{t: t, seq: uint16(t), hdr: h, pl: pl, s0: never, s1: never}
}

func (in *inst) beginSend(clk *clock, o *orig) {
	in.mu.Lock()
	a0 := clk.tick()
	if a0 < o.s0 {
		o.s0 = a0
	}
	o.lastS0 = a0
	m := o.t
	if k := len(in.startLog); k > 0 && in.startLog[k-1].max > m {
		m = in.startLog[k-1].max
	}
	in.startLog = append(in.startLog, logEnt{a0, m})
	in.mu.Unlock()
}

func (in *inst) endSend(clk *clock, o *orig, ok bool) {
	in.mu.Lock()
	a1 := clk.tick()
	if ok {
		if a1 < o.s1 {
			o.s1 = a1
		}
		m := o.t
		if k := len(in.endLog); k > 0 && in.endLog[k-1].max > m {
			m = in.endLog[k-1].max
		}
		in.endLog = append(in.endLog, logEnt{a1, m})
	}
	in.sends = append(in.sends, sendRec{o.t, o.lastS0, a1})
	in.mu.Unlock()
}

func logMax(l []logEnt, before int64) (int64, bool) {
	i := sort.Search(len(l), func(i int) bool { return l[i].stamp >= before })
	if i == 0 {
		return 0, false
	}
	return l[i-1].max, true
}

// hLow: the highest index whose send had completed before the stamp (a lower bound of the
// highest sent for every later state). hHigh: the highest index whose send had started
// before the stamp (an upper bound for every earlier state).
func (in *inst) hLow(stamp int64) (int64, bool)  { return logMax(in.endLog, stamp) }
func (in *inst) hHigh(stamp int64) (int64, bool) { return logMax(in.startLog, stamp) }

func (in *inst) countEvicted() int64 {
	in.mu.Lock()
	defer in.mu.Unlock()
	if len(in.endLog) == 0 {
		return 0
	}
	h := in.endLog[len(in.endLog)-1].max
	var n int64
	for t, o := range in.byT {
		if o.s1 != never && t <= h-in.size {
			n++
		}
	}
	return n
}

// number tells which original sequence number a retransmission claims to carry.
func (in *inst) number(h *rtp.Header, pl []byte) (uint16, bool) {
	if in.rtx && h.SSRC != in.ssrc {
		if len(pl) < 2 {
			return 0, false
		}
		return binary.BigEndian.Uint16(pl), true
	}
	return h.SequenceNumber, true
}

// expected is the retransmission the statement demands for o on this instance.
func (in *inst) expected(o *orig) (rtp.Header, []byte) {
	h := o.hdr.Clone()
	if !in.rtx {
		return h, o.pl
	}
	h.SSRC = in.rtxSSRC
	h.PayloadType = in.rtxPT
	h.Padding = false
	h.PaddingSize = 0
	body := o.pl
	if o.hdr.Padding && o.hdr.PaddingSize == 0 && len(body) > 0 {
		body = body[:len(body)-int(body[len(body)-1])]
	}
	pl := make([]byte, 2+len(body))
	binary.BigEndian.PutUint16(pl, o.seq)
	copy(pl[2:], body)
	return h, pl
}

func descHdr(h *rtp.Header) string {
	s := fmt.Sprintf("{seq=%d ts=%d ssrc=%#x pt=%d M=%v P=%v/%d cc=%v", h.SequenceNumber, h.Timestamp, h.SSRC, h.PayloadType,
		h.Marker, h.Padding, h.PaddingSize, h.CSRC)
	if h.Extension {
		s += fmt.Sprintf(" ext=%#x", h.ExtensionProfile)
		for _, id := range h.GetExtensionIDs() {
			s += fmt.Sprintf(" %d:%x", id, h.GetExtension(id))
		}
	}
	return s + "}"
}

// hdrDiff compares two headers field by field ("" = equal). ignoreSeq: the RTX stream's own
// sequence numbers are not constrained by the statement.
func hdrDiff(got, want *rtp.Header, ignoreSeq bool) string {
	var d []string
	add := func(name string, g, w any) { d = append(d, fmt.Sprintf("%s got %v want %v", name, g, w)) }
	if got.Version != want.Version {
		add("version", got.Version, want.Version)
	}
	if got.Padding != want.Padding {
		add("padding-bit", got.Padding, want.Padding)
	}
	if got.PaddingSize != want.PaddingSize {
		add("padding-size", got.PaddingSize, want.PaddingSize)
	}
	if got.Marker != want.Marker {
		add("marker", got.Marker, want.Marker)
	}
	if got.PayloadType != want.PayloadType {
		add("payload-type", got.PayloadType, want.PayloadType)
	}
	if !ignoreSeq && got.SequenceNumber != want.SequenceNumber {
		add("sequence-number", got.SequenceNumber, want.SequenceNumber)
	}
	if got.Timestamp != want.Timestamp {
		add("timestamp", got.Timestamp, want.Timestamp)
	}
	if got.SSRC != want.SSRC {
		add("ssrc", fmt.Sprintf("%#x", got.SSRC), fmt.Sprintf("%#x", want.SSRC))
	}
	if len(got.CSRC) != len(want.CSRC) {
		add("csrc", got.CSRC, want.CSRC)
	} else {
		for i := range got.CSRC {
			if got.CSRC[i] != want.CSRC[i] {
				add("csrc", got.CSRC, want.CSRC)
				break
			}
		}
	}
	if got.Extension != want.Extension {
		add("extension-bit", got.Extension, want.Extension)
	} else if want.Extension {
		if got.ExtensionProfile != want.ExtensionProfile {
			add("extension-profile", got.ExtensionProfile, want.ExtensionProfile)
		}
		gi, wi := got.GetExtensionIDs(), want.GetExtensionIDs()
		if !bytes.Equal(gi, wi) {
			add("extension-ids", gi, wi)
		} else {
			for _, id := range wi {
				if !bytes.Equal(got.GetExtension(id), want.GetExtension(id)) {
					add(fmt.Sprintf("extension-%d", id), fmt.Sprintf("%x", got.GetExtension(id)), fmt.Sprintf("%x", want.GetExtension(id)))
				}
			}
		}
	}
	if len(d) == 0 {
		// last resort: the wire form
		g, w := *got, *want
		if ignoreSeq {
			g.SequenceNumber, w.SequenceNumber = 0, 0
		}
		gb, ge := g.Marshal()
		wb, we := w.Marshal()
		if we == nil && (ge != nil || !bytes.Equal(gb, wb)) {
			add("wire-form", fmt.Sprintf("%x (err %v)", gb, ge), fmt.Sprintf("%x", wb))
		}
	}
	return strings.Join(d, "; ")
}

func descPayload(p []byte) string {
	if len(p) <= 24 {
		return fmt.Sprintf("len=%d %x", len(p), p)
	}
	return fmt.Sprintf("len=%d %x…%x", len(p), p[:12], p[len(p)-8:])
}

func firstDiff(a, b []byte) int {
	for i := 0; i < len(a) && i < len(b); i++ {
		if a[i] != b[i] {
			return i
		}
	}
	return min(len(a), len(b))
}

// ---------------------------------------------------------------------------------
// gate

// retx is one downstream Write that is not an application packet.
type retx struct {
	e0, e1 int64
	hdr    rtp.Header
	pl     []byte
	hdrX   rtp.Header
	plX    []byte
	exit   bool
	held   bool
	n      uint16
	nOK    bool
}

type gate struct {
	sc       *scn
	in       *inst
	mu       sync.Mutex
	origs    int64
	nilHdr   int64
	evs      []*retx
	checked  int
	last     byte
	switches int64
}

func (g *gate) Write(h *rtp.Header, p []byte, a interceptor.Attributes) (int, error) {
	if h == nil {
		g.mu.Lock()
		g.nilHdr++
		g.mu.Unlock()
		return 0, nil
	}
	if a != nil {
		if _, ok := a[origKey]; ok {
			g.mu.Lock()
			g.origs++
			if g.last == 'r' {
				g.switches++
			}
			g.last = 'o'
			g.mu.Unlock()
			return h.MarshalSize() + len(p), nil
		}
	}
	ev := &retx{e0: g.sc.clk.tick(), hdr: h.Clone(), pl: append([]byte{}, p...)}
	ev.n, ev.nOK = g.in.number(&ev.hdr, ev.pl)
	g.mu.Lock()
	g.evs = append(g.evs, ev)
	if g.last == 'o' {
		g.switches++
	}
	g.last = 'r'
	g.mu.Unlock()
	held := g.sc.atGate(g.in, ev)
	hx, px := h.Clone(), append([]byte{}, p...)
	g.mu.Lock()
	ev.hdrX, ev.plX, ev.exit, ev.held = hx, px, true, held
	ev.e1 = g.sc.clk.tick()
	nth := len(g.evs)
	g.mu.Unlock()
	if k := g.sc.failEvery; k > 0 && nth%k == 0 {
		// a transient error of the next writer on this one retransmission (it was written and is
		// recorded); the other numbers of the NACK are independent requests
		return 0, errNextWriter
	}
	return h.MarshalSize() + len(p), nil
}

var errNextWriter = errors.New("verif: next writer fails this retransmission")

// ---------------------------------------------------------------------------------
// requests

const (
	clsMustNot = iota
	clsMay
	clsMust
)

type request struct {
	ssrc   uint32
	n      uint16
	r0, r1 int64
	step   int
	wide   bool
	nack   int // id of the NACK packet (= library goroutine) the request belongs to

	in     *inst
	cand   *orig
	cls    int
	reason string
}

// classify decides what the statement demands for q.
func (sc *scn) classify(q *request) {
	q.cls, q.cand, q.in = clsMustNot, nil, nil
	all := sc.bySSRC[q.ssrc]
	if len(all) == 0 {
		q.reason = "unknown-ssrc"
		return
	}
	// the instance that may have been bound at some time during [r0,r1]
	for _, in := range all {
		in.mu.Lock()
		ok := in.b0 < q.r1 && in.u1 > q.r0
		in.mu.Unlock()
		if ok {
			q.in = in
		}
	}
	if q.in == nil {
		q.in = all[len(all)-1]
		q.reason = "unbound-stream"
		return
	}
	in := q.in
	in.mu.Lock()
	defer in.mu.Unlock()
	boundSure := in.b1 < q.r0 && in.u0 > q.r1
	unbindTouched := in.u0 < q.r1
	hlo, hloOK := in.hLow(q.r0)
	hhi, hhiOK := in.hHigh(q.r1)
	q.reason = "never-sent"
	var cands []*orig
	for _, o := range in.byNum[q.n] {
		if o.s0 == never || o.s0 >= q.r1 {
			continue // not sent before the request ended
		}
		if !unbindTouched && hloOK && o.t <= hlo-in.size {
			q.reason = "outside-window"
			continue // older than the window in every state from r0 on
		}
		cands = append(cands, o)
	}
	if len(cands) == 0 {
		return
	}
	o := cands[len(cands)-1]
	q.cand = o
	q.cls = clsMay
	q.reason = "overlaps-sends-or-unbind"
	if len(cands) == 1 && boundSure && o.s1 < q.r0 && hhiOK && o.t > hhi-in.size {
		q.cls = clsMust
		q.reason = "in-window"
	}
}

// lateSendExplains tells whether a missing retransmission of o coincides with the known
// defect class "a send older than the window took the ring slot of a newer packet": some
// packet t' < t with t' = t (mod size) was (possibly) stored after o. Used only to choose
// the signature.
func (in *inst) lateSendExplains(o *orig, r1 int64) (int64, bool) {
	for _, s := range in.sends {
		if s.t < o.t && (o.t-s.t)%in.size == 0 && s.a1 > o.s0 && s.a0 < r1 {
			return s.t, true
		}
	}
	return 0, false
}

type groupKey struct {
	in *inst
	n  uint16
}

type group struct {
	reqs []*request
	evs  []*retx
}

// endRound classifies the round's requests and compares them with what the gates saw.
func (sc *scn) endRound() {
	end := sc.clk.tick()
	sc.rmu.Lock()
	reqs := sc.reqs
	sc.reqs = nil
	sc.rmu.Unlock()
	nSteps := len(sc.stepBounds)
	groups := map[groupKey]*group{}
	var order []groupKey
	get := func(k groupKey) *group {
		g := groups[k]
		if g == nil {
			g = &group{}
			groups[k] = g
			order = append(order, k)
		}
		return g
	}
	for _, q := range reqs {
		if q.wide || q.step >= nSteps {
			q.wide = true
			q.r1 = end
		} else {
			q.r1 = sc.stepBounds[q.step]
		}
		sc.classify(q)
		switch q.cls {
		case clsMust:
			sc.ev.reqMust++
		case clsMay:
			sc.ev.reqMay++
		default:
			sc.ev.reqMustNot++
			switch q.reason {
			case "never-sent":
				sc.ev.mustNotNever++
			case "outside-window":
				sc.ev.mustNotOutside++
			case "unbound-stream":
				sc.ev.mustNotUnbound++
			default:
				sc.ev.mustNotNoSSRC++
			}
		}
		if q.in != nil {
			g := get(groupKey{q.in, q.n})
			g.reqs = append(g.reqs, q)
		}
	}
	for _, in := range sc.insts {
		in.g.mu.Lock()
		evs := append([]*retx(nil), in.g.evs[in.g.checked:]...)
		in.g.checked = len(in.g.evs)
		nilHdr := in.g.nilHdr
		in.g.nilHdr = 0
		in.g.mu.Unlock()
		if nilHdr > 0 {
			sc.c.Violation("content/nil-header",
				"size=%d inst#%d ssrc=%#x: the downstream writer was called %d time(s) with a nil header (a released packet was handed out)\nhistory:\n%s",
				sc.size, in.id, in.ssrc, nilHdr, sc.tail(12))
		}
		for _, ev := range evs {
			if !ev.exit {
				sc.c.Violation("liveness/retransmission-still-inside-downstream-write-at-round-end",
					"harness: a retransmission had not left the gate at the end of the round (inst#%d)", in.id)
				continue
			}
			if !ev.nOK {
				sc.c.Violation("content/rtx/payload-shorter-than-osn-prefix",
					"size=%d inst#%d (ssrc %#x, RTX ssrc %#x): retransmission %s payload %s carries no 2-byte original sequence number\nhistory:\n%s",
					sc.size, in.id, in.ssrc, in.rtxSSRC, descHdr(&ev.hdr), descPayload(ev.pl), sc.tail(12))
				continue
			}
			g := get(groupKey{in, ev.n})
			g.evs = append(g.evs, ev)
		}
	}
	for _, k := range order {
		sc.judge(k, groups[k], end)
	}
	sc.fp.Int(len(reqs))
}

func (sc *scn) stepOf(stamp int64) int {
	for j, b := range sc.stepBounds {
		if stamp < b {
			return j
		}
	}
	return -1 // after the last step bound (release phase)
}

func clsName(c int) string { return [...]string{"must-not", "may", "must"}[c] }

func (sc *scn) describeGroup(k groupKey, g *group) string {
	in := k.in
	in.mu.Lock()
	defer in.mu.Unlock()
	var b strings.Builder
	fmt.Fprintf(&b, "size=%d inst#%d ssrc=%#x rtx=%v number=%d\n", sc.size, in.id, in.ssrc, in.rtx, k.n)
	for i, q := range g.reqs {
		if i >= 6 {
			fmt.Fprintf(&b, "  … %d more requests\n", len(g.reqs)-i)
			break
		}
		hlo, _ := in.hLow(q.r0)
		hhi, _ := in.hHigh(q.r1)
		fmt.Fprintf(&b, "  request @[%d,%d] step %d wide=%v -> %s (%s); highest sent: completed before request seq=%d, started before its end seq=%d",
			q.r0, q.r1, q.step, q.wide, clsName(q.cls), q.reason, uint16(hlo), uint16(hhi))
		if q.cand != nil {
			fmt.Fprintf(&b, "; packet: true index = highest-%d, sent @[%d,%d]", hhi-q.cand.t, q.cand.s0, q.cand.s1)
		}
		b.WriteString("\n")
	}
	for i, ev := range g.evs {
		if i >= 6 {
			fmt.Fprintf(&b, "  … %d more retransmissions\n", len(g.evs)-i)
			break
		}
		fmt.Fprintf(&b, "  retransmission @[%d,%d] held=%v %s payload %s\n", ev.e0, ev.e1, ev.held, descHdr(&ev.hdr), descPayload(ev.pl))
	}
	return b.String()
}

// judge applies the count conditions and the content comparison to one (instance, number).
func (sc *scn) judge(k groupKey, g *group, end int64) {
	in := k.in
	c := sc.c
	nSteps := len(sc.stepBounds)
	// ---- counts: tight requests belong to a step, wide requests to the whole round
	mT := make([]int, nSteps+1) // tight must per step
	yT := make([]int, nSteps+1) // tight may per step
	eT := make([]int, nSteps+1) // events per step; index nSteps = after the last bound
	var M, Y int
	for _, q := range g.reqs {
		switch {
		case q.cls == clsMustNot:
		case q.wide && q.cls == clsMust:
			M++
		case q.wide:
			Y++
		case q.cls == clsMust:
			mT[q.step]++
		default:
			yT[q.step]++
		}
	}
	for _, ev := range g.evs {
		j := sc.stepOf(ev.e0)
		if j < 0 {
			j = nSteps
		}
		eT[j]++
	}
	missing, surplusForWide, uncovered := 0, 0, 0
	for j := 0; j <= nSteps; j++ {
		s := eT[j] - mT[j]
		if s < 0 {
			missing += -s
			s = 0
		}
		surplusForWide += s
		if s > yT[j] {
			uncovered += s - yT[j]
		}
	}
	if surplusForWide < M {
		missing += M - surplusForWide
	}
	unexpected := 0
	if uncovered > M+Y {
		unexpected = uncovered - (M + Y)
	}
	sc.fp.Int(len(g.reqs)).Int(len(g.evs))
	in.mu.Lock()
	for _, q := range g.reqs {
		sc.fp.Int(q.cls)
		if q.cand != nil {
			if h, ok := in.hHigh(q.r1); ok {
				sc.fp.U64(uint64(h - q.cand.t))
			}
		}
	}
	in.mu.Unlock()
	if missing > 0 {
		var ref *orig
		for _, q := range g.reqs {
			if q.cls == clsMust {
				ref = q.cand
			}
		}
		sig := "retransmit/missing/sent-and-inside-window"
		why := ""
		if ref != nil {
			in.mu.Lock()
			if t2, ok := in.lateSendExplains(ref, end); ok {
				sig = "retransmit/missing/slot-taken-by-late-send-older-than-window"
				why = fmt.Sprintf("note: seq %d (true index %d below this packet, = %d x size) was sent after it, when it was already older than the window\n",
					uint16(t2), ref.t-t2, (ref.t-t2)/in.size)
			}
			in.mu.Unlock()
		}
		c.Violation(sig, "%d retransmission(s) missing: a NACKed packet that was sent and is among the most recent `size` numbers was not retransmitted\n%s%shistory:\n%s",
			missing, sc.describeGroup(k, g), why, sc.tail(14))
	}
	if unexpected > 0 {
		sig := "retransmit/unexpected/not-requested"
		nreq := 0
		for _, q := range g.reqs {
			nreq++
			if q.cls == clsMustNot {
				sig = "retransmit/unexpected/" + q.reason
			}
		}
		if nreq > 0 && sig == "retransmit/unexpected/not-requested" {
			sig = "retransmit/unexpected/more-than-one-per-request"
		}
		c.Violation(sig, "%d retransmission(s) too many\n%shistory:\n%s", unexpected, sc.describeGroup(k, g), sc.tail(14))
	}
	// ---- content: every retransmission equals the unique original of that number
	for _, ev := range g.evs {
		sc.compare(k, g, ev)
	}
}

func (sc *scn) compare(k groupKey, g *group, ev *retx) {
	in := k.in
	c := sc.c
	in.mu.Lock()
	var cands []*orig
	for _, o := range in.byNum[k.n] {
		if o.s0 != never && o.s0 < ev.e0 {
			cands = append(cands, o)
		}
	}
	hhi, _ := in.hHigh(ev.e1)
	in.mu.Unlock()
	if len(cands) == 0 {
		return // never sent: already reported by the count check (nothing to compare with)
	}
	// prefer the packet the requests designate, else the most recent one with that number
	ref := cands[len(cands)-1]
	for _, q := range g.reqs {
		// ... if it had been sent when this retransmission was written: a request stays open
		// while its NACK is being served, and the same 16-bit number may be sent again (a cycle
		// later) inside that interval - that later packet cannot be what was retransmitted before
		// it existed (false alarm, thorough tier seed 4, 1 case in 120 000)
		if q.cand != nil && q.cand.s0 != never && q.cand.s0 < ev.e0 {
			ref = q.cand
		}
	}
	sc.ev.retx++
	if in.rtx {
		sc.ev.retxRTX++
	}
	form := "plain"
	if in.rtx {
		form = "rtx"
	}
	check := func(h *rtp.Header, pl []byte, o *orig) (string, string) {
		wh, wp := in.expected(o)
		hd := hdrDiff(h, &wh, in.rtx)
		pd := ""
		if !bytes.Equal(pl, wp) {
			pd = fmt.Sprintf("payload got %s want %s (first difference at byte %d)", descPayload(pl), descPayload(wp), firstDiff(pl, wp))
		}
		return hd, pd
	}
	hd, pd := check(&ev.hdr, ev.pl, ref)
	if (hd != "" || pd != "") && len(cands) > 1 {
		for _, o := range cands {
			if h2, p2 := check(&ev.hdr, ev.pl, o); h2 == "" && p2 == "" && o != ref {
				c.Violation("content/packet-of-an-earlier-sequence-number-cycle",
					"retransmission for number %d carries the packet sent %d numbers earlier (same 16-bit number, older cycle)\n%shistory:\n%s",
					k.n, ref.t-o.t, sc.describeGroup(k, g), sc.tail(10))
				return
			}
		}
	}
	where := fmt.Sprintf("original as sent: %s payload %s (sent @[%d,%d], %d numbers below the highest at exit)",
		descHdr(&ref.hdr), descPayload(ref.pl), ref.s0, ref.s1, hhi-ref.t)
	if hd != "" {
		c.Violation("content/"+form+"/header", "retransmission header differs from the original%s: %s\n%s\n%shistory:\n%s",
			map[bool]string{true: " in RFC 4588 form", false: ""}[in.rtx], hd, where, sc.describeGroup(k, g), sc.tail(10))
	}
	if pd != "" {
		sig := "content/" + form + "/payload"
		if in.rtx && len(ref.pl) > 1458 {
			sig = "content/rtx/payload/original-longer-than-1458-bytes"
		}
		c.Violation(sig, "retransmission payload differs from the original%s: %s\n%s\n%shistory:\n%s",
			map[bool]string{true: " in RFC 4588 form (OSN prefix + payload without padding)", false: ""}[in.rtx], pd, where,
			sc.describeGroup(k, g), sc.tail(10))
	}
	if sc.concurrent {
		// evidence: did this downstream call really overlap application sends on the stream?
		in.mu.Lock()
		i := sort.Search(len(in.sends), func(i int) bool { return in.sends[i].a1 > ev.e0 })
		var during int64
		overlap := false
		for ; i < len(in.sends); i++ {
			s := in.sends[i]
			if s.a0 < ev.e1 {
				overlap = true
				if s.a0 > ev.e0 && s.a1 < ev.e1 {
					during++
				}
			} else if s.a1-ev.e1 > 64 {
				break
			}
		}
		in.mu.Unlock()
		if overlap {
			sc.ev.overlapSend++
		}
		if during > sc.ev.maxDuring {
			sc.ev.maxDuring = during
		}
	}
	// ---- the bytes must still be the same when the downstream Write returns
	sc.ev.exitCompared++
	if ev.held {
		sc.ev.held++
		if hhi-ref.t >= in.size {
			sc.ev.heldEvicted++
		}
	}
	xh := hdrDiff(&ev.hdrX, &ev.hdr, false)
	if xh != "" {
		c.Violation("content/changed-during-downstream-write/header",
			"header passed to the downstream Write changed while the call was in progress (held=%v, packet %d numbers below the highest at exit): %s\nat entry %s\nat exit  %s\n%shistory:\n%s",
			ev.held, hhi-ref.t, xh, descHdr(&ev.hdr), descHdr(&ev.hdrX), sc.describeGroup(k, g), sc.tail(10))
	}
	if !bytes.Equal(ev.plX, ev.pl) {
		c.Violation("content/changed-during-downstream-write/payload",
			"payload passed to the downstream Write changed while the call was in progress (held=%v, packet %d numbers below the highest at exit): at entry %s, at exit %s (first difference at byte %d)\n%shistory:\n%s",
			ev.held, hhi-ref.t, descPayload(ev.pl), descPayload(ev.plX), firstDiff(ev.pl, ev.plX), sc.describeGroup(k, g), sc.tail(10))
	}
}
