// C10 – interceptors are free of data races under every permitted concurrent use.
//
// Monitor: the Go race detector (halt_on_error: the child dies on the first report, the
// parent attributes it to the running case and derives the signature from the first
// library frame) over a concurrency workload per interceptor kind and per random chain:
// N writer goroutines (same and different local streams), M reader goroutines, K RTCP
// read loops fed with NACK / TWCC / CCFB / SR / RR, the interceptor's own tickers at
// 1..5 ms, one lifecycle goroutine issuing Bind / Unbind / Close sequentially while the
// traffic continues, one observer calling the public getters. Even cases run inside a
// virtual-time bubble (real goroutines on all Ps; a goroutine still blocked at the end =
// deadlock), odd cases in real time so ticker goroutines race like in production.
// After the run: lost-update oracles (sender-report packet count, stats counters,
// transport-wide sequence numbers).
package c10

import (
	"fmt"
	"runtime"
	"sync"
	"sync/atomic"
	"testing"
	"testing/synctest"
	"time"

	"github.com/pion/interceptor"
	"github.com/pion/rtcp"
	"github.com/pion/rtp"

	"github.com/pion/interceptor/verif/gen"
	"github.com/pion/interceptor/verif/obs"
	"github.com/pion/interceptor/verif/vf"
	"github.com/pion/interceptor/verif/zoo"
)

func cases(tier string) int {
	if tier == "thorough" {
		return 120000
	}
	return 5400
}

func TestCheck(t *testing.T) {
	vf.Main(t, vf.Spec{Prop: "C10", Cases: cases, Run: run})
}

const twccID = 5

type member struct{ b *zoo.Built }

type scenario struct {
	c       *vf.Case
	desc    string
	i       interceptor.Interceptor
	members []*zoo.Built
	clk     *obs.Clock
	rtcpOut *obs.RTCPGate
	rtcpIn  *obs.Feed
	rtcpR   interceptor.RTCPReader
	rtcpW   interceptor.RTCPWriter

	lw     [2]interceptor.RTPWriter
	lgate  [2]*obs.RTPGate
	rr     [2]interceptor.RTPReader
	rfeed  [2]*obs.Feed
	linfo  [2]*interceptor.StreamInfo
	rinfo  [2]*interceptor.StreamInfo
	writes [2]atomic.Int64 // successful writes on local stream i
	twcc   atomic.Uint32
	lseq   [2]atomic.Uint32
	rseq   [2]atomic.Uint32
	endStamp  int64
	hasBWE    bool
	bubble    bool
	kick      chan struct{}
	fbRef     atomic.Uint32
	callbacks atomic.Int64
	lastRate  atomic.Int64
	closed atomic.Bool
	stream1Gone atomic.Bool
	extraGates  []*obs.RTPGate // gates of the lifecycle goroutine's short-lived streams
	burst       bool
}

func buildScenario(c *vf.Case) (*scenario, bool) {
	r := c.R
	s := &scenario{c: c, clk: &obs.Clock{}, kick: make(chan struct{}, 1)}
	opts := zoo.Opts{FastTickers: true, SmallWindows: true, HighRates: true}
	opts.Interval = time.Duration(r.Range(1, 5)) * time.Millisecond
	nk := len(zoo.All)
	sel := c.Idx / 2 % (nk + nk/2)
	var kinds []zoo.Kind
	if sel < nk {
		kinds = []zoo.Kind{zoo.All[sel]}
	} else {
		for n := r.Range(2, 4); n > 0; n-- {
			kinds = append(kinds, zoo.PassThrough[r.Intn(len(zoo.PassThrough))])
		}
	}
	var is []interceptor.Interceptor
	for _, k := range kinds {
		b, err := zoo.Build(r, k, opts)
		if err != nil {
			c.Violation("build/"+k.String(), "%v", err)
			return nil, false
		}
		s.members = append(s.members, b)
		is = append(is, b.I)
		if s.desc != "" {
			s.desc += " | "
		}
		s.desc += b.Desc
	}
	if len(is) == 1 {
		s.i = is[0]
	} else {
		s.i = interceptor.NewChain(is)
	}
	return s, true
}

func (s *scenario) bind() {
	for _, b := range s.members {
		if b.BWE != nil {
			s.hasBWE = true
			// applications register this callback; it is delivered from the estimator's goroutines
			b.BWE.OnTargetBitrateChange(func(rate int) { s.callbacks.Add(1); s.lastRate.Store(int64(rate)) })
		}
	}
	s.rtcpOut = obs.NewRTCPGate(s.clk)
	s.rtcpOut.Annotate = true // a writer that stores something in the attributes of each write
	s.rtcpIn = obs.NewFeed(s.clk)
	s.rtcpIn.NoLog = true
	s.rtcpW = s.i.BindRTCPWriter(s.rtcpOut)
	s.rtcpR = s.i.BindRTCPReader(s.rtcpIn)
	for i := 0; i < 2; i++ {
		lo := zoo.StreamOpts{SSRC: uint32(1000 * (i + 1)), PT: 96, ClockRate: 90000, Nack: true, TWCCID: twccID * (1 - i), RTX: i == 0, FEC: i == 0}
		s.linfo[i] = zoo.Info(lo)
		s.lgate[i] = obs.NewRTPGate(s.clk, lo.SSRC)
		s.lgate[i].NoCopy = true
		s.lw[i] = s.i.BindLocalStream(s.linfo[i], s.lgate[i])
		ro := zoo.StreamOpts{SSRC: uint32(3000 + 1000*i), PT: 96, ClockRate: 90000, Nack: true, PLI: true, TWCCID: twccID * (1 - i)}
		s.rinfo[i] = zoo.Info(ro)
		s.rfeed[i] = obs.NewFeed(s.clk)
		s.rfeed[i].NoLog = true
		s.rr[i] = s.i.BindRemoteStream(s.rinfo[i], s.rfeed[i])
	}
}

// pause lets other goroutines and tickers interleave.
func pause(r *vf.Rand) {
	switch r.Intn(4) {
	case 0:
		runtime.Gosched()
	case 1:
		time.Sleep(time.Duration(r.Range(1, 300)) * time.Microsecond)
	}
}

func (s *scenario) writer(r *vf.Rand, st, n int, wg *sync.WaitGroup) {
	defer wg.Done()
	payload := r.Bytes(r.Range(8, 200))
	for k := 0; k < n; k++ {
		if st == 1 && s.stream1Gone.Load() {
			return
		}
		h := rtp.Header{Version: 2, PayloadType: 96, SequenceNumber: uint16(s.lseq[st].Add(1)), Timestamp: uint32(k * 90), SSRC: uint32(1000 * (st + 1))}
		if st == 0 {
			ext, _ := (&rtp.TransportCCExtension{TransportSequence: uint16(s.twcc.Add(1))}).Marshal()
			_ = h.SetExtension(twccID, ext)
		}
		if _, err := s.lw[st].Write(&h, payload, interceptor.Attributes{}); err == nil && !s.closed.Load() {
			s.writes[st].Add(1)
		}
		if s.hasBWE && s.bubble && k%4 == 0 {
			time.Sleep(time.Duration(r.Range(1, 10)) * time.Millisecond)
		}
		if s.burst && k%16 != 0 {
			continue // back-to-back writes: allocations of the shared counters collide
		}
		pause(r)
	}
}

func (s *scenario) reader(r *vf.Rand, st, n int, wg *sync.WaitGroup) {
	defer wg.Done()
	buf := make([]byte, 1500)
	payload := r.Bytes(r.Range(8, 200))
	for k := 0; k < n; k++ {
		if st == 1 && s.stream1Gone.Load() {
			return
		}
		seq := uint16(s.rseq[st].Add(uint32(r.Pick(1, 1, 1, 2))))
		h := rtp.Header{Version: 2, PayloadType: 96, SequenceNumber: seq, Timestamp: uint32(k * 90), SSRC: uint32(3000 + 1000*st)}
		if st == 0 {
			ext, _ := (&rtp.TransportCCExtension{TransportSequence: seq}).Marshal()
			_ = h.SetExtension(twccID, ext)
		}
		pkt, _ := (&rtp.Packet{Header: h, Payload: payload}).Marshal()
		s.rfeed[st].Push(obs.FeedItem{Data: pkt})
		_, _, _ = s.rr[st].Read(buf, interceptor.Attributes{})
		pause(r)
	}
}

func (s *scenario) rtcpLoop(r *vf.Rand, n int, wg *sync.WaitGroup) {
	defer wg.Done()
	buf := make([]byte, 1500)
	kickAt := r.Intn(max(1, n))
	for k := 0; k < n; k++ {
		var pkts []rtcp.Packet
		ls := uint16(s.lseq[0].Load())
		tw := uint16(s.twcc.Load())
		switch r.Intn(5) {
		case 0:
			pkts = append(pkts, &rtcp.TransportLayerNack{SenderSSRC: 9, MediaSSRC: 1000,
				Nacks: []rtcp.NackPair{{PacketID: ls - uint16(r.Intn(6)), LostPackets: rtcp.PacketBitmap(r.Pick(0, 1, 5))}}})
		case 1:
			if s.hasBWE && r.Chance(0.7) {
				// arrivals 10 ms apart for packets that left sub-millisecond apart: the delay based
				// estimator sees a growing queue, changes its target and fires the callbacks
				n := r.Range(5, 25)
				t := &rtcp.TransportLayerCC{
					Header:     rtcp.Header{Count: rtcp.FormatTCC, Type: rtcp.TypeTransportSpecificFeedback},
					SenderSSRC: 9, MediaSSRC: 1000, BaseSequenceNumber: tw - uint16(n) + 1, PacketStatusCount: uint16(n),
					ReferenceTime: uint32(s.fbRef.Add(uint32(n*10/64 + 1))), FbPktCount: uint8(k),
					PacketChunks: []rtcp.PacketStatusChunk{&rtcp.RunLengthChunk{Type: rtcp.TypeTCCRunLengthChunk,
						PacketStatusSymbol: rtcp.TypeTCCPacketReceivedSmallDelta, RunLength: uint16(n)}},
				}
				for i := 0; i < n; i++ {
					t.RecvDeltas = append(t.RecvDeltas, &rtcp.RecvDelta{Type: rtcp.TypeTCCPacketReceivedSmallDelta, Delta: 10000})
				}
				l := 20 + 2 + n
				if l%4 != 0 {
					t.Header.Padding = true
					l += 4 - l%4
				}
				t.Header.Length = uint16(l/4 - 1)
				pkts = append(pkts, t)
				break
			}
			recv := make([]bool, r.Range(1, 30))
			for i := range recv {
				recv[i] = r.Chance(0.9)
			}
			pkts = append(pkts, gen.ValidTWCC(r, 1000, tw-uint16(len(recv)), recv, uint8(k)))
		case 2:
			recv := make([]bool, r.Range(1, 30))
			for i := range recv {
				recv[i] = r.Chance(0.9)
			}
			pkts = append(pkts, gen.ValidCCFB(r, 2000, uint16(s.lseq[1].Load())-uint16(len(recv)), recv, r.U32()))
		case 3:
			pkts = append(pkts, &rtcp.SenderReport{SSRC: 3000, NTPTime: r.U64(), RTPTime: r.U32()},
				&rtcp.ReceiverReport{SSRC: 9, Reports: []rtcp.ReceptionReport{{SSRC: 1000, LastSequenceNumber: uint32(ls), LastSenderReport: r.U32(), Delay: r.U32() & 0xffff}}})
		default:
			pkts = append(pkts, &rtcp.PictureLossIndication{SenderSSRC: 9, MediaSSRC: 1000},
				&rtcp.FullIntraRequest{SenderSSRC: 9, FIR: []rtcp.FIREntry{{SSRC: 1000, SequenceNumber: uint8(k)}}})
		}
		raw, err := rtcp.Marshal(pkts)
		if err != nil {
			continue
		}
		s.rtcpIn.Push(obs.FeedItem{Data: raw})
		_, _, _ = s.rtcpR.Read(buf, interceptor.Attributes{})
		if k == kickAt {
			// let the lifecycle goroutine Close right now, while the members' own goroutines are
			// still digesting this feedback
			select {
			case s.kick <- struct{}{}:
			default:
			}
		}
		if r.Chance(0.3) {
			_, _ = s.rtcpW.Write([]rtcp.Packet{&rtcp.PictureLossIndication{SenderSSRC: 0xA99, MediaSSRC: 3000}}, interceptor.Attributes{})
		}
		if s.hasBWE && s.bubble {
			// the estimator's detectors work on elapsed time: give them (virtual) time between reports
			time.Sleep(time.Duration(r.Range(5, 40)) * time.Millisecond)
		}
		pause(r)
	}
}

func (s *scenario) observer(r *vf.Rand, n int, wg *sync.WaitGroup) {
	defer wg.Done()
	for k := 0; k < n; k++ {
		for _, b := range s.members {
			if b.StatsGetter != nil {
				_ = b.StatsGetter.Get(uint32(1000 * (1 + r.Intn(2))))
				_ = b.StatsGetter.Get(uint32(3000 + 1000*r.Intn(2)))
			}
			if b.BWE != nil {
				_ = b.BWE.GetTargetBitrate()
				_ = b.BWE.GetStats()
			}
			if b.PacingFac != nil && r.Chance(0.3) {
				b.PacingFac.SetRate("pc", r.Pick(50_000_000, 100_000_000, 200_000_000))
			}
			if b.PLI != nil && r.Chance(0.3) && !s.closed.Load() {
				b.PLI.ForcePLI(3000)
			}
		}
		pause(r)
	}
}

// lifecycle: sequential Bind / Unbind of extra streams and of stream 1, then (sometimes)
// Close while the traffic goroutines are still running.
func (s *scenario) lifecycle(r *vf.Rand, doClose bool, wg *sync.WaitGroup) {
	defer wg.Done()
	extra := uint32(7000)
	for k := 0; k < r.Range(2, 6); k++ {
		time.Sleep(time.Duration(r.Range(50, 800)) * time.Microsecond)
		extra++
		lo := zoo.Info(zoo.StreamOpts{SSRC: extra, PT: 96, Nack: true, TWCCID: twccID, FEC: true, RTX: true})
		ro := zoo.Info(zoo.StreamOpts{SSRC: extra + 100, PT: 96, Nack: true, PLI: true, TWCCID: twccID})
		eg := obs.NewRTPGate(s.clk, extra)
		eg.NoCopy = true
		s.extraGates = append(s.extraGates, eg)
		w := s.i.BindLocalStream(lo, eg)
		rd := s.i.BindRemoteStream(ro, obs.NewFeed(s.clk))
		h := rtp.Header{Version: 2, PayloadType: 96, SequenceNumber: 1, SSRC: extra}
		ext, _ := (&rtp.TransportCCExtension{TransportSequence: uint16(s.twcc.Add(1))}).Marshal()
		_ = h.SetExtension(twccID, ext)
		_, _ = w.Write(&h, []byte{1, 2, 3, 4, 5, 6, 7, 8}, interceptor.Attributes{})
		_ = rd
		pause(r)
		s.i.UnbindLocalStream(lo)
		s.i.UnbindRemoteStream(ro)
	}
	if r.Bool() {
		s.stream1Gone.Store(true)
		s.i.UnbindLocalStream(s.linfo[1])
		s.i.UnbindRemoteStream(s.rinfo[1])
	}
	if doClose {
		select {
		case <-s.kick:
		case <-time.After(time.Duration(r.Range(50, 500)) * time.Microsecond):
			if r.Bool() {
				<-s.kick // wait for a feedback read instead (every RTCP loop kicks once)
			}
		}
		s.closed.Store(true)
		// public entry points of the members' factories keep being called while Close runs
		var hw sync.WaitGroup
		for _, b := range s.members {
			if b.PacingFac != nil {
				hw.Add(1)
				go func() {
					defer hw.Done()
					for k := 0; k < 300; k++ {
						b.PacingFac.SetRate("pc", 50_000_000+k)
					}
				}()
				runtime.Gosched()
			}
		}
		_ = s.i.Close()
		hw.Wait()
	}
}

func (s *scenario) drive(doClose bool) (goroutines int) {
	r := s.c.R
	var wg sync.WaitGroup
	nW, nR, nK := r.Range(1, 4), r.Range(1, 4), r.Range(1, 3)
	ops := r.Range(30, 120)
	if s.members[0].Kind == zoo.TWCCHeaderExt && r.Bool() {
		// the member next to the transport allocates transport-wide sequence numbers for every
		// packet of every writer: make the allocations collide
		s.burst = true
		nW, ops = 4, r.Range(200, 400)
	}
	for i := 0; i < nW; i++ {
		wg.Add(1)
		st := r.Pick(0, 0, 1)
		if s.burst {
			st = 0
		}
		go s.writer(r.Fork(), st, ops, &wg)
	}
	for i := 0; i < nR; i++ {
		wg.Add(1)
		go s.reader(r.Fork(), r.Pick(0, 0, 1), ops, &wg)
	}
	for i := 0; i < nK; i++ {
		wg.Add(1)
		go s.rtcpLoop(r.Fork(), ops/2, &wg)
	}
	wg.Add(2)
	go s.observer(r.Fork(), ops/2, &wg)
	go s.lifecycle(r.Fork(), doClose, &wg)
	wg.Wait()
	return nW + nR + nK + 2
}

func run(c *vf.Case) {
	bubble := c.Idx%2 == 0
	body := func() {
		s, ok := buildScenario(c)
		if !ok {
			return
		}
		s.bubble = bubble
		s.bind()
		// no settling time after the binds: traffic starts right away, like a caller's would
		// (a stats recorder that only counts once its start goroutine ran loses these packets)
		doClose := c.R.Chance(0.5)
		if bubble && s.hasBWE && len(s.members) == 1 && c.R.Bool() {
			s.bweCloseOverlap(c.R)
			c.Add("scenarios_bwe_close_overlapping_rate_update", 1)
			c.Add("bwe_target_bitrate_callbacks", s.callbacks.Load())
			if s.callbacks.Load() > 0 {
				c.Nontrivial(vf.NewHash().Str(s.desc).U64(uint64(s.callbacks.Load())).U64(uint64(s.lastRate.Load())).Sum())
			}
			return
		}
		if !bubble && len(s.members) == 1 && s.members[0].Kind == zoo.ReportReceiver && c.R.Bool() {
			skipped, ok := s.receiverReportBurst(c.R)
			s.endStamp = s.clk.Tick()
			var got int64 = -1
			for i := 0; i < 300 && ok && got < 0; i++ {
				time.Sleep(5 * time.Millisecond)
				if n, last := s.afterEnd(rrLost3000); n >= 2 {
					got = last
				}
			}
			_ = s.i.Close()
			c.Add("scenarios_receiver_report_burst", 1)
			if ok && got >= 0 {
				c.Add("conservation_checks", 1)
				if got != skipped {
					c.Violation("lost-update/report-receiver/cumulative-lost",
						"interceptor %s: one reader delivered a run on SSRC 3000 that skips %d sequence numbers while reports were built every few ms; the report after the traffic ended says cumulative lost = %d", s.desc, skipped, got)
				}
				c.Nontrivial(vf.NewHash().Str(s.desc).Str("rr-burst").U64(uint64(skipped)).Sum())
			}
			return
		}
		n := s.drive(doClose)
		// conservation: let one more tick pass, then compare. Only reports written AFTER the
		// traffic ended (logical stamp) are evidence; in real time the ticker goroutine may be late
		// on a loaded machine, so wait for such a report instead of trusting a fixed sleep.
		s.endStamp = s.clk.Tick()
		if bubble {
			time.Sleep(30 * time.Millisecond)
			synctest.Wait()
		} else {
			for i := 0; i < 200 && !doClose && !s.reportAfterEnd(); i++ {
				time.Sleep(10 * time.Millisecond)
			}
		}
		s.checkTransportSequenceNumbers()
		if n := s.rtcpOut.AttrReused.Load(); n > 0 {
			// every RTCP write of the scenario's own goroutines passes a fresh map: a map that comes
			// back carries state shared between the members' goroutines without synchronisation
			c.Violation("shared-state/attributes-map-reused-across-rtcp-writes",
				"interceptors %s: %d RTCP writes handed the next writer an Attributes map that an earlier write had already been given (what that writer stored in it was still there)", s.desc, n)
		}
		if !doClose {
			s.checkConservation()
			_ = s.i.Close()
		}
		if bubble {
			synctest.Wait()
		}
		c.Add("goroutines_driven", int64(n))
		c.Add("bwe_target_bitrate_callbacks", s.callbacks.Load())
		c.Add("downstream_rtp_writes_observed", s.lgate[0].Count.Load()+s.lgate[1].Count.Load())
		c.Add("rtcp_writes_observed", s.rtcpOut.Count.Load())
		c.Add("scenarios_"+map[bool]string{true: "virtual_time", false: "real_time"}[bubble], 1)
		if len(s.members) > 1 {
			c.Add("scenarios_chain", 1)
		}
		// interleaving fingerprint: order in which the two local streams' writes hit the gates
		h := vf.NewHash().Str(s.desc)
		for _, ev := range s.rtcpOut.Events() {
			h.U64(uint64(ev.Stamp))
		}
		h.U64(uint64(s.lgate[0].Count.Load())).U64(uint64(s.lgate[1].Count.Load()))
		if s.lgate[0].Count.Load() > 0 {
			c.Nontrivial(h.Sum())
		}
		if c.WantSample() {
			c.Sample(map[string]any{"interceptors": s.desc, "goroutines": n, "virtual_time": bubble, "close_during_traffic": doClose,
				"rtp_writes_downstream": s.lgate[0].Count.Load() + s.lgate[1].Count.Load(), "rtcp_writes": s.rtcpOut.Count.Load()})
		}
	}
	if bubble {
		c.Bubble(body, func(dump string) {
			c.Violation("deadlock/goroutines-blocked-at-end", "goroutines still blocked after the workload ended and Close returned:\n%s", trim(dump))
		})
		return
	}
	done := make(chan struct{})
	go func() { defer close(done); body() }()
	select {
	case <-done:
	case <-time.After(20 * time.Second):
		// the wall clock only triggers the inspection; the verdict comes from goroutine states:
		// library goroutines parked on a mutex with identical stacks in two dumps 3 s apart while
		// nothing is runnable inside the library = lock-order deadlock; anything else is inconclusive
		buf := make([]byte, 4<<20)
		a := string(buf[:runtime.Stack(buf, true)])
		time.Sleep(3 * time.Second)
		b := string(buf[:runtime.Stack(buf, true)])
		if da, db := vf.MutexWaiters(a), vf.MutexWaiters(b); da != "" && da == db {
			c.Violation("deadlock/mutex-never-released/"+vf.FirstLibFrame(da),
				"real-time scenario did not finish; library goroutines wait for mutexes that no runnable goroutine can release (identical in two dumps 3 s apart):\n%s", trim(da))
			c.ExitResume()
		}
		c.Inconclusive("real-time scenario did not finish within 20 s wall clock:\n%s", trim(b))
		c.ExitResume()
	}
}

func trim(s string) string {
	if len(s) > 4000 {
		return s[:4000] + "…"
	}
	return s
}

// checkConservation: counters and allocations lose no updates.
func (s *scenario) checkConservation() {
	single := len(s.members) == 1
	for _, b := range s.members {
		switch b.Kind {
		case zoo.ReportSender:
			// the last sender report of stream 0 counts every packet written on it
			want := s.writes[0].Load()
			var got int64 = -1
			if n, last := s.afterEnd(srCount1000); n >= 2 || (s.bubble && n >= 1) {
				got = last // inside a bubble nothing is preempted between generating and writing
			}
			s.c.Add("conservation_checks", 1)
			// in a chain the report sender also sees what members above it inject
			// (retransmissions, FEC): only "no update lost" can be demanded there
			if got >= 0 && (got < want || (single && got != want)) {
				s.c.Violation("lost-update/report-sender/packet-count",
					"interceptors %s: %d packets were written on SSRC 1000 by concurrent writers, the last sender report counts %d", s.desc, want, got)
			}
		case zoo.Stats:
			if b.StatsGetter == nil {
				continue
			}
			st := b.StatsGetter.Get(1000)
			s.c.Add("conservation_checks", 1)
			if got := int64(0); st != nil {
				got = int64(st.OutboundRTPStreamStats.PacketsSent)
				if got >= s.writes[0].Load() && !(single && got != s.writes[0].Load()) {
					continue
				}
			}
			if st != nil {
				s.c.Violation("lost-update/stats/packets-sent",
					"interceptors %s: %d packets were written on SSRC 1000 by concurrent writers, stats count %d", s.desc, s.writes[0].Load(), st.OutboundRTPStreamStats.PacketsSent)
			}
		case zoo.TWCCHeaderExt:
			_ = single
		}
	}
}

var _ = fmt.Sprintf

// checkTransportSequenceNumbers: when the TWCC header-extension interceptor sits next to the
// transport, every packet of every TWCC-negotiated stream reaching a gate was numbered by its
// one shared counter, whichever goroutine wrote it: no number may be handed out twice (fewer
// than 65536 packets per scenario, so a repeat is a lost update, not a wrap).
func (s *scenario) checkTransportSequenceNumbers() {
	if s.members[0].Kind != zoo.TWCCHeaderExt {
		return
	}
	seen := map[uint16]int64{}
	total := 0
	for _, g := range append([]*obs.RTPGate{s.lgate[0]}, s.extraGates...) {
		for _, ev := range g.Events() {
			ext := ev.Header.GetExtension(twccID)
			if len(ext) < 2 {
				continue
			}
			var tcc rtp.TransportCCExtension
			if tcc.Unmarshal(ext) != nil {
				continue
			}
			total++
			if first, dup := seen[tcc.TransportSequence]; dup && total < 60000 {
				s.c.Violation("lost-update/twcc-header-extension/transport-sequence-number-allocated-twice",
					"interceptors %s: transport-wide sequence number %d was put on two packets (logical stamps %d and %d) written by concurrent goroutines; %d numbered packets so far",
					s.desc, tcc.TransportSequence, first, ev.Stamp, total)
				return
			}
			seen[tcc.TransportSequence] = ev.Stamp
		}
	}
	s.c.Add("transport_sequence_numbers_checked_unique", int64(total))
}

// bweCloseOverlap: a sender paced in virtual time whose TWCC feedback alternates between
// "arrivals as spaced as departures" and "arrivals twice as far apart" so that the estimator
// changes its target at almost every report; then, at a PRNG-chosen report, Close runs
// concurrently with the RTCP read that hands that report to the estimator's pipeline, with a
// statistics observer and a writer still running.
func (s *scenario) bweCloseOverlap(r *vf.Rand) {
	buf := make([]byte, 1500)
	payload := r.Bytes(100)
	reports := r.Range(8, 40)
	var arrival int64 // µs
	ref := uint32(1)
	feedback := func(first uint16, n int, spacingUS int64) []byte {
		t := &rtcp.TransportLayerCC{
			Header:     rtcp.Header{Count: rtcp.FormatTCC, Type: rtcp.TypeTransportSpecificFeedback},
			SenderSSRC: 9, MediaSSRC: 1000, BaseSequenceNumber: first, PacketStatusCount: uint16(n),
			ReferenceTime: ref, FbPktCount: uint8(ref),
			PacketChunks: []rtcp.PacketStatusChunk{&rtcp.RunLengthChunk{Type: rtcp.TypeTCCRunLengthChunk,
				PacketStatusSymbol: rtcp.TypeTCCPacketReceivedSmallDelta, RunLength: uint16(n)}},
		}
		for i := 0; i < n; i++ {
			t.RecvDeltas = append(t.RecvDeltas, &rtcp.RecvDelta{Type: rtcp.TypeTCCPacketReceivedSmallDelta, Delta: spacingUS})
			arrival += spacingUS
		}
		ref = uint32(arrival/64000) + 1
		l := 20 + 2 + n
		if l%4 != 0 {
			t.Header.Padding = true
			l += 4 - l%4
		}
		t.Header.Length = uint16(l/4 - 1)
		raw, _ := t.Marshal()
		return raw
	}
	send := func() uint16 {
		tw := uint16(s.twcc.Add(1))
		h := rtp.Header{Version: 2, PayloadType: 96, SequenceNumber: uint16(s.lseq[0].Add(1)), SSRC: 1000}
		ext, _ := (&rtp.TransportCCExtension{TransportSequence: tw}).Marshal()
		_ = h.SetExtension(twccID, ext)
		_, _ = s.lw[0].Write(&h, payload, interceptor.Attributes{})
		return tw
	}
	for k := 0; k < reports; k++ {
		first := uint16(0)
		for i := 0; i < 10; i++ {
			tw := send()
			if i == 0 {
				first = tw
			}
			time.Sleep(5 * time.Millisecond)
		}
		spacing := int64(5000)
		if (k/3)%2 == 1 {
			spacing = 12000 // a queue builds up: overuse
		}
		raw := feedback(first, 10, spacing)
		s.rtcpIn.Push(obs.FeedItem{Data: raw})
		if k < reports-1 {
			_, _, _ = s.rtcpR.Read(buf, interceptor.Attributes{})
			continue
		}
		// the last report: read, Close, a getter and one more write all overlap
		var wg sync.WaitGroup
		wg.Add(4)
		go func() { defer wg.Done(); _, _, _ = s.rtcpR.Read(buf, interceptor.Attributes{}) }()
		go func() {
			defer wg.Done()
			for i := r.Intn(4); i > 0; i-- {
				runtime.Gosched()
			}
			s.closed.Store(true)
			_ = s.i.Close()
		}()
		go func() {
			defer wg.Done()
			for _, b := range s.members {
				if b.BWE != nil {
					_ = b.BWE.GetTargetBitrate()
					_ = b.BWE.GetStats()
				}
			}
		}()
		go func() { defer wg.Done(); send() }()
		wg.Wait()
	}
	synctest.Wait()
}

// reportAfterEnd tells whether a sender report for stream 0 was written after the traffic ended.
// receiverReportBurst: one reader delivers a long gap-ridden run on remote stream 0 back to back
// while the receiver-report ticker builds reports at 1..5 ms (real time). All accesses are under
// the stream's mutex, so the race detector has nothing to say; what can go wrong is atomicity:
// a report that scans the reception history and commits its boundary in two critical sections
// loses the losses in between. After the traffic the cumulative-lost of the last report equals
// the numbers skipped (single in-order reader: exact). The reader never runs more than 4000
// packets ahead of the last report, so every interval stays inside the 8192-packet history.
func (s *scenario) receiverReportBurst(r *vf.Rand) (skipped int64, ok bool) {
	buf := make([]byte, 1500)
	payload := []byte{1, 2, 3, 4}
	var first, last uint16
	n := 0
	sinceReport, seenReports := 0, s.rtcpOut.Count.Load()
	deadline := time.Now().Add(15 * time.Second)
	for n < 30000 {
		if c := s.rtcpOut.Count.Load(); c != seenReports {
			seenReports, sinceReport = c, 0
		}
		if sinceReport >= 4000 {
			if time.Now().After(deadline) {
				return 0, false // the ticker did not run (loaded machine): nothing to decide
			}
			runtime.Gosched()
			continue
		}
		seq := uint16(s.rseq[0].Add(uint32(r.Pick(1, 1, 1, 2, 3))))
		if n == 0 {
			first = seq
		}
		last = seq
		h := rtp.Header{Version: 2, PayloadType: 96, SequenceNumber: seq, Timestamp: uint32(n * 90), SSRC: 3000}
		pkt, _ := (&rtp.Packet{Header: h, Payload: payload}).Marshal()
		s.rfeed[0].Push(obs.FeedItem{Data: pkt})
		_, _, _ = s.rr[0].Read(buf, interceptor.Attributes{})
		n++
		sinceReport++
	}
	return int64(last-first) + 1 - int64(n), true
}

// afterEnd scans the RTCP written with a logical stamp after the traffic ended and returns how
// many packets matched and the value of the last one. A report's CONTENT is computed before
// it reaches the next writer, so the first report stamped after the end may still have been
// generated while the last packets were in flight (the ticker goroutine was preempted between
// generating and writing: false alarm in the thorough tier on a loaded machine). The second
// one for the same stream comes from a later tick: generated after the first was written, i.e.
// after the end. Evidence therefore needs n >= 2.
func (s *scenario) afterEnd(match func(rtcp.Packet) (int64, bool)) (n int, last int64) {
	last = -1
	for _, ev := range s.rtcpOut.Events() {
		if ev.Stamp <= s.endStamp {
			continue
		}
		for _, p := range ev.Pkts {
			if v, ok := match(p); ok {
				n++
				last = v
			}
		}
	}
	return n, last
}

func srCount1000(p rtcp.Packet) (int64, bool) {
	if sr, ok := p.(*rtcp.SenderReport); ok && sr.SSRC == 1000 {
		return int64(sr.PacketCount), true
	}
	return 0, false
}

func rrLost3000(p rtcp.Packet) (int64, bool) {
	if rr, ok := p.(*rtcp.ReceiverReport); ok {
		for _, rep := range rr.Reports {
			if rep.SSRC == 3000 {
				return int64(rep.TotalLost), true
			}
		}
	}
	return 0, false
}

func (s *scenario) reportAfterEnd() bool {
	hasSender := false
	for _, b := range s.members {
		if b.Kind == zoo.ReportSender {
			hasSender = true
		}
	}
	if !hasSender {
		return true
	}
	n, _ := s.afterEnd(srCount1000)
	return n >= 2
}
