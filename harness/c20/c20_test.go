// C20 – sequence-number unwrapping and NTP conversion.
//
// Monitor: the real internal/sequencenumber and internal/ntp packages are driven at
// their exported API; an independent oracle (integer arithmetic only) decides every
// call. Case kinds (by case index):
//
//	kind U (unwrapper block): 1024 consecutive previous states P (all P < 2^17 are
//	       covered by the first 128 blocks) x inputs (quick: ~800 structured inputs per
//	       state; thorough: all 65536 inputs)  => exhaustive over (P<2^17, x) in thorough.
//	kind L (large states): a few sampled previous states up to 2^40 x structured inputs.
//	kind S (streams): random true 64-bit streams with |step| < 2^15 must be reconstructed.
//	kind N (ntp): instants 1970..2036 at ns granularity, dense around second boundaries.
package c20

import (
	"fmt"
	"math/big"
	"testing"
	"time"

	"github.com/pion/interceptor/internal/ntp"
	"github.com/pion/interceptor/internal/sequencenumber"
	"github.com/pion/interceptor/verif/vf"
)

const (
	nUBlocks = 128 // 128 * 1024 = 2^17 states
	blockLen = 1024
)

func cases(tier string) int {
	if tier == "thorough" {
		return nUBlocks + 64 + 2000 + 4000
	}
	return nUBlocks + 16 + 300 + 400
}

func init() {
	// the conversions are between instants: they must not depend on the process's time zone
	// (CI and this sandbox run in UTC, where a zone-dependent epoch goes unnoticed)
	time.Local = time.FixedZone("verif+0530", 5*3600+1800)
}

func TestCheck(t *testing.T) {
	vf.Main(t, vf.Spec{Prop: "C20", Cases: cases, Run: run})
}

func run(c *vf.Case) {
	nL, nS := 16, 300
	if c.Tier == "thorough" {
		nL, nS = 64, 2000
	}
	switch {
	case c.Idx < nUBlocks:
		runUnwrapBlock(c, int64(c.Idx)*blockLen, c.Tier == "thorough")
	case c.Idx < nUBlocks+nL:
		runLarge(c)
	case c.Idx < nUBlocks+nL+nS:
		runStream(c)
	default:
		runNTP(c)
	}
}

// climb returns an unwrapper whose state is exactly p, reached through the public API
// only, checking exact reconstruction on the way (every step is < 2^15).
func climb(c *vf.Case, p int64) (sequencenumber.Unwrapper, bool) {
	var u sequencenumber.Unwrapper
	cur := p % 65536
	if got := u.Unwrap(uint16(cur)); got != cur {
		c.Violation("unwrap/first", "first Unwrap(%d) = %d", cur, got)
		return u, false
	}
	for cur < p {
		step := int64(32767)
		if p-cur < step {
			step = p - cur
		}
		cur += step
		if got := u.Unwrap(uint16(cur)); got != cur {
			c.Violation("unwrap/stream-step", "state %d: Unwrap(%d) = %d, true next value %d (step %d < 2^15)",
				cur-step, uint16(cur), got, cur, step)
			return u, false
		}
	}
	return u, true
}

// oracle decides one call: previous result p, input x, result r. Returns a category
// (for coverage counting) and whether the result is acceptable.
func oracle(p int64, x uint16, r int64) (cat int, sig string) {
	if r < 0 {
		return 0, "unwrap/negative"
	}
	if uint16(r) != x || r%65536 != int64(x) {
		return 0, "unwrap/not-congruent"
	}
	// candidates: non-negative v = x (mod 2^16) with |v-p| <= 2^15
	base := p - (p % 65536) + int64(x) // same cycle as p
	var cands [3]int64
	n := 0
	for _, v := range []int64{base - 65536, base, base + 65536} {
		d := v - p
		if d < 0 {
			d = -d
		}
		if v >= 0 && d <= 32768 {
			cands[n] = v
			n++
		}
	}
	if n == 0 {
		// floor at zero: the only value within 2^15 would be negative
		return 4, ""
	}
	for i := 0; i < n; i++ {
		if cands[i] == r {
			switch {
			case n == 2:
				return 3, "" // tie at exactly 2^15
			case r/65536 > p/65536:
				return 1, "" // forward across a cycle boundary
			case r/65536 < p/65536:
				return 2, "" // backward across a cycle boundary
			}
			return 5, ""
		}
	}
	return 0, "unwrap/too-far"
}

func structuredInputs(r *vf.Rand, p int64, out []uint16) []uint16 {
	out = out[:0]
	lw := uint16(p)
	for d := -64; d <= 64; d++ {
		out = append(out, lw+uint16(d), lw+32768+uint16(d), uint16(d), 65535-uint16(d+64))
	}
	for i := 0; i < 280; i++ {
		out = append(out, r.U16())
	}
	return out
}

func runUnwrapBlock(c *vf.Case, start int64, allInputs bool) {
	u, ok := climb(c, start)
	if !ok {
		return
	}
	var cats [6]int64
	var inputs []uint16
	var calls int64
	h := vf.NewHash().U64(uint64(start))
	for p := start; p < start+blockLen; p++ {
		if p > start {
			if got := u.Unwrap(uint16(p)); got != p {
				c.Violation("unwrap/stream-step", "state %d: Unwrap(%d) = %d, want %d", p-1, uint16(p), got, p)
				return
			}
		}
		check := func(x uint16) bool {
			v := u // copy of the state
			r := v.Unwrap(x)
			calls++
			cat, sig := oracle(p, x, r)
			if sig != "" {
				c.Violation(sig, "previous result %d (low16=%d), Unwrap(%d) = %d", p, uint16(p), x, r)
				return false
			}
			cats[cat]++
			// state after the call must be r: unwrapping the same number again is a no-op
			if r2 := v.Unwrap(x); r2 != r {
				c.Violation("unwrap/state-not-result", "previous %d, Unwrap(%d)=%d, Unwrap(%d) again=%d", p, x, r, x, r2)
				return false
			}
			return true
		}
		if allInputs {
			for x := 0; x < 65536; x++ {
				if !check(uint16(x)) {
					return
				}
			}
		} else {
			inputs = structuredInputs(c.R, p, inputs)
			for _, x := range inputs {
				h.U64(uint64(x))
				if !check(x) {
					return
				}
			}
		}
	}
	c.Add("unwrap_calls_checked", calls)
	c.Add("unwrap_states", blockLen)
	c.Add("unwrap_forward_wrap", cats[1])
	c.Add("unwrap_backward_wrap", cats[2])
	c.Add("unwrap_tie_2^15", cats[3])
	c.Add("unwrap_floor_at_zero", cats[4])
	// non-trivial: the block exercised a tie and (a wrap in some direction or the zero floor)
	if cats[3] > 0 && (cats[1]+cats[2]+cats[4]) > 0 {
		c.Nontrivial(h.Sum())
	}
	if c.WantSample() {
		c.Sample(map[string]any{"kind": "unwrap-block", "states": fmt.Sprintf("%d..%d", start, start+blockLen-1),
			"inputs_per_state": map[bool]int{true: 65536, false: len(inputs)}[allInputs], "calls": calls})
	}
}

func runLarge(c *vf.Case) {
	// previous state up to 2^40, biased to cycle boundaries
	exp := c.R.Range(17, 40)
	p := int64(1)<<exp + int64(c.R.Range(-70000, 70000))
	if c.R.Chance(0.3) {
		p = (p>>16)<<16 + int64(c.R.Pick(0, 1, 65535, 32767, 32768, 32769))
	}
	u, ok := climb(c, p)
	if !ok {
		return
	}
	var cats [6]int64
	inputs := structuredInputs(c.R, p, nil)
	for i := 0; i < 4000; i++ {
		inputs = append(inputs, c.R.U16())
	}
	for _, x := range inputs {
		v := u
		r := v.Unwrap(x)
		cat, sig := oracle(p, x, r)
		if sig != "" {
			c.Violation(sig+"/large-state", "previous result %d, Unwrap(%d) = %d", p, x, r)
			return
		}
		cats[cat]++
	}
	c.Add("unwrap_calls_checked", int64(len(inputs)))
	c.Add("unwrap_large_states", 1)
	if cats[3] > 0 && cats[1] > 0 && cats[2] > 0 {
		c.Nontrivial(vf.NewHash().U64(uint64(p)).Sum())
	}
	if c.WantSample() {
		c.Sample(map[string]any{"kind": "unwrap-large-state", "state": p, "inputs": len(inputs)})
	}
}

func runStream(c *vf.Case) {
	// random true stream, consecutive values differ by < 2^15, never negative
	cur := int64(c.R.Intn(65536))
	if c.R.Bool() {
		cur = int64(c.R.Pick(0, 1, 65535, 32768, 65000))
	}
	var u sequencenumber.Unwrapper
	if got := u.Unwrap(uint16(cur)); got != cur {
		c.Violation("unwrap/first", "first Unwrap(%d) = %d", cur, got)
		return
	}
	n := c.R.Range(200, 5000)
	style := c.R.Intn(4)
	h := vf.NewHash().U64(uint64(cur))
	wraps, backs := 0, 0
	for i := 0; i < n; i++ {
		var step int64
		switch style {
		case 0: // mostly +1 with reordering
			step = int64(c.R.Range(-5, 8))
		case 1: // big jumps both ways
			step = int64(c.R.Range(-32767, 32767))
		case 2: // forward jumps close to 2^15
			step = int64(32767 - c.R.Intn(3))
			if c.R.Chance(0.3) {
				step = -step
			}
		default:
			step = int64(c.R.Range(-300, 400))
		}
		next := cur + step
		if next < 0 {
			next = cur - step
		}
		if next/65536 != cur/65536 {
			wraps++
		}
		if next < cur {
			backs++
		}
		got := u.Unwrap(uint16(next))
		if got != next {
			c.Violation("unwrap/stream-step", "true stream: previous %d, next %d (step %d), Unwrap(%d) = %d",
				cur, next, next-cur, uint16(next), got)
			return
		}
		h.U64(uint64(next))
		cur = next
	}
	c.Add("stream_values_checked", int64(n))
	if wraps > 0 && backs > 0 {
		c.Nontrivial(h.Sum())
	}
	if c.WantSample() {
		c.Sample(map[string]any{"kind": "true-stream", "style": style, "len": n, "cycle_crossings": wraps, "backward_steps": backs, "final": cur})
	}
}

// ---- NTP ---------------------------------------------------------------------------

var (
	epoch1900Offset = int64(2208988800)
	two32           = new(big.Int).Lsh(big.NewInt(1), 32)
	e9              = big.NewInt(1000000000)
)

// exactNTP is the exact 32.32 fixed point value floor((unixNano/1e9 + 2208988800) * 2^32).
func exactNTP(t time.Time) *big.Int {
	n := big.NewInt(t.UnixNano())
	n.Add(n, new(big.Int).Mul(big.NewInt(epoch1900Offset), e9))
	n.Mul(n, two32)
	n.Div(n, e9)
	return n
}

func absDur(d time.Duration) time.Duration {
	if d < 0 {
		return -d
	}
	return d
}

func runNTP(c *vf.Case) {
	const maxUnix = int64(2085978495) // 2036-02-07 06:28:15 UTC: last second of NTP era 0
	n := 12500
	if c.Tier == "thorough" {
		n = 125000
	}
	h := vf.NewHash()
	var boundary, pairs int64
	// ~1/65536 s in ns, rounded up, plus float slack of 1 µs (statement: "to within its 1/65536-second resolution")
	const res32 = time.Duration(15259 + 1000)
	for i := 0; i < n; i++ {
		sec := int64(c.R.U64() % uint64(maxUnix))
		var ns int64
		switch c.R.Intn(6) {
		case 0:
			ns = int64(c.R.Intn(2000)) // just after a second boundary
			boundary++
		case 1:
			ns = 999999999 - int64(c.R.Intn(2000)) // just before
			boundary++
		case 2:
			ns = int64(c.R.Intn(65536)) * 15259 % 1000000000 // near 1/65536 multiples
		default:
			ns = int64(c.R.Intn(1000000000))
		}
		if c.R.Chance(0.02) {
			sec = []int64{0, 1, maxUnix - 1, 2085978495 - 65536, 1 << 30, 1<<31 - 1, 1 << 31}[c.R.Intn(7)]
			if sec >= maxUnix {
				sec = maxUnix - 1
			}
		}
		if c.R.Chance(0.04) {
			// the first / last second of an 18 h window of the 32-bit middle form: values 0,
			// 0x0000xxxx and 0xffffxxxx (a zero timestamp is an ordinary value here)
			k := (sec + epoch1900Offset) >> 16
			if ws := k<<16 - epoch1900Offset; ws > 0 && ws+65535 < maxUnix {
				sec = ws + int64(c.R.Pick(0, 0, 0, 1, 65535))
				ns = int64(c.R.Pick(2000, 2500, 8000, 15000, 15258, 15259, 30000, c.R.Intn(1000000000)))
				c.Add("ntp32_instants_in_first_or_last_second_of_window", 1)
			}
		}
		t := time.Unix(sec, ns)
		h.U64(uint64(t.UnixNano()))
		v := ntp.ToNTP(t)
		// (a) NTP format: within 1 µs of the exact 32.32 value
		diff := new(big.Int).Sub(new(big.Int).SetUint64(v), exactNTP(t))
		diff.Abs(diff)
		if diff.Cmp(big.NewInt(4295)) > 0 { // 1 µs = 4294.97 units of 2^-32 s
			c.Violation("ntp/to-ntp-value", "ToNTP(%v [unix %d.%09d]) = %#x, exact %#x (off by %s/2^32 s)", t.UTC(), sec, ns, v, exactNTP(t), diff)
			return
		}
		// (b) round trip within 1 µs
		back := ntp.ToTime(v)
		if d := absDur(back.Sub(t)); d > time.Microsecond {
			c.Violation("ntp/round-trip", "ToTime(ToNTP(%d.%09d)) = %v, off by %v", sec, ns, back.UTC(), back.Sub(t))
			return
		}
		// (c) monotone on close pairs
		delta := time.Duration(1 + c.R.Intn(1000000))
		if c.R.Chance(0.3) {
			delta = time.Duration(1 + c.R.Intn(500))
		}
		t2 := t.Add(delta)
		if t2.Unix() < maxUnix {
			pairs++
			if v2 := ntp.ToNTP(t2); v2 < v {
				c.Violation("ntp/monotone", "ToNTP(%d.%09d)=%#x > ToNTP(+%v)=%#x", sec, ns, v, delta, v2)
				return
			}
		}
		// (d) 32-bit middle form with a reference in the same window (same upper 16 bits of NTP seconds)
		ntpSec := sec + epoch1900Offset
		winStart := (ntpSec >> 16) << 16
		refSec := winStart + int64(c.R.Intn(65536)) - epoch1900Offset
		ref := time.Unix(refSec, int64(c.R.Intn(1000000000)))
		// An instant within 1 µs of a window boundary may legitimately land in either
		// window (the conversion itself is only exact to 1 µs): outcome "may", not checked.
		nearWindowEdge := (ntpSec&0xffff == 0xffff && ns > 999998000) || (ntpSec&0xffff == 0 && ns < 2000)
		if nearWindowEdge {
			c.Add("ntp32_window_edge_skipped", 1)
		}
		if ref.Unix() >= 0 && ref.Unix() < maxUnix && !nearWindowEdge {
			m := ntp.ToNTP32(t)
			if want := uint32(v >> 16); m != want {
				c.Violation("ntp/ntp32-not-middle", "ToNTP32 = %#x, middle 32 bits of ToNTP = %#x", m, want)
				return
			}
			back32 := ntp.ToTime32(m, ref)
			d := t.Sub(back32)
			if d < -time.Microsecond || d > res32 {
				c.Violation("ntp/round-trip-32", "t=%d.%09d ref=%v ToTime32(ToNTP32(t),ref)=%v off by %v", sec, ns, ref.UTC(), back32.UTC(), d)
				return
			}
		}
	}
	c.Add("ntp_instants_checked", int64(n))
	c.Add("ntp_second_boundary_instants", boundary)
	c.Add("ntp_monotone_pairs", pairs)
	if boundary > 0 && pairs > 0 {
		c.Nontrivial(h.Sum())
	}
	if c.WantSample() {
		c.Sample(map[string]any{"kind": "ntp-batch", "instants": n, "boundary": boundary, "pairs": pairs})
	}
}
