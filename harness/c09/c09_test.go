// C09 – Feedback decoding attributes each acknowledgement to the right sent packet.
//
// Monitor: seeded send histories (1..4 SSRCs, TWCC and non-TWCC streams, 16-bit wrap of the
// RTP and the transport-wide numbers, re-sent numbers, >250 and >65536 packets in flight)
// are recorded by (a) the real cc.FeedbackAdapter (OnSent) and (b) the real rtpfb
// interceptor (packets written through the writers returned by BindLocalStream inside a
// synctest bubble, so departure times are virtual). Feedback is delivered as marshalled
// RTCP bytes: hand-built well-formed TWCC / RFC 8888 packets (every chunk type and symbol
// size, padded final vector chunk, final run length beyond the status count, ranges
// covering evicted / unknown / future numbers, duplicated and overlapping feedback,
// compounds) or the output of the library's own twcc.Recorder / rfc8888.Recorder in a
// closed loop behind a lossy, reordering channel model.
//
// Oracle: decodeTWCC / decodeCCFB below work on the marshalled bytes only and give, per
// number of the declared range, (received, arrival, ECN). The model of the send history
// (latest send per key, send order) is kept by the harness. Everything the library returns
// ([]cc.Acknowledgment, rtpfb.Report under rtpfb.CCFBAttributesKey) is decided against
// these two; see checkAdapterTWCC, checkAdapterCCFB, checkReport.
//
// Case kinds by c.Idx%20 (see run).
package c09

import (
	"container/heap"
	"encoding/binary"
	"fmt"
	"sort"
	"strings"
	"testing"
	"time"

	"github.com/pion/interceptor"
	"github.com/pion/interceptor/internal/cc"
	"github.com/pion/interceptor/pkg/rfc8888"
	"github.com/pion/interceptor/pkg/rtpfb"
	"github.com/pion/interceptor/pkg/twcc"
	"github.com/pion/interceptor/verif/gen"
	"github.com/pion/interceptor/verif/vf"
	"github.com/pion/rtcp"
	"github.com/pion/rtp"
)

const (
	twccURI   = "http://www.ietf.org/id/draft-holmer-rmcat-transport-wide-cc-extensions-01"
	histSize  = 250                // the adapter's documented history (statement: "most recent 250 sends")
	ntpOffset = int64(2208988800)  // seconds between 1900 and 1970
	ntpWrapNs = int64(65536) * 1e9 // the 32-bit report timestamp wraps every 65536 s
	ccfbTolNs = int64(15259 + 1)   // 1/65536 s, rounded up
)

func cases(tier string) int {
	if tier == "thorough" {
		return 200000
	}
	return 10000
}

func TestCheck(t *testing.T) {
	vf.Main(t, vf.Spec{Prop: "C09", Cases: cases, Run: run})
}

type caseKind struct {
	rtpfb      bool
	twcc, ccfb bool // which stream kinds exist
	loop       bool // feedback from the library's own generators behind a channel model
}

var kinds = [20]caseKind{
	0: {twcc: true}, 1: {twcc: true}, 2: {twcc: true}, 3: {twcc: true}, 4: {twcc: true, ccfb: true},
	5: {ccfb: true}, 6: {ccfb: true}, 7: {twcc: true, ccfb: true},
	8: {twcc: true, loop: true}, 9: {twcc: true, loop: true}, 10: {ccfb: true, loop: true},
	11: {rtpfb: true, twcc: true}, 12: {rtpfb: true, twcc: true}, 13: {rtpfb: true, twcc: true, ccfb: true},
	14: {rtpfb: true, ccfb: true}, 15: {rtpfb: true, ccfb: true}, 16: {rtpfb: true, twcc: true, ccfb: true},
	17: {rtpfb: true, twcc: true, loop: true}, 18: {rtpfb: true, ccfb: true, loop: true},
	19: {rtpfb: true, twcc: true, ccfb: true, loop: true},
}

func run(c *vf.Case) {
	k := kinds[c.Idx%20]
	if !k.rtpfb {
		w := newWorld(c, k)
		w.clk = &logicalClock{t: time.Unix(1_700_000_000+int64(c.R.Intn(1<<26)), int64(c.R.Intn(1e9)))}
		w.tgt = &adapterTarget{w: w, a: cc.NewFeedbackAdapter()}
		w.scenario()
		w.finish()
		return
	}
	c.Bubble(func() {
		w := newWorld(c, k)
		w.clk = bubbleClock{}
		t, err := newRTPFBTarget(w)
		if err != nil {
			c.Inconclusive("rtpfb setup: %v", err)
			return
		}
		w.tgt = t
		w.scenario()
		_ = t.icpt.Close()
		w.finish()
	}, func(dump string) {
		if !strings.Contains(dump, "github.com/pion/interceptor/pkg/") {
			c.Add("bubble_goroutine_count_false_positive", 1)
			return
		}
		c.Inconclusive("goroutines left in the bubble:\n%s", dump)
	})
}

// =====================================================================================
// Independent decoders of the two wire formats (bytes only).
// =====================================================================================

type fbEntry struct {
	recv bool
	// TWCC status symbol 3, "packet received, w/o timestamp" (pion/rtcp parses it and allots it
	// no receive delta; the later draft reserves it): nothing is demanded about the packet
	// itself, but every OTHER status of the feedback keeps its own delta
	noTime bool
	sym    uint8
	// TWCC: arrival in microseconds on the feedback's own clock (reference time*64 ms + the
	// sum of the deltas up to and including this status).
	// RFC 8888: arrival in 1/65536 s units modulo 2^32 (report timestamp - offset).
	at  int64
	ecn uint8
	ato uint16
}

type fbRange struct {
	ssrc uint32 // RFC 8888 media SSRC (unused for TWCC)
	base uint16
	ent  []fbEntry
}

type fbDec struct {
	twcc   bool
	ranges []fbRange
	// TWCC only
	kinds     []byte // 'R' run length, '1' one-bit vector, '2' two-bit vector
	nominal   int    // statuses the chunks nominally span (>= status count)
	lastKind  byte
	runBeyond bool // the final run-length chunk's run exceeds the statuses left
	paddedVec bool // the final vector chunk has more symbol slots than statuses left
	hasSym3   bool
	ref       uint32
	fbCount   uint8
	// RFC 8888 only
	rts uint32
	raw []byte
	ser int
}

func (d *fbDec) class() string {
	switch {
	case d.runBeyond:
		return "run-length-beyond-status-count"
	case d.paddedVec:
		return "padded-final-vector-chunk"
	case d.hasSym3:
		return "received-without-timestamp-symbol"
	}
	return "plain"
}

// decodeTWCC parses one transport-wide-cc feedback packet from its bytes (draft-holmer
// §3.1). A final run-length chunk whose run exceeds the statuses left and symbol slots of
// a final vector chunk beyond the status count are legal and ignored.
func decodeTWCC(b []byte) (*fbDec, string) {
	if len(b) < 20 || len(b)%4 != 0 {
		return nil, "short or unaligned"
	}
	if b[0]>>6 != 2 || b[0]&0x1f != 15 || b[1] != 205 {
		return nil, "not an RTPFB/15 packet"
	}
	if 4*(int(binary.BigEndian.Uint16(b[2:]))+1) != len(b) {
		return nil, "length field"
	}
	end := len(b)
	if b[0]&0x20 != 0 {
		p := int(b[len(b)-1])
		if p == 0 || p > len(b)-20 {
			return nil, "padding"
		}
		end -= p
	}
	d := &fbDec{twcc: true, raw: b}
	base := binary.BigEndian.Uint16(b[12:])
	count := int(binary.BigEndian.Uint16(b[14:]))
	d.ref = uint32(b[16])<<16 | uint32(b[17])<<8 | uint32(b[18])
	d.fbCount = b[19]
	off := 20
	syms := make([]uint8, 0, count)
	for len(syms) < count {
		if off+2 > end {
			return nil, "chunks truncated"
		}
		ch := binary.BigEndian.Uint16(b[off:])
		off += 2
		rem := count - len(syms)
		switch {
		case ch&0x8000 == 0:
			sym, n := uint8(ch>>13&3), int(ch&0x1fff)
			if n == 0 {
				return nil, "zero run length"
			}
			d.kinds, d.lastKind = append(d.kinds, 'R'), 'R'
			d.nominal += n
			if n > rem {
				d.runBeyond, n = true, rem
			}
			for i := 0; i < n; i++ {
				syms = append(syms, sym)
			}
		case ch&0x4000 == 0:
			d.kinds, d.lastKind = append(d.kinds, '1'), '1'
			d.nominal += 14
			d.paddedVec = rem < 14
			for i := 0; i < 14 && i < rem; i++ {
				syms = append(syms, uint8(ch>>(13-i)&1))
			}
		default:
			d.kinds, d.lastKind = append(d.kinds, '2'), '2'
			d.nominal += 7
			d.paddedVec = rem < 7
			for i := 0; i < 7 && i < rem; i++ {
				syms = append(syms, uint8(ch>>(12-2*i)&3))
			}
		}
	}
	rg := fbRange{base: base, ent: make([]fbEntry, count)}
	at := int64(d.ref) * 64000
	for i, s := range syms {
		e := fbEntry{sym: s}
		switch s {
		case 1:
			if off+1 > end {
				return nil, "deltas truncated"
			}
			at += int64(b[off]) * 250
			off++
			e.recv, e.at = true, at
		case 2:
			if off+2 > end {
				return nil, "deltas truncated"
			}
			at += int64(int16(binary.BigEndian.Uint16(b[off:]))) * 250
			off += 2
			e.recv, e.at = true, at
		case 3:
			e.noTime = true
			d.hasSym3 = true
		}
		rg.ent[i] = e
	}
	if off != end {
		return nil, "bytes after the last delta"
	}
	d.ranges = []fbRange{rg}
	return d, ""
}

// decodeCCFB parses one RFC 8888 congestion control feedback packet from its bytes.
func decodeCCFB(b []byte) (*fbDec, string) {
	if len(b) < 12 || len(b)%4 != 0 {
		return nil, "short or unaligned"
	}
	if b[0]>>6 != 2 || b[0]&0x1f != 11 || b[1] != 205 {
		return nil, "not an RTPFB/11 packet"
	}
	if 4*(int(binary.BigEndian.Uint16(b[2:]))+1) != len(b) || b[0]&0x20 != 0 {
		return nil, "length field / padding"
	}
	d := &fbDec{raw: b}
	d.rts = binary.BigEndian.Uint32(b[len(b)-4:])
	off, end := 8, len(b)-4
	for off < end {
		if off+8 > end {
			return nil, "block header truncated"
		}
		rg := fbRange{ssrc: binary.BigEndian.Uint32(b[off:]), base: binary.BigEndian.Uint16(b[off+4:])}
		n := int(binary.BigEndian.Uint16(b[off+6:]))
		off += 8
		if off+2*n > end {
			return nil, "metric blocks truncated"
		}
		rg.ent = make([]fbEntry, n)
		for i := 0; i < n; i++ {
			v := binary.BigEndian.Uint16(b[off+2*i:])
			if v&0x8000 != 0 {
				ato := v & 0x1fff
				rg.ent[i] = fbEntry{recv: true, sym: 1, ecn: uint8(v >> 13 & 3), ato: ato,
					at: int64(d.rts - uint32(ato)*64)}
			}
		}
		off += 2 * (n + n%2)
		d.ranges = append(d.ranges, rg)
	}
	if off != end {
		return nil, "block padding"
	}
	return d, ""
}

// splitCompound cuts a compound RTCP buffer into its packets by the length fields.
func splitCompound(raw []byte) [][]byte {
	var out [][]byte
	for len(raw) >= 4 {
		n := 4 * (int(binary.BigEndian.Uint16(raw[2:])) + 1)
		if n > len(raw) {
			return nil
		}
		out = append(out, raw[:n])
		raw = raw[n:]
	}
	if len(raw) != 0 {
		return nil
	}
	return out
}

// arrivalNTPns maps an instant to nanoseconds within the 65536 s window of a 32-bit NTP
// timestamp (the era the library chooses is not part of the property).
func arrivalNTPns(t time.Time) int64 {
	s := (t.Unix() + ntpOffset) % 65536
	if s < 0 {
		s += 65536
	}
	return s*1e9 + int64(t.Nanosecond())
}

func circDiff(a, b, m int64) int64 {
	d := (a - b) % m
	if d < 0 {
		d += m
	}
	if d > m/2 {
		d = m - d
	}
	return d
}

// =====================================================================================
// Model of the send history.
// =====================================================================================

type pkey struct {
	twcc bool
	ssrc uint32
	seq  uint16
}

type stream struct {
	ssrc      uint32
	twccBound bool
	extID     uint8
	pt        uint8
	nextSeq   uint16
	sends     []*sendRec
}

type fbState struct {
	e            fbEntry
	d            *fbDec
	prevReported bool // an older send of the same number had already been reported when this feedback was read
}

type sendRec struct {
	idx     int
	str     *stream
	twcc    bool
	ssrc    uint32
	rtpSeq  uint16
	twccSeq uint16
	payload int
	hdr     int
	dep     time.Time
	prev    *sendRec // previous send with the same key
	// channel ground truth (closed loop)
	delivered bool
	// rtpfb model
	fb       *fbState
	reported bool
}

func (s *sendRec) key() pkey {
	if s.twcc {
		return pkey{twcc: true, seq: s.twccSeq}
	}
	return pkey{ssrc: s.ssrc, seq: s.rtpSeq}
}

func (s *sendRec) String() string {
	k := fmt.Sprintf("ssrc=%#x rtp=%d", s.ssrc, s.rtpSeq)
	if s.twcc {
		k += fmt.Sprintf(" twcc=%d", s.twccSeq)
	}
	return fmt.Sprintf("send#%d{%s size=%d+%d dep=%s}", s.idx, k, s.hdr, s.payload, s.dep.Format("15:04:05.000000000"))
}

type clock interface {
	Now() time.Time
	Advance(d time.Duration)
}

type logicalClock struct{ t time.Time }

func (l *logicalClock) Now() time.Time          { return l.t }
func (l *logicalClock) Advance(d time.Duration) { l.t = l.t.Add(d) }

type bubbleClock struct{}

func (bubbleClock) Now() time.Time { return time.Now() }
func (bubbleClock) Advance(d time.Duration) {
	if d > 0 {
		time.Sleep(d)
	}
}

type target interface {
	send(s *sendRec, h *rtp.Header, payload []byte) bool
	deliver(raw []byte, pkts []rtcp.Packet, decs []*fbDec)
}

type arrivalEv struct {
	at  time.Time
	s   *sendRec
	ecn uint8
	n   int
}

type arrHeap []arrivalEv

func (h arrHeap) Len() int { return len(h) }
func (h arrHeap) Less(i, j int) bool {
	if !h[i].at.Equal(h[j].at) {
		return h[i].at.Before(h[j].at)
	}
	return h[i].n < h[j].n
}
func (h arrHeap) Swap(i, j int) { h[i], h[j] = h[j], h[i] }
func (h *arrHeap) Push(x any)   { *h = append(*h, x.(arrivalEv)) }
func (h *arrHeap) Pop() any {
	o := *h
	x := o[len(o)-1]
	*h = o[:len(o)-1]
	return x
}

type queuedFB struct {
	at  time.Time
	raw []byte
	n   int
}

type world struct {
	c    *vf.Case
	r    *vf.Rand
	k    caseKind
	tgt  target
	clk  clock
	t0   time.Time
	dead bool

	streams   []*stream
	twccStr   []*stream
	ccfbStr   []*stream
	sends     []*sendRec
	latest    map[pkey]*sendRec
	twccSends []*sendRec
	nextTWCC  uint16
	payload   []byte

	epochSet bool
	epoch    time.Time

	// rtpfb report cursor
	cntSet  bool
	cntOff  int64
	lastRep int
	fbSer   int

	// generation parameters (per case)
	profile           int // 0 small, 1 medium (>250 in flight), 2 huge (>65536 in flight)
	pRecv, pLarge     float64
	pStay             float64
	pBeyond           float64
	pResend           float64
	recentRaw         [][]byte
	sigSeen           map[string]bool
	recentDecs        []*fbDec
	lossP, fbLossP    float64
	baseDelay, jitter time.Duration

	// closed loop
	twRec               *twcc.Recorder
	ccRec               *rfc8888.Recorder
	pend                arrHeap
	pendN               int
	fbq                 []queuedFB
	fbqN                int
	rxOffUS             int64
	fbEvery, sinceBuild int // closed loop: the receiver also builds feedback every fbEvery packets sent
	rxSkew              time.Duration
	inLoss              bool

	// evidence
	hazard   bool
	fp       *vf.Hash
	nFB      int
	nChecked int
}

func newWorld(c *vf.Case, k caseKind) *world {
	r := c.R
	w := &world{c: c, r: r, k: k, latest: map[pkey]*sendRec{}, sigSeen: map[string]bool{}, fp: vf.NewHash(), lastRep: -1}
	w.payload = make([]byte, 1500)
	w.nextTWCC = uint16(r.Pick(0, 1, 65000, 65500, 65535-r.Intn(300), r.Intn(65536)))
	switch p := r.Intn(100); {
	case p < 50:
		w.profile = 0
	case p < 98:
		w.profile = 1
	default:
		w.profile = 2
	}
	if k.loop && w.profile == 2 {
		w.profile = 1
	}
	w.pRecv = []float64{0.3, 0.6, 0.8, 0.9, 0.97}[r.Intn(5)]
	w.pLarge = []float64{0, 0.1, 0.3}[r.Intn(3)]
	w.pStay = []float64{0, 0.5, 0.8, 0.95}[r.Intn(4)]
	w.pBeyond = []float64{0, 0.3, 0.7}[r.Intn(3)]
	w.pResend = []float64{0, 0, 0.01, 0.05}[r.Intn(4)]
	w.lossP = []float64{0, 0.02, 0.1, 0.3}[r.Intn(4)]
	w.fbLossP = []float64{0, 0.05, 0.2}[r.Intn(3)]
	w.baseDelay = time.Duration(r.Pick(1, 5, 20, 80)) * time.Millisecond
	w.jitter = time.Duration(r.Pick(0, 1, 5, 30)) * time.Millisecond
	w.rxOffUS = int64(r.Range(1_000_000, 2_000_000_000))
	w.fbEvery = r.Pick(25, 60, 150, 400, 1<<30)
	w.rxSkew = time.Duration(r.Range(-3600, 3600))*time.Second + time.Duration(r.Intn(1e9))
	return w
}

func (w *world) viol(sig, format string, args ...any) {
	if w.sigSeen[sig] { // one witness per signature and case is enough
		return
	}
	w.sigSeen[sig] = true
	w.c.Violation(sig, "%s\n-- history: %d sends on %d streams (%s), newest %s\n-- last feedback packets read:\n%s",
		fmt.Sprintf(format, args...), len(w.sends), len(w.streams), w.streamsDesc(), w.newest(), w.recentFB())
}

func (w *world) streamsDesc() string {
	var sb strings.Builder
	for i, s := range w.streams {
		if i > 0 {
			sb.WriteString(", ")
		}
		fmt.Fprintf(&sb, "%#x", s.ssrc)
		if s.twccBound {
			fmt.Fprintf(&sb, " twcc-ext=%d", s.extID)
		}
		fmt.Fprintf(&sb, " n=%d", len(s.sends))
	}
	return sb.String()
}

func (w *world) newest() string {
	if len(w.sends) == 0 {
		return "-"
	}
	return w.sends[len(w.sends)-1].String()
}

func (w *world) recentFB() string {
	var sb strings.Builder
	for _, d := range w.recentDecs {
		sb.WriteString("   ")
		sb.WriteString(d.summary())
		sb.WriteByte('\n')
	}
	return sb.String()
}

func squeeze(k []byte) string {
	var sb strings.Builder
	for i := 0; i < len(k); {
		j := i
		for j < len(k) && k[j] == k[i] {
			j++
		}
		if sb.Len() > 0 {
			sb.WriteByte(' ')
		}
		sb.WriteByte(k[i])
		if j-i > 1 {
			fmt.Fprintf(&sb, "x%d", j-i)
		}
		i = j
		if sb.Len() > 80 {
			sb.WriteString(" …")
			break
		}
	}
	return sb.String()
}

func (d *fbDec) summary() string {
	if d.twcc {
		rg := d.ranges[0]
		nr := 0
		for _, e := range rg.ent {
			if e.recv {
				nr++
			}
		}
		return fmt.Sprintf("#%d TWCC base=%d count=%d received=%d ref=%d chunks=[%s] nominal-span=%d %s (%d bytes)",
			d.ser, rg.base, len(rg.ent), nr, d.ref, squeeze(d.kinds), d.nominal, d.class(), len(d.raw))
	}
	var sb strings.Builder
	fmt.Fprintf(&sb, "#%d RFC8888 rts=%#x", d.ser, d.rts)
	for _, rg := range d.ranges {
		nr := 0
		for _, e := range rg.ent {
			if e.recv {
				nr++
			}
		}
		fmt.Fprintf(&sb, " {ssrc=%#x begin=%d n=%d received=%d}", rg.ssrc, rg.base, len(rg.ent), nr)
	}
	fmt.Fprintf(&sb, " (%d bytes)", len(d.raw))
	return sb.String()
}

// window renders the statuses of a range around offset off, with what the model knows
// about each number.
func (w *world) window(d *fbDec, rg *fbRange, off int) string {
	var sb strings.Builder
	lo, hi := max(off-4, 0), min(off+4, len(rg.ent)-1)
	for i := lo; i <= hi; i++ {
		e := rg.ent[i]
		num := rg.base + uint16(i)
		mark := "  "
		if i == off {
			mark = "=>"
		}
		st := "not-received"
		if e.recv {
			if d.twcc {
				st = fmt.Sprintf("received at %dus (sym %d)", e.at, e.sym)
			} else {
				st = fmt.Sprintf("received ato=%#x ecn=%d", e.ato, e.ecn)
			}
		}
		var known string
		if s := w.latest[pkey{twcc: d.twcc, ssrc: rg.ssrc, seq: num}]; s != nil {
			known = fmt.Sprintf("%s age=%d", s, len(w.sends)-1-s.idx)
		} else {
			known = "never sent"
		}
		fmt.Fprintf(&sb, "   %s [%d] number %d: %s | %s\n", mark, i, num, st, known)
	}
	return sb.String()
}

// =====================================================================================
// Targets.
// =====================================================================================

type adapterTarget struct {
	w *world
	a *cc.FeedbackAdapter
}

func (t *adapterTarget) send(s *sendRec, h *rtp.Header, payload []byte) (ok bool) {
	var attrs interceptor.Attributes
	if s.str.twccBound {
		attrs = interceptor.Attributes{cc.TwccExtensionAttributesKey: s.str.extID}
	} else if t.w.r.Bool() {
		attrs = interceptor.Attributes{}
	}
	defer func() {
		if p := recover(); p != nil {
			t.w.viol("adapter/onsent/panic", "OnSent(%s) panicked: %v", s, p)
			t.w.dead = true
		}
	}()
	if err := t.a.OnSent(s.dep, h, len(payload), attrs); err != nil {
		t.w.c.Inconclusive("OnSent(%s): %v", s, err)
		t.w.dead = true
		return false
	}
	return true
}

func (t *adapterTarget) deliver(_ []byte, pkts []rtcp.Packet, decs []*fbDec) {
	w := t.w
	di := 0
	for _, p := range pkts {
		switch fb := p.(type) {
		case *rtcp.TransportLayerCC:
			d := decs[di]
			di++
			var acks []cc.Acknowledgment
			var err error
			var pan any
			func() {
				defer func() { pan = recover() }()
				acks, err = t.a.OnTransportCCFeedback(w.clk.Now(), fb)
			}()
			w.checkAdapterTWCC(d, acks, err, pan)
		case *rtcp.CCFeedbackReport:
			d := decs[di]
			di++
			var acks []cc.Acknowledgment
			var pan any
			func() {
				defer func() { pan = recover() }()
				acks = t.a.OnRFC8888Feedback(w.clk.Now(), fb)
			}()
			w.checkAdapterCCFB(d, acks, pan)
		}
	}
}

type rtpfbTarget struct {
	w       *world
	icpt    interceptor.Interceptor
	writers map[*stream]interceptor.RTPWriter
	reader  interceptor.RTCPReader
	cur     []byte
	written int
	lastHdr *rtp.Header
	kept    []keptReport
	sib        interceptor.Interceptor
	sibWriters map[*stream]interceptor.RTPWriter
}

func newRTPFBTarget(w *world) (*rtpfbTarget, error) {
	f, err := rtpfb.NewInterceptor()
	if err != nil {
		return nil, err
	}
	ic, err := f.NewInterceptor("c09")
	if err != nil {
		return nil, err
	}
	t := &rtpfbTarget{w: w, icpt: ic, writers: map[*stream]interceptor.RTPWriter{}}
	if w.r.Chance(0.3) {
		// another interceptor built by the SAME factory (a second peer connection) sends packets
		// under the same SSRCs and numbers: its history is its own
		if sib, err := f.NewInterceptor("c09-sibling"); err == nil {
			t.sib = sib
			t.sibWriters = map[*stream]interceptor.RTPWriter{}
			w.c.Add("cases_with_a_sibling_interceptor_of_the_same_factory", 1)
		}
	}
	t.reader = ic.BindRTCPReader(interceptor.RTCPReaderFunc(func(b []byte, a interceptor.Attributes) (int, interceptor.Attributes, error) {
		return copy(b, t.cur), a, nil
	}))
	return t, nil
}

func (t *rtpfbTarget) bind(s *stream) {
	info := &interceptor.StreamInfo{SSRC: s.ssrc, PayloadType: s.pt, ClockRate: 90000}
	info.RTPHeaderExtensions = append(info.RTPHeaderExtensions, interceptor.RTPHeaderExtension{URI: "urn:ietf:params:rtp-hdrext:sdes:mid", ID: int(s.extID)%14 + 1})
	if s.twccBound {
		info.RTPHeaderExtensions = append(info.RTPHeaderExtensions, interceptor.RTPHeaderExtension{URI: twccURI, ID: int(s.extID)})
	}
	t.writers[s] = t.icpt.BindLocalStream(info, interceptor.RTPWriterFunc(func(h *rtp.Header, p []byte, _ interceptor.Attributes) (int, error) {
		t.written++
		t.lastHdr = h
		return h.MarshalSize() + len(p), nil
	}))
}

func (t *rtpfbTarget) send(s *sendRec, h *rtp.Header, payload []byte) (ok bool) {
	w := t.w
	wr := t.writers[s.str]
	if wr == nil {
		t.bind(s.str)
		wr = t.writers[s.str]
	}
	var attrs interceptor.Attributes
	if w.r.Bool() {
		attrs = interceptor.Attributes{}
	}
	defer func() {
		if p := recover(); p != nil {
			w.viol("rtpfb/write/panic", "writing %s panicked: %v", s, p)
			w.dead = true
		}
	}()
	if t.sib != nil && w.r.Chance(0.5) {
		sw := t.sibWriters[s.str]
		if sw == nil {
			info := &interceptor.StreamInfo{SSRC: s.str.ssrc, PayloadType: s.str.pt, ClockRate: 90000}
			if s.str.twccBound {
				info.RTPHeaderExtensions = append(info.RTPHeaderExtensions, interceptor.RTPHeaderExtension{URI: twccURI, ID: int(s.str.extID)})
			}
			sw = t.sib.BindLocalStream(info, interceptor.RTPWriterFunc(func(h *rtp.Header, p []byte, _ interceptor.Attributes) (int, error) { return 0, nil }))
			t.sibWriters[s.str] = sw
		}
		hs := h.Clone()
		_, _ = sw.Write(&hs, append([]byte{0xEE}, payload...), nil) // same numbers, another size
	}
	before := t.written
	n, err := wr.Write(h, payload, attrs)
	if err != nil || n != s.hdr+len(payload) || t.written != before+1 || t.lastHdr != h {
		w.c.Inconclusive("bound writer: n=%d err=%v forwarded=%d for %s", n, err, t.written-before, s)
		w.dead = true
		return false
	}
	if !time.Now().Equal(s.dep) {
		w.c.Inconclusive("virtual time moved during Write")
		w.dead = true
		return false
	}
	return true
}

func (t *rtpfbTarget) deliver(raw []byte, _ []rtcp.Packet, decs []*fbDec) {
	w := t.w
	t.cur = raw
	var attrIn interceptor.Attributes
	if w.r.Bool() {
		attrIn = interceptor.Attributes{}
	}
	buf := make([]byte, len(raw)+w.r.Intn(64))
	var n int
	var attr interceptor.Attributes
	var err error
	var pan any
	func() {
		defer func() { pan = recover() }()
		n, attr, err = t.reader.Read(buf, attrIn)
	}()
	// the model first: feedback packets of one compound are read in order, then one report is built
	for _, d := range decs {
		w.applyFeedbackRTPFB(d)
	}
	if pan != nil {
		cls := "plain"
		for _, d := range decs {
			if d.twcc && d.class() != "plain" && cls != "run-length-beyond-status-count" {
				cls = d.class()
			}
		}
		w.viol("rtpfb/read/panic-on-well-formed-feedback/"+cls, "RTCP reader panicked: %v", pan)
		w.dead = true
		return
	}
	if err != nil || n != len(raw) {
		w.viol("rtpfb/read/error-on-well-formed-feedback", "RTCP reader returned n=%d err=%v for %d well-formed bytes", n, err, len(raw))
		return
	}
	var rep rtpfb.Report
	if v := attr.Get(rtpfb.CCFBAttributesKey); v != nil {
		r, ok := v.(rtpfb.Report)
		if !ok {
			w.viol("rtpfb/read/attribute-type", "attribute under CCFBAttributesKey has type %T", v)
			return
		}
		rep = r
	}
	w.checkReport(rep)
	// a consumer may keep a report (collect them, hand them to an estimator goroutine): it must
	// still read the same after later feedback was processed
	for i, k := range t.kept {
		if len(k.live) != len(k.snap) {
			continue
		}
		for j := range k.snap {
			if k.live[j] != k.snap[j] {
				w.viol("rtpfb/report-changed-after-it-was-returned",
					"report #%d (returned %d reads ago, %d packet reports): entry %d was %+v when the Read returned and reads %+v after a later Read",
					i, len(t.kept)-i, len(k.snap), j, k.snap[j], k.live[j])
				t.kept = nil
				return
			}
		}
	}
	if len(rep.PacketReports) > 0 && len(t.kept) < 8 {
		t.kept = append(t.kept, keptReport{live: rep.PacketReports, snap: append([]rtpfb.PacketReport(nil), rep.PacketReports...)})
		w.c.Add("rtpfb_reports_kept_and_rechecked_after_later_reads", 1)
	}
}

type keptReport struct{ live, snap []rtpfb.PacketReport }

// =====================================================================================
// Oracle (a): cc.FeedbackAdapter.
// =====================================================================================

func isPlaceholder(a *cc.Acknowledgment) bool {
	return *a == cc.Acknowledgment{}
}

// attribute decides whether an acknowledgement names the latest send of its key with that
// send's recorded size and departure. Returns the send or nil (violation recorded).
func (w *world) attribute(comp string, a *cc.Acknowledgment, k pkey, d *fbDec) *sendRec {
	s := w.latest[k]
	if s == nil {
		w.viol(comp+"/ack-names-a-packet-never-sent", "acknowledgement %+v names %+v which was never sent\nfeedback: %s", *a, k, d.summary())
		return nil
	}
	if !a.Departure.Equal(s.dep) {
		for p := s.prev; p != nil; p = p.prev {
			if a.Departure.Equal(p.dep) {
				w.viol(comp+"/ack-carries-superseded-send-of-that-number",
					"acknowledgement %+v carries the departure of %s, but the latest send with that number is %s\nfeedback: %s", *a, p, s, d.summary())
				return nil
			}
		}
		w.viol(comp+"/ack-departure-differs-from-send-record", "acknowledgement %+v: departure %s, but the packet was sent as %s\nfeedback: %s",
			*a, a.Departure.Format("15:04:05.000000000"), s, d.summary())
		return nil
	}
	if a.Size != s.payload && a.Size != s.payload+s.hdr {
		w.viol(comp+"/ack-size-differs-from-send-record", "acknowledgement %+v: size %d, but the packet was sent as %s\nfeedback: %s", *a, a.Size, s, d.summary())
		return nil
	}
	return s
}

func (w *world) checkAdapterTWCC(d *fbDec, acks []cc.Acknowledgment, err error, pan any) {
	const comp = "adapter/twcc"
	rg := &d.ranges[0]
	n := len(rg.ent)
	w.c.Add("adapter_twcc_feedback_read", 1)
	if pan != nil {
		w.viol(comp+"/panic-on-well-formed-feedback/"+d.class(), "OnTransportCCFeedback panicked: %v\nfeedback: %s", pan, d.summary())
		return
	}
	if err != nil {
		w.viol(comp+"/well-formed-feedback-rejected/"+d.class(),
			"OnTransportCCFeedback returned error %q (and no acknowledgements) for a well-formed packet\nfeedback: %s\nraw: %x\nend of the declared range:\n%s",
			err, d.summary(), clip(d.raw, 96), w.window(d, rg, n-1))
		return
	}
	byOff := make([]*cc.Acknowledgment, n)
	nPlace, firstPlace := 0, -1
	for i := range acks {
		a := &acks[i]
		if isPlaceholder(a) {
			nPlace++
			if firstPlace < 0 {
				firstPlace = i
			}
			continue
		}
		w.nChecked++
		off := int(a.SequenceNumber - rg.base)
		if off >= n {
			cls := "beyond-every-chunk"
			if off < d.nominal {
				cls = "run-length-beyond-status-count"
				if d.lastKind != 'R' {
					cls = "padded-final-vector-chunk"
				}
			}
			s := w.latest[pkey{twcc: true, seq: a.SequenceNumber}]
			w.viol(comp+"/ack-outside-declared-range/"+cls,
				"acknowledgement #%d %+v is for number %d, but the feedback declares base=%d count=%d (last number %d); model: %v\nfeedback: %s\nraw: %x",
				i, *a, a.SequenceNumber, rg.base, n, rg.base+uint16(n-1), s, d.summary(), clip(d.raw, 96))
			continue
		}
		if w.attribute(comp, a, pkey{twcc: true, seq: a.SequenceNumber}, d) == nil {
			continue
		}
		if byOff[off] != nil {
			w.viol(comp+"/number-acknowledged-twice", "number %d acknowledged twice by one feedback: %+v and %+v\nfeedback: %s", a.SequenceNumber, *byOff[off], *a, d.summary())
			continue
		}
		byOff[off] = a
	}
	if nPlace > 0 {
		w.viol(comp+"/placeholder-ack-names-no-sent-packet",
			"%d of the %d returned acknowledgements are zero-valued (SequenceNumber 0, zero departure, size 0): they name no sent packet; first at index %d, i.e. number %d:\n%s\nfeedback: %s",
			nPlace, len(acks), firstPlace, rg.base+uint16(firstPlace), w.window(d, rg, min(firstPlace, n-1)), d.summary())
	}
	// status / arrival / ECN of every acknowledged number
	unackedRecv := -1 // offset of an earlier received number that got no acknowledgement
	for off := 0; off < n; off++ {
		e, a := rg.ent[off], byOff[off]
		if a == nil {
			if e.recv && unackedRecv < 0 {
				unackedRecv = off
			}
			continue
		}
		w.c.Add("adapter_acks_compared", 1)
		switch {
		case e.noTime:
			w.c.Add("adapter_acks_for_received_without_timestamp", 1)
		case !e.recv && !a.Arrival.IsZero():
			w.viol(comp+"/arrival-status-differs/not-received-reported-as-arrived", "number %d is encoded as not received, acknowledgement %+v has an arrival time\n%s\nfeedback: %s",
				a.SequenceNumber, *a, w.window(d, rg, off), d.summary())
		case e.recv && !w.epochSet:
			if a.Arrival.IsZero() {
				w.viol(comp+"/arrival-status-differs/received-reported-as-not-arrived", "number %d is encoded as received, acknowledgement %+v has no arrival time\n%s\nfeedback: %s",
					a.SequenceNumber, *a, w.window(d, rg, off), d.summary())
			} else {
				w.epoch, w.epochSet = a.Arrival.Add(-time.Duration(e.at)*time.Microsecond), true
			}
		case e.recv:
			want := w.epoch.Add(time.Duration(e.at) * time.Microsecond)
			if want.IsZero() {
				break // an arrival at the zero instant cannot be told from "not arrived"
			}
			if a.Arrival.IsZero() {
				w.viol(comp+"/arrival-status-differs/received-reported-as-not-arrived", "number %d is encoded as received, acknowledgement %+v has no arrival time\n%s\nfeedback: %s",
					a.SequenceNumber, *a, w.window(d, rg, off), d.summary())
			} else if !a.Arrival.Equal(want) {
				cls, why := "other", ""
				if unackedRecv >= 0 {
					cls = "after-received-number-not-in-history"
					why = fmt.Sprintf("an earlier received number of this feedback (offset %d, number %d) is not in the history and got no acknowledgement:\n%s",
						unackedRecv, rg.base+uint16(unackedRecv), w.window(d, rg, unackedRecv))
				}
				w.viol(comp+"/arrival-time-differs/"+cls,
					"number %d: feedback encodes arrival at %dus on its clock (= %s), acknowledgement says %s (off by %v)\n%s%s\nfeedback: %s\nraw: %x",
					a.SequenceNumber, e.at, want.Format("15:04:05.000000"), a.Arrival.Format("15:04:05.000000"), a.Arrival.Sub(want),
					w.window(d, rg, off), why, d.summary(), clip(d.raw, 96))
			}
		}
		if a.ECN != 0 {
			w.viol(comp+"/ecn-differs", "TWCC encodes no ECN mark, acknowledgement %+v carries %d\nfeedback: %s", *a, a.ECN, d.summary())
		}
	}
	// every packet among the most recent 250 sends covered by the range must be acknowledged
	for off := 0; off < n; off++ {
		s := w.latest[pkey{twcc: true, seq: rg.base + uint16(off)}]
		if s == nil || s.idx < len(w.sends)-histSize {
			continue
		}
		w.c.Add("adapter_recent_sends_covered", 1)
		if byOff[off] == nil {
			w.viol(comp+"/recent-packet-not-acknowledged", "%s is among the most recent %d sends (age %d) and covered by the feedback, but %d acknowledgements name it not\n%s\nfeedback: %s",
				s, histSize, len(w.sends)-1-s.idx, len(acks), w.window(d, rg, off), d.summary())
			break
		}
	}
}

func (w *world) checkAdapterCCFB(d *fbDec, acks []cc.Acknowledgment, pan any) {
	const comp = "adapter/ccfb"
	w.c.Add("adapter_ccfb_feedback_read", 1)
	if pan != nil {
		w.viol(comp+"/panic-on-well-formed-feedback", "OnRFC8888Feedback panicked: %v\nfeedback: %s", pan, d.summary())
		return
	}
	type slot struct {
		rg  *fbRange
		off int
	}
	got := map[pkey]*cc.Acknowledgment{}
	for i := range acks {
		a := &acks[i]
		w.nChecked++
		k := pkey{ssrc: a.SSRC, seq: a.SequenceNumber}
		if isPlaceholder(a) {
			w.viol(comp+"/placeholder-ack-names-no-sent-packet", "acknowledgement #%d is zero-valued\nfeedback: %s", i, d.summary())
			continue
		}
		var at *slot
		for ri := range d.ranges {
			rg := &d.ranges[ri]
			if off := int(a.SequenceNumber - rg.base); rg.ssrc == a.SSRC && off < len(rg.ent) {
				at = &slot{rg, off}
				break
			}
		}
		if at == nil {
			w.viol(comp+"/ack-outside-declared-range", "acknowledgement %+v is in no declared range\nfeedback: %s", *a, d.summary())
			continue
		}
		if w.attribute(comp, a, k, d) == nil {
			continue
		}
		if got[k] != nil {
			w.viol(comp+"/number-acknowledged-twice", "%+v acknowledged twice by one report: %+v and %+v\nfeedback: %s", k, *got[k], *a, d.summary())
			continue
		}
		got[k] = a
		e := at.rg.ent[at.off]
		w.c.Add("adapter_acks_compared", 1)
		switch {
		case !e.recv && !a.Arrival.IsZero():
			w.viol(comp+"/arrival-status-differs/not-received-reported-as-arrived", "%+v is encoded as not received, acknowledgement %+v has an arrival time\n%s\nfeedback: %s",
				k, *a, w.window(d, at.rg, at.off), d.summary())
		case e.recv && a.Arrival.IsZero():
			w.viol(comp+"/arrival-status-differs/received-reported-as-not-arrived", "%+v is encoded as received, acknowledgement %+v has no arrival time\n%s\nfeedback: %s",
				k, *a, w.window(d, at.rg, at.off), d.summary())
		case e.recv:
			if e.ato < 0x1ffe {
				want := int64(uint64(uint32(e.at)) * 1e9 >> 16)
				if diff := circDiff(arrivalNTPns(a.Arrival), want, ntpWrapNs); diff > ccfbTolNs {
					w.viol(comp+"/arrival-time-differs", "%+v: report timestamp %#x - offset %#x/1024 s encodes arrival at %dns of the 65536 s NTP window, acknowledgement says %s = %dns (off by %dns > 1/65536 s)\n%s\nfeedback: %s",
						k, d.rts, e.ato, want, a.Arrival.UTC().Format(time.RFC3339Nano), arrivalNTPns(a.Arrival), diff, w.window(d, at.rg, at.off), d.summary())
				}
			}
			if uint8(a.ECN) != e.ecn {
				w.viol(comp+"/ecn-differs", "%+v: feedback encodes ECN %d, acknowledgement %+v carries %d\n%s\nfeedback: %s", k, e.ecn, *a, a.ECN, w.window(d, at.rg, at.off), d.summary())
			}
		}
	}
	for ri := range d.ranges {
		rg := &d.ranges[ri]
		for off := range rg.ent {
			k := pkey{ssrc: rg.ssrc, seq: rg.base + uint16(off)}
			s := w.latest[k]
			if s == nil || s.idx < len(w.sends)-histSize {
				continue
			}
			w.c.Add("adapter_recent_sends_covered", 1)
			if got[k] == nil {
				w.viol(comp+"/recent-packet-not-acknowledged", "%s is among the most recent %d sends (age %d) and covered by the report, but no acknowledgement names it\n%s\nfeedback: %s",
					s, histSize, len(w.sends)-1-s.idx, w.window(d, rg, off), d.summary())
				return
			}
		}
	}
}

func clip(b []byte, n int) []byte {
	if len(b) > n {
		return b[:n]
	}
	return b
}

// =====================================================================================
// Oracle (b): rtpfb interceptor.
// =====================================================================================

// applyFeedbackRTPFB updates, for every number of the declared ranges, the most recent
// in-range feedback of the packet the number names now (the latest send with that key).
func (w *world) applyFeedbackRTPFB(d *fbDec) {
	for ri := range d.ranges {
		rg := &d.ranges[ri]
		for off, e := range rg.ent {
			s := w.latest[pkey{twcc: d.twcc, ssrc: rg.ssrc, seq: rg.base + uint16(off)}]
			if s == nil || s.reported {
				continue
			}
			st := &fbState{e: e, d: d}
			for p := s.prev; p != nil && !st.prevReported; p = p.prev {
				st.prevReported = p.reported
			}
			s.fb = st
		}
	}
}

func (w *world) checkReport(rep rtpfb.Report) {
	w.c.Add("rtpfb_reads", 1)
	for i := range rep.PacketReports {
		pr := &rep.PacketReports[i]
		w.nChecked++
		if !w.cntSet { // the counter's origin is not part of the property: taken from the first report
			w.cntSet = true
			for _, s := range w.sends {
				if s.ssrc == pr.SSRC && s.rtpSeq == pr.RTPSequenceNumber && s.dep.Equal(pr.Departure) {
					w.cntOff = int64(pr.SequenceNumber) - int64(s.idx)
					break
				}
			}
		}
		idx := int64(pr.SequenceNumber) - w.cntOff
		if idx < 0 || idx >= int64(len(w.sends)) {
			w.viol("rtpfb/report-names-a-packet-never-sent", "packet report #%d %+v: counter %d names no sent packet (%d sent)", i, *pr, pr.SequenceNumber, len(w.sends))
			continue
		}
		s := w.sends[idx]
		if pr.SSRC != s.ssrc || pr.RTPSequenceNumber != s.rtpSeq || !pr.Departure.Equal(s.dep) ||
			(pr.Size != s.hdr+s.payload && pr.Size != s.payload) || (s.twcc && pr.TWCCSequenceNumber != s.twccSeq) {
			w.viol("rtpfb/report-differs-from-send-record", "packet report #%d %+v does not match the send record of its counter: %s", i, *pr, s)
			continue
		}
		if s.reported {
			w.viol("rtpfb/packet-reported-twice", "packet report #%d %+v: %s was already reported by an earlier report", i, *pr, s)
			continue
		}
		if s.idx <= w.lastRep {
			w.viol("rtpfb/report-order/not-in-send-order", "packet report #%d %+v (%s) follows a report of send#%d", i, *pr, s, w.lastRep)
		} else {
			w.lastRep = s.idx
		}
		s.reported = true
		w.c.Add("rtpfb_packet_reports_compared", 1)
		if s.fb == nil {
			if pr.Arrived {
				w.viol("rtpfb/arrived-without-covering-feedback", "packet report %+v says arrived, but no feedback read so far covers %s", *pr, s)
			}
			continue
		}
		e, d := s.fb.e, s.fb.d
		comp := "rtpfb/ccfb"
		if d.twcc {
			comp = "rtpfb/twcc"
		}
		rg, off := w.locate(d, s)
		switch {
		case e.noTime:
			w.c.Add("rtpfb_reports_for_received_without_timestamp", 1)
		case e.recv && !pr.Arrived:
			cls := "other"
			if s.fb.prevReported {
				cls = "after-older-send-of-same-number-was-reported"
			}
			w.viol(comp+"/arrival-status-differs/received-reported-as-not-arrived/"+cls,
				"packet report %+v says not arrived, but the most recent feedback covering %s encodes it as received:\n%s\nfeedback: %s\nolder send of the same number: %v",
				*pr, s, w.window(d, rg, off), d.summary(), s.prev)
		case !e.recv && pr.Arrived:
			w.viol(comp+"/arrival-status-differs/not-received-reported-as-arrived", "packet report %+v says arrived, but the most recent feedback covering %s encodes it as not received:\n%s\nfeedback: %s",
				*pr, s, w.window(d, rg, off), d.summary())
		case e.recv && d.twcc:
			if !w.epochSet {
				w.epoch, w.epochSet = pr.Arrival.Add(-time.Duration(e.at)*time.Microsecond), true
			}
			if want := w.epoch.Add(time.Duration(e.at) * time.Microsecond); !pr.Arrival.Equal(want) {
				w.viol(comp+"/arrival-time-differs", "%s: feedback encodes arrival at %dus on its clock (= %s), packet report says %s (off by %v)\n%s\nfeedback: %s\nraw: %x",
					s, e.at, want.Format("15:04:05.000000"), pr.Arrival.Format("15:04:05.000000"), pr.Arrival.Sub(want), w.window(d, rg, off), d.summary(), clip(d.raw, 96))
			}
			if pr.ECN != 0 {
				w.viol(comp+"/ecn-differs", "TWCC encodes no ECN mark, packet report %+v carries %d", *pr, pr.ECN)
			}
		case e.recv:
			if e.ato < 0x1ffe {
				want := int64(uint64(uint32(e.at)) * 1e9 >> 16)
				if diff := circDiff(arrivalNTPns(pr.Arrival), want, ntpWrapNs); diff > ccfbTolNs {
					w.viol(comp+"/arrival-time-differs", "%s: report timestamp %#x - offset %#x/1024 s encodes arrival at %dns of the 65536 s NTP window, packet report says %s = %dns (off by %dns > 1/65536 s)\n%s\nfeedback: %s",
						s, d.rts, e.ato, want, pr.Arrival.UTC().Format(time.RFC3339Nano), arrivalNTPns(pr.Arrival), diff, w.window(d, rg, off), d.summary())
				}
			}
			if uint8(pr.ECN) != e.ecn {
				w.viol(comp+"/ecn-differs", "%s: feedback encodes ECN %d, packet report %+v carries %d\n%s\nfeedback: %s", s, e.ecn, *pr, pr.ECN, w.window(d, rg, off), d.summary())
			}
		}
	}
}

func (w *world) locate(d *fbDec, s *sendRec) (*fbRange, int) {
	k := s.key()
	for ri := range d.ranges {
		rg := &d.ranges[ri]
		if off := int(k.seq - rg.base); (d.twcc || rg.ssrc == k.ssrc) && off < len(rg.ent) {
			return rg, off
		}
	}
	return &d.ranges[0], 0
}

// =====================================================================================
// Workload.
// =====================================================================================

func (w *world) setupStreams() {
	r := w.r
	used := map[uint32]bool{0: true}
	newStream := func(tw bool) {
		s := &stream{twccBound: tw, pt: uint8(r.Range(96, 127)), extID: uint8(r.Range(1, 14))}
		for used[s.ssrc] {
			s.ssrc = r.U32()
			switch q := r.Intn(10); {
			case q < 2: // neighbouring SSRCs
				for u := range used {
					if u != 0 {
						s.ssrc = u + 1
						break
					}
				}
			case q < 4: // SSRCs that agree in their low 16 bits / whose low 16 bits are zero
				s.ssrc = s.ssrc&0xffff0000 | 0
				for u := range used {
					if u != 0 && r.Bool() {
						s.ssrc = u&0xffff | s.ssrc&0xffff0000
						break
					}
				}
			}
		}
		used[s.ssrc] = true
		s.nextSeq = uint16(r.Pick(0, 1, 65535, 65535-r.Intn(400), r.Intn(65536)))
		w.streams = append(w.streams, s)
		if tw {
			w.twccStr = append(w.twccStr, s)
		} else {
			w.ccfbStr = append(w.ccfbStr, s)
		}
	}
	n := r.Pick(1, 1, 2, 3, 4)
	if w.k.twcc && w.k.ccfb && n < 2 {
		n = 2
	}
	for i := 0; i < n; i++ {
		switch {
		case w.k.twcc && !w.k.ccfb:
			newStream(true)
		case !w.k.twcc:
			newStream(false)
		case i == 0:
			newStream(true)
		case i == 1:
			newStream(false)
		default:
			newStream(r.Bool())
		}
	}
}

func (w *world) sendOn(str *stream) *sendRec {
	r := w.r
	_, isRTPFB := w.tgt.(*rtpfbTarget)
	s := &sendRec{idx: len(w.sends), str: str, ssrc: str.ssrc}
	sameTW := false
	if len(str.sends) > 0 && !w.k.loop && w.pResend > 0 && r.Chance(w.pResend) {
		old := str.sends[len(str.sends)-1-r.Intn(min(len(str.sends), 40))]
		s.rtpSeq = old.rtpSeq
		if old.twcc && r.Chance(0.3) {
			sameTW, s.twccSeq = true, old.twccSeq
		}
	} else {
		s.rtpSeq = str.nextSeq
		str.nextSeq++
	}
	withExt := str.twccBound && !(isRTPFB && !w.k.loop && r.Chance(0.01))
	h := &rtp.Header{Version: 2, PayloadType: str.pt, SequenceNumber: s.rtpSeq, Timestamp: r.U32(), SSRC: str.ssrc, Marker: r.Bool()}
	for i := r.Pick(0, 0, 0, 1, 2); i > 0; i-- {
		h.CSRC = append(h.CSRC, r.U32())
	}
	if withExt {
		s.twcc = true
		if !sameTW {
			s.twccSeq = w.nextTWCC
			w.nextTWCC++
		}
		ext, _ := (&rtp.TransportCCExtension{TransportSequence: s.twccSeq}).Marshal()
		h.Extension, h.ExtensionProfile = true, rtp.ExtensionProfileOneByte
		if err := h.SetExtension(str.extID, ext); err != nil {
			w.c.Inconclusive("SetExtension: %v", err)
			w.dead = true
			return nil
		}
	}
	if r.Chance(0.1) {
		h.Extension, h.ExtensionProfile = true, rtp.ExtensionProfileOneByte
		_ = h.SetExtension(str.extID%14+1, []byte{byte(s.idx), 7})
	}
	s.hdr = h.MarshalSize()
	s.payload = r.Pick(0, 1, 1200, r.Range(1, 1400), r.Range(1, 1400))
	k := s.key()
	s.prev = w.latest[k]
	w.latest[k] = s
	w.sends = append(w.sends, s)
	str.sends = append(str.sends, s)
	if s.twcc {
		w.twccSends = append(w.twccSends, s)
	}
	s.dep = w.clk.Now()
	if !w.tgt.send(s, h, w.payload[:s.payload]) {
		return nil
	}
	if w.k.loop {
		w.channel(s)
	}
	return s
}

func (w *world) sendBurst(n int, gap func() time.Duration) {
	for i := 0; i < n && !w.dead; i++ {
		w.clk.Advance(gap())
		w.sendOn(w.streams[w.r.Intn(len(w.streams))])
		if w.k.loop {
			if w.sinceBuild++; w.sinceBuild >= w.fbEvery {
				w.loopBuild()
			}
			w.deliverDue()
		}
	}
	w.c.Add("packets_sent", int64(n))
}

func (w *world) calibrate() {
	// One TWCC packet, one single-status feedback: fixes the (arbitrary) epoch the library
	// uses for TWCC arrival times. No alignment hazard is possible in this feedback.
	if len(w.twccStr) == 0 {
		return
	}
	w.clk.Advance(time.Millisecond)
	s := w.sendOn(w.twccStr[0])
	if s == nil || !s.twcc {
		return
	}
	w.c.Add("packets_sent", 1)
	s.delivered = true // the calibration feedback is hand-built, also in closed-loop cases
	w.clk.Advance(time.Millisecond)
	raw := gen.RawTWCC(w.r.U32(), s.ssrc, s.twccSeq, 1, uint32(w.r.Range(1, 1<<20)), 0,
		[]uint16{gen.RunChunk(1, 1)}, []byte{byte(w.r.Range(1, 255))})
	w.deliver(raw)
}

func (w *world) scenario() {
	r := w.r
	w.t0 = w.clk.Now()
	w.setupStreams()
	if w.k.loop {
		if len(w.twccStr) > 0 {
			w.twRec = twcc.NewRecorder(r.U32())
		}
		if len(w.ccfbStr) > 0 {
			w.ccRec = rfc8888.NewRecorder()
		}
	}
	w.calibrate()
	gap := func() time.Duration {
		return time.Duration(r.Pick(1, 20, 100, 1000, 5000, r.Range(1, 20000))) * time.Microsecond
	}
	if w.profile == 2 {
		// more than 65536 packets in flight before any further feedback
		n := 65536 + r.Pick(1, 20, 300, r.Range(1, 3000))
		one := w.streams[r.Intn(len(w.streams))]
		for i := 0; i < n && !w.dead; i++ {
			if i%16 == 0 {
				w.clk.Advance(time.Duration(r.Range(1, 50)) * time.Microsecond)
			}
			if r.Chance(0.9) {
				w.sendOn(one)
			} else {
				w.sendOn(w.streams[r.Intn(len(w.streams))])
			}
		}
		w.c.Add("packets_sent", int64(n))
		w.c.Add("cases_with_more_than_65536_in_flight", 1)
	}
	rounds := r.Range(3, 25)
	if w.profile > 0 {
		rounds = r.Range(2, 9)
	}
	for round := 0; round < rounds && !w.dead; round++ {
		burst := r.Range(1, 40)
		if w.profile > 0 && r.Chance(0.7) {
			burst = r.Pick(r.Range(40, 249), r.Range(250, 270), r.Range(250, 700))
		}
		w.sendBurst(burst, gap)
		if w.dead {
			break
		}
		if w.k.loop {
			w.loopBuild()
			w.deliverDue()
			continue
		}
		for i := r.Pick(1, 1, 2, 3); i > 0 && !w.dead; i-- {
			w.clk.Advance(time.Duration(r.Range(1, 3000)) * time.Microsecond)
			w.deliver(w.handFeedback())
		}
	}
	if w.k.loop && !w.dead {
		// let everything in flight arrive, build once more, deliver what is queued
		w.clk.Advance(w.baseDelay + w.jitter + 300*time.Millisecond)
		w.loopBuild()
		w.clk.Advance(500 * time.Millisecond)
		w.deliverDue()
	}
}

// ---------------------------------------------------------------------------------
// hand-built feedback
// ---------------------------------------------------------------------------------

func (w *world) pickAnchor(list []*sendRec) *sendRec {
	r := w.r
	n := len(list)
	byIdx := func(target int) *sendRec {
		i := sort.Search(n, func(i int) bool { return list[i].idx >= target })
		if i >= n {
			i = n - 1
		}
		return list[i]
	}
	switch r.Intn(7) {
	case 0, 1:
		return list[n-1-r.Intn(min(n, 60))]
	case 2: // around the edge of the most recent 250 sends
		return byIdx(len(w.sends) - histSize + r.Range(-20, 20))
	case 3:
		return list[r.Intn(n)]
	case 4: // around the first packet not yet reported (rtpfb) / oldest
		return byIdx(w.lastRep + 1 + r.Range(-5, 30))
	case 5: // numbers that were sent twice (wrap): the oldest sends
		return list[r.Intn(min(n, 3200))]
	default:
		return list[n-1-r.Intn(min(n, 320))]
	}
}

func (w *world) rangeAround(list []*sendRec, seqOf func(*sendRec) uint16) (uint16, int) {
	r := w.r
	if len(list) == 0 || r.Chance(0.03) {
		return r.U16(), r.Range(1, 40)
	}
	a := w.pickAnchor(list)
	lead := r.Pick(0, r.Range(0, 5), r.Range(0, 30), r.Range(0, 30), r.Range(100, 400))
	tail := r.Pick(0, r.Range(0, 10), r.Range(0, 60), r.Range(0, 300))
	if r.Chance(0.02) {
		tail = r.Range(1000, 9000)
	}
	return seqOf(a) - uint16(lead), lead + 1 + tail
}

func (w *world) handFeedback() []byte {
	r := w.r
	if len(w.recentRaw) > 0 && r.Chance(0.12) { // duplicated (possibly stale) feedback
		w.c.Add("feedback_duplicates_delivered", 1)
		return w.recentRaw[r.Intn(len(w.recentRaw))]
	}
	var parts [][]byte
	for i := r.Pick(1, 1, 1, 1, 2); i > 0; i-- {
		useTW := len(w.twccStr) > 0 && (len(w.ccfbStr) == 0 || r.Bool())
		if useTW {
			parts = append(parts, w.handTWCC())
		} else {
			parts = append(parts, w.handCCFB())
		}
	}
	var raw []byte
	if r.Chance(0.15) {
		rr, _ := (&rtcp.ReceiverReport{SSRC: r.U32()}).Marshal()
		raw = append(raw, rr...)
	}
	for _, p := range parts {
		raw = append(raw, p...)
	}
	w.recentRaw = append(w.recentRaw, raw)
	if len(w.recentRaw) > 4 {
		w.recentRaw = w.recentRaw[1:]
	}
	return raw
}

func (w *world) handTWCC() []byte {
	r := w.r
	base, n := w.rangeAround(w.twccSends, func(s *sendRec) uint16 { return s.twccSeq })
	syms := make([]uint8, n)
	cur := uint8(0)
	pSym3 := 0.0
	if r.Chance(0.25) {
		pSym3 = 0.05
	}
	draw := func() uint8 {
		if pSym3 > 0 && r.Chance(pSym3) {
			return 3
		}
		if !r.Chance(w.pRecv) {
			return 0
		}
		if r.Chance(w.pLarge) {
			return 2
		}
		return 1
	}
	for i := range syms {
		if i == 0 || !r.Chance(w.pStay) {
			cur = draw()
		}
		syms[i] = cur
	}
	var chunks []uint16
	var deltas []byte
	for i := 0; i < n; {
		rem := n - i
		L := 1
		for i+L < n && syms[i+L] == syms[i] {
			L++
		}
		all01 := true
		for j := 0; j < 14 && j < rem; j++ {
			if syms[i+j] > 1 {
				all01 = false
			}
		}
		choice := r.Intn(3)
		switch {
		case choice == 0 || (L >= 15 && r.Chance(0.85)):
			k := min(L, 8191)
			if r.Chance(0.2) {
				k = r.Range(1, k)
			}
			wire := k
			if i+k == n && k < 8191 && r.Chance(w.pBeyond) {
				wire = min(8191, k+r.Pick(1, 2, 7, 100, r.Range(1, 8191)))
			}
			chunks = append(chunks, gen.RunChunk(uint16(syms[i]), uint16(wire)))
			i += k
		case choice == 1 && all01:
			var bits uint16
			for j := 0; j < 14 && j < rem; j++ {
				bits |= uint16(syms[i+j]) << (13 - j)
			}
			chunks = append(chunks, gen.Vec1Chunk(bits))
			i += min(14, rem)
		default:
			var v [7]uint16
			for j := 0; j < 7 && j < rem; j++ {
				v[j] = uint16(syms[i+j])
			}
			chunks = append(chunks, gen.Vec2Chunk(v))
			i += min(7, rem)
		}
	}
	ref := uint32(r.Pick(1, 1<<24-1, r.Range(1, 1<<24-1), r.Range(1<<10, 1<<20)))
	// The feedback's clock (reference time + every prefix sum of the deltas) stays above its
	// zero instant: an Acknowledgment can only say "not arrived" by a zero arrival time, so an
	// arrival exactly at the zero instant would be ambiguous.
	clock := int64(ref) * 256 // in 250 us ticks
	for _, s := range syms {
		switch s {
		case 1:
			v := r.Pick(0, 1, 4, 255, r.Intn(256))
			clock += int64(v)
			deltas = append(deltas, byte(v))
		case 2:
			v := r.Pick(-32768, -1, -4, -256, 256, 32767, r.Range(-32768, 32767), r.Range(0, 255))
			if clock+int64(v) < 1 {
				v = min(-v, 32767)
			}
			clock += int64(v)
			deltas = binary.BigEndian.AppendUint16(deltas, uint16(int16(v)))
		}
	}
	media := r.U32()
	if len(w.twccStr) > 0 && r.Chance(0.8) {
		media = w.twccStr[r.Intn(len(w.twccStr))].ssrc
	}
	return gen.RawTWCC(r.U32(), media, base, uint16(n), ref, uint8(r.Intn(256)), chunks, deltas)
}

func (w *world) handCCFB() []byte {
	r := w.r
	rep := &rtcp.CCFeedbackReport{SenderSSRC: r.U32(), ReportTimestamp: r.U32()}
	if r.Chance(0.5) {
		rep.ReportTimestamp = uint32(uint64(arrivalNTPns(w.clk.Now().Add(w.rxSkew))) << 16 / 1e9)
	}
	order := r.Intn(1 << 16)
	cands := append([]*stream(nil), w.ccfbStr...)
	if len(w.twccStr) > 0 && r.Chance(0.1) {
		cands = append(cands, w.twccStr[r.Intn(len(w.twccStr))]) // RFC 8888 feedback about a stream tracked by TWCC numbers
	}
	nb := r.Pick(1, 1, 2, 3)
	used := map[uint32]bool{0: true}
	for b := 0; b < nb; b++ {
		blk := rtcp.CCFeedbackReportBlock{}
		var list []*sendRec
		if len(cands) == 0 || r.Chance(0.05) {
			blk.MediaSSRC = r.U32() // a stream this sender does not have
		} else {
			s := cands[(order+b)%len(cands)]
			blk.MediaSSRC, list = s.ssrc, s.sends
		}
		if used[blk.MediaSSRC] {
			continue
		}
		used[blk.MediaSSRC] = true
		base, n := w.rangeAround(list, func(s *sendRec) uint16 { return s.rtpSeq })
		if r.Chance(0.03) {
			n = 0
		}
		blk.BeginSequence = base
		recv := false
		for i := 0; i < n; i++ {
			if i == 0 || !r.Chance(w.pStay) {
				recv = r.Chance(w.pRecv)
			}
			mb := rtcp.CCFeedbackMetricBlock{Received: recv}
			if recv {
				mb.ECN = rtcp.ECN(r.Intn(4))
				mb.ArrivalTimeOffset = uint16(r.Pick(0, 1, 1023, 1024, 0x1ffd, 0x1ffe, 0x1fff, r.Intn(0x2000), r.Intn(0x2000), r.Intn(200)))
			}
			blk.MetricBlocks = append(blk.MetricBlocks, mb)
		}
		rep.ReportBlocks = append(rep.ReportBlocks, blk)
	}
	raw, err := rep.Marshal()
	if err != nil {
		w.c.Inconclusive("marshal hand-built RFC 8888 report: %v", err)
		w.dead = true
		return nil
	}
	return raw
}

// ---------------------------------------------------------------------------------
// closed loop: channel model -> the library's own feedback generators
// ---------------------------------------------------------------------------------

func (w *world) channel(s *sendRec) {
	r := w.r
	if w.inLoss {
		w.inLoss = r.Chance(0.6)
	} else {
		w.inLoss = r.Chance(w.lossP)
	}
	if w.inLoss {
		w.c.Add("loop_packets_lost_in_channel", 1)
		return
	}
	copies := 1
	if r.Chance(0.02) {
		copies = 2
	}
	for i := 0; i < copies; i++ {
		d := w.baseDelay + time.Duration(i)*time.Millisecond
		if w.jitter > 0 {
			d += time.Duration(r.Intn(int(w.jitter)))
			if r.Chance(0.03) {
				d += 3 * w.jitter
			}
		}
		w.pendN++
		heap.Push(&w.pend, arrivalEv{at: s.dep.Add(d), s: s, ecn: uint8(r.Intn(4)), n: w.pendN})
	}
}

func (w *world) loopBuild() {
	now := w.clk.Now()
	w.sinceBuild = 0
	defer func() {
		if p := recover(); p != nil {
			w.c.Inconclusive("the library's feedback generator panicked (not this property): %v", p)
			w.dead = true
		}
	}()
	for w.pend.Len() > 0 && !w.pend[0].at.After(now) {
		a := heap.Pop(&w.pend).(arrivalEv)
		if a.s.twcc {
			us := w.rxOffUS + a.at.Sub(w.t0).Microseconds()
			w.twRec.Record(a.s.ssrc, a.s.twccSeq, us)
		} else if w.ccRec != nil {
			w.ccRec.AddPacket(a.at.Add(w.rxSkew), a.s.ssrc, a.s.rtpSeq, a.ecn)
		} else {
			continue
		}
		a.s.delivered = true
		w.c.Add("loop_packets_recorded_by_receiver", 1)
	}
	enqueue := func(raw []byte) {
		if w.r.Chance(w.fbLossP) {
			w.c.Add("loop_feedback_lost_in_channel", 1)
			return
		}
		for i := w.r.Pick(1, 1, 1, 1, 1, 1, 1, 2); i > 0; i-- {
			d := time.Duration(w.r.Pick(1, 10, 40, 150))*time.Millisecond + time.Duration(w.r.Intn(5000))*time.Microsecond
			w.fbqN++
			w.fbq = append(w.fbq, queuedFB{at: now.Add(d), raw: raw, n: w.fbqN})
		}
	}
	if w.twRec != nil {
		for _, p := range w.twRec.BuildFeedbackPacket() {
			raw, err := p.Marshal()
			if err != nil {
				w.c.Add("loop_feedback_not_marshallable", 1)
				continue
			}
			w.c.Add("loop_twcc_feedback_built", 1)
			enqueue(raw)
		}
	}
	if w.ccRec != nil {
		rep := w.ccRec.BuildReport(now.Add(w.rxSkew), w.r.Pick(1200, 1200, 200, 4000, w.r.Range(40, 1400)))
		blocks := rep.ReportBlocks[:0]
		for _, b := range rep.ReportBlocks {
			if len(b.MetricBlocks) > 0 {
				blocks = append(blocks, b)
			}
		}
		rep.ReportBlocks = blocks
		sort.Slice(rep.ReportBlocks, func(i, j int) bool { return rep.ReportBlocks[i].MediaSSRC < rep.ReportBlocks[j].MediaSSRC })
		if len(rep.ReportBlocks) > 0 {
			raw, err := rep.Marshal()
			if err != nil {
				w.c.Add("loop_feedback_not_marshallable", 1)
			} else {
				w.c.Add("loop_ccfb_feedback_built", 1)
				enqueue(raw)
			}
		}
	}
}

func (w *world) deliverDue() {
	if len(w.fbq) == 0 {
		return
	}
	now := w.clk.Now()
	sort.Slice(w.fbq, func(i, j int) bool {
		if !w.fbq[i].at.Equal(w.fbq[j].at) {
			return w.fbq[i].at.Before(w.fbq[j].at)
		}
		return w.fbq[i].n < w.fbq[j].n
	})
	for len(w.fbq) > 0 && !w.fbq[0].at.After(now) && !w.dead {
		raw := w.fbq[0].raw
		w.fbq = w.fbq[1:]
		w.deliver(raw)
	}
}

// ---------------------------------------------------------------------------------
// delivery: parse, decode independently, hand to the target
// ---------------------------------------------------------------------------------

func (w *world) deliver(raw []byte) {
	if raw == nil || w.dead {
		return
	}
	var pkts []rtcp.Packet
	var err error
	func() {
		defer func() {
			if p := recover(); p != nil {
				err = fmt.Errorf("panic: %v", p)
			}
		}()
		pkts, err = rtcp.Unmarshal(raw)
	}()
	if err != nil {
		// pion/rtcp (outside the library under test) refuses some well-formed packets, e.g. an
		// all-lost TWCC packet whose last chunk ends exactly at the packet end.
		w.c.Add("feedback_refused_by_pion_rtcp_unmarshal", 1)
		return
	}
	parts := splitCompound(raw)
	if len(parts) != len(pkts) {
		w.c.Inconclusive("compound split %d != %d packets", len(parts), len(pkts))
		w.dead = true
		return
	}
	var decs []*fbDec
	for i, p := range pkts {
		var d *fbDec
		var why string
		switch p.(type) {
		case *rtcp.TransportLayerCC:
			d, why = decodeTWCC(parts[i])
		case *rtcp.CCFeedbackReport:
			d, why = decodeCCFB(parts[i])
		default:
			continue
		}
		if d == nil {
			if w.k.loop { // the library's generator emitted something the wire format does not allow: C05 / C08
				w.c.Add("loop_feedback_not_decodable", 1)
				return
			}
			w.c.Inconclusive("hand-built feedback not decodable by the oracle: %s: %x", why, clip(parts[i], 64))
			w.dead = true
			return
		}
		w.fbSer++
		d.ser = w.fbSer
		decs = append(decs, d)
		w.noteFeedback(d)
	}
	w.tgt.deliver(raw, pkts, decs)
	w.nFB += len(decs)
	if w.k.loop {
		w.e2e()
	}
}

// noteFeedback keeps evidence counters, the non-triviality flag and the case fingerprint:
// alignment hazard = a received number the history does not hold, followed (in the same
// range) by a received number it does hold.
func (w *world) noteFeedback(d *fbDec) {
	w.recentDecs = append(w.recentDecs, d)
	if len(w.recentDecs) > 5 {
		w.recentDecs = w.recentDecs[1:]
	}
	_, isRTPFB := w.tgt.(*rtpfbTarget)
	if d.twcc {
		w.c.Add("twcc_feedback_decoded", 1)
		if d.runBeyond {
			w.c.Add("twcc_feedback_with_run_length_beyond_status_count", 1)
		}
		if d.paddedVec {
			w.c.Add("twcc_feedback_with_padded_final_vector_chunk", 1)
		}
		w.fp.Bytes(d.kinds)
	} else {
		w.c.Add("rfc8888_feedback_decoded", 1)
	}
	for ri := range d.ranges {
		rg := &d.ranges[ri]
		w.c.Add("statuses_decoded", int64(len(rg.ent)))
		unknownRecv, hazard := false, false
		var pat uint64
		for off, e := range rg.ent {
			s := w.latest[pkey{twcc: d.twcc, ssrc: rg.ssrc, seq: rg.base + uint16(off)}]
			known := s != nil && s.idx >= len(w.sends)-histSize
			if isRTPFB {
				known = s != nil && !s.reported
			}
			if !known {
				w.c.Add("statuses_about_numbers_not_in_history", 1)
			}
			if e.recv && !known {
				unknownRecv = true
			}
			if e.recv && known && unknownRecv {
				hazard = true
			}
			if off < 32 {
				pat = pat<<2 | uint64(b2i(known))<<1 | uint64(b2i(e.recv))
			}
		}
		w.fp.U64(pat).Int(len(rg.ent))
		if hazard {
			w.hazard = true
			w.c.Add("feedback_ranges_with_alignment_hazard", 1)
		}
	}
}

func b2i(b bool) int {
	if b {
		return 1
	}
	return 0
}

// e2e: closed loop only. The channel model is ground truth: a packet acknowledged as
// arrived must have been handed to the receiver (some send of that number, since the
// receiver cannot tell two sends of one number apart). Checked on the rtpfb model state /
// independent decode, so it is an end-to-end statement about generator + decoder.
func (w *world) e2e() {
	d := w.recentDecs[len(w.recentDecs)-1]
	for ri := range d.ranges {
		rg := &d.ranges[ri]
		for off, e := range rg.ent {
			if !e.recv {
				continue
			}
			s := w.latest[pkey{twcc: d.twcc, ssrc: rg.ssrc, seq: rg.base + uint16(off)}]
			if s == nil {
				w.c.Add("loop_received_status_for_number_never_sent", 1)
				continue
			}
			ok := false
			for p := s; p != nil; p = p.prev {
				ok = ok || p.delivered
			}
			if !ok {
				w.viol("e2e/generator/received-status-for-packet-the-channel-dropped",
					"the library's own feedback generator marks number %d received, but the channel model never delivered %s\n%s\nfeedback: %s",
					rg.base+uint16(off), s, w.window(d, rg, off), d.summary())
			}
		}
	}
}

func (w *world) finish() {
	c := w.c
	c.Add("feedback_packets_read_by_the_library", int64(w.nFB))
	c.Add("acknowledgements_checked", int64(w.nChecked))
	c.Max("max_sends_in_one_case", int64(len(w.sends)))
	if w.hazard && w.nFB > 0 && w.nChecked > 0 {
		tg := 0
		if _, ok := w.tgt.(*rtpfbTarget); ok {
			tg = 1
		}
		c.Nontrivial(w.fp.Int(tg).Int(b2i(w.k.loop)).Sum())
	}
	if c.WantSample() {
		var fbs []string
		for _, d := range w.recentDecs {
			fbs = append(fbs, d.summary())
		}
		tg := "cc.FeedbackAdapter"
		if _, ok := w.tgt.(*rtpfbTarget); ok {
			tg = "rtpfb interceptor (virtual time)"
		}
		c.Sample(map[string]any{
			"case": c.Idx, "target": tg, "closed_loop": w.k.loop, "streams": w.streamsDesc(), "sends": len(w.sends),
			"feedback_packets_read": w.nFB, "acknowledgements_checked": w.nChecked, "alignment_hazard": w.hazard,
			"last_feedback": fbs,
		})
	}
}
