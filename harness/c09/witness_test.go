package c09

// Minimal stand-alone witnesses for the signatures that fire on the unchanged tree.
// Not part of the check (the runner only runs TestCheck); run with
//
//	cd /verif/harness && go1.26.8 test ./c09 -run TestWitnesses -v
//
// The test never fails: it prints what the real code answers next to what the statement
// demands.

import (
	"testing"
	"time"

	"github.com/pion/interceptor"
	"github.com/pion/interceptor/internal/cc"
	"github.com/pion/interceptor/pkg/rtpfb"
	"github.com/pion/interceptor/verif/gen"
	"github.com/pion/rtcp"
	"github.com/pion/rtp"
)

func witnessAdapter(t *testing.T, sent []uint16) (*cc.FeedbackAdapter, time.Time) {
	t.Helper()
	a := cc.NewFeedbackAdapter()
	t0 := time.Unix(1_700_000_000, 0)
	for i, n := range sent {
		h := rtp.Header{Version: 2, SSRC: 0x1234, SequenceNumber: uint16(1000 + i), Extension: true, ExtensionProfile: rtp.ExtensionProfileOneByte}
		ext, _ := (&rtp.TransportCCExtension{TransportSequence: n}).Marshal()
		_ = h.SetExtension(5, ext)
		if err := a.OnSent(t0.Add(time.Duration(i)*time.Millisecond), &h, 100+i, interceptor.Attributes{cc.TwccExtensionAttributesKey: uint8(5)}); err != nil {
			t.Fatal(err)
		}
	}
	return a, t0
}

func feedTWCC(t *testing.T, a *cc.FeedbackAdapter, raw []byte) {
	t.Helper()
	pkts, err := rtcp.Unmarshal(raw)
	if err != nil {
		t.Fatalf("rtcp.Unmarshal: %v", err)
	}
	d, why := decodeTWCC(raw)
	if d == nil {
		t.Fatalf("oracle decoder: %s", why)
	}
	for i, e := range d.ranges[0].ent {
		if e.recv {
			t.Logf("   wire: number %d received at reference + %v", d.ranges[0].base+uint16(i), time.Duration(e.at-int64(d.ref)*64000)*time.Microsecond)
		} else {
			t.Logf("   wire: number %d not received", d.ranges[0].base+uint16(i))
		}
	}
	ref := time.Time{}.Add(time.Duration(d.ref) * 64 * time.Millisecond)
	acks, err := a.OnTransportCCFeedback(time.Now(), pkts[0].(*rtcp.TransportLayerCC))
	t.Logf("   OnTransportCCFeedback: err=%v, %d acknowledgements", err, len(acks))
	for i, k := range acks {
		arr := "not arrived"
		if !k.Arrival.IsZero() {
			arr = "arrived at reference + " + k.Arrival.Sub(ref).String()
		}
		t.Logf("      ack[%d]: number=%d size=%d departure-zero=%v %s", i, k.SequenceNumber, k.Size, k.Departure.IsZero(), arr)
	}
}

func TestWitnesses(t *testing.T) {
	t.Log("W1 adapter/twcc/arrival-time-differs/after-received-number-not-in-history (+ W2 placeholder-ack-names-no-sent-packet):")
	t.Log("   sent TWCC numbers 2,3 (1 is not in the history); feedback base=1 count=3, one run-length chunk 'received small delta' x3, deltas 1ms,2ms,3ms")
	t.Log("   statement: number 2 arrived at reference+3ms, number 3 at reference+6ms; exactly two acknowledgements")
	a, _ := witnessAdapter(t, []uint16{2, 3})
	feedTWCC(t, a, gen.RawTWCC(1, 0x1234, 1, 3, 1000, 0, []uint16{gen.RunChunk(1, 3)}, []byte{4, 8, 12}))

	t.Log("W3 adapter/twcc/ack-outside-declared-range/padded-final-vector-chunk:")
	t.Log("   sent 1..5; feedback base=1 count=2, one two-bit vector chunk [recv recv 0 0 0 0 0] (slots 3..7 are padding), deltas 1ms,1ms")
	t.Log("   statement: acknowledgements for 1 and 2 only; 3,4,5 are outside the declared range (they are in flight, not lost)")
	a, _ = witnessAdapter(t, []uint16{1, 2, 3, 4, 5})
	feedTWCC(t, a, gen.RawTWCC(1, 0x1234, 1, 2, 1000, 0, []uint16{gen.Vec2Chunk([7]uint16{1, 1})}, []byte{4, 4}))

	t.Log("W4a adapter/twcc/ack-outside-declared-range/run-length-beyond-status-count:")
	t.Log("   sent 1..5; feedback base=1 count=2, one run-length chunk 'not received' with run length 5")
	t.Log("   statement: acknowledgements (not arrived) for 1 and 2 only")
	a, _ = witnessAdapter(t, []uint16{1, 2, 3, 4, 5})
	feedTWCC(t, a, gen.RawTWCC(1, 0x1234, 1, 2, 1000, 0, []uint16{gen.RunChunk(0, 5)}, nil))

	t.Log("W4b adapter/twcc/well-formed-feedback-rejected/run-length-beyond-status-count:")
	t.Log("   sent 1..5; feedback base=1 count=2, one run-length chunk 'received small delta' with run length 5, deltas 1ms,1ms (one per declared status)")
	t.Log("   statement: 1 and 2 acknowledged as arrived at reference+1ms / +2ms")
	a, _ = witnessAdapter(t, []uint16{1, 2, 3, 4, 5})
	feedTWCC(t, a, gen.RawTWCC(1, 0x1234, 1, 2, 1000, 0, []uint16{gen.RunChunk(1, 5)}, []byte{4, 4}))

	t.Log("W5 rtpfb/ccfb/arrival-status-differs/received-reported-as-not-arrived/after-older-send-of-same-number-was-reported:")
	t.Log("   non-TWCC stream: send seq 100, 101, then 100 again (retransmission with the same number);")
	t.Log("   RFC 8888 feedback 'seq 101 received' -> report; feedback 'seq 100 received'; send seq 102; feedback 'seq 102 received' -> report")
	t.Log("   statement: the second send of seq 100 (counter 2) is reported as arrived (the feedback encodes 100 as received)")
	f, _ := rtpfb.NewInterceptor()
	ic, _ := f.NewInterceptor("w")
	var cur []byte
	rd := ic.BindRTCPReader(interceptor.RTCPReaderFunc(func(b []byte, a interceptor.Attributes) (int, interceptor.Attributes, error) {
		return copy(b, cur), a, nil
	}))
	wr := ic.BindLocalStream(&interceptor.StreamInfo{SSRC: 7}, interceptor.RTPWriterFunc(func(h *rtp.Header, p []byte, _ interceptor.Attributes) (int, error) {
		return len(p), nil
	}))
	send := func(seq uint16) {
		_, _ = wr.Write(&rtp.Header{Version: 2, SSRC: 7, SequenceNumber: seq}, make([]byte, 50), nil)
	}
	feed := func(seq uint16) {
		rep := rtcp.CCFeedbackReport{SenderSSRC: 1, ReportTimestamp: 0x10000, ReportBlocks: []rtcp.CCFeedbackReportBlock{{
			MediaSSRC: 7, BeginSequence: seq, MetricBlocks: []rtcp.CCFeedbackMetricBlock{{Received: true, ArrivalTimeOffset: 10}},
		}}}
		cur, _ = rep.Marshal()
		_, attr, err := rd.Read(make([]byte, 1500), nil)
		t.Logf("   feedback 'seq %d received': err=%v", seq, err)
		if r, ok := attr.Get(rtpfb.CCFBAttributesKey).(rtpfb.Report); ok {
			for _, pr := range r.PacketReports {
				t.Logf("      report: counter=%d seq=%d arrived=%v", pr.SequenceNumber, pr.RTPSequenceNumber, pr.Arrived)
			}
		} else {
			t.Logf("      no report")
		}
	}
	send(100)
	send(101)
	send(100)
	feed(101)
	feed(100)
	send(102)
	feed(102)
	_ = ic.Close()
}
