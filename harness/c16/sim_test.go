package c16

import (
	"errors"
	"sort"
	"sync"
	"time"

	"github.com/pion/interceptor"
	"github.com/pion/interceptor/pkg/gcc"
	"github.com/pion/rtp"

	"github.com/pion/interceptor/verif/vf"
)

// ---------------------------------------------------------------------------------
// recording pacer: implements gcc.Pacer, records every SetTargetBitrate value

var errNoStream = errors.New("c16: no such stream in recording pacer")

type recPacer struct {
	failClose bool
	mu      sync.Mutex
	inner   gcc.Pacer
	writers map[uint32]interceptor.RTPWriter
	rates   []int
	closes  int
}

func newRecPacer(inner gcc.Pacer) *recPacer {
	return &recPacer{inner: inner, writers: map[uint32]interceptor.RTPWriter{}}
}

func (p *recPacer) Write(h *rtp.Header, payload []byte, a interceptor.Attributes) (int, error) {
	if p.inner != nil {
		return p.inner.Write(h, payload, a)
	}
	p.mu.Lock()
	w := p.writers[h.SSRC]
	p.mu.Unlock()
	if w == nil {
		return 0, errNoStream
	}
	return w.Write(h, payload, a)
}

func (p *recPacer) AddStream(ssrc uint32, w interceptor.RTPWriter) {
	if p.inner != nil {
		p.inner.AddStream(ssrc, w)
		return
	}
	p.mu.Lock()
	p.writers[ssrc] = w
	p.mu.Unlock()
}

func (p *recPacer) SetTargetBitrate(r int) {
	p.mu.Lock()
	p.rates = append(p.rates, r)
	p.mu.Unlock()
	if p.inner != nil {
		p.inner.SetTargetBitrate(r)
	}
}

func (p *recPacer) Close() error {
	p.mu.Lock()
	p.closes++
	p.mu.Unlock()
	var err error
	if p.inner != nil {
		err = p.inner.Close()
	}
	if p.failClose && err == nil {
		// a user pacer (gcc.SendSideBWEPacer) whose Close reports an error: the estimator is
		// closed all the same
		err = errPacerClose
	}
	return err
}

var errPacerClose = errors.New("verif: pacer Close fails")

func (p *recPacer) snapshot() []int {
	p.mu.Lock()
	defer p.mu.Unlock()
	return append([]int(nil), p.rates...)
}

// cbRecorder collects the values delivered to OnTargetBitrateChange.
type cbRecorder struct {
	mu   sync.Mutex
	vals []int
	// reenter, when set, is called from inside the callback: the estimator's public getters
	reenter func()
}

func (r *cbRecorder) on(v int) {
	r.mu.Lock()
	r.vals = append(r.vals, v)
	re := r.reenter
	r.mu.Unlock()
	if re != nil {
		re() // applications read the estimator from their callback
	}
}

func (r *cbRecorder) snapshot() []int {
	r.mu.Lock()
	defer r.mu.Unlock()
	return append([]int(nil), r.vals...)
}

// ---------------------------------------------------------------------------------
// network simulator: one bottleneck link with a drop-tail queue, propagation delay,
// jitter, loss, reordering and duplication. It sits behind the estimator (it is the
// `writer` handed to AddStream), so it sees packets when the pacer releases them.

type arrival struct {
	at     time.Duration // since bubble start, on the receiver's clock
	stream int
	seq    uint16 // transport-wide number (twcc streams) or RTP number
	ord    int64
}

type netSim struct {
	mu       sync.Mutex
	s        *scenario
	r        *vf.Rand
	start    time.Time
	linkFree time.Duration
	pend     []arrival
	ord      int64

	wire, lostN, queueDrop, dupN, reordN int64
	lastTSeq                             uint16
	haveTSeq                             bool
	sentSeqs                             [][]uint16 // per stream: recent numbers put on the wire
}

func newNetSim(s *scenario, r *vf.Rand, start time.Time) *netSim {
	return &netSim{s: s, r: r, start: start, sentSeqs: make([][]uint16, len(s.streams))}
}

// writerFor returns the downstream writer of stream i.
func (n *netSim) writerFor(i int) interceptor.RTPWriter {
	return interceptor.RTPWriterFunc(func(h *rtp.Header, payload []byte, _ interceptor.Attributes) (int, error) {
		n.onWire(i, h, len(payload))
		return h.MarshalSize() + len(payload), nil
	})
}

func (n *netSim) onWire(i int, h *rtp.Header, plen int) {
	n.mu.Lock()
	defer n.mu.Unlock()
	st := &n.s.streams[i]
	seq := h.SequenceNumber
	if st.twcc {
		var ext rtp.TransportCCExtension
		if err := ext.Unmarshal(h.GetExtension(st.extID)); err != nil {
			return
		}
		seq = ext.TransportSequence
		n.lastTSeq, n.haveTSeq = seq, true
	}
	n.wire++
	ss := append(n.sentSeqs[i], seq)
	if len(ss) > 300 {
		ss = ss[len(ss)-300:]
	}
	n.sentSeqs[i] = ss

	now := time.Since(n.start)
	ph := n.s.phaseAt(now)
	if n.r.Chance(ph.loss) {
		n.lostN++
		return
	}
	begin := max(now, n.linkFree)
	if begin-now > ph.maxQueue {
		n.queueDrop++
		return
	}
	bits := float64(8 * (h.MarshalSize() + plen))
	n.linkFree = begin + time.Duration(bits/ph.capBps*float64(time.Second))
	at := n.linkFree + ph.prop
	if ph.jitter > 0 {
		at += time.Duration(n.r.Float() * float64(ph.jitter))
	}
	if n.r.Chance(ph.reorder) {
		at += time.Duration(n.r.Range(1, 60)) * time.Millisecond
		n.reordN++
	}
	n.ord++
	n.pend = append(n.pend, arrival{at: at, stream: i, seq: seq, ord: n.ord})
	if n.r.Chance(ph.dup) {
		n.ord++
		n.dupN++
		n.pend = append(n.pend, arrival{at: at + time.Duration(n.r.Range(0, 30_000))*time.Microsecond, stream: i, seq: seq, ord: n.ord})
	}
}

// due removes and returns, in arrival order, everything that has arrived by now.
func (n *netSim) due(now time.Duration) []arrival {
	n.mu.Lock()
	defer n.mu.Unlock()
	var out, keep []arrival
	for _, a := range n.pend {
		if a.at <= now {
			out = append(out, a)
		} else {
			keep = append(keep, a)
		}
	}
	n.pend = keep
	sort.Slice(out, func(i, j int) bool {
		if out[i].at != out[j].at {
			return out[i].at < out[j].at
		}
		return out[i].ord < out[j].ord
	})
	return out
}

func (n *netSim) recent(i int) []uint16 {
	n.mu.Lock()
	defer n.mu.Unlock()
	return append([]uint16(nil), n.sentSeqs[i]...)
}
