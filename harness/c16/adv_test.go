package c16

import (
	"github.com/pion/rtcp"

	"github.com/pion/interceptor/verif/gen"
	"github.com/pion/interceptor/verif/vf"
)

// ---------------------------------------------------------------------------------
// hand-built (adversarial) feedback. All TWCC packets built here are wire-representable:
// deltas are multiples of 250 µs inside the one-byte / two-byte ranges, chunks are
// run-length chunks whose lengths add up exactly to the status count.

var advNames = [...]string{
	"identical-arrival", "decreasing-arrival", "huge-gaps", "all-lost", "unknown-packets",
	"duplicate-feedback", "reference-time-jump", "random-mix", "empty", "inconsistent-wire", "random-rtcp",
}

const (
	symLost  = rtcp.TypeTCCPacketNotReceived
	symSmall = rtcp.TypeTCCPacketReceivedSmallDelta
	symLarge = rtcp.TypeTCCPacketReceivedLargeDelta
)

// twccOf assembles a consistent TransportLayerCC for base..base+len(syms)-1.
// deltas (one per received symbol) are in units of 250 µs.
func twccOf(sender, media uint32, base uint16, ref uint32, fb uint8, syms []uint16, deltas []int64) *rtcp.TransportLayerCC {
	t := &rtcp.TransportLayerCC{
		SenderSSRC: sender, MediaSSRC: media, BaseSequenceNumber: base, PacketStatusCount: uint16(len(syms)),
		ReferenceTime: ref & 0xffffff, FbPktCount: fb,
	}
	di := 0
	for i := 0; i < len(syms); {
		j := i
		for j < len(syms) && syms[j] == syms[i] && j-i < 8191 {
			j++
		}
		t.PacketChunks = append(t.PacketChunks, &rtcp.RunLengthChunk{
			Type: rtcp.TypeTCCRunLengthChunk, PacketStatusSymbol: syms[i], RunLength: uint16(j - i),
		})
		i = j
	}
	n := 20 + 2*len(t.PacketChunks)
	for _, s := range syms {
		switch s {
		case symSmall:
			d := deltas[di]
			di++
			d = min(max(d, 0), 255)
			t.RecvDeltas = append(t.RecvDeltas, &rtcp.RecvDelta{Type: symSmall, Delta: d * 250})
			n++
		case symLarge:
			d := deltas[di]
			di++
			d = min(max(d, -32768), 32767)
			t.RecvDeltas = append(t.RecvDeltas, &rtcp.RecvDelta{Type: symLarge, Delta: d * 250})
			n += 2
		}
	}
	t.Header = rtcp.Header{Count: rtcp.FormatTCC, Type: rtcp.TypeTransportSpecificFeedback}
	if n%4 != 0 {
		t.Header.Padding = true
		n += 4 - n%4
	}
	t.Header.Length = uint16(n/4 - 1)
	return t
}

// advState is what the adversary knows about the sender.
type advState struct {
	twccMedia  uint32
	twccRecent []uint16 // recent transport-wide numbers on the wire (ascending send order)
	ssrcs      []uint32 // rfc8888 streams
	rtpRecent  [][]uint16
	fed        [][]rtcp.Packet // recently fed feedback (for duplication)
	refNow     uint32          // a plausible current 24-bit reference time
	ntpNow     uint32          // a plausible current report timestamp
}

func contiguousTail(seqs []uint16, maxN int) (base uint16, n int) {
	if len(seqs) == 0 {
		return 0, 0
	}
	n = 1
	for n < len(seqs) && n < maxN && seqs[len(seqs)-1-n] == seqs[len(seqs)-n]-1 {
		n++
	}
	return seqs[len(seqs)-n], n
}

// advTWCC draws one adversarial TWCC feedback of the given class.
func advTWCC(r *vf.Rand, a *advState, class int) []rtcp.Packet {
	base, n := contiguousTail(a.twccRecent, r.Pick(1, 2, 7, 20, 60, 200))
	if n == 0 {
		base, n = r.U16(), r.Range(1, 30)
	}
	syms := make([]uint16, n)
	var deltas []int64
	ref := a.refNow
	switch class {
	case 0: // identical arrival times
		for i := range syms {
			syms[i] = symSmall
			deltas = append(deltas, 0)
		}
		if r.Bool() {
			deltas[0] = int64(r.Range(0, 255))
		}
	case 1: // strictly decreasing arrival times
		for i := range syms {
			syms[i] = symLarge
			deltas = append(deltas, -int64(r.Pick(1, 1, 4, 40, 2000, 32768)))
		}
		deltas[0] = int64(r.Range(0, 32767))
	case 2: // huge gaps
		for i := range syms {
			syms[i] = symLarge
			deltas = append(deltas, int64(r.Pick(32767, 32767, 20000, 4000)))
		}
	case 3: // all lost
		for i := range syms {
			syms[i] = symLost
		}
	case 4: // feedback for packets that were never sent
		base += uint16(r.Pick(1000, 5000, 20000, 32768, 40000))
		for i := range syms {
			syms[i] = symSmall
			deltas = append(deltas, int64(r.Range(0, 40)))
		}
	case 6: // reference time far in the past / future / wrapped
		ref = uint32(r.Pick(0, 1, 0xffffff, 0x800000, int(r.U32()&0xffffff)))
		for i := range syms {
			syms[i] = symSmall
			deltas = append(deltas, int64(r.Range(0, 40)))
		}
	default: // 7: random mix of everything
		for i := range syms {
			switch r.Intn(4) {
			case 0:
				syms[i] = symLost
			case 1:
				syms[i] = symLarge
				deltas = append(deltas, int64(r.Range(-32768, 32767)))
			default:
				syms[i] = symSmall
				deltas = append(deltas, int64(r.Pick(0, 0, 1, 255, r.Range(0, 255))))
			}
		}
	}
	return []rtcp.Packet{twccOf(r.U32(), a.twccMedia, base, ref, uint8(r.Intn(256)), syms, deltas)}
}

// advCCFB draws one adversarial RFC 8888 report.
func advCCFB(r *vf.Rand, a *advState, class int) []rtcp.Packet {
	rep := &rtcp.CCFeedbackReport{SenderSSRC: r.U32(), ReportTimestamp: a.ntpNow}
	nb := 1
	if class == 7 {
		nb = r.Range(1, 3)
	}
	for b := 0; b < nb; b++ {
		var ssrc uint32
		var begin uint16
		n := 0
		if len(a.ssrcs) > 0 {
			k := r.Intn(len(a.ssrcs))
			ssrc = a.ssrcs[k]
			begin, n = contiguousTail(a.rtpRecent[k], r.Pick(1, 2, 7, 20, 60, 200))
		}
		if n == 0 {
			ssrc, begin, n = r.U32(), r.U16(), r.Range(1, 30)
		}
		blk := rtcp.CCFeedbackReportBlock{MediaSSRC: ssrc, BeginSequence: begin}
		same := uint16(r.Pick(0, 1, 100, 0x1ffd, 0x1ffe, 0x1fff))
		for i := 0; i < n; i++ {
			mb := rtcp.CCFeedbackMetricBlock{Received: true, ECN: rtcp.ECN(r.Intn(4))}
			switch class {
			case 0: // identical arrival times
				mb.ArrivalTimeOffset = same
			case 1: // arrival strictly decreasing with the sequence number (offset grows)
				mb.ArrivalTimeOffset = uint16(min(i*r.Pick(1, 1, 3, 40)+1, 0x1ffd))
			case 2: // huge gaps
				if i%2 == 0 {
					mb.ArrivalTimeOffset = 0x1ffd
				}
			case 3: // all lost
				mb = rtcp.CCFeedbackMetricBlock{}
			case 4: // unknown packets
				mb.ArrivalTimeOffset = uint16(r.Intn(200))
			default:
				mb.Received = r.Chance(0.75)
				if mb.Received {
					mb.ArrivalTimeOffset = uint16(r.Pick(0, 1, 100, 0x1ffd, 0x1ffe, 0x1fff, r.Intn(0x2000)))
				} else {
					mb.ECN = 0
				}
			}
			blk.MetricBlocks = append(blk.MetricBlocks, mb)
		}
		if class == 4 {
			if r.Bool() {
				blk.MediaSSRC ^= 0x5a5a5a5a
			} else {
				blk.BeginSequence += uint16(r.Pick(1000, 5000, 32768))
			}
		}
		rep.ReportBlocks = append(rep.ReportBlocks, blk)
	}
	if class == 6 {
		rep.ReportTimestamp = uint32(r.Pick(0, 1, 0xffffffff, 0x80000000, int(r.U32())))
	}
	return []rtcp.Packet{rep}
}

// adversarial draws one hand-built feedback; returns the packets and the class index.
func adversarial(r *vf.Rand, a *advState, preferTWCC bool) ([]rtcp.Packet, int) {
	class := r.Pick(0, 0, 1, 1, 2, 3, 3, 4, 5, 6, 7, 7, 8, 9, 10)
	useTWCC := preferTWCC
	if r.Chance(0.15) {
		useTWCC = !useTWCC
	}
	switch class {
	case 5:
		if len(a.fed) == 0 {
			return adversarial2(r, a, useTWCC, 7), 7
		}
		return a.fed[r.Intn(len(a.fed))], 5
	case 8:
		switch r.Intn(4) {
		case 0:
			return nil, 8
		case 1:
			return []rtcp.Packet{}, 8
		case 2:
			return []rtcp.Packet{twccOf(r.U32(), a.twccMedia, r.U16(), a.refNow, 0, nil, nil)}, 8
		default:
			return []rtcp.Packet{&rtcp.CCFeedbackReport{SenderSSRC: r.U32(), ReportTimestamp: a.ntpNow}}, 8
		}
	case 9:
		raw := gen.InconsistentTWCC(r, a.twccMedia, func() uint16 {
			b, _ := contiguousTail(a.twccRecent, 10)
			return b
		}())
		pkts, err := rtcp.Unmarshal(raw)
		if err != nil || len(pkts) == 0 {
			return adversarial2(r, a, useTWCC, 7), 7
		}
		return pkts, 9
	case 10:
		return []rtcp.Packet{gen.RandomRTCP(r, append([]uint32{a.twccMedia}, a.ssrcs...))}, 10
	}
	return adversarial2(r, a, useTWCC, class), class
}

func adversarial2(r *vf.Rand, a *advState, useTWCC bool, class int) []rtcp.Packet {
	if useTWCC {
		return advTWCC(r, a, class)
	}
	return advCCFB(r, a, class)
}
