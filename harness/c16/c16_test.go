// Package c16 checks property C16: the GCC send-side bandwidth estimator's target
// bitrate stays positive, within the configured bounds and consistent between getter,
// change callback and pacer; feeding feedback neither blocks nor panics; after Close
// WriteRTCP fails with ErrSendSideBWEClosed.
//
// Every case runs the real estimator inside a synctest bubble (its time.Now is the
// bubble's virtual clock) behind a small network simulator; see check.json for the rule.
package c16

import (
	"errors"
	"fmt"
	"math"
	"runtime"
	"sort"
	"strings"
	"testing"
	"testing/synctest"
	"time"

	"github.com/pion/interceptor"
	"github.com/pion/interceptor/internal/ntp"
	"github.com/pion/interceptor/pkg/cc"
	"github.com/pion/interceptor/pkg/gcc"
	"github.com/pion/interceptor/pkg/rfc8888"
	"github.com/pion/interceptor/pkg/twcc"
	"github.com/pion/rtcp"
	"github.com/pion/rtp"

	"github.com/pion/interceptor/verif/vf"
)

const twccURI = "http://www.ietf.org/id/draft-holmer-rmcat-transport-wide-cc-extensions-01"

func TestCheck(t *testing.T) { vf.Main(t, vf.Spec{Prop: "C16", Cases: cases, Run: run}) }

func cases(tier string) int {
	if tier == "thorough" {
		return 12000
	}
	return 400
}

type driver struct {
	c     *vf.Case
	s     *scenario
	start time.Time

	bwe     *gcc.SendSideBWE
	ic      interceptor.Interceptor
	reader  interceptor.RTCPReader
	writers []interceptor.RTPWriter
	sim     *netSim
	pacer   *recPacer
	cb      *cbRecorder
	twRec   *twcc.Recorder
	r8Rec   *rfc8888.Recorder
	tseq    uint16
	zero    []byte
	hasTW   bool
	has88   bool
	drv     *vf.Rand
	adv     *vf.Rand

	// oracle state
	pacerSeen, cbSeen int
	lastPublished     int // last rate handed to the pacer, or the initial rate
	prevG             int
	initialG          int
	fired             map[string]bool
	published         []int
	stuck             bool
	harnessErr        string
	silentUntil       time.Duration
	held              []heldFB
	slot              int
	fedRecent         [][]rtcp.Packet
	lastReal          []rtcp.Packet

	// counters
	nSent, nSendErr, nFeeds, nFeedErr, nAcksTW, nAcks88 int64
	nGetter, nBoundChecks, nWindows, nPostClose         int64
	nZeroWithMinZero                                    int64
	feedKinds                                           map[string]int64
	errKinds                                            map[string]int64
}

// rawKey carries the bytes of one RTCP read through the cc interceptor's reader chain.
type rawKey struct{}

type heldFB struct {
	release int
	pkts    []rtcp.Packet
	kind    string
}

func (d *driver) violation(sig, format string, args ...any) {
	if d.fired[sig] {
		return
	}
	d.fired[sig] = true
	hdr := fmt.Sprintf("config: class=%s initial=%d min=%d max=%d defaults=%v pacer=%s viaCC=%v t=%v\n",
		d.s.cfg.class, d.s.cfg.initial, d.s.cfg.min, d.s.cfg.max, d.s.cfg.defaults, pacerNames[d.s.pacer], d.s.viaCC, time.Since(d.start))
	d.c.Violation(sig, hdr+format, args...)
}

func tail(v []int, n int) []int {
	if len(v) > n {
		return v[len(v)-n:]
	}
	return v
}

// ---------------------------------------------------------------------------------
// oracle

// clause names which part of "positive, within [min,max]" a value breaks ("" = none).
func (d *driver) clause(v int) string {
	cfg := &d.s.cfg
	if v <= 0 {
		if v == 0 && !cfg.defaults && cfg.min == 0 {
			d.nZeroWithMinZero++
			return "" // min=0 configured: 0 is inside the configured bounds; not judged
		}
		return "non-positive"
	}
	if cfg.defaults {
		return ""
	}
	if v < cfg.min {
		return "below-min"
	}
	if v > cfg.max {
		return "above-max"
	}
	return ""
}

func (d *driver) cfgClass(clause string) string {
	cfg := &d.s.cfg
	switch clause {
	case "below-min":
		if cfg.min > lossFloor {
			return "configured-min-above-100kbit"
		}
		return "configured-min-at-most-100kbit"
	case "above-max":
		if cfg.max < lossFloor {
			return "configured-max-below-100kbit"
		}
		if cfg.max > lossCeil {
			return "configured-max-above-100mbit"
		}
		return "configured-max-in-100kbit-100mbit"
	default:
		if cfg.defaults {
			return "default-configuration"
		}
		return "configured-min-positive"
	}
}

// checkObserved judges a value seen at the callback or at the pacer.
func (d *driver) checkObserved(v int, point string, ctx []int) {
	d.nBoundChecks++
	cl := d.clause(v)
	if cl == "" {
		return
	}
	d.violation("bounds/"+cl+"/"+point+"/"+d.cfgClass(cl),
		"value %d observed at the %s breaks clause %q; recent values at that point: %v", v, point, cl, tail(ctx, 12))
}

// poll reads the getter and judges the value; on a violation GetStats names the controller.
func (d *driver) poll() int {
	g := d.bwe.GetTargetBitrate()
	d.nGetter++
	d.nBoundChecks++
	if len(d.published) == 0 || d.published[len(d.published)-1] != g {
		d.published = append(d.published, g)
	}
	cl := d.clause(g)
	if cl == "" {
		return g
	}
	st := d.bwe.GetStats()
	lossT, _ := st["lossTargetBitrate"].(int)
	delayT, _ := st["delayTargetBitrate"].(int)
	lb, db := d.clause(lossT) == cl, d.clause(delayT) == cl
	culprit := "neither-controller"
	switch {
	case lb && db:
		culprit = "both-controllers"
	case lb:
		culprit = "loss-controller"
	case db:
		culprit = "delay-controller"
	}
	d.violation("bounds/"+cl+"/getter/"+culprit,
		"GetTargetBitrate()=%d breaks clause %q; GetStats: lossTargetBitrate=%d delayTargetBitrate=%d averageLoss=%v state=%v usage=%v; recent getter values: %v",
		g, cl, lossT, delayT, st["averageLoss"], st["state"], st["usage"], tail(d.published, 12))
	return g
}

func multisetDiff(a, b []int) (onlyA, onlyB []int) {
	m := map[int]int{}
	for _, v := range a {
		m[v]++
	}
	for _, v := range b {
		m[v]--
	}
	for v, n := range m {
		for ; n > 0; n-- {
			onlyA = append(onlyA, v)
		}
		for ; n < 0; n++ {
			onlyB = append(onlyB, v)
		}
	}
	sort.Ints(onlyA)
	sort.Ints(onlyB)
	return
}

// window is evaluated at a quiescent point (after synctest.Wait): it judges everything
// published since the previous quiescent point.
func (d *driver) window() {
	d.nWindows++
	var newP, newC []int
	if d.pacer != nil {
		all := d.pacer.snapshot()
		newP = all[d.pacerSeen:]
		for _, v := range newP {
			d.checkObserved(v, "pacer", all)
		}
		d.pacerSeen = len(all)
	}
	if !d.s.noCB {
		all := d.cb.snapshot()
		newC = all[d.cbSeen:]
		for _, v := range newC {
			d.checkObserved(v, "callback", all)
		}
		d.cbSeen = len(all)
	}
	g := d.poll()
	if d.pacer != nil {
		if len(newP) > 0 {
			d.lastPublished = newP[len(newP)-1]
		}
		if g != d.lastPublished {
			d.violation("consistency/getter-vs-pacer/getter-differs-from-last-pacer-rate",
				"after quiescence GetTargetBitrate()=%d but the last rate handed to the pacer (initial rate if none) is %d; pacer rates since the previous quiescent point: %v",
				g, d.lastPublished, tail(newP, 12))
		}
		if !d.s.noCB {
			if onlyP, onlyC := multisetDiff(newP, newC); len(onlyP)+len(onlyC) > 0 {
				d.violation("consistency/callback-vs-pacer/multiset-differs",
					"between two quiescent points the pacer was told %v but the change callback received %v (only at pacer: %v, only at callback: %v)",
					tail(newP, 12), tail(newC, 12), tail(onlyP, 12), tail(onlyC, 12))
			}
		}
	} else if !d.s.noCB {
		if len(newC) == 0 {
			if g != d.prevG {
				d.violation("consistency/getter-vs-callback/getter-changed-without-callback",
					"GetTargetBitrate() went from %d to %d between two quiescent points but no change callback was delivered", d.prevG, g)
			}
		} else {
			found := false
			for _, v := range newC {
				found = found || v == g
			}
			if !found {
				d.violation("consistency/getter-vs-callback/getter-not-among-callback-values",
					"after quiescence GetTargetBitrate()=%d is none of the values delivered to the change callback since the previous quiescent point: %v", g, tail(newC, 12))
			}
		}
	}
	d.prevG = g
}

// ---------------------------------------------------------------------------------
// feeding

type callRes struct {
	done  bool
	err   error
	pan   any
	stack string
}

func (d *driver) marshalForCC(pkts []rtcp.Packet) []byte {
	if d.ic == nil || len(pkts) == 0 {
		return nil
	}
	for _, p := range pkts {
		if p == nil {
			return nil
		}
	}
	var raw []byte
	func() {
		defer func() {
			if recover() != nil {
				raw = nil
			}
		}()
		b, err := rtcp.Marshal(pkts)
		if err == nil {
			if _, err2 := rtcp.Unmarshal(b); err2 == nil {
				raw = b
			}
		}
	}()
	return raw
}

// startFeed launches one WriteRTCP (or one read through the cc interceptor) on its own goroutine.
func (d *driver) startFeed(pkts []rtcp.Packet, kind string) *callRes {
	res := &callRes{}
	d.nFeeds++
	d.feedKinds[kind]++
	raw := d.marshalForCC(pkts)
	if raw != nil {
		d.feedKinds["via-cc-interceptor-reader"]++
	}
	go func() {
		defer func() {
			if p := recover(); p != nil {
				res.pan = p
				buf := make([]byte, 8192)
				res.stack = string(buf[:runtime.Stack(buf, false)])
				res.done = true
			}
		}()
		if raw != nil {
			_, _, res.err = d.reader.Read(make([]byte, len(raw)+16), interceptor.Attributes{rawKey{}: raw})
		} else {
			res.err = d.bwe.WriteRTCP(pkts, nil)
		}
		res.done = true
	}()
	return res
}

// settle waits for the calls; returns false if the case must stop (blocked call).
func (d *driver) settle(what string, rs ...*callRes) bool {
	synctest.Wait()
	alldone := true
	for _, r := range rs {
		alldone = alldone && r.done
	}
	if !alldone {
		time.Sleep(time.Hour)
		synctest.Wait()
	}
	for _, r := range rs {
		if !r.done {
			buf := make([]byte, 1<<20)
			dump := vf.BubbleGoroutines(string(buf[:runtime.Stack(buf, true)]))
			if len(dump) > 4000 {
				dump = dump[:4000]
			}
			d.stuck = true
			if what == "close" {
				d.c.Inconclusive("Close() still blocked after quiescence + 1 virtual hour:\n%s", dump)
			} else {
				d.violation("liveness/"+what+"/blocked-after-quiescence-plus-1h",
					"the call has not returned after all goroutines quiesced and one virtual hour passed; bubble goroutines:\n%s", dump)
			}
			return false
		}
		if r.pan != nil {
			d.violation("panic/"+what, "panic: %v\n%s", r.pan, r.stack)
		}
	}
	return true
}

func errKind(err error) string {
	switch {
	case err == nil:
		return "nil"
	case errors.Is(err, gcc.ErrSendSideBWEClosed):
		return "closed"
	default:
		s := err.Error()
		if len(s) > 40 {
			s = s[:40]
		}
		return s
	}
}

// feed hands one batch to the estimator and evaluates the window behind it.
func (d *driver) feed(pkts []rtcp.Packet, kind string) bool {
	r := d.startFeed(pkts, kind)
	if !d.settle("write-rtcp", r) {
		return false
	}
	if r.err != nil {
		d.nFeedErr++
		d.errKinds[errKind(r.err)]++
	}
	d.remember(pkts)
	d.window()
	return true
}

func (d *driver) remember(pkts []rtcp.Packet) {
	if len(pkts) == 0 {
		return
	}
	d.fedRecent = append(d.fedRecent, pkts)
	if len(d.fedRecent) > 8 {
		d.fedRecent = d.fedRecent[1:]
	}
}

// ---------------------------------------------------------------------------------
// sending

func (d *driver) sendFrame() {
	el := time.Since(d.start)
	if el < d.silentUntil {
		return
	}
	s := d.s
	var rate float64
	switch s.sendPolicy {
	case 1:
		rate = float64(s.fixedRate)
	default:
		rate = float64(d.poll()) * s.sendFactor
		if s.sendPolicy == 2 && d.drv.Chance(0.01) {
			d.silentUntil = el + time.Duration(d.drv.Range(300, 3000))*time.Millisecond
		}
	}
	if !(rate > 0) {
		rate = 1
	}
	bytes := int(math.Min(rate*s.frameInterval.Seconds()/8, 1e7))
	n := min(max((bytes+1199)/1200, 1), s.maxPerFrame)
	per := min(max(bytes/n, 1), 1400)
	for i := 0; i < n; i++ {
		k := d.drv.Intn(len(s.streams))
		st := &s.streams[k]
		h := rtp.Header{Version: 2, PayloadType: st.pt, SequenceNumber: st.seq, Timestamp: uint32(el / time.Microsecond * 90 / 1000), SSRC: st.ssrc}
		st.seq++
		if st.twcc {
			b, _ := (&rtp.TransportCCExtension{TransportSequence: d.tseq}).Marshal()
			d.tseq++
			_ = h.SetExtension(st.extID, b)
		}
		if _, err := d.writers[k].Write(&h, d.zero[:per], nil); err != nil {
			d.nSendErr++
		}
		d.nSent++
	}
}

func (d *driver) safeSendFrame() {
	defer func() {
		if p := recover(); p != nil && d.harnessErr == "" {
			buf := make([]byte, 4096)
			d.harnessErr = fmt.Sprintf("panic while sending RTP (outside the statement's feedback clause): %v\n%s", p, buf[:runtime.Stack(buf, false)])
		}
	}()
	d.sendFrame()
}

// ---------------------------------------------------------------------------------
// one feedback slot

func (d *driver) advState() *advState {
	a := &advState{fed: d.fedRecent}
	now := time.Since(d.start)
	a.refNow = uint32((d.s.twccBase+int64(now/time.Microsecond))/64_000) & 0xffffff
	a.ntpNow = ntp.ToNTP32(time.Now())
	var tw []uint16
	for i, st := range d.s.streams {
		if st.twcc {
			a.twccMedia = st.ssrc
			tw = append(tw, d.sim.recent(i)...)
		} else {
			a.ssrcs = append(a.ssrcs, st.ssrc)
			a.rtpRecent = append(a.rtpRecent, d.sim.recent(i))
		}
	}
	// transport-wide numbers of several streams interleave: order them by distance to the newest
	if len(tw) > 0 {
		d.sim.mu.Lock()
		last := d.sim.lastTSeq
		d.sim.mu.Unlock()
		sort.Slice(tw, func(i, j int) bool { return int16(tw[i]-last) < int16(tw[j]-last) })
		a.twccRecent = tw
	}
	return a
}

type batch struct {
	pkts []rtcp.Packet
	kind string
}

func (d *driver) feedbackSlot() bool {
	s := d.s
	d.slot++
	now := time.Since(d.start)
	for _, a := range d.sim.due(now) {
		st := &s.streams[a.stream]
		if st.twcc {
			d.twRec.Record(st.ssrc, a.seq, s.twccBase+int64(a.at/time.Microsecond))
			d.nAcksTW++
		} else {
			d.r8Rec.AddPacket(d.start.Add(a.at), st.ssrc, a.seq, uint8(a.seq&3))
			d.nAcks88++
		}
	}
	var bs []batch
	var real []batch
	if d.hasTW {
		if pk := d.twRec.BuildFeedbackPacket(); len(pk) > 0 {
			real = append(real, batch{pk, "twcc-recorder"})
		}
	}
	if d.has88 {
		rep := d.r8Rec.BuildReport(time.Now(), d.drv.Pick(1200, 1200, 600, 200, 4000))
		real = append(real, batch{[]rtcp.Packet{rep}, "rfc8888-recorder"})
	}
	if s.advOnly {
		real = nil
	}
	for _, b := range real {
		d.lastReal = b.pkts
		switch {
		case d.drv.Chance(s.fbLoss):
			d.feedKinds["dropped-"+b.kind]++
		case d.drv.Chance(s.fbDelay):
			d.held = append(d.held, heldFB{d.slot + d.drv.Range(1, 3), b.pkts, "delayed-" + b.kind})
		default:
			bs = append(bs, b)
			if d.drv.Chance(s.fbDup) {
				bs = append(bs, batch{b.pkts, "duplicated-" + b.kind})
			}
		}
	}
	keep := d.held[:0]
	for _, h := range d.held {
		if h.release <= d.slot {
			bs = append(bs, batch{h.pkts, h.kind})
		} else {
			keep = append(keep, h)
		}
	}
	d.held = keep
	if d.adv.Chance(s.advProb) {
		a := d.advState()
		for k := d.adv.Pick(1, 1, 2, 3); k > 0; k-- {
			pk, class := adversarial(d.adv, a, d.hasTW && (!d.has88 || d.adv.Bool()))
			pos := d.adv.Intn(len(bs) + 1)
			bs = append(bs, batch{})
			copy(bs[pos+1:], bs[pos:])
			bs[pos] = batch{pk, "handbuilt-" + advNames[class]}
		}
	}
	if s.concur && len(bs) >= 2 {
		// two feedback calls and a frame of sends race with each other
		r1 := d.startFeed(bs[0].pkts, bs[0].kind)
		r2 := d.startFeed(bs[1].pkts, bs[1].kind)
		d.safeSendFrame()
		if !d.settle("write-rtcp", r1, r2) {
			return false
		}
		for _, r := range []*callRes{r1, r2} {
			if r.err != nil {
				d.nFeedErr++
				d.errKinds[errKind(r.err)]++
			}
		}
		d.remember(bs[0].pkts)
		d.remember(bs[1].pkts)
		d.window()
		bs = bs[2:]
	}
	for _, b := range bs {
		if !d.feed(b.pkts, b.kind) {
			return false
		}
	}
	synctest.Wait()
	d.window()
	if d.c.Debug && d.slot%20 == 0 {
		st := d.bwe.GetStats()
		d.c.Logf("t=%v slot=%d target=%d loss=%v/%.3f delay=%v state=%v usage=%v est=%v thr=%v sent=%d wire=%d qdrop=%d lost=%d", time.Since(d.start), d.slot,
			d.prevG, st["lossTargetBitrate"], st["averageLoss"], st["delayTargetBitrate"], st["state"], st["usage"], st["delayEstimate"], st["delayThreshold"],
			d.nSent, d.sim.wire, d.sim.queueDrop, d.sim.lostN)
	}
	return true
}

// ---------------------------------------------------------------------------------
// the scenario inside the bubble

func (d *driver) setup() {
	s := d.s
	d.start = time.Now()
	var opts []gcc.Option
	if !s.cfg.defaults {
		opts = append(opts, gcc.SendSideBWEInitialBitrate(s.cfg.initial), gcc.SendSideBWEMinBitrate(s.cfg.min), gcc.SendSideBWEMaxBitrate(s.cfg.max))
	}
	pinit := s.cfg.initial
	if s.cfg.defaults {
		pinit = 10_000
	}
	switch s.pacer {
	case pacerRecOwn:
		d.pacer = newRecPacer(nil)
	case pacerRecNoOp:
		d.pacer = newRecPacer(gcc.NewNoOpPacer())
	case pacerRecLeaky:
		d.pacer = newRecPacer(gcc.NewLeakyBucketPacer(pinit))
	case pacerNoOp:
		opts = append(opts, gcc.SendSideBWEPacer(gcc.NewNoOpPacer()))
	}
	if d.pacer != nil {
		if d.c.R.Chance(0.3) {
			d.pacer.failClose = true
			d.c.Add("cases_whose_pacer_close_returns_an_error", 1)
		}
		opts = append(opts, gcc.SendSideBWEPacer(d.pacer))
	}
	d.sim = newNetSim(s, d.c.R.Fork(), d.start)
	d.drv, d.adv = d.c.R.Fork(), d.c.R.Fork()

	infos := make([]*interceptor.StreamInfo, len(s.streams))
	for i, st := range s.streams {
		infos[i] = &interceptor.StreamInfo{SSRC: st.ssrc, PayloadType: st.pt, ClockRate: 90000}
		if st.twcc {
			infos[i].RTPHeaderExtensions = []interceptor.RTPHeaderExtension{{URI: twccURI, ID: int(st.extID)}}
			d.hasTW = true
		} else {
			d.has88 = true
		}
	}
	if s.viaCC {
		var made *gcc.SendSideBWE
		f, err := cc.NewInterceptor(func() (cc.BandwidthEstimator, error) {
			b, err := gcc.NewSendSideBWE(opts...)
			made = b
			return b, err
		})
		if err != nil {
			d.harnessErr = "cc.NewInterceptor: " + err.Error()
			return
		}
		var got cc.BandwidthEstimator
		f.OnNewPeerConnection(func(_ string, e cc.BandwidthEstimator) { got = e })
		ic, err := f.NewInterceptor("c16")
		if err != nil {
			d.harnessErr = "NewInterceptor: " + err.Error()
			return
		}
		if b, ok := got.(*gcc.SendSideBWE); !ok || b != made {
			d.harnessErr = "OnNewPeerConnection did not deliver the estimator"
			return
		}
		d.bwe, d.ic = made, ic
		d.reader = ic.BindRTCPReader(interceptor.RTCPReaderFunc(func(b []byte, a interceptor.Attributes) (int, interceptor.Attributes, error) {
			raw, _ := a.Get(rawKey{}).([]byte)
			return copy(b, raw), a, nil
		}))
	} else {
		b, err := gcc.NewSendSideBWE(opts...)
		if err != nil {
			d.harnessErr = "NewSendSideBWE: " + err.Error()
			return
		}
		d.bwe = b
	}
	if !s.noCB {
		if d.c.R.Bool() {
			bwe := d.bwe
			d.cb.mu.Lock()
			d.cb.reenter = func() { _ = bwe.GetTargetBitrate(); _ = bwe.GetStats() }
			d.cb.mu.Unlock()
			d.c.Add("cases_whose_callback_calls_the_getters", 1)
		}
		d.bwe.OnTargetBitrateChange(d.cb.on)
	}
	for i := range s.streams {
		var w interceptor.RTPWriter
		if d.ic != nil {
			w = d.ic.BindLocalStream(infos[i], d.sim.writerFor(i))
		} else {
			w = d.bwe.AddStream(infos[i], d.sim.writerFor(i))
		}
		d.writers = append(d.writers, w)
	}
	d.twRec = twcc.NewRecorder(d.c.R.U32())
	d.r8Rec = rfc8888.NewRecorder()
	d.tseq = s.startTSeq

	synctest.Wait()
	d.initialG = d.bwe.GetTargetBitrate()
	d.prevG, d.lastPublished = d.initialG, d.initialG
	if !s.cfg.defaults && d.initialG != s.cfg.initial {
		d.violation("consistency/getter/initial-rate-not-returned",
			"GetTargetBitrate() before any feedback = %d, configured initial rate = %d", d.initialG, s.cfg.initial)
	}
	d.window()
}

func (d *driver) sleepTo(at time.Duration) {
	if dt := at - time.Since(d.start); dt > 0 {
		time.Sleep(dt)
	}
}

func (d *driver) drive() {
	g0 := runtime.NumGoroutine()
	d.setup()
	if d.harnessErr != "" {
		return
	}
	s := d.s
	nextFrame := 500 * time.Microsecond
	nextFb := s.fbInterval + 250*time.Microsecond
	for fb := 0; fb < s.nFeedback && !d.stuck && d.harnessErr == ""; {
		if nextFrame < nextFb {
			d.sleepTo(nextFrame)
			d.safeSendFrame()
			nextFrame += s.frameInterval
		} else {
			d.sleepTo(nextFb)
			if !d.feedbackSlot() {
				return
			}
			fb++
			nextFb += s.fbInterval
		}
	}
	if d.stuck || d.harnessErr != "" {
		return
	}
	// drain what is still in flight
	time.Sleep(1500*time.Millisecond + 250*time.Microsecond)
	saved := s.advProb
	s.advProb = 0
	ok := d.feedbackSlot()
	s.advProb = saved
	if !ok {
		return
	}
	d.closeAndAfter()
	if d.stuck {
		return
	}
	for i := 0; i < 1000000 && runtime.NumGoroutine() > g0; i++ {
		runtime.Gosched()
	}
}

func (d *driver) closeAndAfter() {
	cr := &callRes{}
	go func() {
		defer func() {
			if p := recover(); p != nil {
				cr.pan, cr.done = p, true
			}
		}()
		if d.ic != nil {
			cr.err = d.ic.Close()
		} else {
			cr.err = d.bwe.Close()
		}
		cr.done = true
	}()
	synctest.Wait()
	if !cr.done {
		time.Sleep(time.Hour)
		synctest.Wait()
	}
	if !cr.done {
		d.settle("close", cr)
		return
	}
	if cr.pan != nil {
		d.harnessErr = fmt.Sprintf("Close panicked: %v", cr.pan)
		return
	}
	d.window()

	sample := d.lastReal
	if len(sample) == 0 {
		sample = advTWCC(d.adv, d.advState(), 0)
	}
	variants := []batch{{sample, "feedback"}, {nil, "nil-slice"}, {[]rtcp.Packet{&rtcp.PictureLossIndication{MediaSSRC: 1}}, "non-feedback"}}
	for _, v := range variants {
		r := &callRes{}
		go func() {
			defer func() {
				if p := recover(); p != nil {
					r.pan, r.done = p, true
				}
			}()
			r.err = d.bwe.WriteRTCP(v.pkts, nil)
			r.done = true
		}()
		if !d.settle("write-rtcp-after-close", r) {
			return
		}
		d.nPostClose++
		if r.err == nil {
			d.violation("close/write-rtcp-after-close/no-error", "WriteRTCP(%s) after Close returned nil", v.kind)
		} else if !errors.Is(r.err, gcc.ErrSendSideBWEClosed) {
			d.violation("close/write-rtcp-after-close/wrong-error", "WriteRTCP(%s) after Close returned %q, not ErrSendSideBWEClosed", v.kind, r.err)
		}
	}
	if raw := d.marshalForCC(sample); raw != nil {
		r := &callRes{}
		go func() {
			defer func() {
				if p := recover(); p != nil {
					r.pan, r.done = p, true
				}
			}()
			_, _, r.err = d.reader.Read(make([]byte, len(raw)+16), interceptor.Attributes{rawKey{}: raw})
			r.done = true
		}()
		if !d.settle("cc-read-after-close", r) {
			return
		}
		d.nPostClose++
		if r.err == nil {
			d.violation("close/cc-interceptor-read-after-close/no-error", "reading feedback through the cc interceptor after Close returned nil")
		} else if !errors.Is(r.err, gcc.ErrSendSideBWEClosed) {
			d.violation("close/cc-interceptor-read-after-close/wrong-error", "reading feedback through the cc interceptor after Close returned %q", r.err)
		}
	}
	synctest.Wait()
	d.window()
}

// ---------------------------------------------------------------------------------

func run(c *vf.Case) {
	s := buildScenario(c.R, c.Tier)
	d := &driver{
		c: c, s: s, cb: &cbRecorder{}, fired: map[string]bool{}, zero: make([]byte, 1400),
		feedKinds: map[string]int64{}, errKinds: map[string]int64{},
	}
	c.Bubble(d.drive, func(dump string) {
		if !d.stuck {
			if len(dump) > 3000 {
				dump = dump[:3000]
			}
			c.Inconclusive("goroutines left in bubble:\n%s", dump)
		}
	})
	if d.harnessErr != "" {
		c.Inconclusive("harness: %s", d.harnessErr)
		return
	}

	c.Add("cases_cfg_"+s.cfg.class, 1)
	c.Add("cases_pacer_"+pacerNames[s.pacer], 1)
	if s.viaCC {
		c.Add("cases_via_cc_interceptor", 1)
	} else {
		c.Add("cases_direct_estimator", 1)
	}
	if s.concur {
		c.Add("cases_with_concurrent_feedback_and_sends", 1)
	}
	c.Add("rtp_packets_sent", d.nSent)
	c.Add("rtp_write_errors", d.nSendErr)
	c.Add("packets_on_wire", d.sim.wire)
	c.Add("sim_random_loss", d.sim.lostN)
	c.Add("sim_queue_drops", d.sim.queueDrop)
	c.Add("sim_duplicates", d.sim.dupN)
	c.Add("sim_reordered", d.sim.reordN)
	c.Add("arrivals_recorded_twcc", d.nAcksTW)
	c.Add("arrivals_recorded_rfc8888", d.nAcks88)
	c.Add("feedback_calls", d.nFeeds)
	c.Add("feedback_calls_returning_error", d.nFeedErr)
	for k, v := range d.feedKinds {
		c.Add("feedback_"+k, v)
	}
	for k, v := range d.errKinds {
		c.Add("write_rtcp_error_"+strings.ReplaceAll(k, " ", "_"), v)
	}
	c.Add("getter_polls", d.nGetter)
	c.Add("values_bound_checked", d.nBoundChecks)
	c.Add("quiescent_windows_checked", d.nWindows)
	c.Add("write_rtcp_after_close_checked", d.nPostClose)
	c.Add("callback_values", int64(d.cbSeen))
	if d.pacer != nil {
		c.Add("pacer_rate_updates", int64(d.pacerSeen))
	}
	c.Add("zero_rate_seen_with_configured_min_zero", d.nZeroWithMinZero)
	c.Add("virtual_seconds", int64(time.Duration(s.nFeedback)*s.fbInterval/time.Second))

	inc, dec := 0, 0
	distinct := map[int]bool{}
	h := vf.NewHash().Str(s.cfg.class).Int(s.cfg.min).Int(s.cfg.max)
	for i, v := range d.published {
		distinct[v] = true
		h.Int(v)
		if i > 0 {
			if v > d.published[i-1] {
				inc++
			} else if v < d.published[i-1] {
				dec++
			}
		}
	}
	c.Add("published_rate_increases", int64(inc))
	c.Add("published_rate_decreases", int64(dec))
	c.Max("max_distinct_rates_in_one_case", int64(len(distinct)))
	if inc >= 1 && dec >= 1 && len(distinct) >= 3 {
		c.Nontrivial(h.Sum())
	}
	if c.WantSample() {
		var ph []string
		for _, p := range s.phases {
			ph = append(ph, fmt.Sprintf("%v cap=%.0f loss=%.2f prop=%v jit=%v q=%v dup=%.2f reord=%.2f", p.dur, p.capBps, p.loss, p.prop, p.jitter, p.maxQueue, p.dup, p.reorder))
		}
		c.Sample(map[string]any{
			"case": c.Idx, "config": fmt.Sprintf("%+v", s.cfg), "pacer": pacerNames[s.pacer], "via_cc": s.viaCC,
			"streams": len(s.streams), "twcc": d.hasTW, "rfc8888": d.has88, "phases": ph,
			"feedback_interval": s.fbInterval.String(), "frame_interval": s.frameInterval.String(), "feedback_slots": s.nFeedback,
			"adversarial_probability": s.advProb, "adversarial_only": s.advOnly,
			"rates_first": d.published[:min(len(d.published), 12)], "rates_last": tail(d.published, 6),
			"rate_changes": len(d.published) - 1, "feedback_calls": d.nFeeds, "packets": d.nSent,
		})
	}
	c.Logf("case %d cfg=%+v pacer=%s cc=%v feeds=%d sent=%d published=%d inc=%d dec=%d distinct=%d kinds=%v errs=%v",
		c.Idx, s.cfg, pacerNames[s.pacer], s.viaCC, d.nFeeds, d.nSent, len(d.published), inc, dec, len(distinct), d.feedKinds, d.errKinds)
}
