package c16

import (
	"math"
	"time"

	"github.com/pion/interceptor/verif/vf"
)

// ---------------------------------------------------------------------------------
// scenario: everything a case explores, drawn from c.R before the bubble starts

const (
	lossFloor = 100_000     // the loss controller's private floor (only used to AIM configs and to name input classes)
	lossCeil  = 100_000_000 // the loss controller's private ceiling
)

const (
	pacerRecOwn   = iota // injected recording pacer that forwards immediately
	pacerRecNoOp         // injected recording pacer delegating to gcc.NoOpPacer
	pacerRecLeaky        // injected recording pacer delegating to gcc.NewLeakyBucketPacer
	pacerNoOp            // gcc.NoOpPacer injected as is (SetTargetBitrate not observable)
	pacerDefault         // no pacer option: the default leaky bucket pacer
	nPacerKinds
)

var pacerNames = [...]string{"recording", "recording+noop", "recording+leaky", "noop", "default-leaky"}

type config struct {
	class    string
	defaults bool // no bitrate options at all: bounds unknown to the oracle (only >0 is demanded)
	initial  int
	min      int
	max      int
}

type streamCfg struct {
	ssrc  uint32
	twcc  bool
	extID uint8
	pt    uint8
	seq   uint16
}

type phase struct {
	dur      time.Duration
	capBps   float64
	loss     float64
	prop     time.Duration
	jitter   time.Duration
	maxQueue time.Duration
	dup      float64
	reorder  float64
}

type scenario struct {
	cfg     config
	pacer   int
	viaCC   bool
	streams []streamCfg
	phases  []phase

	fbInterval    time.Duration
	frameInterval time.Duration
	maxPerFrame   int
	sendPolicy    int // 0 follow target, 1 fixed, 2 follow with silences
	sendFactor    float64
	fixedRate     int
	nFeedback     int

	advProb   float64
	advOnly   bool
	fbLoss    float64
	fbDup     float64
	fbDelay   float64
	concur    bool
	twccBase  int64 // µs offset of the receiver's TWCC clock
	noCB      bool
	startTSeq uint16
}

func logUniform(r *vf.Rand, lo, hi float64) float64 {
	if hi <= lo {
		return lo
	}
	return lo * math.Exp(r.Float()*math.Log(hi/lo))
}

func pickInitial(r *vf.Rand, lo, hi int) int {
	switch r.Intn(4) {
	case 0:
		return lo
	case 1:
		return hi
	default:
		v := int(logUniform(r, float64(max(lo, 1)), float64(max(hi, 1))))
		return min(max(v, lo), hi)
	}
}

func buildConfig(r *vf.Rand) config {
	var c config
	switch r.Intn(16) {
	case 0:
		c.class = "defaults"
		c.defaults = true
		return c
	case 1, 2, 3: // ordinary: min at or below the loss floor
		c.class = "min<=100kbit"
		c.min = r.Pick(1, 1000, 5000, 30_000, 64_000, lossFloor-1, lossFloor, r.Range(1, lossFloor))
		c.max = int(logUniform(r, float64(c.min), 50e6))
	case 4, 5, 6, 7: // min above the loss controller's private floor
		c.class = "min>100kbit"
		c.min = r.Pick(lossFloor+1, 150_000, 300_000, 1_000_000, 2_500_000, 5_000_000, int(logUniform(r, lossFloor+1, 20e6)))
		c.max = int(float64(c.min) * logUniform(r, 1, 50))
	case 8, 9: // max below the loss controller's private floor
		c.class = "max<100kbit"
		c.max = r.Pick(2000, 20_000, 50_000, lossFloor-1, r.Range(2, lossFloor-1))
		c.min = r.Pick(1, 1, c.max/2+1, c.max, r.Range(1, c.max))
		c.min = min(c.min, c.max)
	case 10, 11: // max above the loss controller's private ceiling
		c.class = "max>100mbit"
		c.max = r.Pick(lossCeil+1, 200_000_000, 1_000_000_000, math.MaxInt32, 1<<40, math.MaxInt64)
		if r.Chance(0.3) {
			c.class = "min>100mbit"
			c.min = r.Pick(lossCeil+1, 150_000_000, c.max)
			c.min = min(c.min, c.max)
		} else {
			c.min = r.Pick(1, 5000, lossFloor, 1_000_000, 50_000_000)
		}
	case 12, 13: // degenerate: one admissible value
		c.class = "min=initial=max"
		v := r.Pick(1, 2, 1000, 64_000, lossFloor, lossFloor+1, 1_000_000, lossCeil, lossCeil+1, int(logUniform(r, 1, 1e9)))
		c.min, c.max, c.initial = v, v, v
		return c
	case 14: // tiny floor
		c.class = "min=1"
		c.min = 1
		c.max = int(logUniform(r, 1, 10e6))
	default: // configured minimum of zero: the value 0 is then not judged (see check.json)
		c.class = "min=0"
		c.min = 0
		c.max = int(logUniform(r, 1000, 10e6))
		c.initial = pickInitial(r, 1, c.max)
		return c
	}
	c.initial = pickInitial(r, c.min, c.max)
	return c
}

func buildScenario(r *vf.Rand, tier string) *scenario {
	s := &scenario{cfg: buildConfig(r)}
	s.pacer = r.Pick(pacerRecOwn, pacerRecOwn, pacerRecOwn, pacerRecNoOp, pacerRecLeaky, pacerRecLeaky, pacerNoOp, pacerDefault)
	s.viaCC = r.Chance(0.3)
	s.noCB = r.Chance(0.06)

	ns := r.Pick(1, 1, 2, 3)
	mode := r.Intn(5) // 0,1,2 all twcc; 3 all rfc8888; 4 mixed
	used := map[uint32]bool{}
	for i := 0; i < ns; i++ {
		ssrc := r.U32()
		for used[ssrc] || ssrc == 0 {
			ssrc = r.U32()
		}
		used[ssrc] = true
		st := streamCfg{ssrc: ssrc, pt: uint8(r.Range(96, 127)), seq: r.U16()}
		switch {
		case mode <= 2:
			st.twcc = true
		case mode == 3:
			st.twcc = false
		default:
			st.twcc = r.Bool()
		}
		if st.twcc {
			st.extID = uint8(r.Range(1, 14))
		}
		s.streams = append(s.streams, st)
	}
	s.startTSeq = uint16(r.Pick(0, 1, 65000, 65530, r.Intn(65536)))

	s.frameInterval = time.Duration(r.Pick(5, 10, 20, 33, 33, 40)) * time.Millisecond
	s.fbInterval = time.Duration(r.Pick(20, 50, 50, 100, 100, 200, 333)) * time.Millisecond
	s.maxPerFrame = r.Pick(4, 8, 12)
	s.nFeedback = r.Range(150, 350)
	if tier == "thorough" && r.Chance(0.1) {
		s.nFeedback = r.Range(400, 1200)
	}
	s.sendPolicy = r.Pick(0, 0, 0, 1, 2)
	s.sendFactor = 0.6 + 0.8*r.Float()

	ref := float64(s.cfg.initial)
	if s.cfg.defaults {
		ref = 10_000
	}
	ref = math.Min(math.Max(ref, 20_000), 20e6) // keep the simulated network in a range the packet budget can load
	s.fixedRate = int(ref * logUniform(r, 0.3, 3))

	// network phases: capacity steps relative to the reference rate, loss 0..100 %
	total := time.Duration(s.nFeedback) * s.fbInterval
	np := r.Range(2, 6)
	for i := 0; i < np; i++ {
		p := phase{
			dur:      total / time.Duration(np),
			capBps:   ref * logUniform(r, 0.2, 6),
			prop:     time.Duration(r.Pick(0, 1, 10, 40, 150)) * time.Millisecond,
			jitter:   time.Duration(r.Pick(0, 0, 1, 5, 30)) * time.Millisecond,
			maxQueue: time.Duration(r.Pick(20, 100, 300, 1000)) * time.Millisecond,
		}
		switch r.Intn(8) {
		case 0:
			p.loss = 1
		case 1:
			p.loss = 0.1 + 0.6*r.Float()
		case 2:
			p.loss = 0.02 + 0.1*r.Float()
		case 3:
			p.loss = 0.005 + 0.02*r.Float()
		}
		if r.Chance(0.25) {
			p.dup = 0.3 * r.Float()
		}
		if r.Chance(0.3) {
			p.reorder = 0.3 * r.Float()
		}
		s.phases = append(s.phases, p)
	}

	s.advProb = []float64{0, 0, 0.02, 0.1, 0.3}[r.Intn(5)]
	if r.Chance(0.12) {
		s.advOnly = true
		s.advProb = 1
	}
	if r.Chance(0.3) {
		s.fbLoss = 0.3 * r.Float()
	}
	if r.Chance(0.3) {
		s.fbDup = 0.3 * r.Float()
	}
	if r.Chance(0.3) {
		s.fbDelay = 0.3 * r.Float()
	}
	s.concur = r.Chance(0.25)
	// receiver clock offset; sometimes just below the wrap of the 24-bit 64 ms reference time
	s.twccBase = int64(r.Pick(0, 1_000_000, 1_000_000_000, (1<<24)*64_000-3_000_000, (1<<24)*64_000-int(total/time.Microsecond)/2))
	if s.twccBase < 0 {
		s.twccBase = 0
	}
	return s
}

func (s *scenario) phaseAt(el time.Duration) *phase {
	for i := range s.phases {
		if el < s.phases[i].dur {
			return &s.phases[i]
		}
		el -= s.phases[i].dur
	}
	return &s.phases[len(s.phases)-1]
}
