// Package rig binds an interceptor (or a chain) to harness-owned gates and offers
// watched calls: every call into the library runs on its own goroutine inside the
// synctest bubble, so that a panic in the caller path is caught and a call that is
// still blocked after quiescence plus a virtual-time allowance is reported as blocked.
package rig

import (
	"fmt"
	"runtime/debug"
	"testing/synctest"
	"time"

	"github.com/pion/interceptor"
	"github.com/pion/rtcp"
	"github.com/pion/rtp"

	"github.com/pion/interceptor/verif/obs"
	"github.com/pion/interceptor/verif/zoo"
)

// Local is a bound local (outgoing) stream.
type Local struct {
	Opts zoo.StreamOpts
	Info *interceptor.StreamInfo
	Gate *obs.RTPGate
	W    interceptor.RTPWriter
	Seq  uint16
	TS   uint32
	Bound bool
}

// Remote is a bound remote (incoming) stream.
type Remote struct {
	Opts zoo.StreamOpts
	Info *interceptor.StreamInfo
	Feed *obs.Feed
	R    interceptor.RTPReader
	Seq  uint16
	TS   uint32
	TWCC uint16
	Bound bool
}

// Rig is one interceptor bound to gates.
type Rig struct {
	Clk     *obs.Clock
	I       interceptor.Interceptor
	RTCPOut *obs.RTCPGate
	RTCPIn  *obs.Feed
	RTCPW   interceptor.RTCPWriter
	RTCPR   interceptor.RTCPReader
	Locals  []*Local
	Remotes []*Remote
	// BlockAllowance is the virtual time a call may stay blocked after quiescence.
	BlockAllowance time.Duration
}

// New creates a rig around i (nothing bound yet).
func New(i interceptor.Interceptor) *Rig {
	clk := &obs.Clock{}
	return &Rig{Clk: clk, I: i, RTCPOut: obs.NewRTCPGate(clk), RTCPIn: obs.NewFeed(clk), BlockAllowance: time.Hour}
}

// Result of a watched call.
type Result struct {
	Blocked bool
	Panic   any
	Stack   string
}

// Call runs fn on its own goroutine and waits for it; must be called inside a bubble.
func (r *Rig) Call(fn func()) Result {
	done := make(chan struct{})
	var res Result
	go func() {
		defer close(done)
		defer func() {
			if p := recover(); p != nil {
				res.Panic = p
				res.Stack = string(debug.Stack())
			}
		}()
		fn()
	}()
	synctest.Wait()
	select {
	case <-done:
		return res
	default:
	}
	// still blocked at quiescence: give it virtual time (tickers may release it)
	for _, d := range []time.Duration{time.Second, r.BlockAllowance} {
		time.Sleep(d)
		synctest.Wait()
		select {
		case <-done:
			return res
		default:
		}
	}
	return Result{Blocked: true}
}

// BindRTCP binds the RTCP writer and reader.
func (r *Rig) BindRTCP() Result {
	return r.Call(func() {
		r.RTCPW = r.I.BindRTCPWriter(r.RTCPOut)
		r.RTCPR = r.I.BindRTCPReader(r.RTCPIn)
	})
}

// AddLocal binds a local stream.
func (r *Rig) AddLocal(o zoo.StreamOpts) (*Local, Result) {
	l := &Local{Opts: o, Info: zoo.Info(o), Gate: obs.NewRTPGate(r.Clk, o.SSRC)}
	res := r.Call(func() { l.W = r.I.BindLocalStream(l.Info, l.Gate) })
	l.Bound = !res.Blocked && res.Panic == nil
	r.Locals = append(r.Locals, l)
	return l, res
}

// AddRemote binds a remote stream.
func (r *Rig) AddRemote(o zoo.StreamOpts) (*Remote, Result) {
	m := &Remote{Opts: o, Info: zoo.Info(o), Feed: obs.NewFeed(r.Clk)}
	res := r.Call(func() { m.R = r.I.BindRemoteStream(m.Info, m.Feed) })
	m.Bound = !res.Blocked && res.Panic == nil
	r.Remotes = append(r.Remotes, m)
	return m, res
}

// WriteOut is the outcome of a watched RTP write.
type WriteOut struct {
	Result
	N   int
	Err error
}

// WriteRTP writes one packet on a local stream.
func (r *Rig) WriteRTP(l *Local, h *rtp.Header, payload []byte, a interceptor.Attributes) WriteOut {
	var out WriteOut
	out.Result = r.Call(func() { out.N, out.Err = l.W.Write(h, payload, a) })
	return out
}

// ReadOut is the outcome of a watched read.
type ReadOut struct {
	Result
	N    int
	Attr interceptor.Attributes
	Err  error
	Buf  []byte
}

// ReadRTP queues data on the stream's feed and reads it through the interceptor into a
// buffer of bufSize bytes pre-filled with fill.
func (r *Rig) ReadRTP(m *Remote, item obs.FeedItem, bufSize int, fill byte) ReadOut {
	m.Feed.Push(item)
	var out ReadOut
	out.Buf = make([]byte, bufSize)
	for i := range out.Buf {
		out.Buf[i] = fill
	}
	out.Result = r.Call(func() { out.N, out.Attr, out.Err = m.R.Read(out.Buf, interceptor.Attributes{}) })
	return out
}

// ReadRTCP queues data on the RTCP feed and reads it through the interceptor.
func (r *Rig) ReadRTCP(item obs.FeedItem, bufSize int, fill byte) ReadOut {
	r.RTCPIn.Push(item)
	var out ReadOut
	out.Buf = make([]byte, bufSize)
	for i := range out.Buf {
		out.Buf[i] = fill
	}
	out.Result = r.Call(func() { out.N, out.Attr, out.Err = r.RTCPR.Read(out.Buf, interceptor.Attributes{}) })
	return out
}

// WriteRTCP writes application RTCP through the interceptor.
func (r *Rig) WriteRTCP(pkts []rtcp.Packet) WriteOut {
	var out WriteOut
	out.Result = r.Call(func() { out.N, out.Err = r.RTCPW.Write(pkts, interceptor.Attributes{}) })
	return out
}

// Close closes the interceptor.
func (r *Rig) Close() (Result, error) {
	var err error
	res := r.Call(func() { err = r.I.Close() })
	return res, err
}

// Describe renders a result for a violation detail.
func (res Result) Describe() string {
	if res.Blocked {
		return "call still blocked after quiescence + virtual-time allowance"
	}
	if res.Panic != nil {
		return fmt.Sprintf("panic: %v\n%s", res.Panic, trimStack(res.Stack))
	}
	return "ok"
}

func trimStack(s string) string {
	if len(s) > 2500 {
		return s[:2500] + "…"
	}
	return s
}

// PanicSite returns the first library frame of a panic stack ("pkg/x.func") for signatures.
func PanicSite(stack string) string {
	const pfx = "github.com/pion/interceptor"
	lines := splitLines(stack)
	for _, ln := range lines {
		if len(ln) > len(pfx) && ln[:len(pfx)] == pfx && !hasPrefix(ln[len(pfx):], "/verif") {
			fn := ln[len(pfx):]
			for i := 0; i < len(fn); i++ {
				if fn[i] == '(' && i > 0 && fn[i-1] != '.' {
					// cut argument list (last '(' that starts args): find "(0x" or "(...)"
				}
			}
			if j := lastIndexByte(fn, '('); j > 0 {
				fn = fn[:j]
			}
			return fn
		}
	}
	return "?"
}

func splitLines(s string) []string {
	var out []string
	start := 0
	for i := 0; i < len(s); i++ {
		if s[i] == '\n' {
			out = append(out, s[start:i])
			start = i + 1
		}
	}
	return append(out, s[start:])
}

func hasPrefix(s, p string) bool { return len(s) >= len(p) && s[:len(p)] == p }

func lastIndexByte(s string, c byte) int {
	for i := len(s) - 1; i >= 0; i-- {
		if s[i] == c {
			return i
		}
	}
	return -1
}

// Pending is a watched call that may still be running.
type Pending struct {
	done chan struct{}
	res  Result
	What string
}

// Go starts fn on its own goroutine; use Finished after synctest.Wait().
func (r *Rig) Go(what string, fn func()) *Pending {
	p := &Pending{done: make(chan struct{}), What: what}
	go func() {
		defer close(p.done)
		defer func() {
			if v := recover(); v != nil {
				p.res.Panic = v
				p.res.Stack = string(debug.Stack())
			}
		}()
		fn()
	}()
	return p
}

// Finished reports whether the call has returned (or panicked).
func (p *Pending) Finished() bool {
	select {
	case <-p.done:
		return true
	default:
		return false
	}
}

// Result is valid once Finished.
func (p *Pending) Result() Result { return p.res }
