// Package vf is the small runtime-monitoring framework shared by every check:
// deterministic per-case PRNG, case sharding, violation / evidence recording.
//
// A check is a Go test binary. The parent runner (/verif/check) starts one child
// process per shard; a child executes the cases i with i%NSHARDS==SHARD of the fixed
// case list for (property, tier, seed) and appends JSON lines to $VERIF_OUT/shard-K.jsonl:
//
//	{"t":"start","case":i}                       written (unbuffered) BEFORE case i runs
//	{"t":"viol","case":i,"sig":..,"detail":..}    a violation witnessed by the oracle
//	{"t":"inc","case":i,"reason":..}              an inconclusive case
//	{"t":"chunk",...}                             aggregated counters / fingerprints / samples
//	{"t":"done"}                                  the shard finished its list
//
// A child that dies (process-fatal panic in a background goroutine, runtime fatal
// error, race report with halt_on_error) therefore always leaves the case that
// killed it as its last "start" line.
package vf

import (
	"encoding/json"
	"fmt"
	"os"
	"path/filepath"
	"runtime"
	"sort"
	"strconv"
	"strings"
	"sync"
	"sync/atomic"
	"testing"
	"testing/synctest"
	"time"
	"unsafe"
)

// Spec describes one property check.
type Spec struct {
	Prop  string
	Cases func(tier string) int
	Run   func(c *Case)
}

type violation struct {
	Sig    string `json:"sig"`
	Detail string `json:"detail"`
}

// Case is the context handed to the per-case function.
type Case struct {
	Idx   int
	Tier  string
	Seed  uint64
	R     *Rand
	T     *testing.T
	Debug bool

	sh *shard

	nviol      int
	fp         uint64
	nontrivial bool
}

type shard struct {
	mu       sync.Mutex
	f        *os.File
	prop     string
	counters map[string]int64
	maxes    map[string]int64
	fps      map[uint64]struct{}
	fpsAll   int64
	samples  []any
	cases    int64
	nontriv  int64
	lastFl   time.Time
	sigSeen  map[string]int
}

const maxFPsPerShard = 150000
const maxSamples = 3
const maxViolPerSig = 5

func envInt(name string, def int) int {
	if s := os.Getenv(name); s != "" {
		if v, err := strconv.Atoi(s); err == nil {
			return v
		}
	}
	return def
}

func envSet(name string) map[int]bool {
	out := map[int]bool{}
	for _, p := range strings.Split(os.Getenv(name), ",") {
		if p == "" {
			continue
		}
		if v, err := strconv.Atoi(p); err == nil {
			out[v] = true
		}
	}
	return out
}

// Main runs the shard of the case list selected by the environment.
func Main(t *testing.T, spec Spec) {
	tier := os.Getenv("VERIF_TIER")
	if tier == "" {
		tier = "quick"
	}
	seed := uint64(envInt("VERIF_SEED", 1))
	shardNo := envInt("VERIF_SHARD", 0)
	nshards := envInt("VERIF_NSHARDS", 1)
	from := envInt("VERIF_FROM", 0)
	only := envSet("VERIF_ONLY")
	skip := envSet("VERIF_SKIP")
	outDir := os.Getenv("VERIF_OUT")
	debug := os.Getenv("VERIF_DEBUG") != ""

	sh := &shard{
		prop: spec.Prop, counters: map[string]int64{}, maxes: map[string]int64{},
		fps: map[uint64]struct{}{}, sigSeen: map[string]int{}, lastFl: time.Now(),
	}
	if outDir != "" {
		_ = os.MkdirAll(outDir, 0o755)
		f, err := os.OpenFile(filepath.Join(outDir, fmt.Sprintf("shard-%d.jsonl", shardNo)),
			os.O_CREATE|os.O_WRONLY|os.O_APPEND, 0o644)
		if err != nil {
			t.Fatalf("open shard log: %v", err)
		}
		sh.f = f
		defer f.Close()
	}

	n := spec.Cases(tier)
	if v := envInt("VERIF_CASES", 0); v > 0 {
		n = v
	}
	for i := 0; i < n; i++ {
		if len(only) > 0 {
			if !only[i] {
				continue
			}
		} else if i%nshards != shardNo || i < from || skip[i] {
			continue
		}
		c := &Case{
			Idx: i, Tier: tier, Seed: seed, T: t, Debug: debug || len(only) > 0, sh: sh,
			R: NewRand(seed, spec.Prop, uint64(i)),
		}
		sh.line(map[string]any{"t": "start", "case": i})
		t0 := time.Now()
		spec.Run(c)
		if el := time.Since(t0); el > 5*time.Second {
			sh.line(map[string]any{"t": "slow", "case": i, "ms": el.Milliseconds()})
		}
		sh.mu.Lock()
		sh.cases++
		if c.nontrivial {
			sh.nontriv++
			if sh.fpsAll < maxFPsPerShard {
				if _, ok := sh.fps[c.fp]; !ok {
					sh.fps[c.fp] = struct{}{}
					sh.fpsAll++
				}
			}
		}
		needFlush := time.Since(sh.lastFl) > 2*time.Second
		sh.mu.Unlock()
		if needFlush {
			sh.flush()
		}
	}
	sh.flush()
	sh.line(map[string]any{"t": "done"})
}

func (sh *shard) line(m map[string]any) {
	b, err := json.Marshal(m)
	if err != nil {
		b, _ = json.Marshal(map[string]any{"t": "error", "err": err.Error()})
	}
	b = append(b, '\n')
	if sh.f != nil {
		sh.mu.Lock()
		_, _ = sh.f.Write(b)
		sh.mu.Unlock()
	} else if m["t"] != "start" && m["t"] != "chunk" {
		os.Stdout.Write(b)
	}
}

func (sh *shard) flush() {
	sh.mu.Lock()
	fps := make([]string, 0, len(sh.fps))
	for k := range sh.fps {
		fps = append(fps, strconv.FormatUint(k, 16))
	}
	sort.Strings(fps)
	m := map[string]any{
		"t": "chunk", "cases": sh.cases, "nontrivial_cases": sh.nontriv,
		"fps": fps, "counters": sh.counters, "maxes": sh.maxes, "samples": sh.samples,
	}
	sh.cases, sh.nontriv = 0, 0
	// only the delta of fingerprints is sent; the parent unions them.
	sh.fps = map[uint64]struct{}{}
	sh.counters = map[string]int64{}
	sh.samples = nil
	sh.lastFl = time.Now()
	sh.mu.Unlock()
	sh.line(m)
	if sh.f == nil {
		b, _ := json.Marshal(map[string]any{"cases": m["cases"], "nontrivial_cases": m["nontrivial_cases"],
			"distinct": len(fps), "counters": m["counters"], "maxes": m["maxes"]})
		fmt.Println(string(b))
	}
}

// Violation records a witnessed violation. sig is the stable signature used to match
// known findings (sub-oracle / component / failing clause); detail is free text
// describing the witness.
func (c *Case) Violation(sig, format string, args ...any) {
	c.nviol++
	sh := c.sh
	sh.mu.Lock()
	sh.sigSeen[sig]++
	cnt := sh.sigSeen[sig]
	sh.mu.Unlock()
	if cnt > maxViolPerSig {
		sh.mu.Lock()
		sh.counters["violations_suppressed_after_first_5_per_signature"]++
		sh.mu.Unlock()
		return
	}
	detail := fmt.Sprintf(format, args...)
	if len(detail) > 6000 {
		detail = detail[:6000] + "…"
	}
	sh.line(map[string]any{"t": "viol", "case": c.Idx, "sig": sig, "detail": detail})
	if c.Debug {
		fmt.Printf("VIOL case=%d sig=%s\n%s\n", c.Idx, sig, detail)
	}
}

// Violated reports whether this case has recorded a violation.
func (c *Case) Violated() bool { return c.nviol > 0 }

// Inconclusive records that the case could not be decided.
func (c *Case) Inconclusive(format string, args ...any) {
	c.sh.line(map[string]any{"t": "inc", "case": c.Idx, "reason": fmt.Sprintf(format, args...)})
}

// Nontrivial marks the case as non-trivial by the property's rule, with the
// fingerprint that makes it distinct.
func (c *Case) Nontrivial(fp uint64) {
	c.nontrivial = true
	c.fp = fp
}

// Add adds n to a named evidence counter.
func (c *Case) Add(name string, n int64) {
	c.sh.mu.Lock()
	c.sh.counters[name] += n
	c.sh.mu.Unlock()
}

// Max keeps the maximum of a named evidence gauge.
func (c *Case) Max(name string, n int64) {
	c.sh.mu.Lock()
	if n > c.sh.maxes[name] {
		c.sh.maxes[name] = n
	}
	c.sh.mu.Unlock()
}

// Sample offers a written-out case for the evidence file (first few are kept).
func (c *Case) Sample(v any) {
	c.sh.mu.Lock()
	if len(c.sh.samples) < maxSamples && c.Idx < 64 {
		c.sh.samples = append(c.sh.samples, v)
	}
	c.sh.mu.Unlock()
}

// WantSample tells whether a Sample call would be kept (lets cases avoid building it).
func (c *Case) WantSample() bool {
	c.sh.mu.Lock()
	defer c.sh.mu.Unlock()
	return len(c.sh.samples) < maxSamples && c.Idx < 64
}

// Logf prints only in replay / debug mode.
func (c *Case) Logf(format string, args ...any) {
	if c.Debug {
		fmt.Printf(format+"\n", args...)
	}
}

// ExitResume flushes everything and ends the child so that the parent resumes the
// shard after this case. Used when the process state can no longer be trusted (a
// goroutine stuck forever inside a synctest bubble).
func (c *Case) ExitResume() {
	c.sh.mu.Lock()
	c.sh.cases++
	c.sh.mu.Unlock()
	c.sh.flush()
	os.Exit(3)
}

// Bubble runs f inside a synctest bubble (virtual time). If goroutines started inside
// the bubble are still alive when f returns and all is quiescent, leaked() is
// consulted: it receives the goroutine dump and records the verdict; the process then
// exits (a stuck goroutine cannot be removed from a bubble).
func (c *Case) Bubble(f func(), leaked func(dump string)) {
	// Deadlock watchdog (runs OUTSIDE the bubble). A goroutine blocked on a sync.Mutex that is
	// never released is not "durably blocked" for synctest: Wait() never returns and virtual
	// time stops. The verdict is taken from the goroutine STATES, not from the clock: two
	// dumps 3 s apart in which no goroutine of the bubble is running/runnable, all stacks are
	// identical and at least one waits for a mutex = deadlock. The wall clock only paces the
	// sampling; a case that is merely slow always shows a running goroutine.
	done := make(chan struct{})
	defer close(done)
	go func() {
		prev := ""
		// Spin watchdog, also state based: the same goroutine runnable inside library code in
		// spinSamples consecutive dumps while the scenario's driver made no step at all (the
		// driver draws from Rand on every step). Inside a bubble virtual time cannot advance
		// while any goroutine is runnable, so a library goroutine that never parks stalls the
		// driver at its next Sleep/Wait for good.
		spinning := map[string]int{}
		lastProgress := progress.Load()
		for {
			select {
			case <-done:
				return
			case <-time.After(3 * time.Second):
			}
			// one static buffer, sampled under watchMu: a check that measures the heap (C12)
			// takes the same lock, so it never sees a sample in progress
			watchMu.Lock()
			full := unsafe.String(&watchBuf[0], runtime.Stack(watchBuf, true))
			if p := progress.Load(); p != lastProgress {
				lastProgress, spinning = p, map[string]int{}
			} else {
				now := map[string]int{}
				for id, g := range runnableLibGoroutines(full) {
					now[id] = spinning[id] + 1
					if now[id] >= spinSamples {
						c.Violation("spin/"+outermostLibFrame(g),
							"a goroutine stayed runnable inside library code for %d consecutive goroutine dumps 3 s apart while the scenario made no step (virtual time cannot advance, every later call is stalled):\n%s", spinSamples, g)
						c.ExitResume()
					}
				}
				spinning = now
			}
			dump := bubbleStates(full)
			if dump != "" && dump == prev {
				c.Violation("deadlock/mutex-never-released/"+firstLibFrame(dump),
					"every goroutine of the scenario is blocked, at least one on a mutex that no running goroutine can release (two identical goroutine dumps 3 s apart):\n%s", dump)
				c.ExitResume()
			}
			prev = dump
			watchMu.Unlock()
		}
	}()
	synctest.Test(c.T, func(t *testing.T) {
		base := runtime.NumGoroutine()
		f()
		synctest.Wait()
		if n := runtime.NumGoroutine(); n > base {
			// Let finished goroutines be reaped: they may be in the exit path.
			for i := 0; i < 50 && runtime.NumGoroutine() > base; i++ {
				runtime.Gosched()
				synctest.Wait()
			}
		}
		if n := runtime.NumGoroutine(); n > base {
			buf := make([]byte, 1<<20)
			buf = buf[:runtime.Stack(buf, true)]
			// runtime.NumGoroutine also counts runtime-internal goroutines (finalizers,
			// cleanups) while they run: only goroutines that belong to the bubble count.
			filtered := BubbleGoroutines(string(buf))
			if filtered == "" {
				return
			}
			if leaked != nil {
				leaked(filtered)
			} else {
				c.Inconclusive("goroutines left in bubble: %d", n-base)
			}
			c.ExitResume()
		}
	})
}

// BubbleGoroutines filters a full goroutine dump down to goroutines that belong to a
// synctest bubble and are not the harness's own.
func BubbleGoroutines(dump string) string {
	var out []string
	for _, g := range strings.Split(dump, "\n\n") {
		head, _, _ := strings.Cut(g, "\n")
		if !strings.Contains(head, "synctest bubble") {
			continue
		}
		// the caller of runtime.Stack (the bubble's root goroutine, inside Bubble) and the
		// test goroutine parked in synctest.Run belong to the harness.
		if strings.Contains(head, "[running") || strings.Contains(head, "synctest.Run") ||
			strings.Contains(g, "\ntesting/synctest.testingSynctestTest(") {
			continue
		}
		out = append(out, g)
	}
	return strings.Join(out, "\n\n")
}

// ---------------------------------------------------------------------------------

// Rand is a counter-mode splitmix64 generator: case i of (seed, property) is
// generated independently of every other case.
type Rand struct{ s uint64 }

func mix(z uint64) uint64 {
	z += 0x9e3779b97f4a7c15
	z = (z ^ (z >> 30)) * 0xbf58476d1ce4e5b9
	z = (z ^ (z >> 27)) * 0x94d049bb133111eb
	return z ^ (z >> 31)
}

// NewRand keys a generator by seed, property id and case index.
func NewRand(seed uint64, prop string, idx uint64) *Rand {
	s := mix(seed ^ 0x5eed)
	for _, b := range []byte(prop) {
		s = mix(s ^ uint64(b))
	}
	s = mix(s ^ mix(idx))
	return &Rand{s: s}
}

// Fork derives an independent generator.
func (r *Rand) Fork() *Rand { return &Rand{s: mix(r.U64())} }

func (r *Rand) U64() uint64 {
	progress.Add(1)
	r.s += 0x9e3779b97f4a7c15
	z := r.s
	z = (z ^ (z >> 30)) * 0xbf58476d1ce4e5b9
	z = (z ^ (z >> 27)) * 0x94d049bb133111eb
	return z ^ (z >> 31)
}

func (r *Rand) U32() uint32 { return uint32(r.U64() >> 32) }
func (r *Rand) U16() uint16 { return uint16(r.U64() >> 48) }

// EdgeU16 is a 16-bit value that sits within 20 of a wrap/sign boundary half of the time.
func (r *Rand) EdgeU16() uint16 {
	if r.Bool() {
		return r.U16()
	}
	return uint16(r.Pick(0, 0xffff, 0xffff, 0x8000, 0x7fff) + r.Range(-20, 20))
}

// Intn returns a value in [0,n).
func (r *Rand) Intn(n int) int {
	if n <= 1 {
		return 0
	}
	return int(r.U64() % uint64(n))
}

// Range returns a value in [lo,hi].
func (r *Rand) Range(lo, hi int) int {
	if hi <= lo {
		return lo
	}
	return lo + r.Intn(hi-lo+1)
}

func (r *Rand) Bool() bool { return r.U64()&1 == 1 }

// Chance is true with probability p.
func (r *Rand) Chance(p float64) bool { return float64(r.U64()>>11)/(1<<53) < p }

func (r *Rand) Float() float64 { return float64(r.U64()>>11) / (1 << 53) }

// Pick returns one of the ints.
func (r *Rand) Pick(vs ...int) int { return vs[r.Intn(len(vs))] }

func (r *Rand) Bytes(n int) []byte {
	b := make([]byte, n)
	for i := 0; i < n; i += 8 {
		v := r.U64()
		for j := 0; j < 8 && i+j < n; j++ {
			b[i+j] = byte(v >> (8 * j))
		}
	}
	return b
}

// ---------------------------------------------------------------------------------

// Hash is an incremental FNV-1a-style 64-bit fingerprint.
type Hash struct{ h uint64 }

func NewHash() *Hash { return &Hash{h: 0xcbf29ce484222325} }

func (h *Hash) U64(v uint64) *Hash {
	for i := 0; i < 8; i++ {
		h.h ^= (v >> (8 * i)) & 0xff
		h.h *= 0x100000001b3
	}
	return h
}
func (h *Hash) Int(v int) *Hash { return h.U64(uint64(v)) }
func (h *Hash) Bytes(b []byte) *Hash {
	for _, c := range b {
		h.h ^= uint64(c)
		h.h *= 0x100000001b3
	}
	return h.U64(uint64(len(b)))
}
func (h *Hash) Str(s string) *Hash { return h.Bytes([]byte(s)) }
func (h *Hash) Sum() uint64       { return mix(h.h) }

// progress counts the draws from any Rand: the scenario drivers draw on every step.
var progress atomic.Uint64

// Progress is for drivers with long loops that draw no random numbers (C12's in-order
// workloads and churn cycles): it tells the spin watchdog that the scenario made a step.
func Progress() { progress.Add(1) }

const spinSamples = 20

var (
	watchMu  sync.Mutex
	watchBuf = make([]byte, 4<<20)
)

// Quiesced runs f while no watchdog sample is in progress (heap measurements).
func Quiesced(f func()) {
	watchMu.Lock()
	defer watchMu.Unlock()
	f()
}

// runnableLibGoroutines maps goroutine id -> stack for the bubble's goroutines that are
// running or runnable with a library frame on their stack.
func runnableLibGoroutines(dump string) map[string]string {
	out := map[string]string{}
	for _, g := range strings.Split(dump, "\n\n") {
		head, _, _ := strings.Cut(g, "\n")
		if !strings.Contains(head, "synctest bubble") || !(strings.Contains(head, "[running") || strings.Contains(head, "[runnable")) {
			continue
		}
		if outermostLibFrame(g) == "?" {
			continue
		}
		f := strings.Fields(head)
		if len(f) > 1 {
			out[strings.Clone(f[1])] = g // the dump lives in the static sample buffer
		}
	}
	return out
}

// outermostLibFrame names the library function lowest on the stack (the goroutine's entry
// into the library), which is stable while the goroutine spins through its callees.
func outermostLibFrame(g string) string {
	fn := "?"
	for _, ln := range strings.Split(g, "\n") {
		if strings.HasPrefix(ln, "github.com/pion/interceptor/") && !strings.HasPrefix(ln, "github.com/pion/interceptor/verif/") {
			fn = strings.TrimPrefix(ln, "github.com/pion/interceptor/")
			if i := strings.LastIndex(fn, "("); i > 0 {
				fn = fn[:i]
			}
		}
	}
	return fn
}

// bubbleStates returns the stacks of the bubble's goroutines if none of them can run and at
// least one waits for a mutex; "" otherwise.
func bubbleStates(dump string) string {
	var out []string
	mutex := false
	for _, g := range strings.Split(dump, "\n\n") {
		head, _, _ := strings.Cut(g, "\n")
		if !strings.Contains(head, "synctest bubble") {
			continue
		}
		if strings.Contains(head, "[running") || strings.Contains(head, "[runnable") || strings.Contains(head, "[syscall") {
			return ""
		}
		if strings.Contains(head, "sync.Mutex.Lock") || strings.Contains(head, "sync.RWMutex") {
			mutex = true
		}
		// drop the goroutine ids / minutes from the header so that two samples compare equal
		if i := strings.Index(head, "["); i >= 0 {
			head = head[i:]
		}
		if j := strings.Index(head, ","); j >= 0 && strings.Contains(head, "minutes") {
			head = head[:j] + "]"
		}
		_, rest, _ := strings.Cut(g, "\n")
		out = append(out, head+"\n"+rest)
	}
	if !mutex {
		return ""
	}
	// the mutex waiters first: the signature is taken from them and the text may be cut
	isMu := func(g string) bool { return strings.HasPrefix(g, "[sync.Mutex") || strings.HasPrefix(g, "[sync.RWMutex") }
	sort.Slice(out, func(i, j int) bool {
		if isMu(out[i]) != isMu(out[j]) {
			return isMu(out[i])
		}
		return out[i] < out[j]
	})
	s := strings.Join(out, "\n\n")
	if len(s) > 5000 {
		s = s[:5000] + "…"
	}
	return s
}

// FirstLibFrame names the first library function in a dump.
func FirstLibFrame(dump string) string { return firstLibFrame(dump) }

// MutexWaiters is for scenarios outside a bubble: the stacks (ids and wait times stripped, sorted)
// of goroutines that wait for a sync.Mutex/RWMutex with a library frame on their stack, or ""
// when there is none or when some goroutine is running/runnable inside library code (it may
// release the mutex).
func MutexWaiters(dump string) string {
	var out []string
	for _, g := range strings.Split(dump, "\n\n") {
		head, rest, _ := strings.Cut(g, "\n")
		if outermostLibFrame(rest) == "?" {
			continue
		}
		if strings.Contains(head, "[running") || strings.Contains(head, "[runnable") || strings.Contains(head, "[syscall") {
			return ""
		}
		if !strings.Contains(head, "sync.Mutex.Lock") && !strings.Contains(head, "sync.RWMutex") {
			continue
		}
		if i := strings.Index(head, "["); i >= 0 {
			head = head[i:]
		}
		if j := strings.Index(head, ","); j >= 0 {
			head = head[:j] + "]"
		}
		out = append(out, head+"\n"+rest)
	}
	sort.Strings(out)
	return strings.Join(out, "\n\n")
}

func firstLibFrame(dump string) string {
	for _, ln := range strings.Split(dump, "\n") {
		if strings.HasPrefix(ln, "github.com/pion/interceptor/") && !strings.HasPrefix(ln, "github.com/pion/interceptor/verif/") {
			fn := strings.TrimPrefix(ln, "github.com/pion/interceptor/")
			if i := strings.LastIndex(fn, "("); i > 0 {
				fn = fn[:i]
			}
			return fn
		}
	}
	return "?"
}
