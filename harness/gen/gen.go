// Package gen holds the workload generators shared by the checks: RTP header shapes,
// payloads carrying unique ids, and sequence-number histories built on true 64-bit
// indices (so ground truth across 16-bit wraps is known by construction).
package gen

import (
	"encoding/binary"

	"github.com/pion/rtp"

	"github.com/pion/interceptor/verif/vf"
)

// Shape selects which optional header parts a generated header carries.
type Shape struct {
	CSRC     int  // 0..15
	ExtKind  int  // 0 none, 1 one-byte (0xBEDE), 2 two-byte (0x1000), 3 generic RFC 3550 profile
	Padding  int  // 0 none, else Header.PaddingSize (1..255) with Padding=true
	Marker   bool
	ExtCount int
}

// RandomShape draws a header shape; about half of them are plain.
func RandomShape(r *vf.Rand) Shape {
	var s Shape
	if r.Chance(0.35) {
		s.CSRC = r.Pick(1, 2, 3, 15, r.Range(1, 15))
	}
	if r.Chance(0.4) {
		s.ExtKind = r.Range(1, 3)
		s.ExtCount = r.Range(1, 3)
	}
	if r.Chance(0.2) {
		s.Padding = r.Pick(1, 2, 3, 4, 7, 16, 255, r.Range(1, 255))
	}
	s.Marker = r.Bool()
	return s
}

// Header builds a version-2 header of the given shape. Extension ids avoid the ids in
// `avoidIDs` (so a negotiated TWCC id stays free unless the caller wants a clash).
func Header(r *vf.Rand, s Shape, ssrc uint32, pt uint8, seq uint16, ts uint32, avoidIDs ...uint8) rtp.Header {
	h := rtp.Header{
		Version: 2, Marker: s.Marker, PayloadType: pt & 0x7f, SequenceNumber: seq, Timestamp: ts, SSRC: ssrc,
	}
	for i := 0; i < s.CSRC; i++ {
		h.CSRC = append(h.CSRC, r.U32())
	}
	avoid := func(id uint8) bool {
		for _, a := range avoidIDs {
			if a == id {
				return true
			}
		}
		return false
	}
	switch s.ExtKind {
	case 1:
		h.Extension = true
		h.ExtensionProfile = rtp.ExtensionProfileOneByte
		used := map[uint8]bool{}
		for i := 0; i < s.ExtCount; i++ {
			id := uint8(r.Range(1, 14))
			if used[id] || avoid(id) {
				continue
			}
			used[id] = true
			_ = h.SetExtension(id, r.Bytes(r.Range(1, 16)))
		}
		if len(h.Extensions) == 0 {
			for id := uint8(1); id <= 14; id++ {
				if !avoid(id) {
					_ = h.SetExtension(id, r.Bytes(r.Range(1, 16)))
					break
				}
			}
		}
	case 2:
		h.Extension = true
		h.ExtensionProfile = rtp.ExtensionProfileTwoByte
		used := map[uint8]bool{}
		for i := 0; i < s.ExtCount; i++ {
			id := uint8(r.Range(1, 255))
			if used[id] || avoid(id) {
				continue
			}
			used[id] = true
			_ = h.SetExtension(id, r.Bytes(r.Pick(0, 1, 2, 17, 40, 255, r.Range(0, 255))))
		}
		if len(h.Extensions) == 0 {
			_ = h.SetExtension(200, r.Bytes(3))
		}
	case 3:
		h.Extension = true
		h.ExtensionProfile = uint16(r.Pick(0x1234, 0xABAC, 0x0001))
		_ = h.SetExtension(0, r.Bytes(4*r.Range(0, 6)))
	}
	if s.Padding > 0 {
		h.Padding = true
		h.PaddingSize = byte(s.Padding)
	}
	return h
}

// PayloadLen draws a payload length in [0,max] biased to boundary values.
func PayloadLen(r *vf.Rand, max int) int {
	bounds := []int{0, 1, 2, 7, 8, 9, 11, 12, 13, 100, 500, 1199, 1200, 1201, 1459, 1460, 1461, 1500}
	if r.Chance(0.45) {
		for tries := 0; tries < 8; tries++ {
			if v := bounds[r.Intn(len(bounds))]; v <= max {
				return v
			}
		}
	}
	return r.Intn(max + 1)
}

// Payload returns n PRNG bytes whose first 8 bytes (when n >= 8) are the unique id.
func Payload(r *vf.Rand, n int, id uint64) []byte {
	b := r.Bytes(n)
	if n >= 8 {
		binary.BigEndian.PutUint64(b, id)
	}
	return b
}

// PayloadID extracts the id stored by Payload (ok=false if the payload is too short).
func PayloadID(b []byte) (uint64, bool) {
	if len(b) < 8 {
		return 0, false
	}
	return binary.BigEndian.Uint64(b), true
}

// HistoryOpts configures Arrivals.
type HistoryOpts struct {
	Start     int64   // true index of the first packet sent
	N         int     // number of packets the sender emits
	Loss      float64 // i.i.d. loss probability
	BurstLoss float64 // probability that a loss burst starts at a packet
	BurstLen  int     // max burst length
	Dup       float64 // probability a delivered packet is delivered twice
	Reorder   float64 // probability a delivered packet is displaced
	MaxDispl  int     // max displacement (in arrival positions) of a reordered packet
	JumpProb  float64 // probability that the sender skips ahead
	MaxJump   int     // max size of such a skip (true indices)
}

// Arrivals produces the arrival order (true indices, possibly repeated) of a stream sent
// as Start, Start+1, ... under loss, duplication and reordering. The first sent packet is
// always delivered first (it anchors the receivers' notion of "first packet").
func Arrivals(r *vf.Rand, o HistoryOpts) []int64 {
	type item struct {
		idx int64
		key float64
	}
	var items []item
	cur := o.Start
	burst := 0
	for i := 0; i < o.N; i++ {
		if i > 0 && o.JumpProb > 0 && r.Chance(o.JumpProb) {
			cur += int64(r.Range(1, o.MaxJump))
		}
		lost := false
		if burst > 0 {
			lost = true
			burst--
		} else if i > 0 && o.BurstLoss > 0 && r.Chance(o.BurstLoss) {
			burst = r.Range(1, max(1, o.BurstLen)) - 1
			lost = true
		} else if i > 0 && r.Chance(o.Loss) {
			lost = true
		}
		if !lost {
			pos := float64(i)
			if i > 0 && r.Chance(o.Reorder) {
				pos += float64(r.Range(-o.MaxDispl, o.MaxDispl)) + r.Float()
				if pos < 0.5 {
					pos = 0.5
				}
			}
			items = append(items, item{cur, pos})
			if r.Chance(o.Dup) {
				items = append(items, item{cur, pos + float64(r.Range(0, max(1, o.MaxDispl))) + r.Float()})
			}
		}
		cur++
	}
	// stable insertion sort by key (histories are mostly sorted already)
	for i := 1; i < len(items); i++ {
		for j := i; j > 0 && items[j-1].key > items[j].key; j-- {
			items[j-1], items[j] = items[j], items[j-1]
		}
	}
	out := make([]int64, len(items))
	for i, it := range items {
		out[i] = it.idx
	}
	return out
}

// RandomHistoryOpts draws a loss/reorder/duplication profile.
func RandomHistoryOpts(r *vf.Rand, start int64, n int) HistoryOpts {
	o := HistoryOpts{Start: start, N: n}
	switch r.Intn(6) {
	case 0: // clean
	case 1:
		o.Loss = r.Float() * 0.3
	case 2:
		o.BurstLoss, o.BurstLen = 0.02, r.Range(2, 60)
	case 3:
		o.Reorder, o.MaxDispl = r.Float()*0.3, r.Range(1, 40)
		o.Loss = r.Float() * 0.1
	case 4:
		o.Dup, o.MaxDispl = r.Float()*0.2, r.Range(1, 20)
		o.Loss = r.Float() * 0.1
	default:
		o.Loss, o.BurstLoss, o.BurstLen = r.Float()*0.2, 0.01, r.Range(2, 30)
		o.Dup, o.Reorder, o.MaxDispl = r.Float()*0.1, r.Float()*0.2, r.Range(1, 30)
	}
	if r.Chance(0.25) {
		o.JumpProb, o.MaxJump = 0.01, r.Pick(10, 100, 1000, 5000)
	}
	return o
}

// StartIndex draws a true start index; often close to a 16-bit wrap.
func StartIndex(r *vf.Rand) int64 {
	switch r.Intn(5) {
	case 0:
		return int64(r.Pick(0, 1, 2))
	case 1:
		return 65536 - int64(r.Range(1, 300))
	case 2:
		return 32768 - int64(r.Range(0, 300))
	default:
		return int64(r.Intn(65536))
	}
}
