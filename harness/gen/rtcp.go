package gen

import (
	"encoding/binary"

	"github.com/pion/rtcp"

	"github.com/pion/interceptor/verif/vf"
)

// RawTWCC assembles the wire bytes of a transport-wide CC feedback packet from its parts,
// with a correct RTCP length field, WITHOUT any consistency check between the status
// count, the chunks and the deltas (that is the point: rtcp.Unmarshal accepts many
// internally inconsistent combinations).
func RawTWCC(sender, media uint32, base, count uint16, ref uint32, fbCount uint8, chunks []uint16, deltas []byte) []byte {
	body := make([]byte, 0, 20+2*len(chunks)+len(deltas)+4)
	body = binary.BigEndian.AppendUint32(body, sender)
	body = binary.BigEndian.AppendUint32(body, media)
	body = binary.BigEndian.AppendUint16(body, base)
	body = binary.BigEndian.AppendUint16(body, count)
	body = append(body, byte(ref>>16), byte(ref>>8), byte(ref), fbCount)
	for _, c := range chunks {
		body = binary.BigEndian.AppendUint16(body, c)
	}
	body = append(body, deltas...)
	pad := (4 - (len(body)+4)%4) % 4
	hdr0 := byte(0x80 | 15) // V=2, FMT=15
	if pad > 0 {
		hdr0 |= 0x20
		for i := 0; i < pad; i++ {
			if i == pad-1 {
				body = append(body, byte(pad))
			} else {
				body = append(body, 0)
			}
		}
	}
	total := 4 + len(body)
	out := []byte{hdr0, 205, 0, 0}
	binary.BigEndian.PutUint16(out[2:], uint16(total/4-1))
	return append(out, body...)
}

// RunChunk encodes a run-length chunk.
func RunChunk(symbol uint16, run uint16) uint16 { return (symbol&3)<<13 | run&0x1fff }

// Vec1Chunk encodes a one-bit status vector chunk (14 symbols, bit set = received small delta).
func Vec1Chunk(bits uint16) uint16 { return 0x8000 | bits&0x3fff }

// Vec2Chunk encodes a two-bit status vector chunk (7 symbols).
func Vec2Chunk(syms [7]uint16) uint16 {
	v := uint16(0xC000)
	for i, s := range syms {
		v |= (s & 3) << (12 - 2*i)
	}
	return v
}

// InconsistentTWCC draws a parseable-but-inconsistent TWCC packet (wire bytes).
func InconsistentTWCC(r *vf.Rand, media uint32, base uint16) []byte {
	switch r.Intn(7) {
	case 0: // run length far beyond the status count, received symbols
		cnt := uint16(r.Range(1, 5))
		run := uint16(r.Range(int(cnt)+1, 8191))
		return RawTWCC(r.U32(), media, base, cnt, r.U32()&0xffffff, uint8(r.Intn(256)),
			[]uint16{RunChunk(uint16(r.Range(1, 2)), run)}, r.Bytes(r.Range(int(cnt)*2, int(cnt)*2+4)))
	case 1: // status count zero but chunks present
		return RawTWCC(r.U32(), media, base, 0, r.U32()&0xffffff, 0,
			[]uint16{RunChunk(1, uint16(r.Range(1, 100))), Vec1Chunk(r.U16())}, r.Bytes(r.Intn(8)))
	case 2: // vector chunk with more symbols than the count; deltas only for some
		cnt := uint16(r.Range(1, 13))
		return RawTWCC(r.U32(), media, base, cnt, r.U32()&0xffffff, 1, []uint16{Vec1Chunk(0x3fff)}, r.Bytes(14))
	case 3: // two-bit vector with reserved symbol 3 and large deltas
		var syms [7]uint16
		for i := range syms {
			syms[i] = uint16(r.Intn(4))
		}
		return RawTWCC(r.U32(), media, base, uint16(r.Range(1, 7)), r.U32()&0xffffff, 1, []uint16{Vec2Chunk(syms)}, r.Bytes(14))
	case 4: // run chunk with reserved symbol 3 (received without delta)
		cnt := uint16(r.Range(1, 300))
		return RawTWCC(r.U32(), media, base, cnt, r.U32()&0xffffff, 1, []uint16{RunChunk(3, cnt)}, r.Bytes(r.Intn(5)))
	case 5: // huge status count with maximal runs of not-received then received
		return RawTWCC(r.U32(), media, base, 65535, r.U32()&0xffffff, 1,
			[]uint16{RunChunk(0, 8191), RunChunk(0, 8191), RunChunk(0, 8191), RunChunk(0, 8191), RunChunk(0, 8191),
				RunChunk(0, 8191), RunChunk(0, 8191), RunChunk(1, 8191)}, r.Bytes(8192))
	default: // many chunks, count smaller than what the chunks describe
		n := r.Range(2, 20)
		chunks := make([]uint16, n)
		for i := range chunks {
			switch r.Intn(3) {
			case 0:
				chunks[i] = RunChunk(uint16(r.Intn(4)), uint16(r.Range(1, 50)))
			case 1:
				chunks[i] = Vec1Chunk(r.U16())
			default:
				chunks[i] = 0xC000 | r.U16()&0x3fff
			}
		}
		return RawTWCC(r.U32(), media, base, uint16(r.Range(1, 40)), r.U32()&0xffffff, 1, chunks, r.Bytes(r.Range(0, 120)))
	}
}

// ValidTWCC builds a consistent TWCC feedback packet through pion/rtcp structures for the
// numbers base..base+len(recv)-1 (recv[i] = received; deltas in 250 µs units).
func ValidTWCC(r *vf.Rand, media uint32, base uint16, recv []bool, fbCount uint8) *rtcp.TransportLayerCC {
	t := &rtcp.TransportLayerCC{
		SenderSSRC: r.U32(), MediaSSRC: media, BaseSequenceNumber: base, PacketStatusCount: uint16(len(recv)),
		ReferenceTime: r.U32() & 0x7fffff, FbPktCount: fbCount,
	}
	// one two-bit... keep it simple and always valid: status vector chunks of 7 two-bit symbols
	for i := 0; i < len(recv); i += 7 {
		syms := make([]uint16, 7)
		for j := 0; j < 7; j++ {
			if i+j < len(recv) && recv[i+j] {
				if r.Chance(0.2) {
					syms[j] = rtcp.TypeTCCPacketReceivedLargeDelta
					t.RecvDeltas = append(t.RecvDeltas, &rtcp.RecvDelta{Type: rtcp.TypeTCCPacketReceivedLargeDelta, Delta: int64(r.Range(-2000, 30000)) * 250})
				} else {
					syms[j] = rtcp.TypeTCCPacketReceivedSmallDelta
					t.RecvDeltas = append(t.RecvDeltas, &rtcp.RecvDelta{Type: rtcp.TypeTCCPacketReceivedSmallDelta, Delta: int64(r.Range(0, 255)) * 250})
				}
			}
		}
		t.PacketChunks = append(t.PacketChunks, &rtcp.StatusVectorChunk{
			Type: rtcp.TypeTCCStatusVectorChunk, SymbolSize: rtcp.TypeTCCSymbolSizeTwoBit, SymbolList: syms,
		})
	}
	// pion/rtcp marshals t.Header as given: fill it in
	t.Header = rtcp.Header{Count: rtcp.FormatTCC, Type: rtcp.TypeTransportSpecificFeedback}
	n := 20 + 2*len(t.PacketChunks)
	for _, d := range t.RecvDeltas {
		if d.Type == rtcp.TypeTCCPacketReceivedLargeDelta {
			n += 2
		} else {
			n++
		}
	}
	if n%4 != 0 {
		t.Header.Padding = true
		n += 4 - n%4
	}
	t.Header.Length = uint16(n/4 - 1)
	return t
}

// ValidCCFB builds an RFC 8888 report for begin..begin+len(recv)-1.
func ValidCCFB(r *vf.Rand, media uint32, begin uint16, recv []bool, ts uint32) *rtcp.CCFeedbackReport {
	blk := rtcp.CCFeedbackReportBlock{MediaSSRC: media, BeginSequence: begin}
	for _, ok := range recv {
		mb := rtcp.CCFeedbackMetricBlock{Received: ok}
		if ok {
			mb.ECN = rtcp.ECN(r.Intn(4))
			mb.ArrivalTimeOffset = uint16(r.Pick(0, 1, 100, 0x1ffd, 0x1ffe, 0x1fff, r.Intn(0x2000)))
		}
		blk.MetricBlocks = append(blk.MetricBlocks, mb)
	}
	return &rtcp.CCFeedbackReport{SenderSSRC: r.U32(), ReportBlocks: []rtcp.CCFeedbackReportBlock{blk}, ReportTimestamp: ts}
}

// RandomRTCP draws one well-formed RTCP packet addressed to one of the given SSRCs (or a
// foreign one) of a kind the interceptors look at.
func RandomRTCP(r *vf.Rand, ssrcs []uint32) rtcp.Packet {
	pick := func() uint32 {
		if len(ssrcs) == 0 || r.Chance(0.15) {
			return r.U32()
		}
		return ssrcs[r.Intn(len(ssrcs))]
	}
	rr := func() rtcp.ReceptionReport {
		return rtcp.ReceptionReport{
			SSRC: pick(), FractionLost: uint8(r.Intn(256)), TotalLost: r.U32() & 0xffffff, LastSequenceNumber: r.U32(),
			Jitter: r.U32(), LastSenderReport: r.U32(), Delay: r.U32(),
		}
	}
	switch r.Intn(9) {
	case 0:
		sr := &rtcp.SenderReport{SSRC: pick(), NTPTime: r.U64(), RTPTime: r.U32(), PacketCount: r.U32(), OctetCount: r.U32()}
		for i := r.Intn(3); i > 0; i-- {
			sr.Reports = append(sr.Reports, rr())
		}
		return sr
	case 1:
		p := &rtcp.ReceiverReport{SSRC: pick()}
		for i := r.Intn(4); i > 0; i-- {
			p.Reports = append(p.Reports, rr())
		}
		return p
	case 2:
		n := &rtcp.TransportLayerNack{SenderSSRC: r.U32(), MediaSSRC: pick()}
		for i := r.Range(1, 3); i > 0; i-- {
			n.Nacks = append(n.Nacks, rtcp.NackPair{PacketID: r.EdgeU16(), LostPackets: rtcp.PacketBitmap(r.U16())})
		}
		return n
	case 3:
		return &rtcp.PictureLossIndication{SenderSSRC: r.U32(), MediaSSRC: pick()}
	case 4:
		f := &rtcp.FullIntraRequest{SenderSSRC: r.U32(), MediaSSRC: pick()}
		for i := r.Range(1, 2); i > 0; i-- {
			f.FIR = append(f.FIR, rtcp.FIREntry{SSRC: pick(), SequenceNumber: uint8(r.Intn(256))})
		}
		return f
	case 5:
		recv := make([]bool, r.Range(1, 40))
		for i := range recv {
			recv[i] = r.Chance(0.8)
		}
		return ValidTWCC(r, pick(), r.U16(), recv, uint8(r.Intn(256)))
	case 6:
		recv := make([]bool, r.Range(1, 40))
		for i := range recv {
			recv[i] = r.Chance(0.8)
		}
		return ValidCCFB(r, pick(), r.U16(), recv, r.U32())
	case 7:
		x := &rtcp.ExtendedReport{SenderSSRC: pick()}
		if r.Bool() {
			x.Reports = append(x.Reports, &rtcp.DLRRReportBlock{Reports: []rtcp.DLRRReport{{SSRC: pick(), LastRR: r.U32(), DLRR: r.U32()}}})
		}
		if r.Bool() || len(x.Reports) == 0 {
			x.Reports = append(x.Reports, &rtcp.ReceiverReferenceTimeReportBlock{NTPTimestamp: r.U64()})
		}
		return x
	default:
		return &rtcp.ReceiverEstimatedMaximumBitrate{SenderSSRC: r.U32(), Bitrate: float32(r.Intn(10_000_000)), SSRCs: []uint32{pick()}}
	}
}

// Compound marshals 1..n random well-formed packets into one compound buffer.
func Compound(r *vf.Rand, ssrcs []uint32, n int) ([]byte, []rtcp.Packet) {
	var pkts []rtcp.Packet
	for i := 0; i < n; i++ {
		pkts = append(pkts, RandomRTCP(r, ssrcs))
	}
	b, err := rtcp.Marshal(pkts)
	if err != nil {
		p := &rtcp.PictureLossIndication{SenderSSRC: 1, MediaSSRC: 2}
		b, _ = p.Marshal()
		return b, []rtcp.Packet{p}
	}
	return b, pkts
}

// Mutate applies a byte-level mutation to a valid packet.
func Mutate(r *vf.Rand, b []byte) []byte {
	out := append([]byte(nil), b...)
	if len(out) == 0 {
		return r.Bytes(r.Range(0, 16))
	}
	switch r.Intn(8) {
	case 0: // truncate
		return out[:r.Intn(len(out))]
	case 1: // extend with garbage
		return append(out, r.Bytes(r.Range(1, 64))...)
	case 2: // flip bits in the first 16 bytes
		for i := r.Range(1, 4); i > 0; i-- {
			p := r.Intn(min(len(out), 16))
			out[p] ^= 1 << r.Intn(8)
		}
	case 3: // flip bits anywhere
		for i := r.Range(1, 8); i > 0; i-- {
			out[r.Intn(len(out))] ^= 1 << r.Intn(8)
		}
	case 4: // lie in a 16-bit field (lengths live at offset 2 in RTCP, extension length in RTP)
		if len(out) >= 4 {
			p := r.Pick(2, 2, r.Intn(len(out)-1))
			binary.BigEndian.PutUint16(out[p:], uint16(r.Pick(0, 1, 0xffff, r.Intn(65536), len(out)/4, len(out)/4+1)))
		}
	case 5: // splice two halves
		cut := r.Intn(len(out))
		return append(out[cut:], out[:cut]...)
	case 6: // overwrite a run with 0xff or 0x00
		p := r.Intn(len(out))
		n := r.Range(1, 16)
		v := byte(r.Pick(0, 0xff))
		for i := p; i < len(out) && i < p+n; i++ {
			out[i] = v
		}
	default: // set CC / X / P bits of the first byte
		out[0] = out[0]&0xC0 | byte(r.Intn(64))
	}
	return out
}
