// Package zoo is the catalog of every interceptor the library ships, with builders that
// draw valid option settings from a PRNG. It is shared by the cross-cutting checks
// (C01 chains, C02 hostile input, C10 races, C11 lifecycle, C12 memory, C13 buffers).
package zoo

import (
	"fmt"
	"io"
	"log/slog"
	"sync"
	"time"

	"github.com/pion/interceptor"
	"github.com/pion/interceptor/pkg/cc"
	"github.com/pion/interceptor/pkg/flexfec"
	"github.com/pion/interceptor/pkg/gcc"
	"github.com/pion/interceptor/pkg/intervalpli"
	"github.com/pion/interceptor/pkg/jitterbuffer"
	"github.com/pion/interceptor/pkg/nack"
	"github.com/pion/interceptor/pkg/pacing"
	"github.com/pion/interceptor/pkg/packetdump"
	"github.com/pion/interceptor/pkg/report"
	"github.com/pion/interceptor/pkg/rfc8888"
	"github.com/pion/interceptor/pkg/rtpfb"
	"github.com/pion/interceptor/pkg/stats"
	"github.com/pion/interceptor/pkg/twcc"
	"github.com/pion/logging"
	"github.com/pion/rtcp"
	"github.com/pion/rtp"

	"github.com/pion/interceptor/verif/vf"
)

// TransportCCURI is the header-extension URI every TWCC-aware interceptor looks for.
const TransportCCURI = "http://www.ietf.org/id/draft-holmer-rmcat-transport-wide-cc-extensions-01"

// Kind names one interceptor implementation.
type Kind int

const (
	NoOp Kind = iota
	NackGenerator
	NackResponder
	ReportReceiver
	ReportSender
	TWCCSender
	TWCCHeaderExt
	RFC8888
	RTPFB
	Stats
	DumpSender
	DumpReceiver
	IntervalPLI
	FlexFEC
	CCNoOpPacer // cc interceptor, gcc.SendSideBWE with gcc.NoOpPacer
	// buffering kinds (excluded from C01 by the statement's scope)
	CCLeakyBucket // cc interceptor, gcc.SendSideBWE with the leaky-bucket pacer
	Pacing
	JitterBuffer
	NumKinds
)

var names = [...]string{"noop", "nack-generator", "nack-responder", "report-receiver", "report-sender", "twcc-sender",
	"twcc-hdrext", "rfc8888", "rtpfb", "stats", "dump-sender", "dump-receiver", "interval-pli", "flexfec",
	"cc-nooppacer", "cc-leakybucket", "pacing", "jitterbuffer"}

func (k Kind) String() string {
	if int(k) < len(names) {
		return names[k]
	}
	return fmt.Sprintf("kind%d", int(k))
}

// PassThrough lists the non-buffering kinds (C01's scope).
var PassThrough = []Kind{NoOp, NackGenerator, NackResponder, ReportReceiver, ReportSender, TWCCSender, TWCCHeaderExt,
	RFC8888, RTPFB, Stats, DumpSender, DumpReceiver, IntervalPLI, FlexFEC, CCNoOpPacer}

// All lists every kind.
var All = []Kind{NoOp, NackGenerator, NackResponder, ReportReceiver, ReportSender, TWCCSender, TWCCHeaderExt,
	RFC8888, RTPFB, Stats, DumpSender, DumpReceiver, IntervalPLI, FlexFEC, CCNoOpPacer, CCLeakyBucket, Pacing, JitterBuffer}

// loopRecorder is a minimal user-supplied stats.Recorder whose Start blocks until Stop.
type loopRecorder struct {
	stop chan struct{}
	once sync.Once
}

func (l *loopRecorder) QueueIncomingRTP(time.Time, []byte, interceptor.Attributes)              {}
func (l *loopRecorder) QueueIncomingRTCP(time.Time, []byte, interceptor.Attributes)             {}
func (l *loopRecorder) QueueOutgoingRTP(time.Time, *rtp.Header, []byte, interceptor.Attributes) {}
func (l *loopRecorder) QueueOutgoingRTCP(time.Time, []rtcp.Packet, interceptor.Attributes)      {}
func (l *loopRecorder) GetStats() stats.Stats                                                   { return stats.Stats{} }
func (l *loopRecorder) Stop()                                                                   { l.once.Do(func() { close(l.stop) }) }
func (l *loopRecorder) Start()                                                                  { <-l.stop }

// Quiet is a logger factory that discards everything.
func Quiet() logging.LoggerFactory {
	f := logging.NewDefaultLoggerFactory()
	f.Writer = io.Discard
	f.DefaultLogLevel = logging.LogLevelDisabled
	f.ScopeLevels = map[string]logging.LogLevel{}
	return f
}

func init() {
	// the pacing interceptor logs write errors through log/slog's default logger
	slog.SetDefault(slog.New(slog.NewTextHandler(io.Discard, nil)))
}

// Sink is an io.Writer that counts (and optionally captures) dump output.
type Sink struct {
	mu      sync.Mutex
	N       int
	Bytes   int
	Capture bool
	Chunks  [][]byte
	hold    chan struct{}
}

// SetHold makes every Write block until the returned release function is called.
func (s *Sink) SetHold() (release func()) {
	ch := make(chan struct{})
	s.mu.Lock()
	s.hold = ch
	s.mu.Unlock()
	return func() {
		s.mu.Lock()
		if s.hold == ch {
			s.hold = nil
		}
		s.mu.Unlock()
		close(ch)
	}
}

func (s *Sink) Write(p []byte) (int, error) {
	s.mu.Lock()
	if ch := s.hold; ch != nil {
		s.mu.Unlock()
		<-ch
		s.mu.Lock()
	}
	s.N++
	s.Bytes += len(p)
	if s.Capture {
		s.Chunks = append(s.Chunks, append([]byte(nil), p...))
	}
	s.mu.Unlock()
	return len(p), nil
}

// Snapshot returns the captured chunks.
func (s *Sink) Snapshot() [][]byte {
	s.mu.Lock()
	defer s.mu.Unlock()
	return append([][]byte(nil), s.Chunks...)
}

// Built is a constructed interceptor plus the handles a monitor may need.
type Built struct {
	Kind    Kind
	I       interceptor.Interceptor
	Factory interceptor.Factory
	Desc    string

	Interval time.Duration // reporting/feedback interval, 0 if none

	StatsGetter stats.Getter
	BWE         cc.BandwidthEstimator
	PacingFac   *pacing.InterceptorFactory
	PLI         *intervalpli.GeneratorInterceptor
	RTPSink     *Sink
	RTCPSink    *Sink

	// option values a monitor may want
	NackSize       uint16
	FECMedia       uint32
	FECRepair      uint32
	BinaryDump     bool
	CustomRecorder bool // Stats built with a user recorder: the getter's figures are not the library's
	PacingRate     int
}

// Opts constrains Build.
type Opts struct {
	ID           string
	FastTickers  bool // draw short intervals (1..20 ms) instead of protocol defaults
	Interval     time.Duration
	CaptureDumps bool
	LoopRecorder bool // Stats: a user recorder whose Start blocks until Stop
	SmallWindows bool // tiny NACK/rtx windows so goroutines collide / eviction happens
	HighRates    bool // pacers / estimators start far above what the workloads send
	PacingRate   int  // when non-zero and !HighRates: exact rate (bit/s) of the pacing interceptor, interval 5 ms
}

func pickInterval(r *vf.Rand, o Opts, defaults ...time.Duration) time.Duration {
	if o.Interval > 0 {
		return o.Interval
	}
	if o.FastTickers {
		return time.Duration(r.Range(1, 20)) * time.Millisecond
	}
	return defaults[r.Intn(len(defaults))]
}

// BinRTP is the binary dump formatter used for capture: marshalled packet bytes.
func BinRTP(p *rtp.Packet, _ interceptor.Attributes) ([]byte, error) {
	b, err := p.Marshal()
	if err != nil {
		return []byte("ERR:" + err.Error()), nil
	}
	return b, nil
}

// BinRTCP is the binary dump formatter for RTCP.
func BinRTCP(p rtcp.Packet, _ interceptor.Attributes) ([]byte, error) {
	b, err := p.Marshal()
	if err != nil {
		return []byte("ERR:" + err.Error()), nil
	}
	return b, nil
}

// Build constructs one interceptor of the given kind with PRNG-drawn valid options.
func Build(r *vf.Rand, k Kind, o Opts) (*Built, error) {
	b := &Built{Kind: k}
	lf := Quiet()
	var f interceptor.Factory
	var err error
	id := o.ID
	if id == "" {
		id = "pc"
	}
	switch k {
	case NoOp:
		b.I = &interceptor.NoOp{}
		b.Desc = "noop"
		return b, nil
	case NackGenerator:
		size := uint16(1) << r.Range(6, 15)
		if o.SmallWindows {
			size = uint16(1) << r.Range(6, 8)
		}
		skip := uint16(r.Pick(0, 0, 1, 3, int(size)/2))
		maxN := uint16(r.Pick(0, 0, 1, 2, 5))
		if maxN > 0 && size > 1024 {
			// the per-tick pruning of the limit counters is quadratic in the missing set
			// (seconds of CPU per tick at 30 000 missing numbers): keep limited mode small here,
			// C03 covers large windows with limits on its own terms
			size = 1024
		}
		b.Interval = pickInterval(r, o, 100*time.Millisecond, 20*time.Millisecond, time.Second)
		b.NackSize = size
		b.Desc = fmt.Sprintf("nack-generator(size=%d,skip=%d,max=%d,int=%v)", size, skip, maxN, b.Interval)
		f, err = nack.NewGeneratorInterceptor(nack.GeneratorSize(size), nack.GeneratorSkipLastN(skip),
			nack.GeneratorMaxNacksPerPacket(maxN), nack.GeneratorInterval(b.Interval), nack.WithGeneratorLoggerFactory(lf))
	case NackResponder:
		size := uint16(1) << r.Range(0, 15)
		if o.SmallWindows {
			size = uint16(1) << r.Range(0, 4)
		}
		b.NackSize = size
		b.Desc = fmt.Sprintf("nack-responder(size=%d)", size)
		f, err = nack.NewResponderInterceptor(nack.ResponderSize(size), nack.WithResponderLoggerFactory(lf))
	case ReportReceiver:
		b.Interval = pickInterval(r, o, time.Second, 100*time.Millisecond)
		b.Desc = fmt.Sprintf("report-receiver(int=%v)", b.Interval)
		f, err = report.NewReceiverInterceptor(report.ReceiverInterval(b.Interval), report.WithReceiverLoggerFactory(lf))
	case ReportSender:
		b.Interval = pickInterval(r, o, time.Second, 100*time.Millisecond)
		opts := []report.SenderOption{report.SenderInterval(b.Interval), report.WithSenderLoggerFactory(lf)}
		latest := r.Bool()
		if latest {
			opts = append(opts, report.SenderUseLatestPacket())
		}
		b.Desc = fmt.Sprintf("report-sender(int=%v,latest=%v)", b.Interval, latest)
		f, err = report.NewSenderInterceptor(opts...)
	case TWCCSender:
		b.Interval = pickInterval(r, o, 100*time.Millisecond, 50*time.Millisecond)
		b.Desc = fmt.Sprintf("twcc-sender(int=%v)", b.Interval)
		f, err = twcc.NewSenderInterceptor(twcc.SendInterval(b.Interval), twcc.WithLoggerFactory(lf))
	case TWCCHeaderExt:
		b.Desc = "twcc-hdrext"
		f, err = twcc.NewHeaderExtensionInterceptor()
	case RFC8888:
		b.Interval = pickInterval(r, o, 100*time.Millisecond, 50*time.Millisecond)
		b.Desc = fmt.Sprintf("rfc8888(int=%v)", b.Interval)
		f, err = rfc8888.NewSenderInterceptor(rfc8888.SendInterval(b.Interval), rfc8888.WithLoggerFactory(lf))
	case RTPFB:
		b.Desc = "rtpfb"
		f, err = rtpfb.NewInterceptor(rtpfb.WithLoggerFactory(lf))
	case Stats:
		b.Desc = "stats"
		sopts := []stats.Option{stats.WithLoggerFactory(lf)}
		if o.LoopRecorder {
			// a user recorder (stats.SetRecorderFactory) whose Start runs until Stop, the way a
			// recorder with a processing loop of its own does
			b.Desc = "stats(loop-recorder)"
			b.CustomRecorder = true
			sopts = append(sopts, stats.SetRecorderFactory(func(uint32, float64) stats.Recorder {
				return &loopRecorder{stop: make(chan struct{})}
			}))
		}
		sf, e := stats.NewInterceptor(sopts...)
		if e == nil {
			sf.OnNewPeerConnection(func(_ string, g stats.Getter) { b.StatsGetter = g })
		}
		f, err = sf, e
	case DumpSender, DumpReceiver:
		b.RTPSink, b.RTCPSink = &Sink{Capture: o.CaptureDumps}, &Sink{Capture: o.CaptureDumps}
		opts := []packetdump.PacketDumperOption{packetdump.RTPWriter(b.RTPSink), packetdump.RTCPWriter(b.RTCPSink),
			packetdump.WithLoggerFactory(lf)}
		b.BinaryDump = r.Bool()
		switch {
		case b.BinaryDump:
			rtpFmt := packetdump.RTPBinaryFormatCallback(BinRTP)
			if r.Chance(0.4) {
				// a formatter that returns a view of the packet it was given (cheap and allowed:
				// the packet handed to a formatter is the dumper's own copy)
				rtpFmt = func(p *rtp.Packet, _ interceptor.Attributes) ([]byte, error) { return p.Payload, nil }
			}
			opts = append(opts, packetdump.RTPBinaryFormatter(rtpFmt), packetdump.RTCPBinaryFormatter(BinRTCP))
		case o.CaptureDumps:
			// captured dumps are compared between runs: the default RTCP text prints addresses,
			// the default RTP text (header fields and payload length) is deterministic
			opts = append(opts, packetdump.RTCPBinaryFormatter(BinRTCP))
		}
		filtered := r.Bool()
		if filtered {
			// filters that look at packet contents; they run on the logger goroutine
			opts = append(opts, packetdump.RTPFilter(func(p *rtp.Packet) bool {
				return len(p.Payload) == 0 || p.Payload[len(p.Payload)-1]&3 != 0 || p.Header.SequenceNumber&7 == 0
			}), packetdump.RTCPPerPacketFilter(func(p rtcp.Packet) bool {
				ssrcs := p.DestinationSSRC()
				return len(ssrcs) == 0 || ssrcs[0]&1 == 0
			}))
		}
		b.Desc = fmt.Sprintf("%s(binary=%v,content-filters=%v)", k, b.BinaryDump, filtered)
		if k == DumpSender {
			f, err = packetdump.NewSenderInterceptor(opts...)
		} else {
			f, err = packetdump.NewReceiverInterceptor(opts...)
		}
	case IntervalPLI:
		b.Interval = pickInterval(r, o, 3*time.Second, 500*time.Millisecond)
		b.Desc = fmt.Sprintf("interval-pli(int=%v)", b.Interval)
		f, err = intervalpli.NewReceiverInterceptor(intervalpli.GeneratorInterval(b.Interval), intervalpli.WithLoggerFactory(lf))
	case FlexFEC:
		b.FECMedia = uint32(r.Pick(1, 2, 5, 5, 10, r.Range(1, 20)))
		b.FECRepair = uint32(r.Pick(1, 2, 2, 3, r.Range(1, 5)))
		b.Desc = fmt.Sprintf("flexfec(media=%d,fec=%d)", b.FECMedia, b.FECRepair)
		f, err = flexfec.NewFecInterceptor(flexfec.NumMediaPackets(b.FECMedia), flexfec.NumFECPackets(b.FECRepair))
	case CCNoOpPacer, CCLeakyBucket:
		initial := r.Pick(100_000, 1_000_000, 10_000_000)
		if o.HighRates {
			initial = 20_000_000
		}
		b.Desc = fmt.Sprintf("%s(initial=%d)", k, initial)
		cf, e := cc.NewInterceptor(func() (cc.BandwidthEstimator, error) {
			opts := []gcc.Option{gcc.SendSideBWEInitialBitrate(initial), gcc.WithLoggerFactory(lf)}
			if k == CCNoOpPacer {
				opts = append(opts, gcc.SendSideBWEPacer(gcc.NewNoOpPacer()))
			}
			return gcc.NewSendSideBWE(opts...)
		})
		if e == nil {
			cf.OnNewPeerConnection(func(_ string, e cc.BandwidthEstimator) { b.BWE = e })
		}
		f, err = cf, e
	case Pacing:
		b.PacingRate = r.Pick(1_000_000, 10_000_000, 100_000_000)
		if o.HighRates {
			b.PacingRate = 100_000_000
		} else if o.PacingRate != 0 {
			b.PacingRate = o.PacingRate
		}
		iv := time.Duration(r.Pick(1, 5, 10)) * time.Millisecond
		if !o.HighRates && o.PacingRate != 0 {
			iv = 5 * time.Millisecond
		}
		b.Interval = iv
		b.Desc = fmt.Sprintf("pacing(rate=%d,int=%v)", b.PacingRate, iv)
		pf := pacing.NewInterceptor(pacing.InitialRate(b.PacingRate), pacing.Interval(iv), pacing.WithLoggerFactory(lf))
		b.PacingFac = pf
		f = pf
	case JitterBuffer:
		b.Desc = "jitterbuffer"
		f, err = jitterbuffer.NewInterceptor(jitterbuffer.WithLoggerFactory(lf))
	default:
		return nil, fmt.Errorf("unknown kind %d", int(k))
	}
	if err != nil {
		return nil, err
	}
	b.Factory = f
	b.I, err = f.NewInterceptor(id)
	if err != nil {
		return nil, err
	}
	if k == IntervalPLI {
		b.PLI, _ = b.I.(*intervalpli.GeneratorInterceptor)
	}
	return b, nil
}

// StreamOpts describes a stream to bind.
type StreamOpts struct {
	SSRC      uint32
	PT        uint8
	ClockRate uint32
	Nack      bool
	PLI       bool
	TWCCID    int // 0 = not negotiated
	RTX       bool
	FEC       bool
}

// Info builds the StreamInfo for a stream.
func Info(s StreamOpts) *interceptor.StreamInfo {
	info := &interceptor.StreamInfo{
		ID: fmt.Sprintf("s%d", s.SSRC), SSRC: s.SSRC, PayloadType: s.PT, ClockRate: s.ClockRate,
		MimeType: "video/VP8", Attributes: interceptor.Attributes{},
	}
	if info.ClockRate == 0 {
		info.ClockRate = 90000
	}
	if s.Nack {
		info.RTCPFeedback = append(info.RTCPFeedback, interceptor.RTCPFeedback{Type: "nack"})
	}
	if s.PLI {
		info.RTCPFeedback = append(info.RTCPFeedback, interceptor.RTCPFeedback{Type: "nack", Parameter: "pli"})
	}
	if s.TWCCID != 0 {
		info.RTPHeaderExtensions = append(info.RTPHeaderExtensions, interceptor.RTPHeaderExtension{URI: TransportCCURI, ID: s.TWCCID})
		info.RTCPFeedback = append(info.RTCPFeedback, interceptor.RTCPFeedback{Type: "transport-cc"})
	}
	if s.RTX {
		info.SSRCRetransmission = s.SSRC + 0x10000
		info.PayloadTypeRetransmission = (s.PT+1)&0x7f | 1
	}
	if s.FEC {
		info.SSRCForwardErrorCorrection = s.SSRC + 0x20000
		info.PayloadTypeForwardErrorCorrection = (s.PT+2)&0x7f | 2
	}
	return info
}

// RandomStream draws stream options.
func RandomStream(r *vf.Rand, ssrc uint32) StreamOpts {
	return StreamOpts{
		SSRC: ssrc, PT: uint8(r.Range(1, 120)), ClockRate: uint32(r.Pick(8000, 48000, 90000)),
		Nack: r.Chance(0.7), PLI: r.Chance(0.5), TWCCID: r.Pick(0, 0, 1, 3, 5, 14), RTX: r.Chance(0.4), FEC: r.Chance(0.5),
	}
}
