// C18 – jitter buffer emits pushed packets in sequence order, at most once.
//
// Monitor: the real pkg/jitterbuffer is driven through its exported API with seeded
// random operation sequences; an independent model (multiset of pushed packet objects,
// identity by pointer) decides every call. Case kinds (by case index % 10):
//
//	0..6  JitterBuffer: Push (any order, duplicates, wrap), Pop, PopAtSequence,
//	      PopAtTimestamp, Peek(true/false), PeekAtSequence, SetPlayoutHead, Clear(true/false),
//	      WithMinimumPacketCount 1..60 (or the default); drained completely at the end.
//	7..8  PriorityQueue directly: Push, Find, Pop, PopAt, PopAtTimestamp, Clear; drained.
//	9     ReceiverInterceptor: a stream (reordered / duplicated / lossy) is read through
//	      BindRemoteStream with a read buffer that is larger than (or exactly fits) the
//	      packet; returned n and bytes are compared with the packet that was fed.
//
// The oracle demands only what the statement fixes. The playout head is *observed*
// through PlayoutHead(), never re-derived. "Playback started" is exact (configured
// minimum) until the first Clear(true); afterwards it is a band [min(cfg,50), max(cfg,50)]
// because the statement does not say what Clear(true) does to the configured minimum.
//
// Termination guard: the queue is a hand-written linked list and the library loops
// `for n != nil`; should the list ever become cyclic every later lookup of an absent
// number spins forever. To report that deterministically (no wall clock) the harness
// follows the list's `next` pointers (read-only, reflect offsets + unsafe) after every
// mutating call with a bound of "nodes ever pushed + 1". The guard is not used by the
// oracle for anything else.
package c18

import (
	"bytes"
	"errors"
	"fmt"
	"reflect"
	"strings"
	"testing"
	"unsafe"

	"github.com/pion/interceptor"
	"github.com/pion/interceptor/pkg/jitterbuffer"
	"github.com/pion/interceptor/verif/gen"
	"github.com/pion/interceptor/verif/vf"
	"github.com/pion/rtp"
)

func cases(tier string) int {
	if tier == "thorough" {
		return 2000000
	}
	return 80000
}

func TestCheck(t *testing.T) {
	vf.Main(t, vf.Spec{Prop: "C18", Cases: cases, Run: run})
}

func run(c *vf.Case) {
	switch k := c.Idx % 10; {
	case k <= 6:
		runJB(c)
	case k <= 8:
		runPQ(c)
	default:
		runInterceptor(c)
	}
}

// ---- termination guard (structure walk, read-only) -------------------------------------

type layoutT struct {
	ok                 bool
	why                string
	jbPackets          uintptr
	riBuffer           uintptr
	qNext, nNext, nVal uintptr
}

var lay = computeLayout()

func computeLayout() (l layoutT) {
	defer func() {
		if r := recover(); r != nil {
			l.ok, l.why = false, fmt.Sprint(r)
		}
	}()
	qPtr := reflect.TypeOf((*jitterbuffer.PriorityQueue)(nil))
	jbPtr := reflect.TypeOf((*jitterbuffer.JitterBuffer)(nil))
	f, ok := jbPtr.Elem().FieldByName("packets")
	if !ok || f.Type != qPtr {
		l.why = "JitterBuffer.packets not found"
		return l
	}
	l.jbPackets = f.Offset
	nf, ok := qPtr.Elem().FieldByName("next")
	if !ok || nf.Type.Kind() != reflect.Pointer || nf.Type.Elem().Kind() != reflect.Struct {
		l.why = "PriorityQueue.next not found"
		return l
	}
	l.qNext = nf.Offset
	nn, ok := nf.Type.Elem().FieldByName("next")
	if !ok || nn.Type != nf.Type {
		l.why = "node.next not found"
		return l
	}
	l.nNext = nn.Offset
	nv, ok := nf.Type.Elem().FieldByName("val")
	if !ok || nv.Type != reflect.TypeOf((*rtp.Packet)(nil)) {
		l.why = "node.val not found"
		return l
	}
	l.nVal = nv.Offset
	rb, ok := reflect.TypeOf((*jitterbuffer.ReceiverInterceptor)(nil)).Elem().FieldByName("buffer")
	if !ok || rb.Type != jbPtr {
		l.why = "ReceiverInterceptor.buffer not found"
		return l
	}
	l.riBuffer = rb.Offset
	l.ok = true
	return l
}

func queueOf(jb *jitterbuffer.JitterBuffer) *jitterbuffer.PriorityQueue {
	if !lay.ok || jb == nil {
		return nil
	}
	return (*jitterbuffer.PriorityQueue)(*(*unsafe.Pointer)(unsafe.Add(unsafe.Pointer(jb), lay.jbPackets)))
}

func bufferOf(ri *jitterbuffer.ReceiverInterceptor) *jitterbuffer.JitterBuffer {
	if !lay.ok || ri == nil {
		return nil
	}
	return (*jitterbuffer.JitterBuffer)(*(*unsafe.Pointer)(unsafe.Add(unsafe.Pointer(ri), lay.riBuffer)))
}

// listCyclic follows next pointers; more than bound nodes means the list is cyclic
// (the list cannot hold more nodes than were ever pushed). When cyclic it also returns
// the packet objects on the cycle/prefix (each once).
func listCyclic(q *jitterbuffer.PriorityQueue, bound int) (bool, []*rtp.Packet) {
	if q == nil {
		return false, nil
	}
	p := *(*unsafe.Pointer)(unsafe.Add(unsafe.Pointer(q), lay.qNext))
	for n := 0; p != nil; n++ {
		if n > bound {
			seen := map[unsafe.Pointer]bool{}
			var vals []*rtp.Packet
			for p = *(*unsafe.Pointer)(unsafe.Add(unsafe.Pointer(q), lay.qNext)); p != nil && !seen[p]; p = *(*unsafe.Pointer)(unsafe.Add(p, lay.nNext)) {
				seen[p] = true
				vals = append(vals, (*rtp.Packet)(*(*unsafe.Pointer)(unsafe.Add(p, lay.nVal))))
			}
			return true, vals
		}
		p = *(*unsafe.Pointer)(unsafe.Add(p, lay.nNext))
	}
	return false, nil
}

// ---- model -----------------------------------------------------------------------------

const (
	stHeld uint8 = iota
	stPopped
	stCleared
)

var stName = [...]string{"buffered", "already-returned", "cleared"}

type obj struct {
	id    int
	p     *rtp.Packet
	key   uint16 // the number it was pushed with
	ts    uint32
	st    uint8
	epoch int // number of Clears before it was pushed
	pos   int // index in model.list while held
	raw   []byte
}

func (o *obj) String() string {
	if o == nil {
		return "<nil>"
	}
	return fmt.Sprintf("obj%d(seq=%d ts=%d %s)", o.id, o.key, o.ts, stName[o.st])
}

type model struct {
	byPtr  map[*rtp.Packet]*obj
	heldBy map[uint16][]*obj
	list   []*obj // held objects, deterministic order
	objs   []*obj
	epoch  int
}

func newModel() *model {
	return &model{byPtr: map[*rtp.Packet]*obj{}, heldBy: map[uint16][]*obj{}}
}

func (m *model) push(p *rtp.Packet, key uint16, ts uint32) *obj {
	o := &obj{id: len(m.objs), p: p, key: key, ts: ts, epoch: m.epoch, pos: len(m.list)}
	m.objs = append(m.objs, o)
	m.byPtr[p] = o
	m.heldBy[key] = append(m.heldBy[key], o)
	m.list = append(m.list, o)
	return o
}

func (m *model) unlist(o *obj) {
	last := m.list[len(m.list)-1]
	m.list[o.pos] = last
	last.pos = o.pos
	m.list = m.list[:len(m.list)-1]
	hs := m.heldBy[o.key]
	for i, h := range hs {
		if h == o {
			hs = append(hs[:i], hs[i+1:]...)
			break
		}
	}
	if len(hs) == 0 {
		delete(m.heldBy, o.key)
	} else {
		m.heldBy[o.key] = hs
	}
}

func (m *model) popped(o *obj) { m.unlist(o); o.st = stPopped }

func (m *model) clear() []*obj {
	cl := append([]*obj(nil), m.list...)
	for _, o := range cl {
		o.st = stCleared
	}
	m.list = m.list[:0]
	m.heldBy = map[uint16][]*obj{}
	m.epoch++
	return cl
}

func (m *model) n() int              { return len(m.list) }
func (m *model) holds(k uint16) bool { return len(m.heldBy[k]) > 0 }

func (m *model) holdsTS(ts uint32) bool {
	for _, o := range m.list {
		if o.ts == ts {
			return true
		}
	}
	return false
}

func (m *model) minKey() (uint16, bool) {
	if len(m.list) == 0 {
		return 0, false
	}
	mk := m.list[0].key
	for _, o := range m.list {
		if o.key < mk {
			mk = o.key
		}
	}
	return mk, true
}

// ---- history / shared run state --------------------------------------------------------

type rec struct {
	op     string
	a      int64 // -1: no argument
	b      int64
	obj    *obj
	res    string
	h0, h1 int
}

type runner struct {
	c      *vf.Case
	r      *vf.Rand
	comp   string
	m      *model
	log    []rec
	dead   bool
	pushes int
	q      *jitterbuffer.PriorityQueue
	fp     *vf.Hash

	maxHeld    int
	shadowNote string // set while guard() inspects the interceptor's shadow buffer

	// evidence
	nOps, nPopOK, nPopFail, nRefused, nContents, nStaleProbes, nPeekPopped int64
}

func (x *runner) note(r rec) {
	x.log = append(x.log, r)
	x.nOps++
	x.fp.Str(r.op).U64(uint64(r.a)).U64(uint64(r.b))
}

func (x *runner) history(k int) string {
	var sb strings.Builder
	from := len(x.log) - k
	if from < 0 {
		from = 0
	}
	for i := from; i < len(x.log); i++ {
		r := x.log[i]
		fmt.Fprintf(&sb, "  #%d %s(", i, r.op)
		if r.a >= 0 {
			fmt.Fprintf(&sb, "%d", r.a)
		}
		if r.b >= 0 {
			fmt.Fprintf(&sb, ", ts=%d", r.b)
		}
		sb.WriteString(")")
		if r.res != "" {
			fmt.Fprintf(&sb, " -> %s", r.res)
		}
		if r.obj != nil {
			fmt.Fprintf(&sb, " obj%d(seq=%d ts=%d)", r.obj.id, r.obj.key, r.obj.ts)
		}
		if r.h0 >= 0 {
			fmt.Fprintf(&sb, " [head %d->%d]", r.h0, r.h1)
		}
		sb.WriteString("\n")
	}
	return sb.String()
}

func (x *runner) viol(sig, format string, args ...any) {
	x.dead = true
	x.c.Violation(sig, "%s\nbuffered in model: %d packet(s). history (last operations of %d):\n%s",
		fmt.Sprintf(format, args...), x.m.n(), len(x.log), x.history(25))
}

// call runs one library call, converting a panic into a violation.
func (x *runner) call(op string, f func()) {
	defer func() {
		if r := recover(); r != nil {
			x.viol("panic/"+x.comp+"/"+op, "library call %s panicked: %v", op, r)
		}
	}()
	f()
}

func errKind(err error) string {
	switch {
	case err == nil:
		return "ok"
	case errors.Is(err, jitterbuffer.ErrPopWhileBuffering):
		return "ErrPopWhileBuffering"
	case errors.Is(err, jitterbuffer.ErrNotFound):
		return "ErrNotFound"
	case errors.Is(err, jitterbuffer.ErrInvalidOperation):
		return "ErrInvalidOperation"
	case errors.Is(err, jitterbuffer.ErrBufferUnderrun):
		return "ErrBufferUnderrun"
	}
	return "error"
}

// guard reports a cyclic list (see the package comment). pushedKey/minBefore describe
// the most recent Push for the input-class part of the signature.
func (x *runner) guard(after string, pushedKey uint16, minBefore int, clearedBefore bool) {
	if x.dead || x.q == nil {
		return
	}
	cyc, vals := listCyclic(x.q, x.pushes+1)
	if !cyc {
		return
	}
	class := after
	if after == "push" {
		switch {
		case minBefore >= 0 && int(pushedKey) == minBefore:
			class = "push-duplicate-of-lowest-buffered-number"
		case clearedBefore:
			class = "push-after-clear"
		default:
			class = "push-other"
		}
	}
	reach := map[*rtp.Packet]bool{}
	var on []string
	for _, v := range vals {
		reach[v] = true
		if o := x.m.byPtr[v]; o != nil {
			on = append(on, o.String())
		} else if v != nil {
			on = append(on, fmt.Sprintf("packet(seq=%d)", v.SequenceNumber))
		} else {
			on = append(on, "node-without-packet")
		}
	}
	var lost []string
	for _, o := range x.m.list {
		if x.shadowNote == "" && !reach[o.p] && len(lost) < 12 {
			lost = append(lost, o.String())
		}
	}
	if x.shadowNote != "" {
		lost = []string{x.shadowNote}
	}
	x.viol("termination/"+x.comp+"/"+class+"/list-becomes-cyclic",
		"after this call the queue's linked list is cyclic (followed next pointers for more than %d nodes, only %d nodes were ever pushed): "+
			"every later Find/PopAt/Pop*/Push that has to walk past the cycle never returns, so a pop for a number that is not buffered cannot fail.\n"+
			"nodes on the cycle: %v\nbuffered packets no longer reachable from the list head: %v",
		x.pushes+1, x.pushes, on, lost)
}

// judgeReturned classifies the object returned by a successful call. removing=true for
// pops. wantKey/wantTS < 0: no requirement. Returns the model object if acceptable.
func (x *runner) judgeReturned(op string, p *rtp.Packet, removing bool, wantKey, wantTS int64) *obj {
	if p == nil {
		x.viol("identity/"+x.comp+"/"+op+"/success-without-packet", "%s reported success (nil error) but returned a nil packet", op)
		return nil
	}
	o := x.m.byPtr[p]
	if o == nil {
		x.viol("identity/"+x.comp+"/"+op+"/returns-object-never-pushed", "%s returned %p (seq=%d) which is not an object that was pushed", op, p, p.SequenceNumber)
		return nil
	}
	switch o.st {
	case stCleared:
		x.viol("clear/"+x.comp+"/"+op+"/returns-packet-buffered-before-clear",
			"%s returned %v, which was pushed before Clear #%d and must not be returned by any pop, peek or find afterwards (%d Clear(s) so far)",
			op, o, o.epoch+1, x.m.epoch)
		return nil
	case stPopped:
		if removing {
			x.viol("identity/"+x.comp+"/"+op+"/returns-packet-twice", "%s returned %v which had already been returned by an earlier pop", op, o)
			return nil
		}
		x.nPeekPopped++
		return o
	}
	if wantKey >= 0 && int64(o.key) != wantKey {
		x.viol("order/"+x.comp+"/"+op+"/wrong-sequence-number", "%s for number %d returned %v", op, wantKey, o)
		return nil
	}
	if wantTS >= 0 && int64(o.ts) != wantTS {
		x.viol("order/"+x.comp+"/"+op+"/wrong-timestamp", "%s for timestamp %d returned %v", op, wantTS, o)
		return nil
	}
	return o
}

// ---- workload: sequence numbers / timestamps -------------------------------------------

type seqGen struct {
	base     uint16
	cursor   int
	tsBase   uint32
	tsStep   uint32
	perFrame int
	dupMode  int // 0 none, 1 never the lowest buffered number, 2 any
	recent   []uint16
	nDup     int
	wrapLow  bool
	wrapHigh bool
}

func newSeqGen(r *vf.Rand, n int) *seqGen {
	g := &seqGen{perFrame: r.Pick(1, 1, 2, 3, 5), tsStep: uint32(r.Pick(1, 160, 960, 3000, 90000))}
	switch r.Intn(10) {
	case 0:
		g.base = uint16(r.Pick(0, 1, 2))
	case 1, 2:
		g.base = r.U16()
	default: // wrap inside the case
		g.base = uint16(65536 - r.Range(1, max(2, n/3)))
	}
	switch r.Intn(4) {
	case 0:
		g.tsBase = ^uint32(0) - uint32(r.Intn(20))*g.tsStep // timestamp wrap
	case 1:
		g.tsBase = 0
	default:
		g.tsBase = r.U32()
	}
	switch v := r.Intn(100); {
	case v < 15:
		g.dupMode = 0
	case v < 55:
		g.dupMode = 1
	default:
		g.dupMode = 2
	}
	return g
}

func (g *seqGen) tsFor(idx int) uint32 {
	return g.tsBase + uint32(idx/g.perFrame)*g.tsStep
}

// next draws the (number, timestamp) of the next packet to push.
func (g *seqGen) next(r *vf.Rand, m *model) (uint16, uint32) {
	for tries := 0; ; tries++ {
		var seq uint16
		var ts uint32
		v := r.Intn(100)
		if tries > 6 {
			v = 0
		}
		switch {
		case v < 60: // in order
			seq, ts = g.base+uint16(g.cursor), g.tsFor(g.cursor)
			g.cursor++
		case v < 68: // loss then next
			g.cursor += r.Range(1, 4)
			seq, ts = g.base+uint16(g.cursor), g.tsFor(g.cursor)
			g.cursor++
		case v < 77: // late arrival
			idx := g.cursor - r.Range(1, 12)
			if idx < 0 {
				idx = 0
			}
			seq, ts = g.base+uint16(idx), g.tsFor(idx)
		case v < 87: // duplicate of a buffered packet
			if m.n() == 0 || g.dupMode == 0 {
				continue
			}
			o := m.list[r.Intn(m.n())]
			seq, ts = o.key, o.ts
			if r.Chance(0.15) {
				ts = r.U32()
			}
		case v < 92: // duplicate of the lowest buffered number
			mk, ok := m.minKey()
			if !ok || g.dupMode != 2 {
				continue
			}
			seq, ts = mk, m.heldBy[mk][0].ts
		case v < 96: // retransmission of something pushed recently (maybe already played)
			if len(g.recent) == 0 {
				continue
			}
			seq = g.recent[r.Intn(len(g.recent))]
			ts = g.tsFor(int(seq - g.base))
		default:
			if r.Bool() {
				seq, ts = r.U16(), r.U32()
			} else {
				idx := g.cursor + r.Range(5, 60)
				seq, ts = g.base+uint16(idx), g.tsFor(idx)
			}
		}
		if g.dupMode == 0 && m.holds(seq) {
			continue
		}
		if g.dupMode == 1 {
			if mk, ok := m.minKey(); ok && mk == seq {
				continue
			}
		}
		if m.holds(seq) {
			g.nDup++
		}
		if seq >= 0xC000 {
			g.wrapHigh = true
		} else if seq < 0x4000 && g.wrapHigh {
			g.wrapLow = true
		}
		if len(g.recent) < 64 {
			g.recent = append(g.recent, seq)
		} else {
			g.recent[r.Intn(64)] = seq
		}
		return seq, ts
	}
}

func newPacket(r *vf.Rand, seq uint16, ts uint32, id int) *rtp.Packet {
	return &rtp.Packet{
		Header:  rtp.Header{Version: 2, PayloadType: 96, SequenceNumber: seq, Timestamp: ts, SSRC: 0xC18},
		Payload: gen.Payload(r, 8, uint64(id)),
	}
}

func pickLen(r *vf.Rand) int {
	switch r.Intn(4) {
	case 0:
		return r.Range(5, 40)
	case 1:
		return r.Range(40, 150)
	default:
		return r.Range(150, 400)
	}
}

// ---- JitterBuffer ----------------------------------------------------------------------

type jbRun struct {
	runner
	jb  *jitterbuffer.JitterBuffer
	g   *seqGen
	cfg int

	lo, hi          int
	reachedLo       bool
	reachedHi       bool
	observedStarted bool

	setHeadBeforeFirstPush bool
	firstPushed            *obj
	pristine               bool // nothing but Push/Pop/peeks so far: first Pop must return the first packet pushed
	chainValid             bool
	chainNext              uint16

	nClears, opsAfterClear int
	everCleared            bool
	lastFailedHeadPop      bool
}

const (
	zoneMustNot = iota
	zoneMay
	zoneMust
)

func (x *jbRun) zone() int {
	switch {
	case x.reachedHi || x.observedStarted:
		return zoneMust
	case x.reachedLo:
		return zoneMay
	}
	return zoneMustNot
}

func (x *jbRun) head() int { return int(x.jb.PlayoutHead()) }

func (x *jbRun) push(seq uint16, ts uint32) {
	p := newPacket(x.r, seq, ts, len(x.m.objs))
	minBefore := -1
	if mk, ok := x.m.minKey(); ok {
		minBefore = int(mk)
	}
	h0 := x.head()
	x.call("push", func() { x.jb.Push(p) })
	if x.dead {
		return
	}
	x.pushes++
	o := x.m.push(p, seq, ts)
	h1 := x.head()
	x.note(rec{op: "Push", a: int64(seq), b: int64(ts), obj: o, h0: h0, h1: h1})
	x.maxHeld = max(x.maxHeld, x.m.n())
	if x.m.n() >= x.lo {
		x.reachedLo = true
	}
	if x.m.n() >= x.hi {
		x.reachedHi = true
	}
	if x.firstPushed == nil {
		x.firstPushed = o
		if !x.setHeadBeforeFirstPush && h1 != int(seq) {
			x.viol("order/jb/push/first-head-not-first-packet-pushed",
				"first packet pushed after construction has number %d but PlayoutHead() = %d", seq, h1)
			return
		}
	}
	x.guard("push", seq, minBefore, x.everCleared)
	x.checkContents("push")
}

// afterPop handles the common part of the three popping calls.
func (x *jbRun) afterPop(op string, p *rtp.Packet, err error, h0 int, wantKey, wantTS int64, mustSucceed bool) *obj {
	h1 := x.head()
	z := x.zone()
	r := rec{op: opTitle(op), a: -1, b: -1, res: errKind(err), h0: h0, h1: h1}
	switch op {
	case "pop-at-sequence":
		r.a = wantKey
	case "pop-at-timestamp":
		r.a = wantTS
	}
	if err != nil {
		x.note(r)
		x.nPopFail++
		if errors.Is(err, jitterbuffer.ErrPopWhileBuffering) {
			x.nRefused++
		}
		if h1 != h0 {
			x.viol("nodisturb/jb/"+op+"/failed-pop-changes-head", "%s failed (%v) but PlayoutHead() changed %d -> %d", op, err, h0, h1)
			return nil
		}
		if z == zoneMust && mustSucceed {
			if errors.Is(err, jitterbuffer.ErrPopWhileBuffering) {
				x.viol("start/jb/"+op+"/refused-after-minimum-reached",
					"%s refused with ErrPopWhileBuffering although the buffered count has reached the minimum (configured minimum %d, band %d..%d, buffered now %d)",
					op, x.cfg, x.lo, x.hi, x.m.n())
			} else {
				x.viol("order/jb/"+op+"/fails-for-buffered-head",
					"playback has started, PlayoutHead() = %d and the model holds %v, but %s failed: %v", h0, x.m.heldBy[uint16(h0)], op, err)
			}
			return nil
		}
		x.guard(op, 0, -1, false)
		x.checkContents("failed-" + op)
		return nil
	}
	// success
	var o *obj
	if p != nil {
		o = x.m.byPtr[p]
	}
	r.obj = o
	x.note(r)
	if z == zoneMustNot {
		x.viol("start/jb/"+op+"/succeeds-before-minimum-reached",
			"%s succeeded (returned %v) although the buffered count never reached the minimum since construction / the last Clear(true) (configured minimum %d, band %d..%d, buffered %d)",
			op, o, x.cfg, x.lo, x.hi, x.m.n())
		return nil
	}
	o = x.judgeReturned(op, p, true, wantKey, wantTS)
	if o == nil {
		return nil
	}
	x.m.popped(o)
	x.observedStarted = true
	x.nPopOK++
	return o
}

func opTitle(op string) string {
	switch op {
	case "pop":
		return "Pop"
	case "pop-at-sequence":
		return "PopAtSequence"
	case "pop-at-timestamp":
		return "PopAtTimestamp"
	}
	return op
}

func (x *jbRun) pop() {
	h0 := x.head()
	var p *rtp.Packet
	var err error
	x.call("pop", func() { p, err = x.jb.Pop() })
	if x.dead {
		return
	}
	held := x.m.holds(uint16(h0))
	o := x.afterPop("pop", p, err, h0, int64(h0), -1, held)
	x.lastFailedHeadPop = err != nil && x.zone() != zoneMustNot
	if x.dead || o == nil {
		return
	}
	if h1 := x.head(); h1 != int(uint16(h0+1)) {
		x.viol("order/jb/pop/head-not-advanced-by-one", "successful Pop at head %d returned %v but PlayoutHead() is now %d, want %d", h0, o, h1, uint16(h0+1))
		return
	}
	if x.pristine && o.key != x.firstPushed.key {
		x.viol("order/jb/pop/first-pop-not-first-packet-pushed", "first successful Pop returned %v but the first packet buffered was %v", o, x.firstPushed)
		return
	}
	x.pristine = false
	if x.chainValid && o.key != x.chainNext {
		x.viol("order/jb/pop/successive-pops-not-consecutive",
			"successive successful Pops (no SetPlayoutHead/Clear/PopAt* in between) returned number %d after %d", o.key, x.chainNext-1)
		return
	}
	x.chainValid, x.chainNext = true, o.key+1
	x.guard("pop", 0, -1, false)
	x.checkContents("pop")
}

func (x *jbRun) popAtSeq(s uint16) {
	h0 := x.head()
	var p *rtp.Packet
	var err error
	x.call("pop-at-sequence", func() { p, err = x.jb.PopAtSequence(s) })
	if x.dead {
		return
	}
	if o := x.afterPop("pop-at-sequence", p, err, h0, int64(s), -1, false); o != nil {
		x.pristine, x.chainValid = false, false
		x.guard("pop-at-sequence", 0, -1, false)
		x.checkContents("pop-at-sequence")
	}
}

func (x *jbRun) popAtTS(ts uint32) {
	h0 := x.head()
	var p *rtp.Packet
	var err error
	x.call("pop-at-timestamp", func() { p, err = x.jb.PopAtTimestamp(ts) })
	if x.dead {
		return
	}
	if o := x.afterPop("pop-at-timestamp", p, err, h0, -1, int64(ts), false); o != nil {
		x.pristine, x.chainValid = false, false
		x.guard("pop-at-timestamp", 0, -1, false)
		x.checkContents("pop-at-timestamp")
	}
}

func (x *jbRun) peek(atHead bool) {
	op, title := "peek-last", "Peek(false)"
	if atHead {
		op, title = "peek-head", "Peek(true)"
	}
	var p *rtp.Packet
	var err error
	x.call(op, func() { p, err = x.jb.Peek(atHead) })
	if x.dead {
		return
	}
	r := rec{op: title, a: -1, b: -1, res: errKind(err), h0: -1}
	if err == nil {
		o := x.judgeReturned(op, p, false, -1, -1)
		r.obj = o
	}
	if !x.dead {
		x.note(r)
	}
}

func (x *jbRun) peekAt(s uint16) {
	var p *rtp.Packet
	var err error
	x.call("peek-at-sequence", func() { p, err = x.jb.PeekAtSequence(s) })
	if x.dead {
		return
	}
	r := rec{op: "PeekAtSequence", a: int64(s), b: -1, res: errKind(err), h0: -1}
	if err == nil {
		r.obj = x.judgeReturned("peek-at-sequence", p, false, int64(s), -1)
	} else if x.m.holds(s) {
		x.note(r)
		x.viol("contents/jb/peek-at-sequence/buffered-packet-not-findable", "PeekAtSequence(%d) failed (%v) but the model holds %v", s, err, x.m.heldBy[s])
		return
	}
	if !x.dead {
		x.note(r)
	}
}

func (x *jbRun) setHead(s uint16) {
	h0 := x.head()
	x.call("set-playout-head", func() { x.jb.SetPlayoutHead(s) })
	if x.dead {
		return
	}
	x.note(rec{op: "SetPlayoutHead", a: int64(s), b: -1, h0: h0, h1: x.head()})
	if x.firstPushed == nil {
		x.setHeadBeforeFirstPush = true
	}
	x.pristine, x.chainValid = false, false
}

func (x *jbRun) clear(reset bool) {
	title := "Clear(false)"
	if reset {
		title = "Clear(true)"
	}
	h0 := x.head()
	x.call("clear", func() { x.jb.Clear(reset) })
	if x.dead {
		return
	}
	cleared := x.m.clear()
	x.note(rec{op: title, a: -1, b: -1, h0: h0, h1: x.head()})
	x.nClears++
	x.opsAfterClear = 0
	x.everCleared = true
	x.pristine, x.chainValid = false, false
	if reset {
		x.reachedLo, x.reachedHi, x.observedStarted = false, false, false
		x.lo, x.hi = min(x.cfg, 50), max(x.cfg, 50)
	}
	x.guard("clear", 0, -1, false)
	// Probe: nothing buffered before the Clear may be returned by a peek or find.
	seen := map[uint16]bool{}
	for _, o := range cleared {
		if x.dead {
			return
		}
		if seen[o.key] {
			continue
		}
		seen[o.key] = true
		x.nStaleProbes++
		var p *rtp.Packet
		var err error
		x.call("peek-at-sequence", func() { p, err = x.jb.PeekAtSequence(o.key) })
		if !x.dead && err == nil {
			x.judgeReturned("peek-at-sequence", p, false, -1, -1)
		}
	}
	for _, b := range []bool{true, false} {
		if x.dead {
			return
		}
		x.peek(b)
	}
}

// checkContents: every object the model still holds must be findable (PeekAtSequence).
func (x *jbRun) checkContents(after string) {
	if x.dead {
		return
	}
	for _, o := range x.m.list {
		hs := x.m.heldBy[o.key]
		if hs[0] != o { // once per number
			continue
		}
		x.nContents++
		var p *rtp.Packet
		var err error
		x.call("peek-at-sequence", func() { p, err = x.jb.PeekAtSequence(o.key) })
		if x.dead {
			return
		}
		if err != nil {
			x.viol("contents/jb/after-"+after+"/buffered-packet-not-findable",
				"after %s: PeekAtSequence(%d) failed (%v) but the model still holds %v", after, o.key, err, hs)
			return
		}
		if x.judgeReturned("peek-at-sequence", p, false, int64(o.key), -1) == nil {
			return
		}
	}
}

func runJB(c *vf.Case) {
	r := c.R
	n := pickLen(r)
	x := &jbRun{runner: runner{c: c, r: r, comp: "jb", m: newModel(), fp: vf.NewHash()}, pristine: true}
	x.g = newSeqGen(r, n)
	withOpt := !r.Chance(0.1)
	x.cfg = 50
	if withOpt {
		x.cfg = r.Pick(1, 2, 3, 5, 10, 20, 49, 50, 51, 60, r.Range(1, 60), r.Range(1, 60), r.Range(1, 15))
		if r.Chance(0.08) {
			// a minimum above the buffer's overflow mark (100 packets): still the minimum
			x.cfg = r.Pick(99, 100, 101, 102, 103, 120, 150, 200)
			n = max(n, 2*x.cfg+50)
			x.g = newSeqGen(r, n)
		}
		x.jb = jitterbuffer.New(jitterbuffer.WithMinimumPacketCount(uint16(x.cfg)))
	} else {
		x.jb = jitterbuffer.New()
	}
	x.lo, x.hi = x.cfg, x.cfg
	x.q = queueOf(x.jb)
	if x.q == nil {
		c.Add("termination_guard_unavailable_cases", 1)
	}
	x.fp.Int(x.cfg).Int(int(x.g.base))

	// Clear positions are fixed up front so that a Clear is followed by further operations.
	clearAt := map[int]bool{}
	if n >= 12 && r.Chance(0.6) {
		for k := r.Range(1, 2); k > 0; k-- {
			clearAt[r.Range(n/4, n-4)] = true
		}
	}
	if r.Chance(0.05) {
		x.setHead(r.U16()) // before anything is pushed
	}
	pushBias := r.Range(35, 60)
	for i := 0; i < n && !x.dead; i++ {
		x.opsAfterClear++
		if clearAt[i] {
			x.clear(r.Bool())
			continue
		}
		v := r.Intn(100)
		if x.zone() == zoneMustNot && r.Chance(0.6) {
			v = 0 // fill up
		}
		switch {
		case v < pushBias:
			seq, ts := x.g.next(r, x.m)
			x.push(seq, ts)
		case v < pushBias+24:
			if x.lastFailedHeadPop && r.Chance(0.6) && x.m.n() > 0 {
				// skip the missing packet: move the head to the next buffered number
				x.setHead(x.nextHeldFrom(uint16(x.head())))
				if x.dead {
					break
				}
			}
			x.pop()
		case v < pushBias+29:
			x.popAtSeq(x.someSeq())
		case v < pushBias+33:
			x.popAtTS(x.someTS())
		case v < pushBias+36:
			x.peek(true)
		case v < pushBias+38:
			x.peek(false)
		case v < pushBias+42:
			x.peekAt(x.someSeq())
		default:
			switch r.Intn(4) {
			case 0:
				x.setHead(r.U16())
			case 1:
				x.setHead(uint16(x.head() + r.Range(-3, 3)))
			default:
				if x.m.n() > 0 {
					x.setHead(x.nextHeldFrom(uint16(x.head())))
				} else {
					x.setHead(x.g.base + uint16(x.g.cursor))
				}
			}
		}
	}
	opsRun := len(x.log)
	clearFollowed := x.nClears > 0 && x.opsAfterClear > 1
	if !x.dead {
		x.drain()
	}
	c.Add("jb_cases", 1)
	c.Add("jb_operations", x.nOps)
	c.Add("jb_pops_succeeded_and_checked", x.nPopOK)
	c.Add("jb_pops_failed_checked_undisturbed", x.nPopFail)
	c.Add("jb_pops_refused_while_buffering", x.nRefused)
	c.Add("jb_contents_lookups", x.nContents)
	c.Add("jb_clears", int64(x.nClears))
	c.Add("jb_stale_probes_after_clear", x.nStaleProbes)
	c.Add("jb_duplicate_pushes", int64(x.g.nDup))
	c.Add("jb_peek_returned_already_popped_object(may)", x.nPeekPopped)
	c.Max("jb_max_buffered", int64(x.maxHeld))
	if x.g.wrapLow && x.g.nDup > 0 && clearFollowed && x.nPopOK > 0 && !x.dead {
		c.Nontrivial(x.fp.Sum())
	}
	if c.WantSample() && !x.dead {
		c.Sample(map[string]any{"kind": "jitterbuffer", "min_count": x.cfg, "with_option": withOpt, "ops": opsRun, "base_seq": x.g.base,
			"dup_mode": x.g.dupMode, "clears": x.nClears, "duplicates": x.g.nDup, "pops_ok": x.nPopOK, "first_ops": strings.Split(strings.TrimSpace(x.historyFirst(8)), "\n")})
	}
}

func (x *runner) historyFirst(k int) string {
	save := x.log
	if len(x.log) > k {
		x.log = x.log[:k]
	}
	s := x.history(k)
	x.log = save
	return s
}

func (x *jbRun) someSeq() uint16 {
	r := x.r
	switch v := r.Intn(10); {
	case v < 6 && x.m.n() > 0:
		return x.m.list[r.Intn(x.m.n())].key
	case v < 8 && len(x.m.objs) > 0:
		return x.m.objs[r.Intn(len(x.m.objs))].key // maybe popped or cleared earlier
	case v < 9:
		return uint16(x.head() + r.Range(-2, 5))
	}
	return r.U16()
}

func (x *jbRun) someTS() uint32 {
	r := x.r
	switch v := r.Intn(10); {
	case v < 6 && x.m.n() > 0:
		return x.m.list[r.Intn(x.m.n())].ts
	case v < 9 && len(x.m.objs) > 0:
		return x.m.objs[r.Intn(len(x.m.objs))].ts
	}
	return r.U32()
}

// nextHeldFrom returns the buffered number closest at or after h in modulo-2^16 order.
func (x *jbRun) nextHeldFrom(h uint16) uint16 {
	best, bd := h, 1<<17
	for _, o := range x.m.list {
		if d := int(o.key - h); d < bd {
			best, bd = o.key, d
		}
	}
	return best
}

// drain forces playback to start and pops everything the model holds, then checks that
// nothing is left at those numbers.
func (x *jbRun) drain() {
	filler := x.g.base + uint16(x.g.cursor) + 2000
	for x.zone() != zoneMust && !x.dead {
		for x.m.holds(filler) {
			filler++
		}
		x.push(filler, x.r.U32())
		filler++
	}
	var keys []uint16
	for !x.dead && x.m.n() > 0 {
		k := x.m.list[x.r.Intn(x.m.n())].key
		keys = append(keys, k)
		x.setHead(k)
		if x.dead {
			return
		}
		before := x.m.n()
		x.pop()
		if !x.dead && x.m.n() != before-1 {
			// afterPop reports a failure for a buffered head in the must zone; reaching here means it did not.
			x.viol("order/jb/pop/fails-for-buffered-head", "drain: Pop at head %d did not return a packet although the model holds %v", k, x.m.heldBy[k])
			return
		}
	}
	for i := 0; i < len(keys) && i < 6 && !x.dead; i++ {
		k := keys[x.r.Intn(len(keys))]
		if x.m.holds(k) {
			continue
		}
		x.setHead(k)
		if !x.dead {
			x.pop() // success would return something not buffered: judged there
		}
	}
}

// ---- PriorityQueue ---------------------------------------------------------------------

type pqRun struct {
	runner
	pq            *jitterbuffer.PriorityQueue
	g             *seqGen
	nClears       int
	opsAfterClear int
	everCleared   bool
}

func (x *pqRun) push(key uint16, ts uint32) {
	p := newPacket(x.r, key, ts, len(x.m.objs))
	if x.r.Chance(0.1) {
		p.SequenceNumber = x.r.U16() // the queue is keyed by the explicit priority, not by the header
	}
	minBefore := -1
	if mk, ok := x.m.minKey(); ok {
		minBefore = int(mk)
	}
	x.call("push", func() { x.pq.Push(p, key) })
	if x.dead {
		return
	}
	x.pushes++
	o := x.m.push(p, key, ts)
	x.note(rec{op: "Push", a: int64(key), b: int64(ts), obj: o, h0: -1})
	x.guard("push", key, minBefore, x.everCleared)
	x.checkContents("push")
}

func (x *pqRun) removing(op, title string, arg int64, wantKey, wantTS int64, f func() (*rtp.Packet, error), mustSucceed bool) {
	var p *rtp.Packet
	var err error
	x.call(op, func() { p, err = f() })
	if x.dead {
		return
	}
	r := rec{op: title, a: arg, b: -1, res: errKind(err), h0: -1}
	if err != nil {
		x.note(r)
		x.nPopFail++
		if mustSucceed {
			x.viol("order/pq/"+op+"/fails-for-buffered-number", "%s(%d) failed (%v) but the model holds %v", title, arg, err, x.m.heldBy[uint16(arg)])
			return
		}
		x.guard(op, 0, -1, false)
		x.checkContents("failed-" + op)
		return
	}
	if p != nil {
		r.obj = x.m.byPtr[p]
	}
	x.note(r)
	o := x.judgeReturned(op, p, true, wantKey, wantTS)
	if o == nil {
		return
	}
	x.m.popped(o)
	x.nPopOK++
	x.guard(op, 0, -1, false)
	x.checkContents(op)
}

func (x *pqRun) find(s uint16) {
	var p *rtp.Packet
	var err error
	x.call("find", func() { p, err = x.pq.Find(s) })
	if x.dead {
		return
	}
	r := rec{op: "Find", a: int64(s), b: -1, res: errKind(err), h0: -1}
	if err == nil {
		r.obj = x.judgeReturned("find", p, false, int64(s), -1)
	} else if x.m.holds(s) {
		x.note(r)
		x.viol("contents/pq/find/buffered-packet-not-findable", "Find(%d) failed (%v) but the model holds %v", s, err, x.m.heldBy[s])
		return
	}
	if !x.dead {
		x.note(r)
	}
}

func (x *pqRun) clear() {
	x.call("clear", func() { x.pq.Clear() })
	if x.dead {
		return
	}
	cleared := x.m.clear()
	x.note(rec{op: "Clear", a: -1, b: -1, h0: -1})
	x.nClears++
	x.opsAfterClear = 0
	x.everCleared = true
	x.guard("clear", 0, -1, false)
	seen := map[uint16]bool{}
	for _, o := range cleared {
		if x.dead {
			return
		}
		if seen[o.key] {
			continue
		}
		seen[o.key] = true
		x.nStaleProbes++
		var p *rtp.Packet
		var err error
		x.call("find", func() { p, err = x.pq.Find(o.key) })
		if !x.dead && err == nil {
			x.judgeReturned("find", p, false, -1, -1)
		}
	}
}

func (x *pqRun) checkContents(after string) {
	if x.dead {
		return
	}
	for _, o := range x.m.list {
		hs := x.m.heldBy[o.key]
		if hs[0] != o {
			continue
		}
		x.nContents++
		var p *rtp.Packet
		var err error
		x.call("find", func() { p, err = x.pq.Find(o.key) })
		if x.dead {
			return
		}
		if err != nil {
			x.viol("contents/pq/after-"+after+"/buffered-packet-not-findable",
				"after %s: Find(%d) failed (%v) but the model still holds %v", after, o.key, err, hs)
			return
		}
		if x.judgeReturned("find", p, false, int64(o.key), -1) == nil {
			return
		}
	}
}

func runPQ(c *vf.Case) {
	r := c.R
	n := pickLen(r)
	x := &pqRun{runner: runner{c: c, r: r, comp: "pq", m: newModel(), fp: vf.NewHash()}}
	x.g = newSeqGen(r, n)
	x.pq = jitterbuffer.NewQueue()
	if lay.ok {
		x.q = x.pq
	} else {
		c.Add("termination_guard_unavailable_cases", 1)
	}
	x.fp.Int(-1).Int(int(x.g.base))
	clearAt := map[int]bool{}
	if n >= 12 && r.Chance(0.6) {
		for k := r.Range(1, 2); k > 0; k-- {
			clearAt[r.Range(n/4, n-4)] = true
		}
	}
	someKey := func() uint16 {
		switch v := r.Intn(10); {
		case v < 6 && x.m.n() > 0:
			return x.m.list[r.Intn(x.m.n())].key
		case v < 9 && len(x.m.objs) > 0:
			return x.m.objs[r.Intn(len(x.m.objs))].key
		}
		return r.U16()
	}
	someTS := func() uint32 {
		switch v := r.Intn(10); {
		case v < 6 && x.m.n() > 0:
			return x.m.list[r.Intn(x.m.n())].ts
		case v < 9 && len(x.m.objs) > 0:
			return x.m.objs[r.Intn(len(x.m.objs))].ts
		}
		return r.U32()
	}
	var popMin, popAny int64
	pushBias := r.Range(40, 60)
	for i := 0; i < n && !x.dead; i++ {
		x.opsAfterClear++
		if clearAt[i] {
			x.clear()
			continue
		}
		switch v := r.Intn(100); {
		case v < pushBias:
			key, ts := x.g.next(r, x.m)
			x.push(key, ts)
		case v < pushBias+10:
			mk, ok := x.m.minKey()
			before := x.nPopOK
			x.removing("pop", "Pop", -1, -1, -1, x.pq.Pop, false)
			if x.nPopOK > before {
				popAny++
				if last := x.log[len(x.log)-1].obj; ok && last != nil && last.key == mk {
					popMin++
				}
			}
		case v < pushBias+25:
			s := someKey()
			x.removing("pop-at", "PopAt", int64(s), int64(s), -1, func() (*rtp.Packet, error) { return x.pq.PopAt(s) }, x.m.holds(s))
		case v < pushBias+33:
			ts := someTS()
			x.removing("pop-at-timestamp", "PopAtTimestamp", int64(ts), -1, int64(ts), func() (*rtp.Packet, error) { return x.pq.PopAtTimestamp(ts) }, false)
		default:
			x.find(someKey())
		}
	}
	clearFollowed := x.nClears > 0 && x.opsAfterClear > 1
	// drain: every buffered number must be poppable exactly as many times as it is held
	for !x.dead && x.m.n() > 0 {
		s := x.m.list[r.Intn(x.m.n())].key
		x.removing("pop-at", "PopAt", int64(s), int64(s), -1, func() (*rtp.Packet, error) { return x.pq.PopAt(s) }, true)
	}
	if !x.dead {
		x.removing("pop", "Pop", -1, -1, -1, x.pq.Pop, false) // empty: a success is judged (nothing buffered can be returned)
	}
	c.Add("pq_cases", 1)
	c.Add("pq_operations", x.nOps)
	c.Add("pq_pops_succeeded_and_checked", x.nPopOK)
	c.Add("pq_pops_failed_checked_undisturbed", x.nPopFail)
	c.Add("pq_contents_lookups", x.nContents)
	c.Add("pq_clears", int64(x.nClears))
	c.Add("pq_stale_probes_after_clear", x.nStaleProbes)
	c.Add("pq_duplicate_pushes", int64(x.g.nDup))
	c.Add("pq_pop_first_returned_lowest_number(info)", popMin)
	c.Add("pq_pop_first_total(info)", popAny)
	if x.g.wrapLow && x.g.nDup > 0 && clearFollowed && x.nPopOK > 0 && !x.dead {
		c.Nontrivial(x.fp.Sum())
	}
	if c.WantSample() && !x.dead {
		c.Sample(map[string]any{"kind": "priority-queue", "ops": len(x.log), "base_seq": x.g.base, "dup_mode": x.g.dupMode,
			"clears": x.nClears, "duplicates": x.g.nDup, "pops_ok": x.nPopOK})
	}
}

// ---- ReceiverInterceptor ---------------------------------------------------------------

type feedReader struct {
	raw      []byte
	scribble bool
	r        *vf.Rand
	calls    int
	gotLen   int
}

func (f *feedReader) Read(b []byte, a interceptor.Attributes) (int, interceptor.Attributes, error) {
	f.calls++
	f.gotLen = len(b)
	n := copy(b, f.raw)
	if f.scribble {
		// io.Reader-style contract: the callee may use all of b as scratch space.
		for i := n; i < len(b); i++ {
			b[i] = byte(0xC0 | (i & 0x3f))
		}
	}
	return n, a, nil
}

func runInterceptor(c *vf.Case) {
	r := c.R
	x := &runner{c: c, r: r, comp: "interceptor", m: newModel(), fp: vf.NewHash()}
	exact := r.Chance(0.4)
	profile := "larger-read-buffer"
	if exact {
		profile = "exact-read-buffer"
	}
	x.comp = "interceptor/" + profile
	nSent := r.Range(60, 260)
	start := gen.StartIndex(r)
	if r.Chance(0.5) {
		start = 65536 - int64(r.Range(1, nSent/2))
	}
	opts := gen.HistoryOpts{Start: start, N: nSent}
	dupMin := r.Chance(0.4)
	switch r.Intn(5) {
	case 0:
	case 1:
		opts.Reorder, opts.MaxDispl = r.Float()*0.3, r.Range(1, 30)
	case 2:
		opts.Dup, opts.MaxDispl = r.Float()*0.2, r.Range(1, 20)
	case 3:
		opts.Dup, opts.Reorder, opts.MaxDispl = r.Float()*0.15, r.Float()*0.2, r.Range(1, 30)
	default:
		opts.Loss, opts.Dup, opts.Reorder, opts.MaxDispl = r.Float()*0.05, r.Float()*0.1, r.Float()*0.2, r.Range(1, 20)
	}
	arr := gen.Arrivals(r, opts)
	unbindAt := -1
	if r.Chance(0.2) && len(arr) > 130 {
		unbindAt = r.Range(55, len(arr)-60)
	}

	fac, err := jitterbuffer.NewInterceptor()
	if err != nil {
		c.Inconclusive("NewInterceptor: %v", err)
		return
	}
	ici, err := fac.NewInterceptor("")
	if err != nil {
		c.Inconclusive("factory.NewInterceptor: %v", err)
		return
	}
	ri, _ := ici.(*jitterbuffer.ReceiverInterceptor)
	x.q = queueOf(bufferOf(ri))
	if x.q == nil {
		c.Add("termination_guard_unavailable_cases", 1)
	}
	// The interceptor pushes AND pops inside one Read, so a list that becomes cyclic in the
	// push can already spin in the pop of the same call. A shadow JitterBuffer (the same
	// real code, default options like the interceptor's) is fed the identical push/pop
	// history one step ahead; its list is walked before the Read is issued.
	shadow := jitterbuffer.New()
	shadowQ := queueOf(shadow)
	fr := &feedReader{r: r, scribble: !exact && r.Chance(0.5)}
	info := &interceptor.StreamInfo{SSRC: 0xC18, ClockRate: 90000}
	reader := ici.BindRemoteStream(info, fr)

	// packets: built once per true index; duplicates are byte-identical retransmissions.
	shapeFixed := gen.Shape{CSRC: r.Pick(0, 0, 2), Padding: r.Pick(0, 0, 4)}
	fixedPayload := r.Range(8, 200)
	built := map[int64][]byte{}
	build := func(idx int64) []byte {
		if b, ok := built[idx]; ok {
			return b
		}
		shape, plen := shapeFixed, fixedPayload
		if !exact {
			shape, plen = gen.RandomShape(r), 8+gen.PayloadLen(r, 600)
		}
		for try := 0; ; try++ {
			if try > 0 {
				shape = gen.Shape{}
			}
			pkt := rtp.Packet{Header: gen.Header(r, shape, 0xC18, 96, uint16(idx), uint32(idx)*3000), Payload: gen.Payload(r, plen, uint64(idx))}
			raw, err := pkt.Marshal()
			if err == nil {
				var back rtp.Packet
				if back.Unmarshal(raw) == nil {
					if again, err2 := back.Marshal(); err2 == nil && bytes.Equal(again, raw) {
						built[idx] = raw
						return raw
					}
				}
			}
			if try > 2 {
				c.Inconclusive("cannot build a round-trip-stable packet")
				built[idx] = raw
				return raw
			}
		}
	}

	// The caller's buffer must hold any packet the interceptor may hand back, not just the
	// one being read: size it from the largest packet of the stream.
	maxLen := 0
	for _, idx := range arr {
		maxLen = max(maxLen, len(build(idx)))
	}
	byBytes := map[string][]*obj{}
	const minStart = 50 // New() default; the interceptor offers no option to change it
	reached := false
	chainValid, chainNext := false, uint16(0)
	afterUnbind := false
	var nReads, nOK, nFailBuffering, nFailMissing, bytesCompared int64
	wrapHigh, wrapLow, nDup := false, false, 0
	for i, idx := range arr {
		if x.dead {
			break
		}
		if i == unbindAt {
			x.call("unbind", func() { ici.UnbindRemoteStream(info) })
			if x.dead {
				break
			}
			x.m.clear()
			shadow.Clear(true)
			x.note(rec{op: "UnbindRemoteStream", a: -1, b: -1, h0: -1})
			reached, chainValid, afterUnbind = false, false, true
		}
		seq := uint16(idx)
		if !dupMin {
			if mk, ok := x.m.minKey(); ok && mk == seq {
				continue // profile without duplicates of the lowest buffered number
			}
		}
		raw := build(idx)
		if x.m.holds(seq) {
			nDup++
		}
		if seq >= 0xC000 {
			wrapHigh = true
		} else if seq < 0x4000 && wrapHigh {
			wrapLow = true
		}
		minBefore := -1
		if mk, ok := x.m.minKey(); ok {
			minBefore = int(mk)
		}
		// the model pushes first: the interceptor pushes the packet it read before it pops
		o := x.m.push(&rtp.Packet{}, seq, uint32(idx)*3000)
		o.raw = raw
		byBytes[string(raw)] = append(byBytes[string(raw)], o)
		x.pushes++
		if x.m.n() >= minStart {
			reached = true
		}
		blen := len(raw)
		if !exact {
			blen = max(maxLen+r.Pick(0, 0, 1, 2, 3, 4, 12, 100, r.Range(1, 64)), 1500*r.Intn(2), len(raw)+1)
		}
		b := bytes.Repeat([]byte{0xAA}, blen)
		fr.raw = raw
		if shadowQ != nil {
			shadow.Push(&rtp.Packet{Header: rtp.Header{SequenceNumber: seq}})
			if cyc, _ := listCyclic(shadowQ, x.pushes+1); cyc {
				x.note(rec{op: "Read", a: int64(seq), b: -1, obj: o, res: "not issued", h0: -1})
				realQ := x.q
				x.q = shadowQ
				x.shadowNote = fmt.Sprintf("(n/a: the cyclic list was observed on a shadow JitterBuffer -- same library code, default options, fed the identical push/pop history as the interceptor's internal buffer; "+
					"the Read delivering packet %d was not issued because the interceptor pushes and pops inside one call and that Pop can spin forever on the cyclic list)", seq)
				x.guard("push", seq, minBefore, afterUnbind)
				x.q, x.shadowNote = realQ, ""
				break
			}
		}
		var n int
		var rerr error
		x.call("read", func() { n, _, rerr = reader.Read(b, interceptor.Attributes{}) })
		if x.dead {
			break
		}
		nReads++
		x.note(rec{op: "Read", a: int64(seq), b: -1, obj: o, res: errKind(rerr), h0: -1})
		x.fp.Int(blen)
		x.guard("push", seq, minBefore, afterUnbind)
		if x.dead {
			break
		}
		expectHeld := chainValid && x.m.holds(chainNext)
		if !chainValid && !afterUnbind && reached {
			// first playout after construction: the first packet buffered (objs[0]) while it is still buffered
			chainNext, chainValid = x.m.objs[0].key, true
			expectHeld = x.m.holds(chainNext)
		}
		if rerr != nil {
			if errors.Is(rerr, jitterbuffer.ErrPopWhileBuffering) {
				nFailBuffering++
				if reached {
					x.viol("start/"+x.comp+"/read/refused-after-minimum-reached",
						"Read #%d refused with ErrPopWhileBuffering although %d packets are buffered (minimum %d)", i, x.m.n(), minStart)
				}
				continue
			}
			if errKind(rerr) == "error" {
				x.viol("bytes/"+x.comp+"/read/well-formed-packet-rejected",
					"Read #%d: the next reader delivered a well-formed %d-byte RTP packet (seq=%d, padding bit %v, round-trips through rtp.Packet Unmarshal/Marshal) into a %d-byte read buffer; the interceptor returned error %q instead of buffering it, so this packet can never be played out",
					i, len(raw), seq, raw[0]&0x20 != 0, blen, rerr.Error())
				break
			}
			nFailMissing++
			if reached && expectHeld {
				x.viol("order/"+x.comp+"/read/fails-for-buffered-head",
					"Read #%d failed (%v) although the next number to play out, %d, is buffered: %v", i, rerr, chainNext, x.m.heldBy[chainNext])
			}
			continue
		}
		// success
		if !reached {
			x.viol("start/"+x.comp+"/read/succeeds-before-minimum-reached",
				"Read #%d returned n=%d without error although only %d packets were buffered since construction/unbind (minimum %d)", i, n, x.m.n(), minStart)
			break
		}
		if n < 0 || n > len(b) {
			x.viol("bytes/"+x.comp+"/read/n-out-of-range", "Read returned n=%d for a buffer of %d bytes", n, len(b))
			break
		}
		got := b[:n]
		// RTP padding filler octets carry no information (RFC 3550 5.1: "ignored") and
		// rtp.Packet.MarshalTo leaves them as found in the caller's buffer: mask them.
		if n > 12 && got[0]&0x20 != 0 {
			if ps := int(got[n-1]); ps >= 1 && ps <= n-12 {
				got = append([]byte(nil), got...)
				for k := n - ps; k < n-1; k++ {
					got[k] = 0
				}
			}
		}
		cands := byBytes[string(got)]
		var hit *obj
		for _, cand := range cands {
			if cand.st == stHeld {
				hit = cand
				break
			}
		}
		if hit == nil && len(cands) > 0 {
			hit = cands[0]
		}
		if hit == nil {
			// not the bytes of any packet that was fed: describe against the expected packet if known
			var want *obj
			if chainValid && expectHeld {
				want = x.m.heldBy[chainNext][0]
			} else {
				for _, cand := range x.m.objs { // identify by the unique id / header prefix
					if len(cand.raw) <= n && bytes.Equal(got[:len(cand.raw)], cand.raw) {
						want = cand
						break
					}
				}
			}
			switch {
			case want != nil && n > len(want.raw) && bytes.Equal(got[:len(want.raw)], want.raw):
				x.viol("bytes/"+x.comp+"/read/returns-more-bytes-than-packet",
					"Read #%d (read buffer %d bytes, the packet just read from the next reader was %d bytes) returned n=%d: the %d bytes of packet seq=%d followed by %d extra byte(s) %x… that were never part of the packet (expected n=%d and exactly the packet's bytes)",
					i, blen, len(raw), n, len(want.raw), want.key, n-len(want.raw), got[len(want.raw):min(n, len(want.raw)+12)], len(want.raw))
			case want != nil:
				x.viol("bytes/"+x.comp+"/read/bytes-differ-from-packet",
					"Read #%d returned n=%d bytes %x… ; the packet with number %d that was fed is %d bytes %x…", i, n, got[:min(n, 32)], want.key, len(want.raw), want.raw[:min(len(want.raw), 32)])
			default:
				x.viol("bytes/"+x.comp+"/read/returns-bytes-of-no-packet-fed", "Read #%d returned n=%d bytes %x… which match no packet that was fed", i, n, got[:min(n, 32)])
			}
			break
		}
		bytesCompared += int64(n)
		switch hit.st {
		case stCleared:
			x.viol("clear/"+x.comp+"/read/returns-packet-buffered-before-unbind",
				"Read #%d returned the bytes of %v which was read before UnbindRemoteStream (which clears the buffer)", i, hit)
		case stPopped:
			x.viol("identity/"+x.comp+"/read/returns-packet-twice", "Read #%d returned the bytes of %v again", i, hit)
		}
		if x.dead {
			break
		}
		if chainValid && hit.key != chainNext {
			x.viol("order/"+x.comp+"/read/successive-reads-not-consecutive",
				"Read #%d returned packet number %d, expected %d (first packet buffered %d, consecutive from there)", i, hit.key, chainNext, x.m.objs[0].key)
			break
		}
		x.m.popped(hit)
		chainValid, chainNext = true, hit.key+1
		nOK++
		if shadowQ != nil {
			_, _ = shadow.Pop()
		}
		x.guard("pop", 0, -1, false)
	}
	c.Add("interceptor_cases", 1)
	c.Add("interceptor_reads", nReads)
	c.Add("interceptor_reads_returned_packet_checked", nOK)
	c.Add("interceptor_bytes_compared", bytesCompared)
	c.Add("interceptor_reads_refused_buffering", nFailBuffering)
	c.Add("interceptor_reads_failed_head_missing", nFailMissing)
	c.Add("interceptor_next_reader_calls", int64(fr.calls))
	if wrapLow && nDup > 0 && nOK > 0 && !x.dead {
		c.Nontrivial(x.fp.Int(int(start)).Int(len(arr)).Sum())
	}
	if c.WantSample() && !x.dead {
		c.Sample(map[string]any{"kind": "receiver-interceptor", "profile": profile, "sent": nSent, "arrivals": len(arr), "start_seq": uint16(start),
			"unbind_at": unbindAt, "duplicates": nDup, "reads_ok": nOK, "refused_buffering": nFailBuffering, "failed_head_missing": nFailMissing})
	}
}
